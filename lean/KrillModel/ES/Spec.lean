/-
Specification-level notions for the aggregate store: the stored log as a plain list, replay
of a log as a pure function, the invariant tying an entity (`Ent`) to its log, and the
one-line specification of what a command does to the log.  The property theorems in
`Props/C06.lean` / `Props/C07.lean` are stated with these.
-/
import KrillModel.ES.AggStore
namespace KM.ES

variable {A : Agg}

/-- The audit log of one entity: `L[k]` is the content of `command-k.json`. -/
abbrev Log (A : Agg) := List (Stored A)

/-- The aggregate right after `A::init` of the init command's event. -/
def baseOf (L : Log A) : Option (Ver A) :=
  match L with
  | [] => none
  | c0 :: _ =>
    match c0.effect with
    | .init ev => some ⟨A.initVersion, A.init ev⟩
    | _ => none

/-- Apply the `j` stored commands following the base version, in order.  `none` = some
`apply` panicked on the way. -/
def replayN (L : Log A) (b : Ver A) : Nat → Option (Ver A)
  | 0 => some b
  | j + 1 =>
    match replayN L b j with
    | none => none
    | some v =>
      match L[A.initVersion + j]? with
      | none => none
      | some c => applyStored v c

/-- The state obtained by replaying the whole log from scratch. -/
def finalOf (L : Log A) : Option (Ver A) :=
  match baseOf L with
  | none => none
  | some b => replayN L b (L.length - A.initVersion)

/-- `v` is the state after replaying some prefix of the log (at least up to the init
command, at most everything). -/
def PrefixState (L : Log A) (v : Ver A) : Prop :=
  ∃ b j, baseOf L = some b ∧ A.initVersion + j ≤ L.length ∧ replayN L b j = some v

def Effect.isInit : Effect A → Bool
  | .init _ => true
  | _ => false

/-- The history records the history API must show for log `L`, up to index `m`. -/
def recordsUpTo (L : Log A) (m : Nat) : List (Record A) := ((L.take m).drop 1).map Stored.toRecord

/-- The invariant: entity `e` stores exactly the log `L`, the replay of `L` is defined, and
the snapshot and every cache entry are prefix states of `L`. -/
structure Inv (e : Ent A) (L : Log A) : Prop where
  cmds : ∀ k, e.kv.getCmd k = L[k]?
  head : ∀ c : Stored A, L[0]? = some c → c.effect.isInit = true
  tail : ∀ (k : Nat) (c : Stored A), 0 < k → L[k]? = some c → c.effect.isInit = false
  vers : ∀ (k : Nat) (c : Stored A), L[k]? = some c → c.version = k
  total : L ≠ [] → ∃ w, finalOf L = some w
  snap : ∀ v, e.kv.snapshot = some v → PrefixState L v
  cache : ∀ i v, alookup e.cache i = some v → PrefixState L v
  hcache : ∀ i recs, alookup e.hcache i = some recs → ∃ m, m ≤ L.length ∧ recs = recordsUpTo L m

/-- What a command does, as a function of the log alone (`w` = the replayed state). -/
def specCommand (L : Log A) (w : Ver A) (c : Sent A) : Log A × Out A :=
  match A.process w.st c.details with
  | .error e => (L ++ [⟨c.actor, L.length, some c.details, .error e⟩], .err e)
  | .ok [] => (L, .ok w)
  | .ok (ev :: evs) =>
    match applyEvents A w.st (ev :: evs) with
    | none => (L, .panic)
    | some s' =>
      match A.preSave s' (ev :: evs) with
      | some e => (L, .err e)
      | none =>
        (L ++ [⟨c.actor, L.length, some c.details, .success (ev :: evs)⟩], .ok ⟨w.version + 1, s'⟩)

/-- Specification of one operation on the log: new log and (for calls that return an
aggregate) the result.  Failed writes (`wfail`) change nothing. -/
def specStep (L : Log A) : Op A → Log A × Option (Out A)
  | .add _ actor ic wfail =>
    if L ≠ [] then (L, some .duplicate)
    else match A.processInit ic with
      | .error e => (L, some (.err e))
      | .ok ev =>
        if wfail then (L, some .kvErr)
        else ([⟨actor, 0, none, .init ev⟩], some (.ok ⟨A.initVersion, A.init ev⟩))
  | .cmd _ c wfail =>
    match finalOf L with
    | none => (L, some .unknown)
    | some w =>
      let r := specCommand L w c
      if wfail && r.1.length != L.length then (L, some .kvErr) else (r.1, some r.2)
  | .get _ =>
    match finalOf L with
    | none => (L, some .unknown)
    | some w => (L, some (.ok w))
  | .snap _ wfail =>
    match finalOf L with
    | none => (L, some .unknown)
    | some w => (L, some (if wfail then .kvErr else .ok w))
  | .restart _ => (L, none)
  | .hist _ _ => (L, none)

def specRun (L : Log A) (ops : List (Op A)) : Log A := ops.foldl (fun l o => (specStep l o).1) L

def specStepH (L : Log A) : HOp A → Log A
  | .op o => (specStep L o).1
  | .drop _ => []

def specRunH (L : Log A) (ops : List (HOp A)) : Log A := ops.foldl specStepH L

/-! ### a history query running concurrently with other calls

`update_history_records` reads `command-1`, `command-2`, … one key-value call (one acquisition of
the scope lock) at a time and stops at the first key that is missing; commands of other threads
can slip in between two reads.  `logAt L between k` is the log the `k`-th read (`k = 0, 1, …`)
sees: `between k` are the operations serialised between read `k` and read `k+1`. -/

def logAt (L : Log A) (between : Nat → List (Op A)) : Nat → Log A
  | 0 => L
  | k + 1 => specRun (logAt L between k) (between k)

/-- Read number `k` looks at `command-(k+1).json`. -/
def readAt (L : Log A) (between : Nat → List (Op A)) (k : Nat) : Option (Stored A) :=
  (logAt L between k)[k + 1]?

/-- "`process` only emits applicable events", for the states that can actually occur:
`Reachable` is the closure of the initial states under accepted commands. -/
inductive Reachable (A : Agg) : A.State → Prop where
  | init (ic : A.InitCmd) (ev : A.InitEv) : A.processInit ic = .ok ev → Reachable A (A.init ev)
  | step (s s' : A.State) (c : A.Cmd) (evs : List A.Ev) :
      Reachable A s → A.process s c = .ok evs → applyEvents A s evs = some s' → Reachable A s'

def ProcessApplicable (A : Agg) : Prop :=
  ∀ s c evs, Reachable A s → A.process s c = .ok evs → (applyEvents A s evs).isSome = true

/-! ### veto-aware reachability

`Reachable` over-approximates what the store can hold: `execute_opt_command` calls the pre-save
listener on the *updated* aggregate (store.rs:458) and, when the listener returns an error, neither
stores the command nor keeps the updated aggregate (`phDecide`, branch `A.preSave … = some e`).
In the model the listener is the component `A.preSave` of the aggregate – a function of the updated
state and the events, not an input of the operation – so the histories of `Op`s already carry the
veto and no side condition on histories is needed.  `ReachableV` is the closure of the initial
states under the commands that are accepted by `process`, applied by `apply` **and** let through by
the listener. -/

inductive ReachableV (A : Agg) : A.State → Prop where
  | init (ic : A.InitCmd) (ev : A.InitEv) : A.processInit ic = .ok ev → ReachableV A (A.init ev)
  | step (s s' : A.State) (c : A.Cmd) (evs : List A.Ev) :
      ReachableV A s → A.process s c = .ok evs → applyEvents A s evs = some s' →
      A.preSave s' evs = none → ReachableV A s'

/-- "`process` only emits applicable events" in the states the store can really hold. -/
def ProcessApplicableV (A : Agg) : Prop :=
  ∀ s c evs, ReachableV A s → A.process s c = .ok evs → (applyEvents A s evs).isSome = true

/-- Every state reachable with the veto is reachable without it … -/
theorem ReachableV.reachable {s : A.State} (h : ReachableV A s) : Reachable A s := by
  induction h with
  | init ic ev hp => exact Reachable.init ic ev hp
  | step s s' c evs _ hp ha _ ih => exact Reachable.step s s' c evs ih hp ha

/-- … so the veto-aware hypothesis is the weaker one. -/
theorem ProcessApplicable.toV (h : ProcessApplicable A) : ProcessApplicableV A :=
  fun s c evs hr hp => h s c evs hr.reachable hp

/-- Without a listener the two notions coincide. -/
theorem reachableV_of_no_listener (hno : ∀ s evs, A.preSave s evs = none) {s : A.State}
    (h : Reachable A s) : ReachableV A s := by
  induction h with
  | init ic ev hp => exact ReachableV.init ic ev hp
  | step s s' c evs _ hp ha ih => exact ReachableV.step s s' c evs ih hp ha (hno s' evs)

/-- An aggregate whose `apply` has no panic arm meets both hypotheses. -/
theorem applyEvents_total (htot : ∀ s e, (A.apply s e).isSome = true) (s : A.State)
    (evs : List A.Ev) : (applyEvents A s evs).isSome = true := by
  induction evs generalizing s with
  | nil => rfl
  | cons e es ih =>
    have h := htot s e
    cases ha : A.apply s e with
    | none => rw [ha] at h; cases h
    | some s' => simp only [applyEvents, ha]; exact ih s'

theorem processApplicable_of_total (htot : ∀ s e, (A.apply s e).isSome = true) :
    ProcessApplicable A := fun s _ evs _ _ => applyEvents_total htot s evs

end KM.ES
