/-
Model of `src/commons/eventsourcing/{agg,store}.rs` — the generic aggregate store.

The model is generic over an abstract aggregate `Agg` (`init`, `process`, `apply`, pre-save
listener).  One *entity* (`Ent`) is the key-value scope of one handle (`command-N.json`,
`snapshot.json`) together with, for every `AggregateStore` instance opened on the same
storage, that instance's cache entry and history-cache entry for the handle.  Krill has
several instances on one storage (the daemon's store and the short-lived store the scheduler
opens for `update_snapshots`), so the instance is an explicit parameter `i` of every operation.

`execute_opt_command` (store.rs:271-512) is modelled *step by step*: the body of the closure
is the list of phases `phLoad, phCatchUp, phDecide, phStore, phCache, phSnapshot, phFinish`
(`phProcess` = `phStore ∘ phDecide`), each an atomic function on `(entity, thread-local
control state)`.  The sequential big-step
`execOpt` is by definition their composition; `Sys/Interleave.lean` interleaves the same
phases of different threads.

Quirks that are modelled on purpose:
* the version of `A::init` is the aggregate's own choice (`initVersion`; 1 for `CertAuth`,
  `RepositoryAccess`, TA proxy/signer, 0 for `SignerInfo`): with 0 the catch-up loop applies
  `command-0.json` (no events) and so moves the version to 1;
* `Command::version()` (the expected version) is never looked at;
* a pre-save listener failure resets `changed_from_cached`, so even a freshly loaded
  aggregate is then not cached;
* `drop_aggregate` clears the cache and history cache of the calling instance only;
* `apply` may panic (`Option` here); `process::exit(1)` when the command key exists (`fatal`).

Import-free so that the driver can be compiled as a `lean_exe`.
-/
namespace KM.ES

/-! ### association lists keyed by `Nat` -/

def alookup {β : Type} : List (Nat × β) → Nat → Option β
  | [], _ => none
  | (k', v) :: t, k => if k' = k then some v else alookup t k

def aerase {β : Type} (l : List (Nat × β)) (k : Nat) : List (Nat × β) :=
  l.filter (fun p => p.1 != k)

def ainsert {β : Type} (l : List (Nat × β)) (k : Nat) (v : β) : List (Nat × β) :=
  (k, v) :: aerase l k

/-- One more than the largest key (0 for the empty list): a bound for every loop that walks
`command-N` keys upwards. -/
def keyBound {β : Type} : List (Nat × β) → Nat
  | [] => 0
  | (k, _) :: t => max (k + 1) (keyBound t)

/-! ### the abstract aggregate -/

structure Agg where
  State : Type
  /-- command details (what `Command::store()` keeps) -/
  Cmd : Type
  Ev : Type
  InitCmd : Type
  InitEv : Type
  Err : Type
  /-- the version `A::init` gives a new instance -/
  initVersion : Nat
  init : InitEv → State
  processInit : InitCmd → Except Err InitEv
  process : State → Cmd → Except Err (List Ev)
  /-- `none` = `apply` panics on this event in this state -/
  apply : State → Ev → Option State
  /-- `pre_save_events`, called on the *updated* aggregate; `some e` = the listener fails -/
  preSave : State → List Ev → Option Err

/-- The aggregate value: its version field and the rest of its state. -/
structure Ver (A : Agg) where
  version : Nat
  st : A.State

/-- `StoredEffect`. -/
inductive Effect (A : Agg) where
  | init (ev : A.InitEv)
  | success (evs : List A.Ev)
  | error (e : A.Err)

/-- `StoredCommand` without the time stamp; `details = none` is `make_init()`. -/
structure Stored (A : Agg) where
  actor : String
  version : Nat
  details : Option A.Cmd
  effect : Effect A

/-- A command as sent: actor + details (`SentCommand`). -/
structure Sent (A : Agg) where
  actor : String
  details : A.Cmd

def applyEvents (A : Agg) : A.State → List A.Ev → Option A.State
  | s, [] => some s
  | s, ev :: evs => match A.apply s ev with
    | none => none
    | some s' => applyEvents A s' evs

/-- `Aggregate::apply_command`: bump the version, then apply the events (if any) in order. -/
def applyStored {A : Agg} (v : Ver A) (c : Stored A) : Option (Ver A) :=
  match c.effect with
  | .success evs => (applyEvents A v.st evs).map fun s => ⟨v.version + 1, s⟩
  | _ => some ⟨v.version + 1, v.st⟩

/-! ### key-value layout of one entity scope -/

inductive Key where
  | command (n : Nat)      -- `command-N.json`
  | snapshot               -- `snapshot.json`
deriving DecidableEq, Repr

structure Scope (A : Agg) where
  cmds : List (Nat × Stored A) := []
  snapshot : Option (Ver A) := none

def Scope.getCmd {A : Agg} (s : Scope A) (n : Nat) : Option (Stored A) := alookup s.cmds n
def Scope.hasCmd {A : Agg} (s : Scope A) (n : Nat) : Bool := (s.getCmd n).isSome
def Scope.putCmd {A : Agg} (s : Scope A) (n : Nat) (c : Stored A) : Scope A :=
  { s with cmds := ainsert s.cmds n c }
def Scope.keys {A : Agg} (s : Scope A) : List Key :=
  s.cmds.map (fun p => Key.command p.1) ++ (if s.snapshot.isSome then [Key.snapshot] else [])

/-- `CommandHistoryRecord` without time stamp. -/
inductive HResult (A : Agg) where
  | init | ok | error (e : A.Err)

structure Record (A : Agg) where
  actor : String
  version : Nat
  details : Option A.Cmd
  result : HResult A

def Stored.toRecord {A : Agg} (c : Stored A) : Record A :=
  { actor := c.actor, version := c.version, details := c.details,
    result := match c.effect with
      | .init _ => .init | .success _ => .ok | .error e => .error e }

/-- One entity: its scope in the key-value store plus, per `AggregateStore` instance, the
cache entry and the history-cache entry for this handle. -/
structure Ent (A : Agg) where
  kv : Scope A := {}
  cache : List (Nat × Ver A) := []
  hcache : List (Nat × List (Record A)) := []

def Ent.empty {A : Agg} : Ent A := {}

/-! ### results -/

inductive Out (A : Agg) where
  | ok (v : Ver A)
  | err (e : A.Err)     -- error from `process_command`, the pre-save listener or `process_init_command`
  | unknown             -- `UnknownAggregate`
  | duplicate           -- `DuplicateAggregate`
  | kvErr               -- a key-value write failed (`KeyStoreError`)
  | fatal               -- `process::exit(1)`: the command key already exists
  | panic               -- `apply` panicked

/-! ### `execute_opt_command`, phase by phase -/

/-- Thread-local control state of one call (also the program counter). -/
inductive Local (A : Agg) where
  | start
  | loaded (agg : Ver A) (changed : Bool)
  | processed (agg : Ver A) (changed : Bool) (res : Option A.Err)
  /-- between the decision to store `pending` under `command-<pending.version>.json` and the
  write itself -/
  | decided (agg : Ver A) (changed : Bool) (res : Option A.Err) (pending : Stored A)
  | done (out : Out A)

/-- store.rs:284-346: cache, else snapshot, else init command. -/
def phLoad {A : Agg} (i : Nat) (p : Ent A × Local A) : Ent A × Local A :=
  match p.2 with
  | .start =>
    match alookup p.1.cache i with
    | some v => (p.1, .loaded v false)
    | none =>
      match p.1.kv.snapshot with
      | some v => (p.1, .loaded v true)
      | none =>
        match p.1.kv.getCmd 0 with
        | some c =>
          match c.effect with
          | .init ev => (p.1, .loaded ⟨A.initVersion, A.init ev⟩ true)
          | _ => (p.1, .done .unknown)
        | none => (p.1, .done .unknown)
  | _ => p

/-- The loop of store.rs:360-375 with an explicit bound; `none` = `apply` panicked.  The
Boolean tells whether at least one command was applied. -/
def catchUp {A : Agg} (kv : Scope A) : Nat → Ver A → Option (Ver A × Bool)
  | 0, v => some (v, false)
  | fuel + 1, v =>
    match kv.getCmd v.version with
    | none => some (v, false)
    | some c =>
      match applyStored v c with
      | none => none
      | some v' => (catchUp kv fuel v').map fun r => (r.1, true)

/-- Enough iterations for every key present. -/
def Scope.fuel {A : Agg} (kv : Scope A) : Nat := keyBound kv.cmds + 1

/-- store.rs:348-376. -/
def phCatchUp {A : Agg} (p : Ent A × Local A) : Ent A × Local A :=
  match p.2 with
  | .loaded v ch =>
    match catchUp p.1.kv p.1.kv.fuel v with
    | none => (p.1, .done .panic)
    | some (v', applied) => (p.1, .loaded v' (ch || applied))
  | _ => p

/-- store.rs:380-491.  `wfail` = the key-value write fails (I/O error). -/
def phProcess {A : Agg} (cmd : Option (Sent A)) (wfail : Bool) (p : Ent A × Local A) :
    Ent A × Local A :=
  match p.2 with
  | .loaded v ch =>
    match cmd with
    | none => (p.1, .processed v ch none)
    | some c =>
      if p.1.kv.hasCmd v.version then (p.1, .done .fatal)
      else
        match A.process v.st c.details with
        | .error e =>
          let sc : Stored A := ⟨c.actor, v.version, some c.details, .error e⟩
          if wfail then (p.1, .done .kvErr)
          else ({ p.1 with kv := p.1.kv.putCmd v.version sc },
                .processed ⟨v.version + 1, v.st⟩ true (some e))
        | .ok [] => (p.1, .processed v ch none)
        | .ok (ev :: evs) =>
          let sc : Stored A := ⟨c.actor, v.version, some c.details, .success (ev :: evs)⟩
          match applyStored v sc with
          | none => (p.1, .done .panic)
          | some v' =>
            match A.preSave v'.st (ev :: evs) with
            | some e => (p.1, .processed v' false (some e))
            | none =>
              if wfail then (p.1, .done .kvErr)
              else ({ p.1 with kv := p.1.kv.putCmd v.version sc }, .processed v' ch none)
  | _ => p

/-- `phProcess` in two atomic steps: first everything up to the decision what to write
(key check store.rs:401, `process_command`, `apply_command`, pre-save listener) … -/
def phDecide {A : Agg} (cmd : Option (Sent A)) (p : Ent A × Local A) : Ent A × Local A :=
  match p.2 with
  | .loaded v ch =>
    match cmd with
    | none => (p.1, .processed v ch none)
    | some c =>
      if p.1.kv.hasCmd v.version then (p.1, .done .fatal)
      else
        match A.process v.st c.details with
        | .error e =>
          (p.1, .decided ⟨v.version + 1, v.st⟩ true (some e)
                  ⟨c.actor, v.version, some c.details, .error e⟩)
        | .ok [] => (p.1, .processed v ch none)
        | .ok (ev :: evs) =>
          let sc : Stored A := ⟨c.actor, v.version, some c.details, .success (ev :: evs)⟩
          match applyStored v sc with
          | none => (p.1, .done .panic)
          | some v' =>
            match A.preSave v'.st (ev :: evs) with
            | some e => (p.1, .processed v' false (some e))
            | none => (p.1, .decided v' ch none sc)
  | _ => p

/-- … then the write `kv.store(scope, command_key, processed)` (store.rs:423 / 468). -/
def phStore {A : Agg} (wfail : Bool) (p : Ent A × Local A) : Ent A × Local A :=
  match p.2 with
  | .decided v ch res sc =>
    if wfail then (p.1, .done .kvErr)
    else ({ p.1 with kv := p.1.kv.putCmd sc.version sc }, .processed v ch res)
  | _ => p

/-- store.rs:493-495.  Note that the success branch of `phProcess` leaves
`changed_from_cached` as it was: after an accepted command on a cache hit the cache keeps the
*previous* version and the next call re-applies `command-N.json` from storage in its catch-up
loop.  (Only the error branch sets the flag.) -/
def phCache {A : Agg} (i : Nat) (p : Ent A × Local A) : Ent A × Local A :=
  match p.2 with
  | .processed v true _ => ({ p.1 with cache := ainsert p.1.cache i v }, p.2)
  | _ => p

/-- store.rs:497-502. -/
def phSnapshot {A : Agg} (snap : Bool) (wfail : Bool) (p : Ent A × Local A) : Ent A × Local A :=
  match p.2 with
  | .processed v _ _ =>
    if snap then
      if wfail then (p.1, .done .kvErr)
      else ({ p.1 with kv := { p.1.kv with snapshot := some v } }, p.2)
    else p
  | _ => p

/-- store.rs:504-509. -/
def phFinish {A : Agg} (p : Ent A × Local A) : Ent A × Local A :=
  match p.2 with
  | .processed v _ res =>
    match res with
    | some e => (p.1, .done (.err e))
    | none => (p.1, .done (.ok v))
  | _ => p

/-- The phases of one `execute_opt_command(handle, cmd, save_snapshot)` call through store
instance `i`, in program order.  All of them run inside one `kv.execute(scope, …)`. -/
def execPhases {A : Agg} (i : Nat) (cmd : Option (Sent A)) (snap wfail : Bool) :
    List (Ent A × Local A → Ent A × Local A) :=
  [phLoad i, phCatchUp, phDecide cmd, phStore wfail, phCache i, phSnapshot snap wfail, phFinish]

def runPhases {σ : Type} (phs : List (σ → σ)) (s : σ) : σ := phs.foldl (fun acc f => f acc) s

def Local.out {A : Agg} : Local A → Out A
  | .done o => o
  | _ => .panic   -- not reachable: the last phase always ends in `done`

/-- Big-step `execute_opt_command`. -/
def execOpt {A : Agg} (e : Ent A) (i : Nat) (cmd : Option (Sent A)) (snap wfail : Bool) :
    Ent A × Out A :=
  let r := runPhases (execPhases i cmd snap wfail) (e, Local.start)
  (r.1, r.2.out)

/-! ### `add_with_context` (store.rs:192-244) -/

def phAdd {A : Agg} (i : Nat) (actor : String) (ic : A.InitCmd) (wfail : Bool)
    (p : Ent A × Local A) : Ent A × Local A :=
  match p.2 with
  | .start =>
    if p.1.kv.hasCmd 0 then (p.1, .done .duplicate)
    else
      match A.processInit ic with
      | .error e => (p.1, .done (.err e))
      | .ok ev =>
        if wfail then (p.1, .done .kvErr)
        else
          let v : Ver A := ⟨A.initVersion, A.init ev⟩
          ({ p.1 with kv := p.1.kv.putCmd 0 ⟨actor, 0, none, .init ev⟩,
                      cache := ainsert p.1.cache i v }, .done (.ok v))
  | _ => p

def add {A : Agg} (e : Ent A) (i : Nat) (actor : String) (ic : A.InitCmd) (wfail : Bool) :
    Ent A × Out A :=
  let r := phAdd i actor ic wfail (e, Local.start)
  (r.1, r.2.out)

/-! ### the public operations -/

def command {A : Agg} (e : Ent A) (i : Nat) (c : Sent A) (wfail : Bool := false) :=
  execOpt e i (some c) false wfail
def getLatest {A : Agg} (e : Ent A) (i : Nat) := execOpt e i none false false
def saveSnapshot {A : Agg} (e : Ent A) (i : Nat) (wfail : Bool := false) :=
  execOpt e i none true wfail

/-- `has` (store.rs:132-136). -/
def has {A : Agg} (e : Ent A) : Bool := e.kv.hasCmd 0

/-- `list` (store.rs:139-157): the handles of the scopes that hold an init command.  (Before
the fix de4d2976 every scope counted, also the empty directory a failed first write leaves on
the disk back-end; `has` and `get_latest` never did.) -/
def listed {A : Agg} (e : Ent A) : Bool := has e

/-- A new `AggregateStore` object in place of instance `i` (process restart, or the
scheduler's throw-away store): empty cache and history cache. -/
def restart {A : Agg} (e : Ent A) (i : Nat) : Ent A :=
  { e with cache := aerase e.cache i, hcache := aerase e.hcache i }

/-- `drop_aggregate` (store.rs:517-532): the scope is deleted, then the calling store object
removes its aggregate-cache entry and (since fix 04272ff6) its history-cache entry.  Other
store objects keep theirs. -/
def dropAggregate {A : Agg} (e : Ent A) (i : Nat) : Ent A :=
  { kv := {}, cache := aerase e.cache i, hcache := aerase e.hcache i }

/-- What the pinned tree (before 04272ff6) did: the history-cache entry stayed.  Only used as a
counter-model (`Props/C07.lean`, `history_stale_after_drop`). -/
def dropAggregatePinned {A : Agg} (e : Ent A) (i : Nat) : Ent A :=
  { e with kv := {}, cache := aerase e.cache i }

/-! ### history (store.rs:541-613) -/

/-- `update_history_records`: continue after the last cached record (or at 1) while
`command-N.json` can be read. -/
def histLoop {A : Agg} (kv : Scope A) : Nat → Nat → List (Record A) → List (Record A)
  | 0, _, acc => acc
  | fuel + 1, version, acc =>
    match kv.getCmd version with
    | none => acc
    | some c => histLoop kv fuel (version + 1) (acc ++ [c.toRecord])

def nextHistVersion {A : Agg} (records : List (Record A)) : Nat :=
  match records.getLast? with
  | some r => r.version + 1
  | none => 1

def updateHistory {A : Agg} (kv : Scope A) (records : List (Record A)) : List (Record A) :=
  histLoop kv kv.fuel (nextHistVersion records) records

structure Criteria where
  offset : Nat := 0
  rows : Option Nat := none
  afterVersion : Option Nat := none

structure History (A : Agg) where
  offset : Nat
  total : Nat
  commands : List (Record A)

def Criteria.matches {A : Agg} (c : Criteria) (r : Record A) : Bool :=
  match c.afterVersion with
  | none => true
  | some v => decide (v < r.version)

/-- The paging loop of `command_history_for_records`, literally. -/
def pageLoop {A : Agg} (crit : Criteria) (rows : Nat) :
    List (Record A) → (Nat × Nat × List (Record A)) → (Nat × Nat × List (Record A))
  | [], st => st
  | r :: rest, (skipped, total, acc) =>
    if crit.matches r then
      let total := total + 1
      if skipped < crit.offset then pageLoop crit rows rest (skipped + 1, total, acc)
      else if total - skipped ≤ rows then pageLoop crit rows rest (skipped, total, acc ++ [r])
      else pageLoop crit rows rest (skipped, total, acc)
    else pageLoop crit rows rest (skipped, total, acc)

def historyFor {A : Agg} (crit : Criteria) (records : List (Record A)) : History A :=
  let rows := match crit.rows with | some n => n | none => records.length
  let r := pageLoop crit rows records (0, 0, [])
  { offset := crit.offset, total := r.2.1, commands := r.2.2 }

/-- `command_history` through instance `i`; `cached` = the instance was created with
`use_history_cache`. -/
def commandHistory {A : Agg} (e : Ent A) (i : Nat) (cached : Bool) (crit : Criteria) :
    Ent A × History A :=
  if cached then
    let records := updateHistory e.kv ((alookup e.hcache i).getD [])
    ({ e with hcache := ainsert e.hcache i records }, historyFor crit records)
  else
    (e, historyFor crit (updateHistory e.kv []))

/-! ### operations as data, histories -/

inductive Op (A : Agg) where
  | add (i : Nat) (actor : String) (ic : A.InitCmd) (wfail : Bool)
  | cmd (i : Nat) (c : Sent A) (wfail : Bool)
  | get (i : Nat)
  | snap (i : Nat) (wfail : Bool)
  | restart (i : Nat)
  | hist (i : Nat) (cached : Bool)

/-- One operation; history queries report through the `Ent` only (their result is the
subject of `history_lists_all`). -/
def step {A : Agg} (e : Ent A) : Op A → Ent A × Option (Out A)
  | .add i actor ic wf => let r := add e i actor ic wf; (r.1, some r.2)
  | .cmd i c wf => let r := command e i c wf; (r.1, some r.2)
  | .get i => let r := getLatest e i; (r.1, some r.2)
  | .snap i wf => let r := saveSnapshot e i wf; (r.1, some r.2)
  | .restart i => (restart e i, none)
  | .hist i cached => ((commandHistory e i cached {}).1, none)

def run {A : Agg} (e : Ent A) (ops : List (Op A)) : Ent A := ops.foldl (fun s o => (step s o).1) e

/-! ### histories that also delete the entity -/

/-- A public operation or `drop_aggregate` through store object `i`. -/
inductive HOp (A : Agg) where
  | op (o : Op A)
  | drop (i : Nat)

def stepH {A : Agg} (e : Ent A) : HOp A → Ent A
  | .op o => (step e o).1
  | .drop i => dropAggregate e i

def runH {A : Agg} (e : Ent A) (ops : List (HOp A)) : Ent A := ops.foldl stepH e

/-- No *other* store object holds a cache or history-cache entry of the entity.
`drop_aggregate` cannot reach those; krill has one long-lived store object per namespace. -/
def othersForgot {A : Agg} (e : Ent A) (i : Nat) : Prop :=
  ∀ j, j ≠ i → alookup e.cache j = none ∧ alookup e.hcache j = none

/-- Histories in which every `drop_aggregate` happens while no other store object remembers
the entity. -/
def DropSafe {A : Agg} (e : Ent A) : List (HOp A) → Prop
  | [] => True
  | o :: rest =>
    (match o with
      | .drop i => othersForgot e i
      | .op _ => True) ∧ DropSafe (stepH e o) rest

/-- Decidable form of `othersForgot`: every cache / history-cache entry of the entity belongs to
store object `i`. -/
def othersForgotB {A : Agg} (e : Ent A) (i : Nat) : Bool :=
  e.cache.all (fun p => p.1 == i) && e.hcache.all (fun p => p.1 == i)

/-- **krill's usage assumption as a decidable predicate on histories**: run the history on the
model and test, at every `drop_aggregate`, that no other store object remembers the entity.
(Everything else – snapshots, failed writes, cache drops, any number of store objects reading and
writing – is unrestricted.) -/
def dropSafeB {A : Agg} (e : Ent A) : List (HOp A) → Bool
  | [] => true
  | o :: rest =>
    (match o with
      | .drop i => othersForgotB e i
      | .op _ => true) && dropSafeB (stepH e o) rest

/-! ### loading without the help of cache and snapshot -/

/-- What a brand-new store sees (no cache), e.g. after a restart. -/
def loadFresh {A : Agg} (e : Ent A) : Out A :=
  (getLatest { e with cache := [], hcache := [] } 0).2

/-- Replay from `command-0.json` alone: no cache and the snapshot ignored. -/
def loadScratch {A : Agg} (e : Ent A) : Out A :=
  (getLatest { kv := { e.kv with snapshot := none }, cache := [], hcache := [] } 0).2

end KM.ES
