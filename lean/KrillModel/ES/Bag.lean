/-
The test type of the WAL part of the `aggstore` stream: a bag (finite set) of numbers.  Its
Rust twin is `/verif/harness/src/bin/aggstore/bag.rs`.
-/
import KrillModel.ES.Wal
namespace KM.ES.Bag
open KM.ES.Wal

inductive Cmd where
  | put (x : Nat) | del (x : Nat) | clear | fill (n : Nat) | fail
deriving DecidableEq, Repr, Inhabited

inductive Change where
  | put (x : Nat) | del (x : Nat)
deriving DecidableEq, Repr, Inhabited

inductive Err where
  | missing | rejected
deriving DecidableEq, Repr, Inhabited

/-- Sorted insertion without duplicates. -/
def insert (x : Nat) : List Nat → List Nat
  | [] => [x]
  | y :: ys => if x < y then x :: y :: ys else if x = y then y :: ys else y :: insert x ys

def process (s : List Nat) : Cmd → Except Err (List Change)
  | .put x => if x ∈ s then .ok [] else .ok [.put x]
  | .del x => if x ∈ s then .ok [.del x] else .error .missing
  | .clear => .ok (s.map .del)
  | .fill n => .ok (((List.range n).filter (fun x => !(s.contains x))).map .put)
  | .fail => .error .rejected

def applyOne (s : List Nat) : Change → List Nat
  | .put x => insert x s
  | .del x => s.filter (· != x)

def bagT : WalT where
  State := List Nat
  Cmd := Cmd
  Change := Change
  Err := Err
  process := process
  apply := fun s cs => some (cs.foldl applyOne s)

end KM.ES.Bag
