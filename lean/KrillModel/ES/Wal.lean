/-
Model of `src/commons/eventsourcing/wal.rs` — the write-ahead-log store (`WalStore<T>`),
generic over an abstract `WalSupport` type.  Key-value layout of one scope: `snapshot.json`
and `wal-N.json` (`N` = the revision the change set applies to).  As in `AggStore.lean` the
body of `execute_opt_command` (wal.rs:267-420) is a list of phases; instances of the store
(`i`) have their own cache.

Quirks modelled on purpose: a failing command returns early, so a cache miss or catch-up is
then not written back to the cache; `add` overwrites the snapshot without looking and leaves
`wal-N` keys alone; `update_snapshot` deletes *every* `wal-` key after storing the snapshot.
-/
import KrillModel.ES.AggStore
namespace KM.ES.Wal
open KM.ES

structure WalT where
  State : Type
  Cmd : Type
  Change : Type
  Err : Type
  process : State → Cmd → Except Err (List Change)
  /-- `WalSupport::apply` without the revision bump; `none` = it panics -/
  apply : State → List Change → Option State

structure WVer (T : WalT) where
  revision : Nat
  st : T.State

/-- `WalSet` (without the summary text). -/
structure WSet (T : WalT) where
  revision : Nat
  changes : List T.Change

/-- `apply(set)`: the changes, then `revision += 1` (the set's own revision field is not
looked at by the implementations). -/
def applySet {T : WalT} (v : WVer T) (s : WSet T) : Option (WVer T) :=
  (T.apply v.st s.changes).map fun st => ⟨v.revision + 1, st⟩

structure Scope (T : WalT) where
  wals : List (Nat × WSet T) := []
  snapshot : Option (WVer T) := none
  /-- disk back-end only: the scope directory exists without any key in it.  `store` creates
  the directory before it writes the temporary file, so a failed first write leaves it
  behind, and `has_scope` (= `WalStore::has`) then says the entity exists. -/
  emptyDir : Bool := false

def Scope.getWal {T : WalT} (s : Scope T) (n : Nat) : Option (WSet T) := alookup s.wals n
def Scope.fuel {T : WalT} (s : Scope T) : Nat := keyBound s.wals + 1
def Scope.exists {T : WalT} (s : Scope T) : Bool := s.snapshot.isSome || !s.wals.isEmpty || s.emptyDir

structure Ent (T : WalT) where
  kv : Scope T := {}
  cache : List (Nat × WVer T) := []

inductive Out (T : WalT) where
  | ok (v : WVer T)
  | err (e : T.Err)
  | unknown
  | kvErr
  | fatal
  | panic

inductive Local (T : WalT) where
  | start
  | loaded (v : WVer T) (changed : Bool)
  | processed (v : WVer T) (changed : Bool)
  | done (out : Out T)

/-- wal.rs:280-310. -/
def phLoad {T : WalT} (i : Nat) (p : Ent T × Local T) : Ent T × Local T :=
  match p.2 with
  | .start =>
    match alookup p.1.cache i with
    | some v => (p.1, .loaded v false)
    | none =>
      match p.1.kv.snapshot with
      | some v => (p.1, .loaded v true)
      | none => (p.1, .done .unknown)
  | _ => p

/-- wal.rs:323-330 with an explicit bound. -/
def catchUp {T : WalT} (kv : Scope T) : Nat → WVer T → Option (WVer T × Bool)
  | 0, v => some (v, false)
  | fuel + 1, v =>
    match kv.getWal v.revision with
    | none => some (v, false)
    | some s =>
      match applySet v s with
      | none => none
      | some v' => (catchUp kv fuel v').map fun r => (r.1, true)

def phCatchUp {T : WalT} (p : Ent T × Local T) : Ent T × Local T :=
  match p.2 with
  | .loaded v ch =>
    match catchUp p.1.kv p.1.kv.fuel v with
    | none => (p.1, .done .panic)
    | some (v', applied) => (p.1, .loaded v' (ch || applied))
  | _ => p

/-- wal.rs:332-393. -/
def phProcess {T : WalT} (cmd : Option T.Cmd) (wfail : Bool) (p : Ent T × Local T) :
    Ent T × Local T :=
  match p.2 with
  | .loaded v ch =>
    match cmd with
    | none => (p.1, .processed v ch)
    | some c =>
      match T.process v.st c with
      | .error e => (p.1, .done (.err e))
      | .ok [] => (p.1, .processed v ch)
      | .ok (x :: xs) =>
        let set : WSet T := ⟨v.revision, x :: xs⟩
        if (p.1.kv.getWal v.revision).isSome then (p.1, .done .fatal)
        else
          match applySet v set with
          | none => (p.1, .done .panic)
          | some v' =>
            if wfail then (p.1, .done .kvErr)
            else ({ p.1 with kv := { p.1.kv with wals := ainsert p.1.kv.wals v.revision set } },
                  .processed v' true)
  | _ => p

def phCache {T : WalT} (i : Nat) (p : Ent T × Local T) : Ent T × Local T :=
  match p.2 with
  | .processed v true => ({ p.1 with cache := ainsert p.1.cache i v }, p.2)
  | _ => p

/-- wal.rs:400-416: store the snapshot, then delete every `wal-` key. -/
def phSnapshot {T : WalT} (snap wfail : Bool) (p : Ent T × Local T) : Ent T × Local T :=
  match p.2 with
  | .processed v _ =>
    if snap then
      if wfail then (p.1, .done .kvErr)
      else ({ p.1 with kv := { wals := [], snapshot := some v, emptyDir := false } }, p.2)
    else p
  | _ => p

def phFinish {T : WalT} (p : Ent T × Local T) : Ent T × Local T :=
  match p.2 with
  | .processed v _ => (p.1, .done (.ok v))
  | _ => p

def execPhases {T : WalT} (i : Nat) (cmd : Option T.Cmd) (snap wfail : Bool) :
    List (Ent T × Local T → Ent T × Local T) :=
  [phLoad i, phCatchUp, phProcess cmd wfail, phCache i, phSnapshot snap wfail, phFinish]

def Local.out {T : WalT} : Local T → Out T
  | .done o => o
  | _ => .panic

def execOpt {T : WalT} (e : Ent T) (i : Nat) (cmd : Option T.Cmd) (snap wfail : Bool) :
    Ent T × Out T :=
  let r := runPhases (execPhases i cmd snap wfail) (e, Local.start)
  (r.1, r.2.out)

def sendCommand {T : WalT} (e : Ent T) (i : Nat) (c : T.Cmd) (wfail : Bool := false) :=
  execOpt e i (some c) false wfail
def getLatest {T : WalT} (e : Ent T) (i : Nat) := execOpt e i none false false
def updateSnapshot {T : WalT} (e : Ent T) (i : Nat) (wfail : Bool := false) :=
  execOpt e i none true wfail

/-- `add` (wal.rs:168-184).  `disk`: on the disk back-end a failed write has already created
the scope directory. -/
def add {T : WalT} (e : Ent T) (i : Nat) (inst : WVer T) (wfail : Bool := false)
    (disk : Bool := false) : Ent T × Out T :=
  if wfail then
    ({ e with kv := { e.kv with emptyDir := e.kv.emptyDir || (disk && !e.kv.exists) } }, .kvErr)
  else ({ kv := { e.kv with snapshot := some inst, emptyDir := false },
          cache := ainsert e.cache i inst }, .ok inst)

/-- `remove` (wal.rs:205-217); `none` = `Unknown`. -/
def remove {T : WalT} (e : Ent T) (i : Nat) : Option (Ent T) :=
  if e.kv.exists then some { kv := {}, cache := aerase e.cache i } else none

def restart {T : WalT} (e : Ent T) (i : Nat) : Ent T := { e with cache := aerase e.cache i }

def loadFresh {T : WalT} (e : Ent T) : Out T := (getLatest { e with cache := [] } 0).2

inductive Op (T : WalT) where
  | add (i : Nat) (inst : WVer T) (wfail disk : Bool)
  | cmd (i : Nat) (c : T.Cmd) (wfail : Bool)
  | get (i : Nat)
  | snap (i : Nat) (wfail : Bool)
  | restart (i : Nat)

def step {T : WalT} (e : Ent T) : Op T → Ent T × Option (Out T)
  | .add i inst wf disk => let r := add e i inst wf disk; (r.1, some r.2)
  | .cmd i c wf => let r := sendCommand e i c wf; (r.1, some r.2)
  | .get i => let r := getLatest e i; (r.1, some r.2)
  | .snap i wf => let r := updateSnapshot e i wf; (r.1, some r.2)
  | .restart i => (restart e i, none)

def run {T : WalT} (e : Ent T) (ops : List (Op T)) : Ent T := ops.foldl (fun s o => (step s o).1) e

/-! ### specification-level notions (used by `Props/C06.lean`) -/

/-- `cur` is reached from `v` by applying the stored change sets `wal-<v.revision>`,
`wal-<v.revision+1>`, … in order. -/
inductive Reaches {T : WalT} (kv : Scope T) : WVer T → WVer T → Prop where
  | refl (v : WVer T) : Reaches kv v v
  | step {v v' cur : WVer T} {s : WSet T} :
      kv.getWal v.revision = some s → applySet v s = some v' → Reaches kv v' cur → Reaches kv v cur

/-- The invariant of an existing WAL entity whose current value is `cur`: the snapshot and
every cache entry lead to `cur` through the stored change sets, and there is no change set
at or above `cur`'s revision. -/
structure WInv {T : WalT} (e : Ent T) (cur : WVer T) : Prop where
  snap : ∃ s, e.kv.snapshot = some s ∧ Reaches e.kv s cur
  above : ∀ k, cur.revision ≤ k → e.kv.getWal k = none
  cache : ∀ i c, alookup e.cache i = some c → Reaches e.kv c cur

/-- The entity does not exist (and nobody caches it). -/
def Absent {T : WalT} (e : Ent T) : Prop :=
  e.kv.snapshot = none ∧ (∀ k, e.kv.getWal k = none) ∧ ∀ i, alookup e.cache i = none

/-- Every *other* store object that caches the entity has seen all change sets.
`update_snapshot` deletes every `wal-N` key, so a store object with an older cache could
never catch up afterwards.  In krill the snapshot is taken by a throw-away store object while
the one long-lived store object – the only writer – is always up to date. -/
def othersCurrent {T : WalT} (e : Ent T) (i : Nat) : Prop :=
  ∀ j c, j ≠ i → alookup e.cache j = some c → e.kv.getWal c.revision = none

/-- Histories in which `add` is only used for an entity that does not exist (krill:
`if !store.has(..)`) and snapshots are taken only when the other store objects are current. -/
def SafeRun {T : WalT} (e : Ent T) : List (Op T) → Prop
  | [] => True
  | op :: rest =>
    (match op with
      | .snap i _ => othersCurrent e i
      | .add _ _ _ _ => Absent e
      | _ => True) ∧ SafeRun (step e op).1 rest

/-- Decidable forms of `Absent`, `othersCurrent` and `SafeRun` (the usage assumption as a
decidable predicate on histories). -/
def absentB {T : WalT} (e : Ent T) : Bool :=
  e.kv.snapshot.isNone && e.kv.wals.isEmpty && e.cache.isEmpty

def othersCurrentB {T : WalT} (e : Ent T) (i : Nat) : Bool :=
  e.cache.all fun p => p.1 == i || (e.kv.getWal p.2.revision).isNone

def safeRunB {T : WalT} (e : Ent T) : List (Op T) → Bool
  | [] => true
  | op :: rest =>
    (match op with
      | .snap i _ => othersCurrentB e i
      | .add _ _ _ _ => absentB e
      | _ => true) && safeRunB (step e op).1 rest

end KM.ES.Wal
