/- Helper lemma about the test aggregate (used by the non-vacuity statement in `Props/C06.lean`). -/
import KrillModel.ES.Reg
import KrillModel.ES.Spec
namespace KM.ES.Reg
open KM.ES

theorem multi_applicable (iv n : Nat) (s : St) :
    (applyEvents (regAgg iv) s (List.replicate n (Ev.added 1))).isSome = true := by
  induction n generalizing s with
  | zero => rfl
  | succ n ih =>
    simp only [List.replicate_succ, applyEvents, regAgg, apply]
    exact ih _


end KM.ES.Reg
