/-
The test aggregate of the `aggstore` correspondence stream: a register with a counter and a
name.  The same aggregate is implemented in Rust against krill's public `Aggregate` trait in
`/verif/harness/src/bin/aggstore.rs`; the driver runs the generic store model instantiated
with `regAgg` in lock-step with the real `AggregateStore<Reg>`.

It has accepted, rejected and no-op commands, multi-event commands, an event whose `apply`
is partial (`subbed` panics on underflow; `process` never emits it outside its domain) and a
pre-save listener that vetoes depending on the *updated* state.
-/
import KrillModel.ES.AggStore
namespace KM.ES.Reg

structure St where
  count : Nat
  name : String
deriving DecidableEq, Repr, Inhabited

inductive Cmd where
  | add (n : Nat)
  | sub (n : Nat)
  | setName (s : String)
  | multi (n : Nat)
  | fail
  | guarded (n : Nat)
deriving DecidableEq, Repr, Inhabited

inductive Ev where
  | added (n : Nat)
  | subbed (n : Nat)
  | renamed (s : String)
  | guardedAdd (n : Nat)
deriving DecidableEq, Repr, Inhabited

inductive Err where
  | tooBig | underflow | rejected | veto | badInit
deriving DecidableEq, Repr, Inhabited

def limit : Nat := 12

def process (s : St) : Cmd → Except Err (List Ev)
  | .add n => if n = 0 then .ok [] else if s.count + n > limit then .error .tooBig else .ok [.added n]
  | .sub n => if n = 0 then .ok [] else if n > s.count then .error .underflow else .ok [.subbed n]
  | .setName nm => if nm = s.name then .ok [] else .ok [.renamed nm]
  | .multi n => if s.count + n > limit then .error .tooBig else .ok (List.replicate n (.added 1))
  | .fail => .error .rejected
  | .guarded n =>
    if n = 0 then .ok [] else if s.count + n > limit then .error .tooBig else .ok [.guardedAdd n]

def apply (s : St) : Ev → Option St
  | .added n => some { s with count := s.count + n }
  | .subbed n => if n ≤ s.count then some { s with count := s.count - n } else none
  | .renamed nm => some { s with name := nm }
  | .guardedAdd n => some { s with count := s.count + n }

def isGuarded : Ev → Bool
  | .guardedAdd _ => true
  | _ => false

def preSave (s : St) (evs : List Ev) : Option Err :=
  if evs.any isGuarded && s.count % 3 == 0 then some .veto else none

def processInit (nm : String) : Except Err String :=
  if nm = "bad" then .error .badInit else .ok nm

/-- The register aggregate; `iv` is the version its `init` gives (1 like `CertAuth`, or 0
like `SignerInfo`). -/
def regAgg (iv : Nat) : Agg where
  State := St
  Cmd := Cmd
  Ev := Ev
  InitCmd := String
  InitEv := String
  Err := Err
  initVersion := iv
  init := fun nm => ⟨0, nm⟩
  processInit := processInit
  process := process
  apply := apply
  preSave := preSave

end KM.ES.Reg
