/- Helper lemmas tying the observations (`ES/Obs.lean`) of the model to its audit log. -/
import KrillModel.ES.Lemmas
namespace KM.ES.Obs
open KM.ES

/-- Render a list element by element with its position. -/
def renderFrom {α β : Type} (g : Nat → α → β) : Nat → List α → List β
  | _, [] => []
  | k, c :: t => g k c :: renderFrom g (k + 1) t

theorem length_renderFrom {α β : Type} (g : Nat → α → β) (k : Nat) (l : List α) :
    (renderFrom g k l).length = l.length := by
  induction l generalizing k with
  | nil => rfl
  | cons c t ih => simp [renderFrom, ih]

theorem renderFrom_append {α β : Type} (g : Nat → α → β) (k : Nat) (l1 l2 : List α) :
    renderFrom g k (l1 ++ l2) = renderFrom g k l1 ++ renderFrom g (k + l1.length) l2 := by
  induction l1 generalizing k with
  | nil => simp [renderFrom]
  | cons c t ih =>
    simp only [List.cons_append, renderFrom, ih, List.length_cons]
    have : k + 1 + t.length = k + (t.length + 1) := by omega
    rw [this]

/-- Scanning the keys `s, s+1, …` of a store that holds exactly the list `L`. -/
theorem filterMap_range'_log {α β : Type} (L : List α) (f : Nat → Option β) (g : Nat → α → β)
    (hf : ∀ k, f k = (L[k]?).map (g k)) :
    ∀ (n s : Nat), L.length ≤ s + n →
      (List.range' s n).filterMap f = renderFrom g s (L.drop s) := by
  intro n
  induction n with
  | zero =>
    intro s h
    rw [List.drop_eq_nil_of_le (by omega)]; rfl
  | succ n ih =>
    intro s h
    rw [List.range'_succ, List.filterMap_cons, hf s]
    by_cases hlt : s < L.length
    · rw [List.getElem?_eq_getElem hlt, List.drop_eq_getElem_cons hlt]
      simp only [Option.map_some, renderFrom]
      rw [ih (s + 1) (by omega)]
    · rw [List.getElem?_eq_none (by omega)]
      simp only [Option.map_none]
      rw [ih (s + 1) (by omega), List.drop_eq_nil_of_le (by omega), List.drop_eq_nil_of_le (by omega)]
      rfl

theorem filterMap_range_log {α β : Type} (L : List α) (f : Nat → Option β) (g : Nat → α → β)
    (hf : ∀ k, f k = (L[k]?).map (g k)) (B : Nat) (hB : L.length ≤ B) :
    (List.range B).filterMap f = renderFrom g 0 L := by
  rw [List.range_eq_range']
  have := filterMap_range'_log L f g hf B 0 (by omega)
  simpa using this

variable {A : Agg}

/-- The observed records of an entity are its audit log rendered in order. -/
theorem oCmds_eq {e : Ent A} {L : Log A} (h : Inv e L) (R : Render A) :
    oCmds R e.kv = renderFrom (oCmd R) 0 L := by
  unfold oCmds
  exact filterMap_range_log L _ (oCmd R) (by intro k; rw [h.cmds k]) _ (length_le_keyBound h)

theorem oKeys_eq {e : Ent A} {L : Log A} (h : Inv e L) :
    oKeys e.kv = expectedKeys L.length e.kv.snapshot.isSome := by
  unfold oKeys expectedKeys
  congr 1
  have : (List.range (keyBound e.kv.cmds)).filterMap
      (fun k => if e.kv.hasCmd k then some (cmdKeyName k) else none)
      = renderFrom (fun k (_ : Stored A) => cmdKeyName k) 0 L := by
    apply filterMap_range_log L _ _ _ _ (length_le_keyBound h)
    intro k
    simp only [Scope.hasCmd, h.cmds k]
    cases L[k]? <;> simp
  rw [this]
  -- rendering that ignores the element is a map over the positions
  have hpos : ∀ (l : List (Stored A)) (s : Nat),
      renderFrom (fun k (_ : Stored A) => cmdKeyName k) s l = (List.range' s l.length).map cmdKeyName := by
    intro l
    induction l with
    | nil => intro s; rfl
    | cons c t ih => intro s; simp [renderFrom, ih, List.range'_succ]
  rw [hpos, List.range_eq_range']

theorem wfFrom_render (R : Render A) :
    ∀ (l : List (Stored A)) (k : Nat),
      (∀ j c, l[j]? = some c → c.version = k + j ∧ (c.effect.isInit = (k + j == 0))) →
      wfFrom k (renderFrom (oCmd R) k l) = true := by
  intro l
  induction l with
  | nil => intro k _; rfl
  | cons c t ih =>
    intro k h
    have h0 := h 0 c rfl
    simp only [renderFrom, wfFrom, Bool.and_eq_true]
    refine ⟨⟨⟨by simp [oCmd], by simp [oCmd, h0.1]⟩, ?_⟩, ?_⟩
    · have : (oCmd R k c).effect.isInit = c.effect.isInit := by
        unfold oCmd; cases c.effect <;> rfl
      rw [this, h0.2]; simp
    · apply ih (k + 1)
      intro j c' hc'
      have := h (j + 1) c' (by simpa using hc')
      have e1 : k + (j + 1) = k + 1 + j := by omega
      rw [e1] at this
      exact this

theorem oView_cmds {e : Ent A} {L : Log A} (h : Inv e L) (R : Render A) :
    (oView R e.kv).cmds = renderFrom (oCmd R) 0 L := oCmds_eq h R


/-- Appending a record to the log appends its rendering to the view and changes nothing else. -/
theorem appendedOne_of_append {e e' : Ent A} {L : Log A} {sc : Stored A} (h : Inv e L)
    (h' : Inv e' (L ++ [sc])) (R : Render A) (hsnap : e'.kv.snapshot = e.kv.snapshot)
    (hver : sc.version = L.length) (isErr : Bool) (kind : String)
    (heff : match (oCmd R L.length sc).effect with
      | .err k => isErr = true ∧ k = kind
      | .ok _ => isErr = false
      | .init _ => False) :
    appendedOne (oView R e.kv) (oView R e'.kv) sc.actor isErr kind = true := by
  unfold appendedOne
  have hc : (oView R e.kv).cmds = renderFrom (oCmd R) 0 L := oView_cmds h R
  have hc' : (oView R e'.kv).cmds = renderFrom (oCmd R) 0 L ++ [oCmd R L.length sc] := by
    rw [oView_cmds h' R, renderFrom_append]; simp [renderFrom]
  have hlen : (renderFrom (oCmd R) 0 L).length = L.length := length_renderFrom _ _ _
  have hs : (oView R e'.kv).snap = (oView R e.kv).snap := by simp [oView, oSnap, hsnap]
  rw [hc, hc', hs, hlen]
  rw [List.take_left' hlen, List.drop_left' hlen]
  simp only [beq_self_eq_true, Bool.true_and]
  have h1 : (oCmd R L.length sc).key = L.length := rfl
  have h2 : (oCmd R L.length sc).version = L.length := hver
  have h3 : (oCmd R L.length sc).actor = sc.actor := rfl
  simp only [h1, h2, h3, beq_self_eq_true, Bool.true_and]
  cases hE : (oCmd R L.length sc).effect with
  | init s => rw [hE] at heff; exact heff.elim
  | ok s => rw [hE] at heff; simp [heff]
  | err k => rw [hE] at heff; simp [heff.1, heff.2]


end KM.ES.Obs
