/-
C06 — which stream operation executes which stored command kind, in which stored shapes (hand-written, reviewed).

`Generated/CommandKinds.lean` lists, from the source, every variant of every storable command enum
(for the write-ahead log of the repository content: of the change enum) of krill's event-sourced
aggregates with its fields.  The tie between the store theorems (`Props/C06.lean`) and the real
aggregates is "a fresh store object reloads what the running one wrote" (`reloadcheck`, `sreload`);
that only says something about the command kinds and argument shapes that were really written.  This
table is the claim what *is* written in the quick tier, row by row:

* `covered via claims excused` – the named op of the named stream (`system` = corpus
  `corpus/system-c06cov`, `proto` = `corpus/proto-c06cov`, each op followed by a `reloadcheck` /
  `sreload` in the same case) stores the variant; every `Option` field of the variant must be claimed
  both absent (`path=none`) and present (`path=some`), every collection field both `path=empty` and
  `path=nonempty`, or the missing shape is excused with a reason.  `checks/C06.py` verifies every
  claim against the traces of the run (obligation `coverage-claimed-but-not-exercised:<agg>/<variant>/<shape>`),
  so a claim cannot rot.
  `via`: `daemon` = through a function a route or task of the daemon calls; `cli_api` = not reachable
  in the daemon (krillta), executed through the function the CLI calls (`TrustAnchorSignerManager`, the
  `ta_proxy_signer_*` functions behind `krillc ta`); `manager_fn` = a public `CaManager` function
  without a caller in the daemon's routes.
* `notExecuted reason why` – not executed by any stream, with the reason.

`fields` repeats the generated field list (path, type): `Props/C06Src.lean`
(`all_command_kinds_covered`) demands equality, so a new variant, a new field or a changed type
breaks the proof until this table has been looked at again.
Shapes below a `#[serde(flatten)]` field would need the parent's path; there is none today (the only
flattened field in a command, `csr_info`, has no optional or collection field in the table).
-/
import KrillModel.Generated.CommandKinds
namespace KM.ES.CommandCoverage
open KM.Gen.CommandKinds

inductive Reason
  /-- only when a daemon starts (signer binding, first start on empty storage) -/
  | startup_only
  /-- only when a newer binary starts on older data -/
  | upgrade_only
  /-- no constructor in the source maps to it: only read from histories of older versions -/
  | legacy_no_constructor
  /-- only in answer to a parent that is not a krill instance -/
  | needs_foreign_parent
  /-- only with a PKCS#11 / KMIP signer -/
  | hsm_only
  deriving Repr, BEq, DecidableEq

inductive Via
  | daemon
  /-- `cli_only_not_reachable_in_daemon`: executed through the same API the CLI uses -/
  | cli_api
  | manager_fn
  deriving Repr, BEq, DecidableEq

/-- Op `op` of stream `stream` stores the variant with these shapes (`path=none|some|empty|nonempty`). -/
structure Claim where
  stream : String
  op : String
  shapes : List String
  deriving Repr, BEq, DecidableEq

inductive Status
  | covered (via : Via) (claims : List Claim) (excused : List (String × String))
  | notExecuted (reason : Reason) (why : String)
  deriving Repr, BEq, DecidableEq

structure Row where
  agg : String
  variant : String
  /-- (path, type) exactly as generated -/
  fields : List (String × String)
  status : Status
  deriving Repr, BEq, DecidableEq

/-- One row per generated command kind, in the order of the generated table. -/
def coverage : List Row := [
  { agg := "SignerInfo", variant := "Init",
      fields := [],
      status := .covered .daemon [⟨"system", "(boot)", []⟩] [] },
  { agg := "SignerInfo", variant := "AddKey",
      fields := [("0", "KeyIdentifier"), ("1", "String")],
      status := .covered .daemon [⟨"system", "ca", []⟩] [] },
  { agg := "SignerInfo", variant := "RemoveKey",
      fields := [("0", "KeyIdentifier")],
      status := .notExecuted .hsm_only "only the PKCS#11 and KMIP signers drop a key mapping (signers/pkcs11, signers/kmip: mapper.remove_key); the harness runs the OpenSSL signer, which never does" },
  { agg := "SignerInfo", variant := "ChangeSignerName",
      fields := [("0", "String")],
      status := .notExecuted .startup_only "SignerRouter::bind_ready_signers when the configured name of a known signer changed between two runs" },
  { agg := "SignerInfo", variant := "ChangeSignerInfo",
      fields := [("0", "String")],
      status := .notExecuted .startup_only "SignerRouter::bind_ready_signers when the backend reports another info string than the stored one" },
  { agg := "CertAuth", variant := "Init",
      fields := [],
      status := .covered .daemon [⟨"system", "ca", []⟩] [] },
  { agg := "CertAuth", variant := "ChildAdd",
      fields := [("child", "ChildHandle"), ("ski", "String"), ("resources", "ResourceSet")],
      status := .covered .daemon [⟨"system", "child", []⟩] [] },
  { agg := "CertAuth", variant := "ChildImport",
      fields := [("child", "ChildHandle"), ("ski", "String"), ("resources", "ResourceSet")],
      status := .covered .daemon [⟨"system", "childreimport", []⟩] [] },
  { agg := "CertAuth", variant := "ChildUpdateResources",
      fields := [("child", "ChildHandle"), ("resources", "ResourceSet")],
      status := .covered .daemon [⟨"system", "childres", []⟩] [] },
  { agg := "CertAuth", variant := "ChildUpdateId",
      fields := [("child", "ChildHandle"), ("ski", "String")],
      status := .covered .daemon [⟨"system", "childupd", []⟩] [] },
  { agg := "CertAuth", variant := "ChildUpdateResourceClassNameMapping",
      fields := [("child", "ChildHandle"), ("mapping", "ResourceClassNameMapping"), ("mapping.name_in_parent", "ResourceClassName"), ("mapping.name_for_child", "ResourceClassName")],
      status := .covered .daemon [⟨"system", "childmap", []⟩] [] },
  { agg := "CertAuth", variant := "ChildCertify",
      fields := [("child", "ChildHandle"), ("resource_class_name", "ResourceClassName"), ("limit", "RequestResourceLimit"), ("ki", "KeyIdentifier")],
      status := .covered .daemon [⟨"system", "pump", []⟩] [] },
  { agg := "CertAuth", variant := "ChildRevokeKey",
      fields := [("child", "ChildHandle"), ("revoke_req", "RevocationRequest")],
      status := .covered .daemon [⟨"system", "pump", []⟩] [] },
  { agg := "CertAuth", variant := "ChildRemove",
      fields := [("child", "ChildHandle")],
      status := .covered .daemon [⟨"system", "childrm", []⟩] [] },
  { agg := "CertAuth", variant := "ChildSuspendInactive",
      fields := [("child", "ChildHandle")],
      status := .covered .daemon [⟨"system", "childsuspend", []⟩] [] },
  { agg := "CertAuth", variant := "ChildUnsuspend",
      fields := [("child", "ChildHandle")],
      status := .covered .daemon [⟨"system", "childunsuspend", []⟩] [] },
  { agg := "CertAuth", variant := "GenerateNewIdKey",
      fields := [],
      status := .covered .daemon [⟨"system", "updateid", []⟩] [] },
  { agg := "CertAuth", variant := "AddParent",
      fields := [("parent", "ParentHandle"), ("contact", "StorableParentContact")],
      status := .covered .daemon [⟨"system", "child", []⟩] [] },
  { agg := "CertAuth", variant := "UpdateParentContact",
      fields := [("parent", "ParentHandle"), ("contact", "StorableParentContact")],
      status := .covered .daemon [⟨"system", "parentupd", []⟩] [] },
  { agg := "CertAuth", variant := "RemoveParent",
      fields := [("parent", "ParentHandle")],
      status := .covered .daemon [⟨"system", "parentrm", []⟩] [] },
  { agg := "CertAuth", variant := "UpdateResourceEntitlements",
      fields := [("parent", "ParentHandle"), ("entitlements", "Vec<StorableRcEntitlement>")],
      status := .covered .daemon [⟨"system", "pump", ["entitlements=nonempty"]⟩, ⟨"system", "sync", ["entitlements=empty"]⟩] [] },
  { agg := "CertAuth", variant := "UpdateRcvdCert",
      fields := [("resource_class_name", "ResourceClassName"), ("resources", "ResourceSet")],
      status := .covered .daemon [⟨"system", "pump", []⟩] [] },
  { agg := "CertAuth", variant := "DropResourceClass",
      fields := [("resource_class_name", "ResourceClassName"), ("reason", "DropReason")],
      status := .notExecuted .needs_foreign_parent "sent by the child side only when the parent answers a certificate request with RFC 6492 error 1201/1202/1204 or with a certificate the class cannot take (manager.rs: handle_cert_response); a krill parent answers a request for a lost class with a plain error instead (finding (H) of C02, corpus/system-findings/c02-h-request-for-lost-class.ops), and every parent in the harness is a krill instance" },
  { agg := "CertAuth", variant := "KeyRollInitiate",
      fields := [("older_than_seconds", "i64")],
      status := .covered .daemon [⟨"system", "rollinit", []⟩] [] },
  { agg := "CertAuth", variant := "KeyRollActivate",
      fields := [("staged_for_seconds", "i64")],
      status := .covered .daemon [⟨"system", "rollactivate", []⟩] [] },
  { agg := "CertAuth", variant := "KeyRollFinish",
      fields := [("resource_class_name", "ResourceClassName")],
      status := .covered .daemon [⟨"system", "pump", []⟩] [] },
  { agg := "CertAuth", variant := "RoaDefinitionUpdates",
      fields := [("updates", "RoaConfigurationUpdates"), ("updates.added", "Vec<RoaConfiguration>"), ("updates.removed", "Vec<RoaPayload>")],
      status := .covered .daemon [⟨"system", "roa", ["updates.added=nonempty", "updates.removed=empty"]⟩, ⟨"system", "roa", ["updates.added=empty", "updates.removed=nonempty"]⟩] [] },
  { agg := "CertAuth", variant := "ReissueBeforeExpiring",
      fields := [],
      status := .covered .daemon [⟨"system", "renew", []⟩] [] },
  { agg := "CertAuth", variant := "ForceReissue",
      fields := [],
      status := .covered .manager_fn [⟨"system", "forcerenew", []⟩] [] },
  { agg := "CertAuth", variant := "AspasUpdate",
      fields := [("updates", "AspaDefinitionUpdates"), ("updates.add_or_replace", "Vec<AspaDefinition>"), ("updates.remove", "Vec<CustomerAsn>")],
      status := .covered .daemon [⟨"system", "aspa", ["updates.add_or_replace=nonempty", "updates.remove=empty"]⟩, ⟨"system", "aspa", ["updates.add_or_replace=empty", "updates.remove=nonempty"]⟩] [] },
  { agg := "CertAuth", variant := "AspasUpdateExisting",
      fields := [("customer", "CustomerAsn"), ("update", "AspaProvidersUpdate"), ("update.added", "Vec<ProviderAsn>"), ("update.removed", "Vec<ProviderAsn>")],
      status := .covered .daemon [⟨"system", "aspaprov", ["update.added=nonempty", "update.removed=empty"]⟩, ⟨"system", "aspaprov", ["update.added=empty", "update.removed=nonempty"]⟩] [] },
  { agg := "CertAuth", variant := "AspaRemove",
      fields := [("customer", "CustomerAsn")],
      status := .notExecuted .legacy_no_constructor "no CertAuthCommandDetails variant maps to it (commands.rs, impl From<CertAuthCommandDetails>): only read from histories written by older versions" },
  { agg := "CertAuth", variant := "BgpSecDefinitionUpdates",
      fields := [],
      status := .covered .daemon [⟨"system", "bgpsec", []⟩] [] },
  { agg := "CertAuth", variant := "RepoUpdate",
      fields := [("service_uri", "ServiceUri")],
      status := .covered .daemon [⟨"system", "ca", []⟩] [] },
  { agg := "CertAuth", variant := "RtaPrepare",
      fields := [("name", "RtaName")],
      status := .covered .manager_fn [⟨"system", "rta", []⟩] [] },
  { agg := "CertAuth", variant := "RtaSign",
      fields := [("name", "RtaName")],
      status := .covered .manager_fn [⟨"system", "rta", []⟩] [] },
  { agg := "CertAuth", variant := "RtaCoSign",
      fields := [("name", "RtaName")],
      status := .covered .manager_fn [⟨"system", "rta", []⟩] [] },
  { agg := "CertAuth", variant := "Deactivate",
      fields := [],
      status := .notExecuted .legacy_no_constructor "no CertAuthCommandDetails variant maps to it: a CA is deleted by dropping its aggregate (CaManager::delete_ca); only read from older histories" },
  { agg := "Properties", variant := "Init",
      fields := [],
      status := .notExecuted .startup_only "PropertiesManager::init at the very first start of a daemon on empty storage (daemon/start.rs, upgrades/mod.rs); the in-process krill of the harness is built from KrillRuntime::new, which does not touch the properties" },
  { agg := "Properties", variant := "UpgradeTo",
      fields := [("krill_version", "KrillVersion"), ("krill_version.major", "u64"), ("krill_version.minor", "u64"), ("krill_version.patch", "u64"), ("krill_version.release_type", "KrillVersionReleaseType")],
      status := .notExecuted .upgrade_only "PropertiesManager::upgrade_krill_version when a newer binary starts on older data" },
  { agg := "RepositoryAccess", variant := "Init",
      fields := [],
      status := .covered .daemon [⟨"system", "(boot)", []⟩] [] },
  { agg := "RepositoryAccess", variant := "AddPublisher",
      fields := [("name", "PublisherHandle")],
      status := .covered .daemon [⟨"system", "ca", []⟩] [] },
  { agg := "RepositoryAccess", variant := "RemovePublisher",
      fields := [("name", "PublisherHandle")],
      status := .covered .daemon [⟨"system", "pubrm", []⟩] [] },
  { agg := "RepositoryContent", variant := "SessionReset",
      fields := [("reset", "RrdpSessionReset"), ("reset.last_update", "Time"), ("reset.session", "RrdpSession"), ("reset.snapshot", "SnapshotData"), ("reset.snapshot.random", "RrdpFileRandom"), ("reset.snapshot.publishers_current_objects", "HashMap<PublisherHandle,CurrentObjects>")],
      status := .covered .daemon [⟨"system", "rrdpreset", ["reset.snapshot.publishers_current_objects=nonempty"]⟩] [("reset.snapshot.publishers_current_objects=empty", "a reset of a server without any publisher: the in-process krill always has the trust anchor as a publisher before the first op")] },
  { agg := "RepositoryContent", variant := "PublisherAdded",
      fields := [("publisher", "PublisherHandle")],
      status := .covered .daemon [⟨"system", "ca", []⟩] [] },
  { agg := "RepositoryContent", variant := "PublisherRemoved",
      fields := [("publisher", "PublisherHandle")],
      status := .notExecuted .legacy_no_constructor "RepositoryContent::process_remove_publisher only stages the withdrawal of the publisher's objects (content.rs, an RrdpDeltaStaged change); nothing produces this variant, it is only applied when found in an older log" },
  { agg := "RepositoryContent", variant := "RrdpDeltaStaged",
      fields := [("publisher", "PublisherHandle"), ("delta", "DeltaElements"), ("delta.publishes", "Vec<PublishElement>"), ("delta.updates", "Vec<UpdateElement>"), ("delta.withdraws", "Vec<WithdrawElement>")],
      status := .covered .daemon [⟨"system", "pump", ["delta.publishes=empty", "delta.publishes=nonempty", "delta.updates=empty", "delta.updates=nonempty", "delta.withdraws=empty", "delta.withdraws=nonempty"]⟩] [] },
  { agg := "RepositoryContent", variant := "RrdpUpdated",
      fields := [("update", "RrdpUpdated"), ("update.time", "Time"), ("update.random", "RrdpFileRandom"), ("update.deltas_truncate", "usize")],
      status := .covered .daemon [⟨"system", "pump", []⟩] [] },
  { agg := "TrustAnchorProxy", variant := "Init",
      fields := [],
      status := .covered .daemon [⟨"proto", "(boot)", []⟩] [] },
  { agg := "TrustAnchorProxy", variant := "AddRepository",
      fields := [("0", "RepositoryContact"), ("0.repo_info", "RepoInfo"), ("0.server_info", "PublicationServerInfo"), ("0.server_info.public_key", "PublicKey"), ("0.server_info.service_uri", "ServiceUri")],
      status := .covered .daemon [⟨"proto", "(boot)", []⟩] [] },
  { agg := "TrustAnchorProxy", variant := "AddSigner",
      fields := [("0", "TrustAnchorSignerInfo"), ("0.id", "IdCertInfo"), ("0.id.public_key", "PublicKey"), ("0.id.base64", "Base64"), ("0.id.hash", "Hash"), ("0.objects", "TrustAnchorObjects"), ("0.objects.revision", "ObjectSetRevision"), ("0.objects.revision.number", "u64"), ("0.objects.revision.this_update", "Time"), ("0.objects.revision.next_update", "Time"), ("0.objects.key_identifier", "KeyIdentifier"), ("0.objects.base_uri", "uri::Rsync"), ("0.objects.revocations", "Revocations"), ("0.objects.crl", "PublishedCrl"), ("0.objects.crl.name", "ObjectName"), ("0.objects.crl.base64", "Base64"), ("0.objects.crl.hash", "rrdp::Hash"), ("0.objects.crl.serial", "Serial"), ("0.objects.crl.expires", "Time"), ("0.objects.crl.marker", "std::marker::PhantomData<T>"), ("0.objects.manifest", "PublishedManifest"), ("0.objects.manifest.name", "ObjectName"), ("0.objects.manifest.base64", "Base64"), ("0.objects.manifest.hash", "rrdp::Hash"), ("0.objects.manifest.serial", "Serial"), ("0.objects.manifest.expires", "Time"), ("0.objects.manifest.marker", "std::marker::PhantomData<T>"), ("0.objects.issued", "HashMap<KeyIdentifier,IssuedCertificate>"), ("0.ta_cert_details", "TaCertDetails"), ("0.ta_cert_details.cert", "ReceivedCert"), ("0.ta_cert_details.cert.uri", "uri::Rsync"), ("0.ta_cert_details.cert.name", "ObjectName"), ("0.ta_cert_details.cert.resources", "ResourceSet"), ("0.ta_cert_details.cert.limit", "RequestResourceLimit"), ("0.ta_cert_details.cert.subject", "Name"), ("0.ta_cert_details.cert.validity", "Validity"), ("0.ta_cert_details.cert.serial", "Serial"), ("0.ta_cert_details.cert.csr_info", "CsrInfo"), ("0.ta_cert_details.cert.base64", "Base64"), ("0.ta_cert_details.cert.hash", "Hash"), ("0.ta_cert_details.cert.marker", "std::marker::PhantomData<T>"), ("0.ta_cert_details.tal", "TrustAnchorLocator"), ("0.ta_cert_details.tal.uris", "Vec<uri::Https>"), ("0.ta_cert_details.tal.rsync_uri", "uri::Rsync"), ("0.ta_cert_details.tal.encoded_ski", "Base64")],
      status := .covered .daemon [⟨"proto", "(boot)", ["0.objects.revocations=empty", "0.objects.issued=empty", "0.ta_cert_details.tal.uris=nonempty"]⟩] [("0.objects.revocations=nonempty", "a signer that is added to a proxy has not signed anything for it yet (the exchange needs the proxy); the same struct with revocations is stored by UpdateSigner"), ("0.objects.issued=nonempty", "as above: nothing issued before the first exchange; exercised in UpdateSigner"), ("0.ta_cert_details.tal.uris=empty", "the embedded trust anchor of the in-process krill is initialised with one HTTPS URI (testbed); the same struct with an empty list is stored by UpdateSigner after an rsync-only reissue")] },
  { agg := "TrustAnchorProxy", variant := "UpdateSigner",
      fields := [("0", "TrustAnchorSignerInfo"), ("0.id", "IdCertInfo"), ("0.id.public_key", "PublicKey"), ("0.id.base64", "Base64"), ("0.id.hash", "Hash"), ("0.objects", "TrustAnchorObjects"), ("0.objects.revision", "ObjectSetRevision"), ("0.objects.revision.number", "u64"), ("0.objects.revision.this_update", "Time"), ("0.objects.revision.next_update", "Time"), ("0.objects.key_identifier", "KeyIdentifier"), ("0.objects.base_uri", "uri::Rsync"), ("0.objects.revocations", "Revocations"), ("0.objects.crl", "PublishedCrl"), ("0.objects.crl.name", "ObjectName"), ("0.objects.crl.base64", "Base64"), ("0.objects.crl.hash", "rrdp::Hash"), ("0.objects.crl.serial", "Serial"), ("0.objects.crl.expires", "Time"), ("0.objects.crl.marker", "std::marker::PhantomData<T>"), ("0.objects.manifest", "PublishedManifest"), ("0.objects.manifest.name", "ObjectName"), ("0.objects.manifest.base64", "Base64"), ("0.objects.manifest.hash", "rrdp::Hash"), ("0.objects.manifest.serial", "Serial"), ("0.objects.manifest.expires", "Time"), ("0.objects.manifest.marker", "std::marker::PhantomData<T>"), ("0.objects.issued", "HashMap<KeyIdentifier,IssuedCertificate>"), ("0.ta_cert_details", "TaCertDetails"), ("0.ta_cert_details.cert", "ReceivedCert"), ("0.ta_cert_details.cert.uri", "uri::Rsync"), ("0.ta_cert_details.cert.name", "ObjectName"), ("0.ta_cert_details.cert.resources", "ResourceSet"), ("0.ta_cert_details.cert.limit", "RequestResourceLimit"), ("0.ta_cert_details.cert.subject", "Name"), ("0.ta_cert_details.cert.validity", "Validity"), ("0.ta_cert_details.cert.serial", "Serial"), ("0.ta_cert_details.cert.csr_info", "CsrInfo"), ("0.ta_cert_details.cert.base64", "Base64"), ("0.ta_cert_details.cert.hash", "Hash"), ("0.ta_cert_details.cert.marker", "std::marker::PhantomData<T>"), ("0.ta_cert_details.tal", "TrustAnchorLocator"), ("0.ta_cert_details.tal.uris", "Vec<uri::Https>"), ("0.ta_cert_details.tal.rsync_uri", "uri::Rsync"), ("0.ta_cert_details.tal.encoded_ski", "Base64")],
      status := .covered .cli_api [⟨"proto", "sigupdate", ["0.objects.revocations=empty", "0.objects.revocations=nonempty", "0.objects.issued=empty", "0.objects.issued=nonempty", "0.ta_cert_details.tal.uris=nonempty", "0.ta_cert_details.tal.uris=empty"]⟩] [] },
  { agg := "TrustAnchorProxy", variant := "MakeSignerRequest",
      fields := [],
      status := .covered .daemon [⟨"proto", "mkreq", []⟩] [] },
  { agg := "TrustAnchorProxy", variant := "ProcessSignerResponse",
      fields := [("0", "TrustAnchorSignedResponse"), ("0.signed", "TrustAnchorSignedMessage"), ("0.signed.message", "Base64"), ("0.response", "TrustAnchorSignerResponse"), ("0.response.nonce", "Nonce"), ("0.response.objects", "TrustAnchorObjects"), ("0.response.objects.revision", "ObjectSetRevision"), ("0.response.objects.key_identifier", "KeyIdentifier"), ("0.response.objects.base_uri", "uri::Rsync"), ("0.response.objects.revocations", "Revocations"), ("0.response.objects.crl", "PublishedCrl"), ("0.response.objects.manifest", "PublishedManifest"), ("0.response.objects.issued", "HashMap<KeyIdentifier,IssuedCertificate>"), ("0.response.child_responses", "HashMap<ChildHandle,HashMap<KeyIdentifier,ProvisioningResponse>>")],
      status := .covered .daemon [⟨"proto", "resp", ["0.response.objects.revocations=nonempty", "0.response.objects.issued=nonempty", "0.response.child_responses=nonempty"]⟩, ⟨"proto", "tasync", ["0.response.objects.revocations=empty", "0.response.objects.issued=empty", "0.response.child_responses=empty"]⟩] [] },
  { agg := "TrustAnchorProxy", variant := "AddChild",
      fields := [("0", "AddChildRequest"), ("0.handle", "ChildHandle"), ("0.resources", "ResourceSet"), ("0.id_cert", "IdCert")],
      status := .covered .daemon [⟨"proto", "child", []⟩] [] },
  { agg := "TrustAnchorProxy", variant := "AddChildRequest",
      fields := [("0", "ChildHandle"), ("1", "ProvisioningRequest")],
      status := .covered .daemon [⟨"proto", "sync", []⟩] [] },
  { agg := "TrustAnchorProxy", variant := "GiveChildResponse",
      fields := [("0", "ChildHandle"), ("1", "KeyIdentifier")],
      status := .covered .daemon [⟨"proto", "sync", []⟩] [] },
  { agg := "TrustAnchorSigner", variant := "Init",
      fields := [],
      status := .covered .cli_api [⟨"proto", "reinit", []⟩] [] },
  { agg := "TrustAnchorSigner", variant := "TrustAnchorSignerRequest",
      fields := [("0", "TrustAnchorSignedRequest"), ("0.signed", "TrustAnchorSignedMessage"), ("0.signed.message", "Base64"), ("0.request", "TrustAnchorSignerRequest"), ("0.request.nonce", "Nonce"), ("0.request.child_requests", "Vec<TrustAnchorChildRequests>")],
      status := .covered .cli_api [⟨"proto", "sign", ["0.request.child_requests=nonempty"]⟩, ⟨"proto", "tasync", ["0.request.child_requests=empty"]⟩] [] },
  { agg := "TrustAnchorSigner", variant := "TrustAnchorSignerReissueRequest",
      fields := [("0", "TrustAnchorReissueRequest"), ("0.repo_info", "RepoInfo"), ("0.tal_https", "Vec<uri::Https>"), ("0.tal_rsync", "uri::Rsync")],
      status := .covered .cli_api [⟨"proto", "reissue", ["0.tal_https=nonempty"]⟩, ⟨"proto", "reissue", ["0.tal_https=empty"]⟩] [] }
]

/-- The shapes a kind has to be seen in: both forms of every optional / collection field. -/
def shapeAtoms (k : Kind) : List String :=
  k.fields.flatMap fun f =>
    if f.shape == "opt" then [f.name ++ "=none", f.name ++ "=some"]
    else if f.shape == "coll" then [f.name ++ "=empty", f.name ++ "=nonempty"]
    else []

/-- The row is about this kind: same aggregate, same variant, **same field list**. -/
def rowMatches (k : Kind) (r : Row) : Bool :=
  r.agg == k.agg && r.variant == k.variant && r.fields == k.fields.map (fun f => (f.name, f.ty))

/-- A covered row names an op and accounts for every shape; a row that is not executed has its reason. -/
def rowComplete (k : Kind) (r : Row) : Bool :=
  match r.status with
  | .notExecuted _ why => !why.isEmpty
  | .covered _ claims excused =>
    !claims.isEmpty &&
    (shapeAtoms k).all fun a => claims.any (fun c => c.shapes.contains a) || excused.any (fun e => e.1 == a)

def rowOk (k : Kind) (r : Row) : Bool := rowMatches k r && rowComplete k r

/-- The kind has a reviewed row. -/
def covered (k : Kind) : Bool := coverage.any (rowOk k)

/-- Everything the table claims to be exercised: (stream, aggregate, variant, shape or `-`, op). -/
def claims : List (String × String × String × String × String) :=
  coverage.flatMap fun r =>
    match r.status with
    | .notExecuted _ _ => []
    | .covered _ cs _ => cs.flatMap fun c =>
      (c.stream, r.agg, r.variant, "-", c.op) :: c.shapes.map fun s => (c.stream, r.agg, r.variant, s, c.op)

def reasonName : Reason → String
  | .startup_only => "startup_only"
  | .upgrade_only => "upgrade_only"
  | .legacy_no_constructor => "legacy_no_constructor"
  | .needs_foreign_parent => "needs_foreign_parent"
  | .hsm_only => "hsm_only"

def viaName : Via → String
  | .daemon => "daemon"
  | .cli_api => "cli_only_not_reachable_in_daemon"
  | .manager_fn => "manager_fn_without_daemon_caller"

end KM.ES.CommandCoverage
