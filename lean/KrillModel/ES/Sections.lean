/-
The critical-section discipline of the event-sourcing stores, stated over the table
`Generated/StoreSections.lean` (translator `store_sections`: for every method of
`AggregateStore`, `WalStore`, `KeyValueStore` the storage operations in source order, each
tagged with the `execute(<lock>, |kv| …)` closure it is in).

What the C07 / C06 theorems assume and nothing in them ties to the source: one *call* on one
entity (`add`, `command`, `get_latest`, `save_snapshot`, `drop_aggregate`, WAL `add`,
`send_command`, `update_snapshot`, `remove`) is ONE lock-bracketed phase list –
`Sys/Interleave.lean` brackets `Machine.phases op` by one acquisition of the entity's scope lock.
For the code that means: every storage read the outcome of the call depends on and every
storage write of the call lie in ONE `execute(Some(scope), …)` closure (`oneSection`).  Two
well-formed sections (check in one, write in the next) pass every dynamic "well bracketed" test
and still lose a command: `Props/C07Src.lean`, `check_outside_section_loses_init`.

This file has
* the classification of the operations and of the methods (`role`: total, a new method in the
  source does not compile here before it has been looked at),
* `oneSection`, the reviewed exemptions (`exempt`), `roleOk`,
* the operations the *model* performs per phase (`aggPhaseOps`, `walPhaseOps`, `modelOps`) and the
  abstraction under which they are compared with the generated sequence (`flatOps`, `collapse`),
* the expected section structure of a call for the dynamic check of the `aggstore` stream
  (`expand`, `embeds`, `singleSection`),
* the machines of the counter-models: `add` as the code does it (`addMachine`), `add` with the
  duplicate check in a section of its own (`splitMachine`), `drop_aggregate` with the cache
  removal after the section (`dropMachine`).

Import-free apart from model files (the `aggstore` driver imports it).
-/
import KrillModel.Generated.StoreSections
import KrillModel.Sys.Interleave
namespace KM.ES.Sections
open KM.Generated.StoreSections

/-! ### operations -/

def kvWrite : KvOp → Bool
  | .store | .move_value | .move_scope | .delete | .delete_scope | .clear => true
  | _ => false

def kvRead : KvOp → Bool
  | .has | .has_scope | .get | .list_keys | .list_scopes => true
  | _ => false

def cacheWrite : KvOp → Bool
  | .cache_update | .cache_remove | .cache_write => true
  | _ => false

def cacheRead : KvOp → Bool
  | .cache_get | .cache_read => true
  | _ => false

def isCall : KvOp → Bool
  | .call _ => true
  | _ => false

/-- The operation changes something: the key-value store or a cache. -/
def writes (o : KvOp) : Bool := kvWrite o || cacheWrite o

/-! ### the discipline -/

/-- **oneSection.**  The operations are primitive (a call of another method would run sections
of its own), there is at least one, and all of them lie in one and the same critical section,
which is on the lock of ONE scope (`execute(Some(scope), …)`) and is not nested in another
section. -/
def oneSection : List SectionOp → Bool
  | [] => false
  | o :: rest =>
    (match o.sec with
      | .inside _ .scope 1 => true
      | _ => false) &&
    !isCall o.op && rest.all fun p => p.sec == o.sec && !isCall p.op

/-- The same for a `KeyValueStore` helper: one section, on whatever lock the caller chose. -/
def oneSectionAnyLock : List SectionOp → Bool
  | [] => false
  | o :: rest =>
    (match o.sec with
      | .inside 0 _ 1 => true
      | _ => false) &&
    !isCall o.op && rest.all fun p => p.sec == o.sec && !isCall p.op

/-- **Reviewed exemptions**: operations of a method the discipline does not cover.

* `AggregateStore::drop_aggregate`: the aggregate cache and the history cache are cleared
  *after* the scope lock has been released.  A command of another thread that gets the scope
  lock in between still finds the deleted entity in the cache and stores `command-N.json` into
  the emptied scope (`Props/C07Src.lean`, `drop_cache_after_section_strays`).  C07's concurrency
  theorems therefore do not quantify over `drop_aggregate` racing with commands on the same
  entity (assumption listed in checks/C07.py); the `conc` stream serialises deletions with the
  other calls.
* `WalStore::remove`: `has_scope` under the store-wide lock decides between `Unknown` and the
  deletion; only the error kind of a removal that races with another removal depends on it
  (the deletion itself is one section).  The cache is cleared after the section, as above
  (krill removes a task queue / repository content only at shutdown of the component).
* `WalStore::warm`: start-up only, before any other thread uses the store; writes what it just
  read into the cache without a lock. -/
def exempt : StoreMethod → List SectionOp
  | .agg_drop_aggregate => [⟨.cache_remove, .outside, false⟩, ⟨.hcache_lock, .outside, false⟩]
  | .wal_remove => [⟨.call .kv_has_scope, .outside, false⟩, ⟨.cache_remove, .outside, false⟩]
  | .wal_warm => [⟨.cache_write, .outside, true⟩]
  | _ => []

def checkedOps (m : MethodRow) : List SectionOp :=
  m.ops.filter fun o => !(exempt m.name).contains o

/-- What a method is. -/
inductive Role where
  /-- one call on one entity: the unit the C07 / C06 theorems call atomic -/
  | entityCall
  /-- hands the call on to exactly one other method and does nothing else -/
  | delegate
  /-- neither it nor anything it calls changes the store or a cache; may run several sections
  (a history query takes the scope lock once per command it reads: `history_read_linearisable`) -/
  | readOnly
  /-- walks over the entities and calls entity calls; nothing of its own -/
  | composite
  /-- `cache_get` / `cache_update` / `cache_remove` themselves -/
  | cacheHelper
  /-- a `KeyValueStore` method: one section on the lock its caller chose -/
  | kvHelper
deriving DecidableEq, Repr

/-- Every method with storage operations has been looked at (a new one breaks this match). -/
def role : StoreMethod → Role
  | .agg_add_with_context | .agg_execute_opt_command | .agg_drop_aggregate
  | .wal_add | .wal_execute_opt_command | .wal_remove => .entityCall
  | .agg_get_latest | .agg_save_snapshot | .agg_command_with_context | .agg_add | .agg_command
  | .agg_has | .agg_get_command
  | .wal_has | .wal_get_latest | .wal_list | .wal_send_command | .wal_update_snapshot => .delegate
  | .agg_list | .agg_command_history | .agg_update_history_records => .readOnly
  | .agg_warm | .agg_update_snapshots | .wal_warm | .wal_update_snapshots => .composite
  | .agg_cache_get | .agg_cache_remove | .agg_cache_update
  | .wal_cache_get | .wal_cache_remove | .wal_cache_update => .cacheHelper
  | .kv_wipe | .kv_store | .kv_store_new | .kv_get | .kv_has | .kv_drop_key | .kv_keys
  | .kv_has_scope | .kv_drop_scope | .kv_scopes => .kvHelper

def mutating (n : StoreMethod) : Bool := role n == .entityCall

def opsOf (n : StoreMethod) : List SectionOp :=
  match storeMethods.find? (·.name == n) with
  | some r => r.ops
  | none => []

/-- The method or something it calls (to the given depth; out of depth counts as writing)
changes the store or a cache. -/
def writesWithin : Nat → StoreMethod → Bool
  | 0, _ => true
  | f + 1, n => (opsOf n).any fun o =>
      writes o.op || match o.op with
        | .call m => writesWithin f m
        | _ => false

def outsideCall (o : SectionOp) : Bool := isCall o.op && o.sec == .outside

def roleOk (m : MethodRow) : Bool :=
  match role m.name with
  | .entityCall => oneSection (checkedOps m) && m.sections == 1
  | .delegate => m.ops.length == 1 && m.ops.all outsideCall && m.sections == 0
  | .readOnly => !writesWithin 6 m.name
  | .composite => (checkedOps m).all outsideCall && m.sections == 0
  | .cacheHelper => m.sections == 0 &&
      m.ops.all fun o => (o.op == .cache_read || o.op == .cache_write) && o.sec == .outside
  | .kvHelper => oneSectionAnyLock m.ops && m.sections == 1

/-! ### the operations of the model's phases -/

/-- Names for the phases of `execute_opt_command` (`ES/AggStore.lean`, `ES/Wal.lean`). -/
inductive Phase where
  | load | catchUp | decide | store | process | cache | snapshot | finish
deriving DecidableEq, Repr

def aggPhaseNames : List Phase := [.load, .catchUp, .decide, .store, .cache, .snapshot, .finish]

def aggPhaseFn {A : Agg} (i : Nat) (cmd : Option (Sent A)) (snap wfail : Bool) :
    Phase → Ent A × Local A → Ent A × Local A
  | .load => phLoad i
  | .catchUp => phCatchUp
  | .decide => phDecide cmd
  | .store => phStore wfail
  | .process => phProcess cmd wfail
  | .cache => phCache i
  | .snapshot => phSnapshot snap wfail
  | .finish => phFinish

/-- What each phase of the aggregate store's `execute_opt_command` reads and writes, in the
order of the code it models:
`load` – cache, else `snapshot.json`, else `command-0.json`; `catchUp` – is there a next command,
then read commands until one is missing; `decide` – the new command key must be free; `store` –
write the command; `cache` – update the cache; `snapshot` – write `snapshot.json`. -/
def aggPhaseOps : Phase → List KvOp
  | .load => [.cache_get, .get, .get]
  | .catchUp => [.has, .get]
  | .decide => [.has]
  | .store => [.store]
  | .process => [.has, .store]
  | .cache => [.cache_update]
  | .snapshot => [.store]
  | .finish => []

def walPhaseNames : List Phase := [.load, .catchUp, .process, .cache, .snapshot, .finish]

def walPhaseFn {T : Wal.WalT} (i : Nat) (cmd : Option T.Cmd) (snap wfail : Bool) :
    Phase → Wal.Ent T × Wal.Local T → Wal.Ent T × Wal.Local T
  | .load => Wal.phLoad i
  | .catchUp => Wal.phCatchUp
  | .process => Wal.phProcess cmd wfail
  | .cache => Wal.phCache i
  | .snapshot => Wal.phSnapshot snap wfail
  | .finish => Wal.phFinish
  | .decide | .store => id

/-- The same for the WAL store: `load` – cache, else `snapshot.json`; `catchUp` – read change
sets until one is missing; `process` – the key must be free, write the change set; `snapshot` –
write `snapshot.json`, list the keys, delete every `wal-` key. -/
def walPhaseOps : Phase → List KvOp
  | .load => [.cache_get, .get]
  | .catchUp => [.get]
  | .process => [.has, .store]
  | .cache => [.cache_update]
  | .snapshot => [.store, .list_keys, .delete]
  | .finish => []
  | .decide | .store => []

/-- The operations of the model of a whole call, in order.
`add` is the single phase `phAdd` (is `command-0` there, write it, update the cache);
`drop_aggregate` is `dropAggregate` (scope deleted, cache entry removed); WAL `add` / `remove` are
`Wal.add` (write the snapshot, update the cache) / `Wal.remove` (does the scope exist, delete it,
remove the cache entry). -/
def modelOps : StoreMethod → Option (List KvOp)
  | .agg_add_with_context => some [.has, .store, .cache_update]
  | .agg_execute_opt_command => some (aggPhaseNames.flatMap aggPhaseOps)
  | .agg_drop_aggregate => some [.delete_scope, .cache_remove]
  | .wal_add => some [.store, .cache_update]
  | .wal_execute_opt_command => some (walPhaseNames.flatMap walPhaseOps)
  | .wal_remove => some [.has_scope, .delete_scope, .cache_remove]
  | _ => none

/-- The abstraction, source side: calls of `KeyValueStore` helpers and of other methods are
replaced by the operations of the called method (to the given depth), the history-cache mutex
is not a storage operation. -/
def flatten : Nat → List SectionOp → List KvOp
  | 0, _ => []
  | f + 1, ops => ops.flatMap fun o =>
      match o.op with
      | .call m => flatten f (opsOf m)
      | .hcache_lock => []
      | op => [op]

def flatOps (m : MethodRow) : List KvOp := flatten 6 m.ops

/-- The abstraction, both sides: an operation that directly follows the same operation is
dropped.  This identifies (a) the two `kv.store` of the error branch and the success branch of
`execute_opt_command` with the one `phStore`, (b) a loop body with one round of it. -/
def collapse : List KvOp → List KvOp
  | [] => []
  | [a] => [a]
  | a :: b :: rest => if a == b then collapse (b :: rest) else a :: collapse (b :: rest)

/-! ### the section structure of a call, for the dynamic check -/

/-- One critical section a call may run: the lock, the operations the event log can show in it,
whether it may be run more than once. -/
structure Item where
  lock : Lock
  allowed : List String
  rep : Bool
deriving Repr

/-- The name of the operation in the event log of `krill::verif::lockpoint` (operations without
a log point: scope-level queries, moves, caches). -/
def logName : KvOp → Option String
  | .has => some "has"
  | .get => some "get"
  | .list_keys => some "list"
  | .store => some "store"
  | .delete => some "delete"
  | .delete_scope => some "delete_scope"
  | _ => none

def secIdx : Sec → Option (Nat × Lock)
  | .inside i l _ => some (i, l)
  | .outside => none

/-- The sections of the operation list `all` in source order; `sub` expands a called method.  (A
logged operation outside every section yields no item: the observed `o` section fits nothing.) -/
def walk (sub : Bool → StoreMethod → List Item) (all : List SectionOp) (rep : Bool) :
    List Nat → List SectionOp → List Item
  | _, [] => []
  | seen, o :: rest =>
    match o.op, secIdx o.sec with
    | .call m, _ => sub (rep || o.rep) m ++ walk sub all rep seen rest
    | _, some (i, l) =>
      if seen.contains i then walk sub all rep seen rest
      else
        let mine := all.filter fun p => secIdx p.sec == some (i, l) && !isCall p.op
        ⟨l, mine.filterMap (fun p => logName p.op), rep⟩ :: walk sub all rep (i :: seen) rest
    | _, none => walk sub all rep seen rest

/-- The sections a call of `n` may run, in source order, calls expanded (to the given depth).
`rep`: the call itself is inside a loop. -/
def expand : Nat → Bool → StoreMethod → List Item
  | 0, _, _ => []
  | f + 1, rep, n => walk (expand f) (opsOf n) rep [] (opsOf n)

/-- One observed critical section of a call: `s` – the scope lock of the call's entity, `x` –
another scope's lock, `g` – the store-wide lock, `o` – operations outside every section. -/
structure ObsSec where
  kind : String
  ops : List String
deriving Repr, DecidableEq

def lockFits : Lock → String → Bool
  | .scope, k => k == "s"
  | .global, k => k == "g"
  | .arg, k => k == "s" || k == "g"

def fitsSec (it : Item) (o : ObsSec) : Bool :=
  lockFits it.lock o.kind && o.ops.all fun x => it.allowed.contains x

/-- The observed sections are, in order, sections of the expected list (one that may repeat
matches several; a section that is not reached – an early return – is skipped). -/
def embeds : Nat → List Item → List ObsSec → Bool
  | _, _, [] => true
  | 0, _, _ => false
  | _ + 1, [], _ :: _ => false
  | f + 1, it :: rest, o :: os =>
    (fitsSec it o && (embeds f rest os || (it.rep && embeds f (it :: rest) os))) ||
      embeds f rest (o :: os)

/-- `FAIL model sections`: the call ran sections the table does not have, or an operation
outside the section the table puts it in. -/
def sectionsFit (n : StoreMethod) (obs : List ObsSec) : Bool :=
  let items := expand 6 false n
  embeds (items.length + obs.length + 1) items obs

/-- `single_section`, on the implementation alone: all storage operations of the call lie in
ONE section on the lock of the call's entity; other sections hold no operation of the log. -/
def singleSection (obs : List ObsSec) : Bool :=
  (obs.filter (·.kind == "s")).length ≤ 1 && obs.all fun o => o.kind == "s" || o.ops.isEmpty

/-! ### machines of the counter-models -/

open KM.Sys

/-- An `add` call through store object `i`. -/
structure AddCall (A : Agg) where
  i : Nat
  actor : String
  ic : A.InitCmd
  wfail : Bool := false

/-- `add_with_context` as the code does it: duplicate check and write in one section. -/
def addMachine (A : Agg) : Machine where
  S := Ent A
  Op := AddCall A
  Loc := Local A
  Out := Out A
  start := fun _ => Local.start
  phases := fun c => [phAdd c.i c.actor c.ic c.wfail]
  finish := fun _ l => l.out

/-- What `phAdd` does once the duplicate check has let it pass. -/
def phAddUnchecked {A : Agg} (i : Nat) (actor : String) (ic : A.InitCmd) (wfail : Bool)
    (p : Ent A × Local A) : Ent A × Local A :=
  match p.2 with
  | .start =>
    match A.processInit ic with
    | .error e => (p.1, .done (.err e))
    | .ok ev =>
      if wfail then (p.1, .done .kvErr)
      else
        let v : Ver A := ⟨A.initVersion, A.init ev⟩
        ({ p.1 with kv := p.1.kv.putCmd 0 ⟨actor, 0, none, .init ev⟩,
                    cache := ainsert p.1.cache i v }, .done (.ok v))
  | _ => p

/-- Shared state of the split variant: the entity and, per caller, what its duplicate check saw
(`true` = the handle was free).  The entry of a caller is that caller's local variable; it
lives here only because a thread of `Sys/Interleave.lean` carries nothing from one lock bracket
to the next. -/
structure SplitS (A : Agg) where
  ent : Ent A
  free : List (Nat × Bool) := []

/-- `add` with the duplicate check in a section of its own: `check` = `self.has(handle)?`,
`write` = the `execute` closure without the check. -/
inductive SplitOp (A : Agg) where
  | check (caller : Nat)
  | write (caller : Nat) (c : AddCall A)

def phCheck {A : Agg} (caller : Nat) (p : SplitS A × Local A) : SplitS A × Local A :=
  ({ p.1 with free := ainsert p.1.free caller (!p.1.ent.kv.hasCmd 0) }, p.2)

def phWrite {A : Agg} (caller : Nat) (c : AddCall A) (p : SplitS A × Local A) :
    SplitS A × Local A :=
  match alookup p.1.free caller with
  | some true =>
    let r := phAddUnchecked c.i c.actor c.ic c.wfail (p.1.ent, p.2)
    ({ p.1 with ent := r.1 }, r.2)
  | _ => (p.1, .done .duplicate)

/-- Results: `none` for the check (it returns nothing to the caller of `add`). -/
def splitMachine (A : Agg) : Machine where
  S := SplitS A
  Op := SplitOp A
  Loc := Local A
  Out := Option (Out A)
  start := fun _ => Local.start
  phases := fun
    | .check caller => [phCheck caller]
    | .write caller c => [phWrite caller c]
  finish := fun op l =>
    match op with
    | .check _ => none
    | .write _ _ => some l.out

/-- `drop_aggregate` as the code does it – the scope is deleted in the section, the cache entry
of the calling store object is removed after the lock has been released – next to commands. -/
inductive DropOp (A : Agg) where
  | call (c : AggCall A)
  | dropKv
  | dropCache (i : Nat)

def dropMachine (A : Agg) : Machine where
  S := Ent A
  Op := DropOp A
  Loc := Local A
  Out := Option (Out A)
  start := fun _ => Local.start
  phases := fun
    | .call c => c.phases
    | .dropKv => [fun p => ({ p.1 with kv := {} }, p.2)]
    | .dropCache i => [fun p => ({ p.1 with cache := aerase p.1.cache i, hcache := aerase p.1.hcache i }, p.2)]
  finish := fun op l =>
    match op with
    | .call _ => some l.out
    | _ => none

end KM.ES.Sections
