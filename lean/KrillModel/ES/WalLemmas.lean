/- Helper lemmas for the WAL store model (no property statements here). -/
import KrillModel.ES.Lemmas
namespace KM.ES.Wal
open KM.ES

variable {T : WalT}

theorem applySet_revision {v v' : WVer T} {s : WSet T} (h : applySet v s = some v') :
    v'.revision = v.revision + 1 := by
  unfold applySet at h
  simp at h
  obtain ⟨_, _, rfl⟩ := h
  rfl

theorem reaches_rev_le {kv : Scope T} {v cur : WVer T} (h : Reaches kv v cur) :
    v.revision ≤ cur.revision := by
  induction h with
  | refl v => exact Nat.le_refl _
  | step _ ha _ ih => have := applySet_revision ha; omega

theorem reaches_stuck {kv : Scope T} {v cur : WVer T} (h : Reaches kv v cur)
    (hn : kv.getWal v.revision = none) : v = cur := by
  cases h with
  | refl => rfl
  | step hg _ _ => rw [hn] at hg; cases hg

theorem reaches_trans {kv : Scope T} {a b c : WVer T} (h1 : Reaches kv a b) (h2 : Reaches kv b c) :
    Reaches kv a c := by
  induction h1 with
  | refl => exact h2
  | step hg ha _ ih => exact Reaches.step hg ha (ih h2)

/-- Looking only below `cur`'s revision, a reachability proof survives any change of the
change sets at or above it. -/
theorem reaches_congr {kv kv' : Scope T} {v cur : WVer T} (h : Reaches kv v cur)
    (hc : ∀ k, k < cur.revision → kv'.getWal k = kv.getWal k) : Reaches kv' v cur := by
  induction h with
  | refl v => exact Reaches.refl v
  | step hg ha hr ih =>
    rename_i v v' cur s
    have hlt : v.revision < cur.revision := by
      have := applySet_revision ha
      have := reaches_rev_le hr
      omega
    exact Reaches.step (by rw [hc _ hlt]; exact hg) ha (ih hc)

@[simp] theorem getWal_insert (kv : Scope T) (n k : Nat) (s : WSet T) :
    ({ kv with wals := ainsert kv.wals n s } : Scope T).getWal k
      = if k = n then some s else kv.getWal k := by
  simp [Scope.getWal, alookup_ainsert]

/-- Catch-up from anything that reaches `cur` yields `cur`. -/
theorem catchUp_reaches {kv : Scope T} {v cur : WVer T} (h : Reaches kv v cur)
    (hn : kv.getWal cur.revision = none) :
    ∀ fuel, cur.revision - v.revision + 1 ≤ fuel →
      catchUp kv fuel v = some (cur, decide (v.revision < cur.revision)) := by
  induction h with
  | refl v =>
    intro fuel hf
    cases fuel with
    | zero => omega
    | succ f => simp [catchUp, hn]
  | step hg ha hr ih =>
    rename_i v v' cur s
    intro fuel hf
    have h1 := applySet_revision ha
    have h2 := reaches_rev_le hr
    cases fuel with
    | zero => omega
    | succ f =>
      simp only [catchUp, hg, ha]
      rw [ih hn f (by omega)]
      have : v.revision < cur.revision := by omega
      simp [this]

theorem getWal_lt_keyBound {kv : Scope T} {k : Nat} {s : WSet T} (h : kv.getWal k = some s) :
    k < keyBound kv.wals := alookup_lt_keyBound h

theorem reaches_le_keyBound {kv : Scope T} {v cur : WVer T} (h : Reaches kv v cur)
    (hlt : v.revision < cur.revision) : cur.revision ≤ keyBound kv.wals := by
  induction h with
  | refl v => omega
  | step hg ha hr ih =>
    have h1 := applySet_revision ha
    have h2 := reaches_rev_le hr
    have h3 := getWal_lt_keyBound hg
    rename_i v v' cur s
    by_cases hc : v'.revision < cur.revision
    · exact ih hc
    · omega

/-- Enough fuel: the keys between `v` and `cur` all exist. -/
theorem fuel_enough {kv : Scope T} {v cur : WVer T} (h : Reaches kv v cur) :
    cur.revision - v.revision + 1 ≤ kv.fuel := by
  unfold Scope.fuel
  by_cases hlt : v.revision < cur.revision
  · have := reaches_le_keyBound h hlt; omega
  · omega

theorem execOpt_eq (e : Ent T) (i : Nat) (cmd : Option T.Cmd) (snap wfail : Bool) :
    execOpt e i cmd snap wfail =
      ((phFinish (phSnapshot snap wfail (phCache i (phProcess cmd wfail
          (phCatchUp (phLoad i (e, Local.start))))))).1,
       (phFinish (phSnapshot snap wfail (phCache i (phProcess cmd wfail
          (phCatchUp (phLoad i (e, Local.start))))))).2.out) := rfl

/-- Load and catch-up on an existing entity deliver `cur`; the flag is false only on a cache
hit that was already current. -/
theorem load_catchUp {e : Ent T} {cur : WVer T} (h : WInv e cur) (i : Nat) :
    ∃ ch, phCatchUp (phLoad i (e, Local.start)) = (e, Local.loaded cur ch) ∧
      (ch = false → alookup e.cache i = some cur) := by
  have hn := h.above cur.revision (Nat.le_refl _)
  cases hc : alookup e.cache i with
  | some c =>
    have hr := h.cache i c hc
    have := catchUp_reaches hr hn e.kv.fuel (fuel_enough hr)
    refine ⟨decide (c.revision < cur.revision), by simp [phLoad, hc, phCatchUp, this], ?_⟩
    intro hch
    have : ¬ c.revision < cur.revision := by simpa using hch
    have hle := reaches_rev_le hr
    have heq : c.revision = cur.revision := by omega
    rw [reaches_stuck hr (by rw [heq]; exact hn)]
  | none =>
    obtain ⟨s, hs, hr⟩ := h.snap
    have := catchUp_reaches hr hn e.kv.fuel (fuel_enough hr)
    exact ⟨true, by simp [phLoad, hc, hs, phCatchUp, this], by intro h; cases h⟩

theorem load_absent {e : Ent T} (h : Absent e) (i : Nat) :
    phLoad i (e, Local.start) = (e, Local.done .unknown) := by
  simp [phLoad, h.2.2 i, h.1]

theorem execOpt_absent {e : Ent T} (h : Absent e) (i : Nat) (cmd : Option T.Cmd) (snap wfail : Bool) :
    execOpt e i cmd snap wfail = (e, .unknown) := by
  rw [execOpt_eq, load_absent h i]; rfl

theorem WInv.setCache {e : Ent T} {cur : WVer T} (h : WInv e cur) (i : Nat) :
    WInv { e with cache := ainsert e.cache i cur } cur :=
  { h with
    cache := by
      intro j c hj
      simp only [alookup_ainsert] at hj
      by_cases hji : j = i
      · simp [hji] at hj; rw [← hj]; exact Reaches.refl _
      · simp [hji] at hj; exact h.cache j c hj }

/-- A read (`get_latest`): returns `cur`, invariant kept. -/
theorem execOpt_get {e : Ent T} {cur : WVer T} (h : WInv e cur) (i : Nat) :
    (execOpt e i none false false).2 = .ok cur ∧ WInv (execOpt e i none false false).1 cur := by
  obtain ⟨ch, hlc, _⟩ := load_catchUp h i
  rw [execOpt_eq, hlc]
  cases ch <;> simp [phProcess, phCache, phSnapshot, phFinish, Local.out, h, h.setCache i]

/-- `update_snapshot` when the other store objects are current. -/
theorem execOpt_snap {e : Ent T} {cur : WVer T} (h : WInv e cur) (i : Nat) (wfail : Bool)
    (hs : othersCurrent e i) :
    WInv (execOpt e i none true wfail).1 cur := by
  obtain ⟨ch, hlc, hch⟩ := load_catchUp h i
  rw [execOpt_eq, hlc]
  cases wfail
  · -- after the cache phase instance `i` holds `cur` in every case
    have hi : ∀ (e' : Ent T), e'.kv = e.kv →
        (∀ j c, alookup e'.cache j = some c → (j = i ∧ c = cur) ∨ (j ≠ i ∧ alookup e.cache j = some c)) →
        WInv { e' with kv := { wals := [], snapshot := some cur } } cur := by
      intro e' _ hc'
      refine ⟨⟨cur, rfl, Reaches.refl _⟩, by intro k _; rfl, ?_⟩
      intro j c hj
      rcases hc' j c hj with ⟨_, rfl⟩ | ⟨hji, hjc⟩
      · exact Reaches.refl _
      · have hr := h.cache j c hjc
        rw [reaches_stuck hr (hs j c hji hjc)]
        exact Reaches.refl _
    cases ch
    · simp only [phProcess, phCache, phSnapshot, phFinish, if_true, Bool.false_eq_true, if_false]
      apply hi e rfl
      intro j c hj
      by_cases hji : j = i
      · left; subst hji; rw [hch rfl] at hj; exact ⟨rfl, (Option.some.inj hj).symm⟩
      · right; exact ⟨hji, hj⟩
    · simp only [phProcess, phCache, phSnapshot, phFinish, if_true, Bool.false_eq_true, if_false]
      apply hi { e with cache := ainsert e.cache i cur } rfl
      intro j c hj
      simp only [alookup_ainsert] at hj
      by_cases hji : j = i
      · left; simp [hji] at hj; exact ⟨hji, hj.symm⟩
      · right; simp [hji] at hj; exact ⟨hji, hj⟩
  · cases ch <;> simp [phProcess, phCache, phSnapshot, phFinish, h, h.setCache i]

/-- A command: the current value moves on by one change set, or nothing happens. -/
theorem execOpt_cmd {e : Ent T} {cur : WVer T} (h : WInv e cur) (i : Nat) (c : T.Cmd) (wfail : Bool) :
    ∃ cur', WInv (execOpt e i (some c) false wfail).1 cur' := by
  obtain ⟨ch, hlc, _⟩ := load_catchUp h i
  have hn := h.above cur.revision (Nat.le_refl _)
  rw [execOpt_eq, hlc]
  cases hp : T.process cur.st c with
  | error err => exact ⟨cur, by simp [phProcess, hp, phCache, phSnapshot, phFinish, h]⟩
  | ok xs =>
    cases xs with
    | nil =>
      exact ⟨cur, by cases ch <;> simp [phProcess, hp, phCache, phSnapshot, phFinish, h, h.setCache i]⟩
    | cons x xs =>
      simp only [phProcess, hp, hn, Option.isSome_none, Bool.false_eq_true, if_false]
      cases ha : applySet cur ⟨cur.revision, x :: xs⟩ with
      | none => exact ⟨cur, by simp [phCache, phSnapshot, phFinish, h]⟩
      | some cur' =>
        cases wfail
        · refine ⟨cur', ?_⟩
          have hrev := applySet_revision ha
          simp only [Bool.false_eq_true, if_false, phCache, phSnapshot, phFinish]
          -- the scope with the new change set
          have hext : ∀ v, Reaches e.kv v cur →
              Reaches ({ e.kv with wals := ainsert e.kv.wals cur.revision ⟨cur.revision, x :: xs⟩ } : Scope T) v cur' := by
            intro v hv
            have h1 : Reaches ({ e.kv with wals := ainsert e.kv.wals cur.revision ⟨cur.revision, x :: xs⟩ } : Scope T) v cur :=
              reaches_congr hv (by intro k hk; simp; intro hk'; omega)
            exact reaches_trans h1 (Reaches.step (by simp) ha (Reaches.refl _))
          refine ⟨?_, ?_, ?_⟩
          · obtain ⟨s, hs, hr⟩ := h.snap
            exact ⟨s, hs, hext s hr⟩
          · intro k hk
            simp only [getWal_insert]
            have : k ≠ cur.revision := by omega
            simp only [this, if_false]
            exact h.above k (by omega)
          · intro j c' hj
            simp only [alookup_ainsert] at hj
            by_cases hji : j = i
            · simp [hji] at hj; rw [← hj]; exact Reaches.refl _
            · simp [hji] at hj; exact hext c' (h.cache j c' hj)
        · exact ⟨cur, by simp [phCache, phSnapshot, phFinish, h]⟩

theorem WInv.restart {e : Ent T} {cur : WVer T} (h : WInv e cur) (i : Nat) : WInv (restart e i) cur :=
  { h with
    cache := by
      intro j c hj
      change alookup (aerase e.cache i) j = some c at hj
      by_cases hji : j = i
      · subst hji; simp [alookup_aerase_same] at hj
      · rw [alookup_aerase_ne _ hji] at hj; exact h.cache j c hj }

theorem Absent.restart {e : Ent T} (h : Absent e) (i : Nat) : Absent (restart e i) := by
  refine ⟨h.1, h.2.1, ?_⟩
  intro j
  change alookup (aerase e.cache i) j = none
  by_cases hji : j = i
  · subst hji; exact alookup_aerase_same _ _
  · rw [alookup_aerase_ne _ hji]; exact h.2.2 j

/-- Either the entity does not exist, or the invariant holds for some current value. -/
def WState (e : Ent T) : Prop := Absent e ∨ ∃ cur, WInv e cur

theorem step_preserves {e : Ent T} (h : WState e) (op : Op T)
    (hsafe : match op with
      | .snap i _ => othersCurrent e i
      | .add _ _ _ _ => Absent e
      | _ => True) : WState (step e op).1 := by
  cases op with
  | add i inst wf disk =>
    simp only [step, add]
    cases wf
    · simp only [Bool.false_eq_true, if_false]
      right
      refine ⟨inst, ⟨inst, rfl, Reaches.refl _⟩, ?_, ?_⟩
      · intro k _; exact hsafe.2.1 k
      · intro j c hj
        simp only [alookup_ainsert] at hj
        by_cases hji : j = i
        · simp [hji] at hj; rw [← hj]; exact Reaches.refl _
        · simp [hji] at hj; rw [hsafe.2.2 j] at hj; cases hj
    · simp only [if_true]
      exact Or.inl ⟨hsafe.1, hsafe.2.1, hsafe.2.2⟩
  | cmd i c wf =>
    simp only [step, sendCommand]
    rcases h with ha | ⟨cur, hc⟩
    · rw [execOpt_absent ha]; exact Or.inl ha
    · exact Or.inr (execOpt_cmd hc i c wf)
  | get i =>
    simp only [step, getLatest]
    rcases h with ha | ⟨cur, hc⟩
    · rw [execOpt_absent ha]; exact Or.inl ha
    · exact Or.inr ⟨cur, (execOpt_get hc i).2⟩
  | snap i wf =>
    simp only [step, updateSnapshot]
    rcases h with ha | ⟨cur, hc⟩
    · rw [execOpt_absent ha]; exact Or.inl ha
    · exact Or.inr ⟨cur, execOpt_snap hc i wf hsafe⟩
  | restart i =>
    simp only [step]
    rcases h with ha | ⟨cur, hc⟩
    · exact Or.inl (ha.restart i)
    · exact Or.inr ⟨cur, hc.restart i⟩

theorem run_preserves {e : Ent T} (h : WState e) (ops : List (Op T)) (hs : SafeRun e ops) :
    WState (run e ops) := by
  induction ops generalizing e with
  | nil => exact h
  | cons op rest ih =>
    simp only [run, List.foldl_cons]
    exact ih (step_preserves h op hs.1) hs.2

theorem absent_empty : Absent ({} : Ent T) := ⟨rfl, fun _ => rfl, fun _ => rfl⟩

theorem WInv.clearCache {e : Ent T} {cur : WVer T} (h : WInv e cur) : WInv { e with cache := [] } cur :=
  { h with cache := by intro i c hc; simp at hc }

/-! ### the decidable usage predicate -/

theorem absent_of_B {e : Ent T} (h : absentB e = true) : Absent e := by
  unfold absentB at h
  simp only [Bool.and_eq_true] at h
  obtain ⟨⟨h1, h2⟩, h3⟩ := h
  refine ⟨by simpa using h1, ?_, ?_⟩
  · intro k
    have : e.kv.wals = [] := by simpa using h2
    simp [Scope.getWal, this]
  · intro i
    have : e.cache = [] := by simpa using h3
    simp [this]

theorem othersCurrent_of_B {e : Ent T} {i : Nat} (h : othersCurrentB e i = true) :
    othersCurrent e i := by
  unfold othersCurrentB at h
  intro j c hj hc
  -- the entry found by the look-up is a member of the list
  have hmem : ∀ (l : List (Nat × WVer T)), alookup l j = some c → (j, c) ∈ l := by
    intro l
    induction l with
    | nil => intro h0; simp at h0
    | cons p t ih =>
      obtain ⟨k, v⟩ := p
      intro h0
      rw [alookup_cons] at h0
      by_cases hk : k = j
      · simp [hk] at h0; subst hk; subst h0; exact List.mem_cons_self
      · simp [hk] at h0; exact List.mem_cons_of_mem _ (ih h0)
  have := List.all_eq_true.mp h (j, c) (hmem e.cache hc)
  simp only [Bool.or_eq_true, beq_iff_eq] at this
  rcases this with h1 | h1
  · exact absurd h1 hj
  · simpa using h1

theorem safeRun_of_B {e : Ent T} {ops : List (Op T)} (h : safeRunB e ops = true) :
    SafeRun e ops := by
  induction ops generalizing e with
  | nil => trivial
  | cons o rest ih =>
    simp only [safeRunB, Bool.and_eq_true] at h
    refine ⟨?_, ih h.2⟩
    cases o with
    | add i inst wf disk => exact absent_of_B h.1
    | cmd i c wf => trivial
    | get i => trivial
    | snap i wf => exact othersCurrent_of_B h.1
    | restart i => trivial

/-- The side condition of `update_snapshot` is exactly what is needed: on an existing entity
(invariant `WInv`), after a successful snapshot through store object `i` every store object
still returns the current value **iff** every other store object was current. -/
theorem snapshot_safe_iff {e : Ent T} {cur : WVer T} (h : WInv e cur) (i : Nat) :
    (∀ j, (getLatest (updateSnapshot e i).1 j).2 = .ok cur) ↔ othersCurrent e i := by
  constructor
  · intro hall j c hj hc
    -- suppose `j`'s cache `c` still had a change set to apply
    cases hg : e.kv.getWal c.revision with
    | none => rfl
    | some s =>
      exfalso
      have hlt : c.revision < cur.revision := by
        rcases Nat.lt_or_ge c.revision cur.revision with h1 | h1
        · exact h1
        · rw [h.above c.revision h1] at hg; cases hg
      -- after the snapshot `j` still holds `c`, and there is nothing left to apply to it
      obtain ⟨ch, hlc, _⟩ := load_catchUp h i
      have hj' : alookup (updateSnapshot e i).1.cache j = some c ∧
          (updateSnapshot e i).1.kv.wals = [] := by
        simp only [updateSnapshot]
        rw [execOpt_eq, hlc]
        cases ch <;>
          simp [phProcess, phCache, phSnapshot, phFinish, alookup_ainsert, hj, hc]
      have hres := hall j
      simp only [getLatest] at hres
      rw [execOpt_eq] at hres
      have hcu : catchUp (updateSnapshot e i).1.kv (updateSnapshot e i).1.kv.fuel c = some (c, false) := by
        unfold Scope.fuel
        simp [catchUp, Scope.getWal, hj'.2]
      simp [phLoad, hj'.1, phCatchUp, hcu, phProcess, phCache, phSnapshot, phFinish, Local.out] at hres
      rw [hres] at hlt
      omega
  · intro hs j
    exact (execOpt_get (execOpt_snap h i false hs) j).1

end KM.ES.Wal
