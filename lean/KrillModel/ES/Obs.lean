/-
Observations of the event-sourcing stores and the *executable* property predicates over them.

`OView` is what can be seen of one entity scope through the public key-value API: the key
names, the stored command records (rendered), the snapshot.  The harness prints exactly this
for the real store; `oView` computes it for the model.  The predicates below are Boolean
functions of observations only, so the driver can evaluate them on the implementation's own
trace (oracle); `Props/C06.lean` and `Props/C07.lean` prove that the model satisfies them in
every reachable state.

Import-free (model files only).
-/
import KrillModel.ES.Wal
namespace KM.ES.Obs
open KM.ES

inductive OEffect where
  | init (s : String)
  | ok (s : String)
  | err (s : String)
deriving DecidableEq, Repr, Inhabited

def OEffect.isInit : OEffect → Bool
  | .init _ => true
  | _ => false

/-- One stored `command-N.json` (or `wal-N.json`) as observed. -/
structure OCmd where
  key : Nat
  actor : String
  version : Nat
  details : String
  effect : OEffect
deriving DecidableEq, Repr, Inhabited

structure OView where
  keys : List String := []
  cmds : List OCmd := []
  snap : Option (Nat × String) := none
deriving DecidableEq, Repr, Inhabited

inductive ORet where
  | ok (version : Nat) (st : String)
  | err (kind : String)
deriving DecidableEq, Repr, Inhabited

/-- One history record as observed: version, actor, details, result (`ok`, `err(kind)`). -/
structure ORec where
  version : Nat
  actor : String
  details : String
  result : String
deriving DecidableEq, Repr, Inhabited

/-! ### rendering the model -/

structure Render (A : Agg) where
  st : A.State → String
  cmd : A.Cmd → String
  evs : List A.Ev → String
  initEv : A.InitEv → String
  err : A.Err → String

def oCmd {A : Agg} (R : Render A) (k : Nat) (c : Stored A) : OCmd :=
  { key := k, actor := c.actor, version := c.version,
    details := match c.details with | none => "init" | some d => R.cmd d,
    effect := match c.effect with
      | .init ev => .init (R.initEv ev)
      | .success evs => .ok (R.evs evs)
      | .error e => .err (R.err e) }

/-- Stored commands in key order. -/
def oCmds {A : Agg} (R : Render A) (kv : Scope A) : List OCmd :=
  (List.range (keyBound kv.cmds)).filterMap fun k => (kv.getCmd k).map (oCmd R k)

def cmdKeyName (k : Nat) : String := "c" ++ toString k

def oKeys {A : Agg} (kv : Scope A) : List String :=
  ((List.range (keyBound kv.cmds)).filterMap fun k =>
      if kv.hasCmd k then some (cmdKeyName k) else none) ++
    (if kv.snapshot.isSome then ["s"] else [])

def oSnap {A : Agg} (R : Render A) (kv : Scope A) : Option (Nat × String) :=
  kv.snapshot.map fun v => (v.version, R.st v.st)

def oView {A : Agg} (R : Render A) (kv : Scope A) : OView :=
  { keys := oKeys kv, cmds := oCmds R kv, snap := oSnap R kv }

def oRet {A : Agg} (R : Render A) : Out A → ORet
  | .ok v => .ok v.version (R.st v.st)
  | .err e => .err (R.err e)
  | .unknown => .err "unknown"
  | .duplicate => .err "duplicate"
  | .kvErr => .err "kv"
  | .fatal => .err "fatal"
  | .panic => .err "panic"

def oResult {A : Agg} (R : Render A) : HResult A → String
  | .init => "init"
  | .ok => "ok"
  | .error e => "err(" ++ R.err e ++ ")"

def oRec {A : Agg} (R : Render A) (r : Record A) : ORec :=
  { version := r.version, actor := r.actor,
    details := match r.details with | none => "init" | some d => R.cmd d,
    result := oResult R r.result }

/-! ### executable property predicates (C06, C07) -/

/-- The stored log is `command-0 … command-(n-1)`: consecutive keys, each record carries its
own key as version, the first is the init command and no other is. -/
def wfFrom : Nat → List OCmd → Bool
  | _, [] => true
  | k, c :: t => c.key == k && c.version == k && (c.effect.isInit == (k == 0)) && wfFrom (k + 1) t

def expectedKeys (n : Nat) (hasSnap : Bool) : List String :=
  (List.range n).map cmdKeyName ++ (if hasSnap then ["s"] else [])

/-- `versions_contiguous` + `one_key_per_command`. -/
def OView.wellFormed (v : OView) : Bool :=
  wfFrom 0 v.cmds && v.keys == expectedKeys v.cmds.length v.snap.isSome

/-- `noop_no_trace` / `presave_failure_no_trace` / failed write: nothing stored changed. -/
def noTrace (pre post : OView) : Bool := pre == post

/-- Exactly one record was appended under the next key by `actor`, with an error effect of
kind `errKind` (`isErr`) or with a success effect; everything else is as before. -/
def appendedOne (pre post : OView) (actor : String) (isErr : Bool) (errKind : String) : Bool :=
  post.snap == pre.snap &&
  post.cmds.take pre.cmds.length == pre.cmds &&
  match post.cmds.drop pre.cmds.length with
  | [c] =>
    c.key == pre.cmds.length && c.version == pre.cmds.length && c.actor == actor &&
    (match c.effect with
      | .err k => isErr && k == errKind
      | .ok _ => !isErr
      | .init _ => false)
  | _ => false

/-- `rejected_only_audit`: a rejected command leaves exactly one audit record carrying the
error; the caller gets that error. -/
def rejectedOnlyAudit (pre post : OView) (actor : String) (ret : ORet) : Bool :=
  match ret with
  | .err kind => appendedOne pre post actor true kind
  | .ok _ _ => false

/-- An accepted command owns exactly one new key and returns the next version; a command
without effect leaves no trace and returns the current version. -/
def acceptedOrNoop (pre post : OView) (actor : String) (version : Nat) : Bool :=
  if post.cmds.length == pre.cmds.length then
    noTrace pre post && version == pre.cmds.length
  else
    appendedOne pre post actor false "" && version == post.cmds.length

/-- A read returns the state at the end of the stored log. -/
def readIsCurrent (v : OView) (version : Nat) : Bool := version == v.cmds.length

/-- `save_snapshot` stores the state it returns and touches nothing else. -/
def snapshotStored (pre post : OView) (ret : ORet) : Bool :=
  match ret with
  | .ok version st => post.cmds == pre.cmds && post.snap == some (version, st)
  | .err _ => noTrace pre post

/-- `replay_eq_live`: all ways to obtain the state agree. -/
def allAgree (rets : List ORet) : Bool :=
  match rets with
  | [] => true
  | r :: rest => rest.all (· == r)

def oRecOfCmd (c : OCmd) : ORec :=
  { version := c.version, actor := c.actor, details := c.details,
    result := match c.effect with
      | .init _ => "init"
      | .ok _ => "ok"
      | .err k => "err(" ++ k ++ ")" }

/-- `history_lists_all`: the history is every stored command from version 1 on, in order,
with its actor, filtered and paged as asked. -/
def historyListsAll (v : OView) (offset : Nat) (rows afterVersion : Option Nat)
    (total : Nat) (recs : List ORec) : Bool :=
  let all := (v.cmds.drop 1).map oRecOfCmd
  let sel := all.filter fun r => match afterVersion with | none => true | some a => decide (a < r.version)
  let rows := match rows with | some n => n | none => all.length
  total == sel.length && recs == (sel.drop offset).take rows

/-- `audit_exact` (concurrent runs): every acknowledged command is in the stored log exactly
once or – if it had no effect, was vetoed by the pre-save listener or never reached the
entity (`noRecord` lists those error kinds) – not at all; and every stored record after the
init command belongs to an acknowledged command.  `acked` = (actor, result) per command; actors
are unique per command in these runs. -/
def auditExact (v : OView) (noRecord : List String) (acked : List (String × ORet)) : Bool :=
  (acked.all fun (actor, ret) =>
    let recs := v.cmds.filter (·.actor == actor)
    match ret with
    | .err k =>
      if noRecord.contains k then recs.isEmpty
      else recs.length == 1 && recs.all (fun c => c.effect == .err k || match c.effect with | .err k' => k' == k | _ => false)
    | .ok ver _ =>
      recs.isEmpty ||
      (recs.length == 1 && recs.all fun c => c.key + 1 == ver && match c.effect with | .ok _ => true | _ => false)) &&
  ((v.cmds.drop 1).all fun c => acked.any (·.1 == c.actor))

/-! ### the same for the WAL store -/

structure WRender (T : Wal.WalT) where
  st : T.State → String
  changes : List T.Change → String
  err : T.Err → String

def wCmds {T : Wal.WalT} (R : WRender T) (kv : Wal.Scope T) : List OCmd :=
  (List.range (keyBound kv.wals)).filterMap fun k =>
    (kv.getWal k).map fun s =>
      { key := k, actor := "", version := s.revision, details := "", effect := .ok (R.changes s.changes) }

def walKeyName (k : Nat) : String := "w" ++ toString k

def wKeys {T : Wal.WalT} (kv : Wal.Scope T) : List String :=
  (if kv.snapshot.isSome then ["s"] else []) ++
  ((List.range (keyBound kv.wals)).filterMap fun k =>
      if (kv.getWal k).isSome then some (walKeyName k) else none)

def wView {T : Wal.WalT} (R : WRender T) (kv : Wal.Scope T) : OView :=
  { keys := wKeys kv, cmds := wCmds R kv,
    snap := kv.snapshot.map fun v => (v.revision, R.st v.st) }

def wRet {T : Wal.WalT} (R : WRender T) : Wal.Out T → ORet
  | .ok v => .ok v.revision (R.st v.st)
  | .err e => .err (R.err e)
  | .unknown => .err "unknown"
  | .kvErr => .err "kv"
  | .fatal => .err "fatal"
  | .panic => .err "panic"

/-- The WAL keys are the snapshot plus `wal-b … wal-(n-1)` where `b` is the snapshot's
revision: consecutive, each set carrying its key as revision. -/
def walFrom : Nat → List OCmd → Bool
  | _, [] => true
  | k, c :: t => c.key == k && c.version == k && walFrom (k + 1) t

def OView.walWellFormed (v : OView) : Bool :=
  match v.snap with
  | none => v.cmds.isEmpty && v.keys.isEmpty
  | some (b, _) =>
    walFrom b v.cmds &&
    v.keys == "s" :: (v.cmds.map fun c => walKeyName c.key)

/-- A WAL command that changed something appended exactly `wal-<revision>` and returned the
next revision; one without changes (or a failing one) left no trace. -/
def walAppendedOrNoop (pre post : OView) (ret : ORet) : Bool :=
  match ret with
  | .err _ => noTrace pre post
  | .ok rev _ =>
    if post.cmds.length == pre.cmds.length then noTrace pre post
    else
      post.snap == pre.snap && post.cmds.take pre.cmds.length == pre.cmds &&
      match post.cmds.drop pre.cmds.length with
      | [c] => c.key + 1 == rev
      | _ => false

/-- `update_snapshot`: the snapshot is the returned state and no `wal-` key is left. -/
def walSnapshotTruncates (post : OView) (ret : ORet) : Bool :=
  match ret with
  | .ok rev st => post.snap == some (rev, st) && post.cmds.isEmpty
  | .err _ => true

end KM.ES.Obs
