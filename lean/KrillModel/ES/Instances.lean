/-
The generic aggregate store (`ES/AggStore.lean`) instantiated with the models of krill's real
aggregates, and the hypothesis `ProcessApplicableV` of `no_panic_of_applicable_veto`
(`Props/C06.lean`) discharged for each of them.  Helper definitions and lemmas only; the property
statements are in `Props/C06.lean`.

* `caAgg`      – `CertAuth` (`Ca/CertAuth.lean`, `src/server/ca/certauth.rs`) with its pre-save
                 listener `CaObjectsStore` (`Ca/ObjKeys.lean`, `src/server/ca/publishing.rs`);
                 applicability from C04's `process_emits_applicable` through the simulation
                 `caAgg_sim` (store-reachable ⇒ `CaK.Reachable`).
* `taProxyAgg` – `TrustAnchorProxy` (`Ta/Proxy.lean`, `src/server/taproxy.rs`); the three
                 `unwrap()`s of its `apply` made explicit (`applyP`); applicable in *every* state.
* `taSignerAgg`– `TrustAnchorSigner` (`Ta/Signer.lean`, `src/tasigner/signer.rs`); `apply` total.
* `RepositoryAccess` (`src/server/pubd/access.rs`): there is no model with `process`/`apply` under
  `Pubd/` (the publisher list is a field of `Pubd.Server`, changed by big-step functions); its
  `apply` has no panic arm (two `HashMap` updates), which is the hypothesis of the generic
  `processApplicable_of_total` (`ES/Spec.lean`).

Failures outside the aggregates (the task queue's part of `pre_save_events`, `Rfc8183Id::generate`,
`create_self_signed_id_cert`) are a parameter `env` of every instance; every theorem is for all
`env`.  Limit of the generic model: the listener is a *function* of the updated state and the
events (`Agg.preSave`), so the same command in the same state is vetoed either always or never.
-/
import KrillModel.ES.Lemmas
import KrillModel.Props.C04
import KrillModel.Ta.Signer
namespace KM.ES.Inst
open KM.ES

/-! ## `CertAuth` -/

section CertAuth
open KM.CaK

/-- The state of the `CertAuth` instance.

**Why not `State := Ca`.**  The pre-save listener of a CA (`CaObjectsStore`) is stateful: whether
it accepts a batch of events depends on the object sets it holds, which are not a field of
`CertAuth`.  `Agg.preSave` is a function of the *updated* aggregate and the events, so the
listener's state has to travel with the aggregate state.  **Why not `State := Sys` either.**  The
store applies the events first and asks the listener afterwards, and a refusal must end in
`Out.err` (nothing stored), not in `Out.panic`; `apply` therefore must not fail where the listener
does.  `objs` is the listener's *answer* to everything applied so far: the new object sets, or the
error with which it refused.  `preSave` reads that answer.  A refused batch is not stored and the
updated state is thrown away (`phDecide`), so every state the store holds has `objs = .ok _`
(`caAgg_sim`), i.e. is a `CaK.Sys`.

`objs` is a history variable: in krill the object sets live in their own key-value scope and are not
rebuilt by a replay; what the API shows of the CA is the `ca` component.  (That the listener writes
its scope *before* the command is written – a failed command write leaves the two out of step – is
about crash consistency, C08, not about this model, in which `wfail` undoes both.) -/
structure CaSt where
  ca : Ca := {}
  objs : Except ObjErr Objs := .ok []

inductive CaErr where
  /-- `process_command` returned an error -/
  | refused (e : Err)
  /-- `cert_auth_pre_save_events` of the object store returned an error -/
  | listener (e : ObjErr)
  /-- a failure outside the aggregate: `Rfc8183Id::generate` in `process_init_command`, the task
  queue's part of `pre_save_events` -/
  | env (n : Nat)

/-- The listener's answer after one more event. -/
def objsStep (r : Except ObjErr Objs) (e : Ev) : Except ObjErr Objs :=
  match r with
  | .ok o => o.step e
  | .error x => .error x

/-- `CertAuth::apply`, the listener's answer carried along.  `none` only where `Ca.apply` is. -/
def CaSt.apply (s : CaSt) (e : Ev) : Option CaSt :=
  match s.ca.apply e with
  | none => none
  | some ca' => some ⟨ca', objsStep s.objs e⟩

def CaSt.process (s : CaSt) (c : Cmd) : Except CaErr (List Ev) :=
  match s.ca.process c with
  | .ok evs => .ok evs
  | .error e => .error (.refused e)

/-- `CertAuth::pre_save_events` (certauth.rs:676-720): the object store first, then the task
queue (`env`). -/
def CaSt.preSave (env : CaSt → List Ev → Option Nat) (s : CaSt) (evs : List Ev) : Option CaErr :=
  match s.objs with
  | .error e => some (.listener e)
  | .ok _ => (env s evs).map .env

/-- `CertAuth` as an instance of the generic store model.  `CertAuthInitCommand` carries nothing
the model has (`InitCmd`: does `Rfc8183Id::generate` succeed, and if not with which error);
`CertAuthInitEvent { id }` likewise (`InitEv := Unit`); `init` gives version 1 and the empty CA. -/
@[reducible] def caAgg (env : CaSt → List Ev → Option Nat) : Agg where
  State := CaSt
  Cmd := Cmd
  Ev := Ev
  InitCmd := Option Nat
  InitEv := Unit
  Err := CaErr
  initVersion := 1
  init := fun _ => {}
  processInit := fun ic => match ic with
    | none => .ok ()
    | some n => .error (.env n)
  process := CaSt.process
  apply := CaSt.apply
  preSave := CaSt.preSave env

/-- No failure outside the aggregate and its object store. -/
def noEnv : CaSt → List Ev → Option Nat := fun _ _ => none

theorem foldl_objsStep_error (x : ObjErr) (evs : List Ev) :
    evs.foldl objsStep (.error x) = .error x := by
  induction evs with
  | nil => rfl
  | cons e es ih => simp only [List.foldl_cons, objsStep]; exact ih

theorem foldl_objsStep_ok (o : Objs) (evs : List Ev) :
    evs.foldl objsStep (.ok o) = o.stepAll evs := by
  induction evs generalizing o with
  | nil => rfl
  | cons e es ih =>
    simp only [List.foldl_cons, objsStep, Objs.stepAll]
    cases o.step e with
    | ok o' => exact ih o'
    | error x => exact foldl_objsStep_error x es

/-- Applying a batch in the instance = `Ca.applyAll` on the aggregate, the listener's answers
folded along. -/
theorem applyEvents_caAgg (env : CaSt → List Ev → Option Nat) (ca : Ca) (r : Except ObjErr Objs)
    (evs : List Ev) :
    applyEvents (caAgg env) (⟨ca, r⟩ : CaSt) evs =
      (ca.applyAll evs).map fun ca' => (⟨ca', evs.foldl objsStep r⟩ : CaSt) := by
  induction evs generalizing ca r with
  | nil => rfl
  | cons e es ih =>
    simp only [applyEvents, CaSt.apply, Ca.applyAll, List.foldl_cons]
    cases ca.apply e with
    | none => rfl
    | some ca' => exact ih ca' (objsStep r e)

/-- **The simulation.**  Every state the store can hold (veto-aware reachability in the generic
model) has a listener that accepted everything so far, and is a reachable state of the CA model
(`CaK.Reachable`: histories of `Sys.next`, in which a command the listener refuses is not stored). -/
theorem caAgg_sim {env : CaSt → List Ev → Option Nat} {s : (caAgg env).State}
    (h : ReachableV (caAgg env) s) :
    ∃ o, CaSt.objs s = .ok o ∧ CaK.Reachable ⟨CaSt.ca s, o⟩ := by
  induction h with
  | init ic ev _ => exact ⟨[], rfl, CaK.Reachable.init⟩
  | step s s' c evs _ hp ha hps ih =>
    obtain ⟨o, ho, hr⟩ := ih
    obtain ⟨ca, r⟩ := s
    simp only at ho hr
    subst ho
    -- `process`
    have hp' : ca.process c = .ok evs := by
      have : CaSt.process ⟨ca, .ok o⟩ c = .ok evs := hp
      simp only [CaSt.process] at this
      cases hq : ca.process c with
      | ok evs' => rw [hq] at this; simp only [Except.ok.injEq] at this; rw [this]
      | error e => rw [hq] at this; cases this
    -- `apply`
    rw [applyEvents_caAgg, foldl_objsStep_ok] at ha
    cases happ : ca.applyAll evs with
    | none => rw [happ] at ha; cases ha
    | some ca' =>
      rw [happ] at ha
      simp only [Option.map_some, Option.some.injEq] at ha
      subst ha
      -- the listener
      have hps' : CaSt.preSave env ⟨ca', o.stepAll evs⟩ evs = none := hps
      simp only [CaSt.preSave] at hps'
      cases hst : o.stepAll evs with
      | error e => rw [hst] at hps'; cases hps'
      | ok o' =>
        refine ⟨o', rfl, ?_⟩
        have hex : Sys.exec ⟨ca, o⟩ c = .stored evs ⟨ca', o'⟩ := by
          simp only [Sys.exec, hp', happ, hst]
        have hn : Sys.next ⟨ca, o⟩ c = ⟨ca', o'⟩ := by simp only [Sys.next, hex]
        have := CaK.Reachable.step c hr
        rw [hn] at this
        exact this

/-- **`CertAuth` meets the hypothesis of `no_panic_of_applicable_veto`**: in every state its store
can hold, the events `process_command` returns are applied by `apply` without reaching a panic arm
(C04 `process_emits_applicable`, which needs the invariant of `CaK.Reachable` – an invariant that
only holds because commands the listener refuses are not stored). -/
theorem caAgg_applicable (env : CaSt → List Ev → Option Nat) : ProcessApplicableV (caAgg env) := by
  intro s c evs hr hp
  obtain ⟨o, ho, hR⟩ := caAgg_sim hr
  obtain ⟨ca, r⟩ := s
  simp only at ho hR
  subst ho
  have hp' : ca.process c = .ok evs := by
    have : CaSt.process ⟨ca, .ok o⟩ c = .ok evs := hp
    simp only [CaSt.process] at this
    cases hq : ca.process c with
    | ok evs' => rw [hq] at this; simp only [Except.ok.injEq] at this; rw [this]
    | error e => rw [hq] at this; cases this
  have hsome : ((⟨ca, o⟩ : Sys).ca.applyAll evs).isSome = true :=
    KM.Props.C04.process_emits_applicable hR hp'
  rw [applyEvents_caAgg]
  simp only [Option.isSome_map]
  exact hsome

/-- Non-vacuity witness for `Props/C06.lean`: a CA is created, gets a repository, a parent, two
classes (class 0 certified, class 1 still pending) and a child with a certificate; then a complete
key roll of class 0 – initiate, new certificate received, activate, finish – through three store
objects, with a snapshot taken in the middle by the second one, a revocation request naming the
pending class (index 9: until fix 239f0a59 the **listener vetoed** it -
`pinned_revoke_for_pending_class_listener_error` of C04 -, now `process_command` refuses it: by
`C04.listener_accepts` the listener of a reachable `CertAuth` vetoes nothing any more; the veto
path of the store is exercised by `vetoAgg` and the task-queue `env` of the other instances), a
failed write, a cache drop and another refused command. -/
def caHistory : List (Op (caAgg noEnv)) :=
  [ .add 0 "admin" none false,
    .cmd 0 ⟨"u", .repoUpdate []⟩ false,
    .cmd 0 ⟨"u", .addParent 9⟩ false,
    .cmd 0 ⟨"u", .updateEntitlements 9 [⟨0, [1, 2], 100, []⟩, ⟨1, [3], 100, []⟩] 0 [4, 5]⟩ false,
    .cmd 0 ⟨"u", .updateRcvdCert 0 4 { res := [1, 2], na := 100 } 50 []⟩ false,
    .cmd 0 ⟨"u", .childAdd 7 [1, 2]⟩ false,
    .cmd 0 ⟨"u", .childCertify 7 0 6 none 60⟩ false,
    .cmd 0 ⟨"u", .keyrollInit [(0, 8)]⟩ false,
    .snap 1 false,
    .cmd 0 ⟨"c", .childRevokeKey 7 1 6⟩ false,
    .cmd 1 ⟨"u", .updateRcvdCert 0 8 { res := [1, 2], na := 100 } 62 []⟩ true,
    .cmd 1 ⟨"u", .updateRcvdCert 0 8 { res := [1, 2], na := 100 } 62 []⟩ false,
    .cmd 0 ⟨"u", .keyrollActivate 70⟩ false,
    .restart 0,
    .cmd 0 ⟨"u", .dropClass 5⟩ false,
    .cmd 2 ⟨"u", .keyrollFinish 0⟩ false ]

/-- What the examples look at: version, key state of class 0, number of classes. -/
def caView (o : Out (caAgg noEnv)) : Option (Nat × Option KVar × Nat) :=
  match o with
  | .ok v => some (v.version, (AMap.get (CaSt.ca v.st).classes 0).map (·.keys.variant),
                   (CaSt.ca v.st).classes.length)
  | _ => none

end CertAuth

/-! ## `TrustAnchorProxy` -/

section TaProxy
open KM.Ta

/-- `TrustAnchorProxy::apply` (taproxy.rs:155-241) with its three `unwrap()`s as `none`:
`self.signer.as_mut().unwrap()` in `SignerResponseReceived` (the entries before it do not touch
`signer`, so the test can be made on the state before them) and
`self.child_details.get_mut(&child_handle).unwrap()` in `ChildRequestAdded` /
`ChildResponseGiven`.  Where it is defined it is `Ta.apply` (`applyP_eq`), the total function the
C15 theorems are about. -/
def applyP (p : Proxy) : Ta.Ev → Option Proxy
  | .signerResponseReceived b =>
    if p.signer.isSome then some (Ta.apply p (.signerResponseReceived b)) else none
  | .childRequestAdded c r => if p.known c then some (Ta.apply p (.childRequestAdded c r)) else none
  | .childResponseGiven c k => if p.known c then some (Ta.apply p (.childResponseGiven c k)) else none
  | e => some (Ta.apply p e)

theorem applyP_eq {p p' : Proxy} {e : Ta.Ev} (h : applyP p e = some p') : p' = Ta.apply p e := by
  cases e <;> simp only [applyP] at h
  case signerResponseReceived b => split at h <;> simp_all
  case childRequestAdded c r => split at h <;> simp_all
  case childResponseGiven c k => split at h <;> simp_all
  all_goals simp_all

inductive Failure (ε : Type) where
  /-- `process_command` returned an error -/
  | refused (e : ε)
  /-- a failure outside the aggregate (signer, task queue) -/
  | env (n : Nat)

/-- `TrustAnchorProxy` as an instance of the generic store model.  `InitCmd`: the ID key
`create_self_signed_id_cert()` makes, or the number of the error it fails with; the listener
(`ta_proxy_pre_save_events`) is the task queue alone, i.e. `env`. -/
@[reducible] def taProxyAgg (env : Proxy → List Ta.Ev → Option Nat) : Agg where
  State := Proxy
  Cmd := Ta.Cmd
  Ev := Ta.Ev
  InitCmd := Except Nat Ta.Key
  InitEv := Ta.Key
  Err := Failure Ta.Err
  initVersion := 1
  init := Proxy.init
  processInit := fun ic => match ic with
    | .ok k => .ok k
    | .error n => .error (.env n)
  process := fun p c => match Ta.process p c with
    | .ok evs => .ok evs
    | .error e => .error (.refused e)
  apply := applyP
  preSave := fun p evs => (env p evs).map .env

/-- `process_command` of the proxy emits one event at a time, and only where `apply` does not
unwrap `None` – in every state, reachable or not. -/
theorem ta_process_applicable (p : Proxy) (c : Ta.Cmd) (evs : List Ta.Ev)
    (h : Ta.process p c = .ok evs) : ∃ p', evs.foldlM applyP p = some p' := by
  cases c with
  | addRepository =>
    simp only [Ta.process] at h
    split at h
    · cases h
    · cases h; exact ⟨_, rfl⟩
  | addSigner i =>
    simp only [Ta.process] at h
    split at h
    · cases h
    · cases h; exact ⟨_, rfl⟩
  | updateSigner i =>
    simp only [Ta.process] at h
    split at h
    · cases h
    · split at h
      · split at h
        · cases h; exact ⟨_, rfl⟩
        · cases h
      · cases h
  | makeSignerRequest n =>
    simp only [Ta.process] at h
    split at h
    · cases h
    · cases h; exact ⟨_, rfl⟩
  | processSignerResponse m =>
    simp only [Ta.process, Ta.processSignerResponse] at h
    split at h
    · cases h
    · split at h
      · cases h
      · split at h
        · cases h
        · rename_i s hs
          split at h
          · cases h
            refine ⟨Ta.apply p (.signerResponseReceived m.clear), ?_⟩
            simp only [List.foldlM, applyP, hs, Option.isSome_some, if_true]
            rfl
          · cases h
  | addChild c res =>
    simp only [Ta.process] at h
    split at h
    · cases h
    · cases h; exact ⟨_, rfl⟩
  | addChildRequest c r =>
    simp only [Ta.process, Ta.processAddChildRequest] at h
    split at h
    · cases h
    · rename_i res hres
      have hk : p.known c = true := by simp only [Proxy.known, ahas, hres, Option.isSome_some]
      have hone : [Ta.Ev.childRequestAdded c r].foldlM applyP p
          = some (Ta.apply p (.childRequestAdded c r)) := by
        simp only [List.foldlM, applyP, hk, if_true]; rfl
      split at h
      · split at h
        · cases h
        · split at h
          · cases h
          · split at h
            · cases h
            · cases h; exact ⟨_, hone⟩
      · split at h
        · cases h
        · split at h
          · cases h
          · cases h; exact ⟨_, hone⟩
  | giveChildResponse c k =>
    simp only [Ta.process] at h
    split at h
    · cases h
    · rename_i hk
      have hk' : p.known c = true := by
        cases hkn : p.known c with
        | true => rfl
        | false => simp [hkn] at hk
      split at h
      · cases h
        refine ⟨Ta.apply p (.childResponseGiven c k), ?_⟩
        simp only [List.foldlM, applyP, hk', if_true]; rfl
      · cases h

theorem applyEvents_eq_foldlM (A : Agg) (s : A.State) (evs : List A.Ev) :
    applyEvents A s evs = evs.foldlM A.apply s := by
  induction evs generalizing s with
  | nil => rfl
  | cons e es ih =>
    simp only [applyEvents, List.foldlM_cons]
    cases A.apply s e with
    | none => rfl
    | some s' => exact ih s'

/-- The proxy meets the hypothesis – the strong form (`ProcessApplicable`, all states reachable
without regard to the listener), hence also the veto-aware one. -/
theorem taProxyAgg_applicable (env : Proxy → List Ta.Ev → Option Nat) :
    ProcessApplicable (taProxyAgg env) := by
  intro p c evs _ hp
  have hp' : Ta.process p c = .ok evs := by
    have : (match Ta.process p c with
        | .ok evs => (.ok evs : Except (Failure Ta.Err) (List Ta.Ev))
        | .error e => .error (.refused e)) = .ok evs := hp
    cases hq : Ta.process p c with
    | ok evs' => rw [hq] at this; simp only [Except.ok.injEq] at this; rw [this]
    | error e => rw [hq] at this; cases this
  obtain ⟨p', h'⟩ := ta_process_applicable p c evs hp'
  rw [applyEvents_eq_foldlM]
  show (evs.foldlM applyP p).isSome = true
  rw [h']; rfl

end TaProxy

/-! ## `TrustAnchorSigner` -/

section TaSigner
open KM.Ta

/-- `TrustAnchorSignerEvent::ProxySignerExchangeDone(exchange)`; `nextSerial` stands for the random
serial numbers the exchange used up (a field of the model's `Signer` only). -/
structure ExchangeDone where
  req : ReqBody
  resp : RespBody
  nextSerial : Nat

/-- `TrustAnchorSigner::apply` (signer.rs:142-160): take over the objects of the response, push
the exchange.  No panic arm. -/
def signerApply (s : Signer) (e : ExchangeDone) : Signer :=
  { s with objects := e.resp.objects, exchanges := s.exchanges ++ [(e.req, e.resp)],
           nextSerial := e.nextSerial }

/-- `process_command` for `TrustAnchorSignerRequest` (the model of `Ta/Signer.lean` returns the new
state; this is the event in between).  `SignerReissueDone` is not modelled. -/
def signerProcess (s : Signer) (c : Signed ReqBody × Option Nat) : Except SErr (List ExchangeDone) :=
  match processSignerRequest s c.1 c.2 with
  | .ok (s', r) => .ok [⟨c.1.clear, r.clear, s'.nextSerial⟩]
  | .error e => .error e

/-- `process` then `apply` is the model's `processSignerRequest`. -/
theorem signer_apply_process {s s' : Signer} {m : Signed ReqBody} {ov : Option Nat}
    {r : Signed RespBody} (h : processSignerRequest s m ov = .ok (s', r)) :
    signerProcess s (m, ov) = .ok [⟨m.clear, r.clear, s'.nextSerial⟩] ∧
    signerApply s ⟨m.clear, r.clear, s'.nextSerial⟩ = s' := by
  refine ⟨by simp only [signerProcess, h], ?_⟩
  unfold processSignerRequest at h
  split at h
  · cases h
  · split at h
    · cases h
    · split at h
      · cases h
      · simp only [Except.ok.injEq, Prod.mk.injEq] at h
        obtain ⟨h1, h2⟩ := h
        subst h1; subst h2
        rfl

/-- `TrustAnchorSigner` as an instance of the generic store model (no pre-save listener).
`InitCmd`/`InitEv`: ID key, proxy ID, TA key, initial manifest number. -/
@[reducible] def taSignerAgg : Agg where
  State := Signer
  Cmd := Signed ReqBody × Option Nat
  Ev := ExchangeDone
  InitCmd := Except Nat (Ta.Key × Ta.Key × Ta.Key × Option Nat)
  InitEv := Ta.Key × Ta.Key × Ta.Key × Option Nat
  Err := Failure SErr
  initVersion := 1
  init := fun i => Signer.init i.1 i.2.1 i.2.2.1 i.2.2.2
  processInit := fun ic => match ic with
    | .ok i => .ok i
    | .error n => .error (.env n)
  process := fun s c => match signerProcess s c with
    | .ok evs => .ok evs
    | .error e => .error (.refused e)
  apply := fun s e => some (signerApply s e)
  preSave := fun _ _ => none

theorem taSignerAgg_applicable : ProcessApplicable taSignerAgg :=
  processApplicable_of_total (fun _ _ => rfl)

end TaSigner

end KM.ES.Inst
