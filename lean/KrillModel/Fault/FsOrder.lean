/-
File-system side of C08: the RRDP writer's order of mutations.

A *generation* is the set of files of one serial (snapshot and delta).  The disk is abstracted
to which generation the notification file names and which generations are present.  The
writer's discipline – commit (rename the new notification into place) only what is completely
written, remove only what the notification on disk does not name – keeps the tree valid at
every cut, i.e. after every prefix of every mutation sequence following it.
-/
namespace KM.Fault.Fs

inductive Mut where
  | write (g : Nat)     -- the files of generation `g` are created
  | commit (g : Nat)    -- the notification file now names generation `g`
  | cleanup (g : Nat)   -- the files of generation `g` are removed
  | other               -- anything else (rsync tree, temporary notification file)
deriving DecidableEq, Repr

structure Disk where
  noti : Nat
  present : List Nat
deriving DecidableEq, Repr

/-- What a relying party needs: the named generation exists. -/
def Disk.valid (d : Disk) : Prop := d.noti ∈ d.present

instance (d : Disk) : Decidable d.valid := by unfold Disk.valid; infer_instance

def apply (d : Disk) : Mut → Disk
  | .write g => { d with present := g :: d.present }
  | .commit g => { d with noti := g }
  | .cleanup g => { d with present := d.present.filter (· ≠ g) }
  | .other => d

/-- The discipline, per mutation. -/
def stepOk (d : Disk) : Mut → Bool
  | .commit g => decide (g ∈ d.present)
  | .cleanup g => decide (g ≠ d.noti)
  | _ => true

def runOk : Disk → List Mut → Bool
  | _, [] => true
  | d, m :: ms => stepOk d m && runOk (apply d m) ms

/-- The disk after the first `k` mutations (a crash at cut `k`). -/
def after (d : Disk) (ms : List Mut) (k : Nat) : Disk := (ms.take k).foldl apply d

/-- Index of the first mutation that breaks the discipline. -/
def firstBad : Disk → List Mut → Nat → Option Nat
  | _, [], _ => none
  | d, m :: ms, i => if stepOk d m then firstBad (apply d m) ms (i + 1) else some i

end KM.Fault.Fs
