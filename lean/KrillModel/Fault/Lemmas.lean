import KrillModel.Fault.Model
namespace KM.Fault
variable {S C Ev Er O T : Type} [DecidableEq T]

theorem applyMuts_append (w : World C Ev Er O T) (a b : List (Mut C Ev Er O T)) :
    applyMuts w (a ++ b) = applyMuts (applyMuts w a) b := by
  simp [applyMuts, List.foldl_append]

/-- Mutations that are not `appendLog` leave the log alone. -/
def isLog : Mut C Ev Er O T → Bool
  | .appendLog _ => true
  | _ => false

theorem applyMuts_log_of_noLog (w : World C Ev Er O T) (ms : List (Mut C Ev Er O T))
    (h : ∀ m ∈ ms, isLog m = false) : (applyMuts w ms).log = w.log := by
  induction ms generalizing w with
  | nil => rfl
  | cons m rest ih =>
    simp only [applyMuts, List.foldl_cons]
    have hm := h m (by simp)
    have : (applyMut w m).log = w.log := by
      cases m <;> simp_all [applyMut, isLog]
    rw [← this]
    exact ih (applyMut w m) (fun x hx => h x (by simp [hx]))

/-- The listener part of the mutations (everything before the log record). -/
def pre (sys : Sys S C Ev Er O T) (w : World C Ev Er O T) (c : C) : List (Mut C Ev Er O T) :=
  match sys.process (state sys w) c with
  | .error _ => []
  | .ok [] => []
  | .ok evs =>
    (match sys.objUpd w.objects (state sys w) evs with
      | some o => [.setObjects o]
      | none => []) ++
    (sys.tasks (state sys w) evs).map .addTask

/-- The record the command leaves in the log, if any. -/
def rec? (sys : Sys S C Ev Er O T) (w : World C Ev Er O T) (c : C) : Option (Rec C Ev Er) :=
  match sys.process (state sys w) c with
  | .error e => some ⟨c, .err e⟩
  | .ok [] => none
  | .ok evs => some ⟨c, .ok evs⟩

omit [DecidableEq T] in
theorem execMuts_eq (sys : Sys S C Ev Er O T) (w : World C Ev Er O T) (c : C) :
    execMuts sys w c = pre sys w c ++ (rec? sys w c).toList.map .appendLog := by
  unfold execMuts pre rec?
  cases hp : sys.process (state sys w) c with
  | error e => simp [hp]
  | ok evs =>
    cases evs with
    | nil => simp [hp]
    | cons e evs =>
      simp only [hp]
      cases sys.objUpd w.objects (state sys w) (e :: evs) <;> simp

omit [DecidableEq T] in
theorem pre_noLog (sys : Sys S C Ev Er O T) (w : World C Ev Er O T) (c : C) :
    ∀ m ∈ pre sys w c, isLog m = false := by
  intro m hm
  unfold pre at hm
  cases hp : sys.process (state sys w) c with
  | error e => simp [hp] at hm
  | ok evs =>
    cases evs with
    | nil => simp [hp] at hm
    | cons e evs =>
      simp only [hp] at hm
      rcases List.mem_append.mp hm with h | h
      · cases ho : sys.objUpd w.objects (state sys w) (e :: evs) with
        | none => simp [ho] at h
        | some o => simp [ho] at h; subst h; rfl
      · simp only [List.mem_map] at h
        obtain ⟨t, _, rfl⟩ := h; rfl

theorem exec_eq (sys : Sys S C Ev Er O T) (w : World C Ev Er O T) (c : C) :
    exec sys w c = applyMuts (applyMuts w (pre sys w c)) ((rec? sys w c).toList.map .appendLog) := by
  unfold exec; rw [execMuts_eq, applyMuts_append]

theorem exec_log (sys : Sys S C Ev Er O T) (w : World C Ev Er O T) (c : C) :
    (exec sys w c).log = w.log ++ (rec? sys w c).toList := by
  rw [exec_eq]
  have h := applyMuts_log_of_noLog w (pre sys w c) (pre_noLog sys w c)
  unfold applyMuts at h
  cases hr : rec? sys w c with
  | none => simp [applyMuts, h]
  | some r => simp [applyMuts, applyMut, h]

/-- A cut either falls inside the listener part (log untouched) or lets everything through. -/
theorem crashAt_cases (sys : Sys S C Ev Er O T) (w : World C Ev Er O T) (c : C) (k : Nat) :
    (k ≤ (pre sys w c).length ∧ crashAt sys w c k = applyMuts w ((pre sys w c).take k)) ∨
    ((pre sys w c).length < k ∧ crashAt sys w c k = exec sys w c) := by
  by_cases hk : k ≤ (pre sys w c).length
  · left
    refine ⟨hk, ?_⟩
    unfold crashAt; rw [execMuts_eq, List.take_append_of_le_length hk]
  · right
    refine ⟨Nat.lt_of_not_le hk, ?_⟩
    unfold crashAt exec
    rw [List.take_of_length_le]
    rw [execMuts_eq]
    cases rec? sys w c <;> simp <;> omega

theorem crashAt_log (sys : Sys S C Ev Er O T) (w : World C Ev Er O T) (c : C) (k : Nat) :
    (crashAt sys w c k).log =
      if k ≤ (pre sys w c).length then w.log else w.log ++ (rec? sys w c).toList := by
  rcases crashAt_cases sys w c k with ⟨hk, h⟩ | ⟨hk, h⟩
  · rw [h, if_pos hk]
    exact applyMuts_log_of_noLog _ _ (fun m hm => pre_noLog sys w c m (List.mem_of_mem_take hm))
  · rw [h, if_neg (Nat.not_le_of_lt hk), exec_log]

theorem logged_iff (sys : Sys S C Ev Er O T) (w : World C Ev Er O T) (c : C) (k : Nat) :
    logged sys w c k = true ↔ (pre sys w c).length < k ∧ (rec? sys w c).isSome = true := by
  unfold logged
  rw [crashAt_log]
  by_cases hk : k ≤ (pre sys w c).length
  · simp [hk]; omega
  · simp only [hk, if_false, List.length_append, decide_eq_true_eq]
    cases rec? sys w c <;> simp <;> omega

end KM.Fault

namespace KM.Fault
variable {S C Ev Er O T : Type} [DecidableEq T]

/-- The last object set written by a mutation list, if any. -/
def lastObj : List (Mut C Ev Er O T) → Option O
  | [] => none
  | .setObjects o :: rest => (lastObj rest).orElse (fun _ => some o)
  | _ :: rest => lastObj rest

theorem objects_applyMuts (w : World C Ev Er O T) (ms : List (Mut C Ev Er O T)) :
    (applyMuts w ms).objects = (lastObj ms).getD w.objects := by
  induction ms generalizing w with
  | nil => rfl
  | cons m rest ih =>
    simp only [applyMuts, List.foldl_cons]
    have := ih (applyMut w m)
    unfold applyMuts at this
    rw [this]
    cases m with
    | setObjects o =>
      simp only [lastObj, applyMut]
      cases lastObj rest <;> simp
    | addTask t => simp [lastObj, applyMut]
    | appendLog r => simp [lastObj, applyMut]

theorem mem_tasks_applyMuts (w : World C Ev Er O T) (ms : List (Mut C Ev Er O T)) (t : T) :
    t ∈ (applyMuts w ms).tasks ↔ t ∈ w.tasks ∨ Mut.addTask t ∈ ms := by
  induction ms generalizing w with
  | nil => simp [applyMuts]
  | cons m rest ih =>
    simp only [applyMuts, List.foldl_cons]
    have := ih (applyMut w m)
    unfold applyMuts at this
    rw [this]
    cases m with
    | setObjects o => simp [applyMut]
    | appendLog r => simp [applyMut]
    | addTask t' =>
      simp only [applyMut, List.mem_append, List.mem_filter, List.mem_singleton, List.mem_cons,
        Mut.addTask.injEq, decide_eq_true_eq]
      by_cases h : t = t'
      · subst h; simp
      · simp [h]

theorem log_applyMuts_append (w : World C Ev Er O T) (r : Option (Rec C Ev Er)) :
    (applyMuts w (r.toList.map .appendLog)).log = w.log ++ r.toList ∧
    (applyMuts w (r.toList.map .appendLog)).objects = w.objects ∧
    (applyMuts w (r.toList.map .appendLog)).tasks = w.tasks := by
  cases r <;> simp [applyMuts, applyMut]

/-! ### Histories -/

theorem state_congr (sys : Sys S C Ev Er O T) (w w2 : World C Ev Er O T) (h : w.log = w2.log) :
    state sys w = state sys w2 := by
  simp [state, h]

theorem rec?_congr (sys : Sys S C Ev Er O T) (w w2 : World C Ev Er O T) (c : C)
    (h : w.log = w2.log) : rec? sys w c = rec? sys w2 c := by
  unfold rec?
  rw [state_congr sys w w2 h]

/-- What a fault-free execution appends to the log depends on the log alone (not on the
published-object set or the task queue). -/
theorem exec_log_congr (sys : Sys S C Ev Er O T) (w w2 : World C Ev Er O T) (c : C)
    (h : w.log = w2.log) : (exec sys w c).log = (exec sys w2 c).log := by
  rw [exec_log, exec_log, h, rec?_congr sys w w2 c h]

theorem crashAt_log_of_logged (sys : Sys S C Ev Er O T) (w : World C Ev Er O T) (c : C) (k : Nat)
    (hl : logged sys w c k = true) : (crashAt sys w c k).log = (exec sys w c).log := by
  have := (logged_iff sys w c k).mp hl
  rcases crashAt_cases sys w c k with ⟨hk, _⟩ | ⟨_, h⟩
  · omega
  · rw [h]

theorem crashAt_log_of_not_logged (sys : Sys S C Ev Er O T) (w : World C Ev Er O T) (c : C)
    (k : Nat) (hl : logged sys w c k = false) : (crashAt sys w c k).log = w.log := by
  rw [crashAt_log]
  split
  · rfl
  · rename_i hk
    have hk' : (pre sys w c).length < k := Nat.lt_of_not_le hk
    cases hr : rec? sys w c with
    | none => simp
    | some r =>
      have : logged sys w c k = true := (logged_iff sys w c k).mpr ⟨hk', by simp [hr]⟩
      rw [this] at hl; cases hl

theorem runClean_log_congr (sys : Sys S C Ev Er O T) (cs : List C) (w w2 : World C Ev Er O T)
    (h : w.log = w2.log) : (runClean sys w cs).log = (runClean sys w2 cs).log := by
  induction cs generalizing w w2 with
  | nil => simpa [runClean] using h
  | cons c cs ih =>
    simp only [runClean, List.foldl_cons]
    exact ih _ _ (exec_log_congr sys w w2 c h)

end KM.Fault
