/-
Crash / failed-write model of one command execution (C08).

`AggregateStore::execute_opt_command` (eventsourcing/store.rs) with the CA manager's pre-save
listeners (ca/manager.rs, publishing.rs, mq.rs) performs its persistent mutations in this order:

  1. pre-save listener 1: the published-object set  `ca_objects/<ca>.json`      (if the events touch it)
  2. pre-save listener 2: follow-up tasks           `tasks/pending/<ts>-<name>`  (one store per task)
  3. the command itself with its events             `cas/<ca>/command-<N>.json`
  (a rejected command: only 3, carrying the error; a command without effect: nothing)

Every mutation is atomic (temp file + rename on disk, map insert in memory).  A *cut* at `k`
lets the first `k` mutations through; the rest never happen (crash), or the `k`-th alone fails
(single I/O error).  The model is generic in the aggregate (`init`, `process`, `apply`) and in
the two listeners; it is tied to the code by comparing, for every enumerated cut, the
mutation sequence the implementation performed and the resulting (log, state, object set)
triple with the model's prediction (driver `fault`).
-/
namespace KM.Fault

/-- The abstract aggregate and its listeners. -/
structure Sys (S C Ev Er O T : Type) where
  init    : S
  process : S → C → Except Er (List Ev)
  apply   : S → Ev → S
  /-- pre-save listener 1: new published-object set, or `none` when the events do not touch it -/
  objUpd  : O → S → List Ev → Option O
  /-- pre-save listener 2: tasks to schedule (each one store) -/
  tasks   : S → List Ev → List T

/-- A stored command record. -/
inductive Effect (Ev Er : Type) where
  | ok  (evs : List Ev)
  | err (e : Er)

structure Rec (C Ev Er : Type) where
  cmd : C
  eff : Effect Ev Er

/-- Persistent state of the three stores. -/
structure World (C Ev Er O T : Type) where
  log     : List (Rec C Ev Er)      -- oldest first
  objects : O
  tasks   : List T                  -- pending, oldest first

inductive Mut (C Ev Er O T : Type) where
  | setObjects (o : O)
  | addTask (t : T)
  | appendLog (r : Rec C Ev Er)

variable {S C Ev Er O T : Type} [DecidableEq T]

/-- Scheduling a task that is already pending replaces it (queue semantics, C09). -/
def applyMut (w : World C Ev Er O T) : Mut C Ev Er O T → World C Ev Er O T
  | .setObjects o => { w with objects := o }
  | .addTask t    => { w with tasks := w.tasks.filter (· ≠ t) ++ [t] }
  | .appendLog r  => { w with log := w.log ++ [r] }

def applyMuts (w : World C Ev Er O T) (ms : List (Mut C Ev Er O T)) : World C Ev Er O T :=
  ms.foldl applyMut w

/-- The state is *derived* from the log: replay (store.rs `get_latest` on an empty cache). -/
def replayRec (sys : Sys S C Ev Er O T) (s : S) (r : Rec C Ev Er) : S :=
  match r.eff with
  | .ok evs => evs.foldl sys.apply s
  | .err _  => s

def state (sys : Sys S C Ev Er O T) (w : World C Ev Er O T) : S :=
  w.log.foldl (replayRec sys) sys.init

/-- The ordered mutations of executing `c` against world `w`. -/
def execMuts (sys : Sys S C Ev Er O T) (w : World C Ev Er O T) (c : C) : List (Mut C Ev Er O T) :=
  let s := state sys w
  match sys.process s c with
  | .error e => [.appendLog ⟨c, .err e⟩]
  | .ok [] => []
  | .ok evs =>
    (match sys.objUpd w.objects s evs with
      | some o => [.setObjects o]
      | none => []) ++
    (sys.tasks s evs).map .addTask ++
    [.appendLog ⟨c, .ok evs⟩]

/-- The world after the first `k` mutations of executing `c` (a cut at `k`). -/
def crashAt (sys : Sys S C Ev Er O T) (w : World C Ev Er O T) (c : C) (k : Nat) :
    World C Ev Er O T :=
  applyMuts w ((execMuts sys w c).take k)

/-- Fault-free execution. -/
def exec (sys : Sys S C Ev Er O T) (w : World C Ev Er O T) (c : C) : World C Ev Er O T :=
  applyMuts w (execMuts sys w c)

/-- Is the command's record in the log after the cut? -/
def logged (sys : Sys S C Ev Er O T) (w : World C Ev Er O T) (c : C) (k : Nat) : Bool :=
  (crashAt sys w c k).log.length > w.log.length

/-! ### Histories of requests with faults

A request either runs to completion or is cut at some `k` – by a crash followed by a restart,
or by a single failed write on an instance that lives on.  In both cases what is persistent
afterwards is `crashAt` (a failed listener or command write aborts the command, store.rs
`execute_opt_command`), and the in-memory state is the replay of the log (the cache is only
updated after the command record was stored). -/

def runHist (sys : Sys S C Ev Er O T) (w : World C Ev Er O T) :
    List (C × Option Nat) → World C Ev Er O T
  | [] => w
  | (c, none) :: h => runHist sys (exec sys w c) h
  | (c, some k) :: h => runHist sys (crashAt sys w c k) h

/-- The requests of a history whose record reached the audit log (completed ones, and cut
ones whose cut came after the record was written). -/
def survivors (sys : Sys S C Ev Er O T) (w : World C Ev Er O T) :
    List (C × Option Nat) → List C
  | [] => []
  | (c, none) :: h => c :: survivors sys (exec sys w c) h
  | (c, some k) :: h =>
    if logged sys w c k then c :: survivors sys (crashAt sys w c k) h
    else survivors sys (crashAt sys w c k) h

/-- A run without faults. -/
def runClean (sys : Sys S C Ev Er O T) (w : World C Ev Er O T) (cs : List C) :
    World C Ev Er O T :=
  cs.foldl (exec sys) w

end KM.Fault
