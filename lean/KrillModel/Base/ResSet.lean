/-
Resource sets as lists of *atoms* (DESIGN §2.2).  Atom `i` stands for the disjoint triple
AS(64512+i), 10.i.0.0/16, 2001:db8:i::/48 of the system harness.  Set semantics only
(membership); order and duplicates carry no meaning, `seteq` is the equality that
`ResourceSet::difference(..).is_empty()` decides in the code.  Import-free.
-/
namespace KM.Res

abbrev ResSet := List Nat

/-- `a.intersection(b)` -/
def inter (a b : ResSet) : ResSet := a.filter (fun x => b.contains x)

/-- the part of `a` not in `b` -/
def diff (a b : ResSet) : ResSet := a.filter (fun x => !b.contains x)

/-- `a.union(b)` -/
def union (a b : ResSet) : ResSet := a ++ diff b a

/-- `b.contains(a)` of rpki-rs: every resource of `a` is in `b`. -/
def subset (a b : ResSet) : Bool := a.all (fun x => b.contains x)

/-- Both one-sided differences are empty (`ResourceDiff::is_empty`). -/
def seteq (a b : ResSet) : Bool := subset a b && subset b a

def isEmpty (a : ResSet) : Bool := a.isEmpty

/-! ## Lemmas -/

theorem mem_inter {a b : ResSet} {x : Nat} : x ∈ inter a b ↔ x ∈ a ∧ x ∈ b := by
  simp [inter, List.mem_filter]

theorem mem_diff {a b : ResSet} {x : Nat} : x ∈ diff a b ↔ x ∈ a ∧ x ∉ b := by
  simp [diff, List.mem_filter]

theorem mem_union {a b : ResSet} {x : Nat} : x ∈ union a b ↔ x ∈ a ∨ x ∈ b := by
  simp only [union, List.mem_append, mem_diff]
  constructor
  · rintro (h | h)
    · exact Or.inl h
    · exact Or.inr h.1
  · rintro (h | h)
    · exact Or.inl h
    · by_cases hx : x ∈ a
      · exact Or.inl hx
      · exact Or.inr ⟨h, hx⟩

theorem subset_iff {a b : ResSet} : subset a b = true ↔ ∀ x, x ∈ a → x ∈ b := by
  simp [subset, List.all_eq_true]

theorem subset_refl (a : ResSet) : subset a a = true := subset_iff.mpr fun _ h => h

theorem subset_trans {a b c : ResSet} (h1 : subset a b = true) (h2 : subset b c = true) :
    subset a c = true :=
  subset_iff.mpr fun x hx => subset_iff.mp h2 x (subset_iff.mp h1 x hx)

theorem inter_subset_left (a b : ResSet) : subset (inter a b) a = true :=
  subset_iff.mpr fun _ hx => (mem_inter.mp hx).1

theorem inter_subset_right (a b : ResSet) : subset (inter a b) b = true :=
  subset_iff.mpr fun _ hx => (mem_inter.mp hx).2

theorem subset_inter {a b c : ResSet} (h1 : subset c a = true) (h2 : subset c b = true) :
    subset c (inter a b) = true :=
  subset_iff.mpr fun x hx => mem_inter.mpr ⟨subset_iff.mp h1 x hx, subset_iff.mp h2 x hx⟩

theorem seteq_iff {a b : ResSet} : seteq a b = true ↔ ∀ x, x ∈ a ↔ x ∈ b := by
  simp only [seteq, Bool.and_eq_true, subset_iff]
  constructor
  · rintro ⟨h1, h2⟩ x; exact ⟨h1 x, h2 x⟩
  · intro h; exact ⟨fun x => (h x).mp, fun x => (h x).mpr⟩

theorem seteq_refl (a : ResSet) : seteq a a = true := seteq_iff.mpr fun _ => Iff.rfl

theorem seteq_symm {a b : ResSet} (h : seteq a b = true) : seteq b a = true :=
  seteq_iff.mpr fun x => (seteq_iff.mp h x).symm

theorem seteq_trans {a b c : ResSet} (h1 : seteq a b = true) (h2 : seteq b c = true) :
    seteq a c = true :=
  seteq_iff.mpr fun x => (seteq_iff.mp h1 x).trans (seteq_iff.mp h2 x)

theorem seteq_subset_left {a b : ResSet} (h : seteq a b = true) : subset a b = true := by
  simp only [seteq, Bool.and_eq_true] at h; exact h.1

theorem seteq_subset_right {a b : ResSet} (h : seteq a b = true) : subset b a = true := by
  simp only [seteq, Bool.and_eq_true] at h; exact h.2

/-- An intersection with a superset gives the set back (as a set). -/
theorem inter_of_subset {a b : ResSet} (h : subset a b = true) : seteq (inter b a) a = true :=
  seteq_iff.mpr fun x => by
    rw [mem_inter]
    exact ⟨fun hx => hx.2, fun hx => ⟨subset_iff.mp h x hx, hx⟩⟩

theorem inter_comm_seteq (a b : ResSet) : seteq (inter a b) (inter b a) = true :=
  seteq_iff.mpr fun x => by simp only [mem_inter]; exact And.comm

theorem isEmpty_iff {a : ResSet} : isEmpty a = true ↔ ∀ x, x ∉ a := by
  cases a with
  | nil => simp [isEmpty]
  | cons h t =>
    simp only [isEmpty, List.isEmpty_cons, Bool.false_eq_true, false_iff]
    intro hall
    exact hall h (List.mem_cons_self ..)

theorem subset_of_isEmpty {a b : ResSet} (h : isEmpty a = true) : subset a b = true :=
  subset_iff.mpr fun x hx => absurd hx (isEmpty_iff.mp h x)

/-- Non-vacuity: a partial overlap. -/
example : inter [1, 2, 3] [2, 3, 4] = [2, 3] ∧ diff [1, 2, 3] [2, 3, 4] = [1] ∧
    union [1, 2] [2, 5] = [1, 2, 5] ∧ subset [2, 3] [1, 2, 3] = true ∧
    seteq [1, 2] [2, 1] = true ∧ subset [1, 4] [1, 2, 3] = false := by decide

end KM.Res
