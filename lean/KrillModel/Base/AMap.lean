/-
Association-list maps standing for krill's `HashMap`s.  `set` replaces (as `HashMap::insert`),
`del` removes (as `HashMap::remove`).  Only look-up results carry meaning; iteration order is
arbitrary in the code, so drivers compare sorted and theorems speak through `get`.
Import-free.
-/
namespace KM.AMap

abbrev AMap (K V : Type) := List (K × V)

variable {K V : Type} [DecidableEq K]

def get : AMap K V → K → Option V
  | [], _ => none
  | (k', v) :: t, k => if k' = k then some v else get t k

def del (m : AMap K V) (k : K) : AMap K V := m.filter (fun p => decide (p.1 ≠ k))

def set (m : AMap K V) (k : K) (v : V) : AMap K V := (k, v) :: del m k

def keys (m : AMap K V) : List K := m.map (·.1)

def vals (m : AMap K V) : List V := m.map (·.2)

def has (m : AMap K V) (k : K) : Bool := (get m k).isSome

/-! ## Lemmas -/

@[simp] theorem get_nil (k : K) : get ([] : AMap K V) k = none := rfl

theorem get_cons (k' : K) (v : V) (t : AMap K V) (k : K) :
    get ((k', v) :: t) k = if k' = k then some v else get t k := rfl

theorem get_del_self (m : AMap K V) (k : K) : get (del m k) k = none := by
  induction m with
  | nil => rfl
  | cons p t ih =>
    obtain ⟨k', v⟩ := p
    by_cases h : k' = k
    · simp [del, List.filter, h] at ih ⊢; exact ih
    · simp [del, List.filter, h, get_cons] at ih ⊢; exact ih

theorem get_del_ne (m : AMap K V) {k k' : K} (h : k ≠ k') : get (del m k) k' = get m k' := by
  induction m with
  | nil => rfl
  | cons p t ih =>
    obtain ⟨k0, v⟩ := p
    by_cases h0 : k0 = k
    · subst h0
      simp only [del, ne_eq, not_true_eq_false, decide_false, List.filter_cons_of_neg,
        Bool.false_eq_true, not_false_eq_true, get_cons, h, if_false] at ih ⊢
      exact ih
    · simp only [del, ne_eq, h0, not_false_eq_true, decide_true, List.filter_cons_of_pos,
        get_cons] at ih ⊢
      rw [ih]

theorem get_set_self (m : AMap K V) (k : K) (v : V) : get (set m k v) k = some v := by
  simp [set, get_cons]

theorem get_set_ne (m : AMap K V) {k k' : K} (v : V) (h : k ≠ k') :
    get (set m k v) k' = get m k' := by
  simp [set, get_cons, h, get_del_ne m h]

theorem get_set (m : AMap K V) (k k' : K) (v : V) :
    get (set m k v) k' = if k = k' then some v else get m k' := by
  by_cases h : k = k'
  · subst h; simp [get_set_self]
  · simp [h, get_set_ne m v h]

theorem get_del (m : AMap K V) (k k' : K) :
    get (del m k) k' = if k = k' then none else get m k' := by
  by_cases h : k = k'
  · subst h; simp [get_del_self]
  · simp [h, get_del_ne m h]

theorem mem_of_get {m : AMap K V} {k : K} {v : V} (h : get m k = some v) : (k, v) ∈ m := by
  induction m with
  | nil => simp at h
  | cons p t ih =>
    obtain ⟨k0, v0⟩ := p
    rw [get_cons] at h
    by_cases h0 : k0 = k
    · simp only [h0, if_true, Option.some.injEq] at h
      subst h0 h; exact List.mem_cons_self ..
    · simp only [h0, if_false] at h
      exact List.mem_cons_of_mem _ (ih h)

theorem get_isSome_of_mem {m : AMap K V} {k : K} {v : V} (h : (k, v) ∈ m) :
    (get m k).isSome = true := by
  induction m with
  | nil => cases h
  | cons p t ih =>
    obtain ⟨k0, v0⟩ := p
    rw [get_cons]
    by_cases h0 : k0 = k
    · simp [h0]
    · simp only [h0, if_false]
      rcases List.mem_cons.mp h with heq | ht
      · cases heq; exact absurd rfl h0
      · exact ih ht

theorem get_none_iff {m : AMap K V} {k : K} : get m k = none ↔ ∀ v, (k, v) ∉ m := by
  constructor
  · intro h v hm
    have := get_isSome_of_mem hm
    rw [h] at this; cases this
  · intro h
    cases hg : get m k with
    | none => rfl
    | some v => exact absurd (mem_of_get hg) (h v)

theorem mem_keys_of_get {m : AMap K V} {k : K} {v : V} (h : get m k = some v) : k ∈ keys m :=
  List.mem_map.mpr ⟨(k, v), mem_of_get h, rfl⟩

theorem get_isSome_iff_mem_keys {m : AMap K V} {k : K} : (get m k).isSome = true ↔ k ∈ keys m := by
  constructor
  · intro h
    obtain ⟨v, hv⟩ := Option.isSome_iff_exists.mp h
    exact mem_keys_of_get hv
  · intro h
    obtain ⟨⟨k0, v⟩, hm, rfl⟩ := List.mem_map.mp h
    exact get_isSome_of_mem hm

/-- In a map whose keys are pairwise different an entry is what `get` returns. -/
theorem get_of_mem_nodup {m : AMap K V} (hnd : (keys m).Nodup) {k : K} {v : V}
    (h : (k, v) ∈ m) : get m k = some v := by
  induction m with
  | nil => cases h
  | cons p t ih =>
    obtain ⟨k0, v0⟩ := p
    simp only [keys, List.map_cons, List.nodup_cons] at hnd
    rw [get_cons]
    rcases List.mem_cons.mp h with heq | ht
    · cases heq; simp
    · have hne : k0 ≠ k := by
        intro he; subst he
        exact hnd.1 (List.mem_map.mpr ⟨(k0, v), ht, rfl⟩)
      simp only [hne, if_false]
      exact ih hnd.2 ht

theorem keys_del_subset (m : AMap K V) (k : K) : ∀ x, x ∈ keys (del m k) → x ∈ keys m := by
  intro x hx
  obtain ⟨p, hp, rfl⟩ := List.mem_map.mp hx
  exact List.mem_map.mpr ⟨p, (List.mem_filter.mp hp).1, rfl⟩

theorem nodup_del {m : AMap K V} (h : (keys m).Nodup) (k : K) : (keys (del m k)).Nodup := by
  unfold keys del
  exact (List.filter_sublist.map _).nodup h

theorem not_mem_keys_del (m : AMap K V) (k : K) : k ∉ keys (del m k) := by
  intro h
  have := get_isSome_iff_mem_keys.mpr h
  rw [get_del_self] at this; cases this

theorem nodup_set {m : AMap K V} (h : (keys m).Nodup) (k : K) (v : V) :
    (keys (set m k v)).Nodup := by
  show (k :: keys (del m k)).Nodup
  exact List.nodup_cons.mpr ⟨not_mem_keys_del m k, nodup_del h k⟩

example : get (set (set ([] : AMap Nat Nat) 1 10) 1 11) 1 = some 11 ∧
    get (del (set ([] : AMap Nat Nat) 1 10) 1) 1 = none ∧
    keys (set (set ([] : AMap Nat Nat) 1 10) 2 20) = [2, 1] := by decide

end KM.AMap
