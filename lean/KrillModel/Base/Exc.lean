/- Decidable equality and small helpers for `Except` (core has none).  Import-free. -/
namespace KM

instance instDecEqExcept {ε α : Type} [DecidableEq ε] [DecidableEq α] : DecidableEq (Except ε α) :=
  fun a b =>
    match a, b with
    | .ok x, .ok y => if h : x = y then isTrue (by rw [h]) else isFalse (by intro e; cases e; exact h rfl)
    | .error x, .error y =>
      if h : x = y then isTrue (by rw [h]) else isFalse (by intro e; cases e; exact h rfl)
    | .ok _, .error _ => isFalse (by intro e; cases e)
    | .error _, .ok _ => isFalse (by intro e; cases e)

def Except.isOk' {ε α : Type} : Except ε α → Bool
  | .ok _ => true
  | .error _ => false

end KM
