/-
C06 — source tie for the *stored forms* of krill's event-sourced aggregates.

`Generated/CommandKinds.lean` is regenerated from `/repo/src` on every run (translator
`command_kinds`): for every `impl Aggregate` / `impl WalSupport` the variants of the storable command
enum (for the write-ahead log: of the change enum) and of the event enum with their fields, the shape
class of every field (`opt`, `coll`, `plain`) and its serde attributes verbatim, plus every struct and
enum of krill's own that these reach through field types (`storedTypes`).
`ES/CommandCoverage.lean` is the hand-written, reviewed table: which stream op executes which command
kind in which shapes, or why none does.

| clause of C06 | theorem |
|---|---|
| *every* entity, "replaying a stored history never fails": the fresh-store comparison has to see every command kind in every stored shape | `all_command_kinds_covered`: every generated command kind has a coverage row with **the same field list** that names an executing op and accounts for both forms of each optional / collection field, or gives the reason why it is not executed – a new variant, a new field or a changed field type breaks the proof; `checks/C06.py` then checks each claim against the traces of the run |
| what is written can be read back | `serde_attrs_reviewed`: no field anywhere in the stored types is left out of the written form (`skip_serializing_if`) without a way to read the shorter form back (`default`, or serde's built-in rule for a plain `Option<…>` field) – unless listed in `serdeExceptions` with a reason |

What this does **not** say: that an op named in the table really stores that kind (that is checked
on the traces, every run), that the shapes are the only way a stored form can vary (enum-valued
fields, third-party types such as `RequestResourceLimit` are leaves), nor anything about hand-written
`Serialize` / `Deserialize` impls (the `serde` round-trip ops of the `aggstore` stream sample those).
-/
import KrillModel.Generated.CommandKinds
import KrillModel.ES.CommandCoverage
namespace KM.Props.C06Src
open KM.Gen.CommandKinds KM.ES.CommandCoverage

/-! ## Every command kind is covered -/

/-- One walk over both tables (the coverage rows are in the order of the generated table): rows
that match nothing are skipped.  Linear, so that the kernel can evaluate it on string keys (see the
header of `Props/C16Src.lean`: string equality costs the kernel about a millisecond per character). -/
def walk : List Kind → List Row → Bool
  | [], _ => true
  | _ :: _, [] => false
  | k :: ks, r :: rs => if rowOk k r then walk ks rs else walk (k :: ks) rs

theorem walk_sound : ∀ (rs : List Row) (ks : List Kind), walk ks rs = true →
    ∀ k ∈ ks, rs.any (rowOk k) = true := by
  intro rs
  induction rs with
  | nil =>
    intro ks h k hk
    cases ks with
    | nil => cases hk
    | cons a t => simp [walk] at h
  | cons r rs ih =>
    intro ks h k hk
    cases ks with
    | nil => cases hk
    | cons a t =>
      unfold walk at h
      by_cases hm : rowOk a r = true
      · rw [if_pos hm] at h
        rcases List.mem_cons.mp hk with rfl | ht
        · simp [List.any_cons, hm]
        · simp [List.any_cons, ih t h k ht]
      · rw [if_neg hm] at h
        simp [List.any_cons, ih (a :: t) h k hk]

/-- The walk succeeds on the tables of this run (kernel evaluation). -/
theorem coverage_walk : walk commandKinds coverage = true := by
  decide +kernel

/-- **Every storable command kind (and write-ahead-log change kind) of every event-sourced
aggregate has a reviewed coverage row with the field list it has in the current source.** -/
theorem all_command_kinds_covered : ∀ k ∈ commandKinds, covered k = true :=
  walk_sound coverage commandKinds coverage_walk

/-- What a row that passes means, spelled out: same aggregate, variant and fields; executed by a
named op with every shape claimed or excused, or not executed for a stated reason. -/
theorem covered_spec (k : Kind) (h : covered k = true) :
    ∃ r ∈ coverage, r.agg = k.agg ∧ r.variant = k.variant ∧
      r.fields = k.fields.map (fun f => (f.name, f.ty)) ∧ rowComplete k r = true := by
  unfold covered at h
  obtain ⟨r, hr, hok⟩ := List.any_eq_true.mp h
  refine ⟨r, hr, ?_⟩
  unfold rowOk rowMatches at hok
  simp only [Bool.and_eq_true, beq_iff_eq] at hok
  exact ⟨hok.1.1.1, hok.1.1.2, hok.1.2, hok.2⟩

/-- A kind with a new optional field is *not* covered by its old row (the statement has teeth). -/
example :
    rowOk { agg := "TrustAnchorSigner", role := "command", enumName := "TrustAnchorSignerStorableCommand", enumAttrs := [],
            variant := "Init", form := "struct", variantAttrs := [],
            fields := [{ name := "note", ty := "Option<String>", shape := "opt", attrs := [] }] }
          { agg := "TrustAnchorSigner", variant := "Init", fields := [],
            status := .covered .cli_api [⟨"proto", "reinit", []⟩] [] } = false := by decide

/-- … and a row with the right fields that leaves one shape of a collection field out fails too. -/
example :
    rowOk { agg := "A", role := "command", enumName := "E", enumAttrs := [], variant := "V", form := "struct", variantAttrs := [],
            fields := [{ name := "xs", ty := "Vec<u8>", shape := "coll", attrs := [] }] }
          { agg := "A", variant := "V", fields := [("xs", "Vec<u8>")],
            status := .covered .daemon [⟨"system", "op", ["xs=nonempty"]⟩] [] } = false := by decide

example :
    rowOk { agg := "A", role := "command", enumName := "E", enumAttrs := [], variant := "V", form := "struct", variantAttrs := [],
            fields := [{ name := "xs", ty := "Vec<u8>", shape := "coll", attrs := [] }] }
          { agg := "A", variant := "V", fields := [("xs", "Vec<u8>")],
            status := .covered .daemon [⟨"system", "op", ["xs=nonempty"]⟩, ⟨"system", "op2", ["xs=empty"]⟩] [] } = true := by decide

/-! ## Serde attributes -/

/-- `key` or `key=…` among the items of the field's `#[serde(…)]` attributes. -/
def hasKey (key : String) (attrs : List String) : Bool :=
  attrs.any fun a => a == key || a.startsWith (key ++ "=")

/-- Fields that are skipped when "empty" and have no `default`, accepted with a reason:
(owner type or enum, field path, reason).  Empty today. -/
def serdeExceptions : List (String × String × String) := []

/-- A field that may be left out of the written form can be read back without it:
`skip_serializing_if` comes with `default`, or the field is a plain `Option<…>` (serde's derive reads a
missing `Option` field as `None` as long as no `deserialize_with` / `with` replaces the reader), or
the field is a listed exception. -/
def fieldOk (owner : String) (f : Field) : Bool :=
  !hasKey "skip_serializing_if" f.attrs
    || hasKey "default" f.attrs
    || (f.shape == "opt" && !hasKey "deserialize_with" f.attrs && !hasKey "with" f.attrs)
    || serdeExceptions.any (fun e => e.1 == owner && e.2.1 == f.name)

/-- Every field the translator found: of the command / change kinds, of the event kinds (paths
flattened through krill's own structs) and of every reachable struct / enum. -/
def allFields : List (String × Field) :=
  commandKinds.flatMap (fun k => k.fields.map (fun f => (k.enumName, f)))
    ++ eventKinds.flatMap (fun k => k.fields.map (fun f => (k.enumName, f)))
    ++ storedTypes.flatMap (fun t => t.fields.map (fun f => (t.name, f)))

def allFieldsOk : Bool := allFields.all (fun p => fieldOk p.1 p.2)

/-- **No stored field is skipped on writing without a way to read the shorter form back.** -/
theorem serde_attrs_reviewed : ∀ p ∈ allFields, fieldOk p.1 p.2 = true := by
  have h : allFieldsOk = true := by decide +kernel
  intro p hp
  exact List.all_eq_true.mp h p hp

/-- The table is not empty, and fields with the attribute exist (the statement is not vacuous). -/
example : (allFields.filter (fun p => hasKey "skip_serializing_if" p.2.attrs)).length > 10 := by decide +kernel

/-- The seeded shape: a collection skipped when empty, no `default` – rejected. -/
example : fieldOk "TrustAnchorReissueRequest"
    { name := "tal_https", ty := "Vec<uri::Https>", shape := "coll", attrs := ["skip_serializing_if=\"Vec::is_empty\""] } = false := by
  decide +kernel

example : fieldOk "TrustAnchorReissueRequest"
    { name := "tal_https", ty := "Vec<uri::Https>", shape := "coll", attrs := ["skip_serializing_if=\"Vec::is_empty\"", "default"] } = true := by
  decide +kernel

/-- A plain optional field needs no `default` … -/
example : fieldOk "CertifiedKey"
    { name := "old_repo", ty := "Option<RepoInfo>", shape := "opt", attrs := ["skip_serializing_if=\"Option::is_none\""] } = true := by
  decide +kernel

/-- … unless its reader has been replaced. -/
example : fieldOk "X"
    { name := "o", ty := "Option<Bytes>", shape := "opt",
      attrs := ["skip_serializing_if=\"Option::is_none\"", "deserialize_with=\"de\""] } = false := by
  decide +kernel

end KM.Props.C06Src
