/-
C07 (and C06) — source tie for the assumption "one call = one critical section".

`Props/C07.lean` proves serialisability for machines whose calls are ONE phase list bracketed by
ONE acquisition of the entity's scope lock (`Sys/Interleave.lean`).  That the code has this
shape used to be observed only (the event log of the `conc` stream is well bracketed) – and two
well-formed brackets, duplicate check in the first, write in the second, pass that test.  Here
the shape is tied to `/repo`'s source: the translator `store_sections` regenerates
`Generated/StoreSections.lean` on every run (every method of `AggregateStore`, `WalStore`,
`KeyValueStore`: its storage operations in source order, each with the `execute` closure it is in).

| clause of C07 | theorem |
|---|---|
| applied one at a time in a single total order … none is lost or applied twice (the assumption of `serialisable` holds of the source) | `store_methods_single_section`: every method that is one call on one entity has all its reads and writes in ONE section on the scope lock; `store_methods_roles`: every other method with storage operations is a pure delegate, read-only, a walk over entities, a cache helper or a one-section `KeyValueStore` helper – nothing that writes escapes the first theorem; `core_calls_not_exempt`: no exemption for `add_with_context`, `execute_opt_command`, WAL `add` |
| (the model's steps are the code's steps) | `model_phases_match_source`: per call the operations of the model's phases are the generated sequence (calls expanded, adjacent repetitions identified); `agg_phases_named` / `wal_phases_named`: the annotated phases ARE `execPhases`; `agg_phase_frame` / `wal_phase_frame`: a phase annotated without a write does not change the key-value scope, one without a cache write not the cache |
| (the assumption is necessary) | `check_outside_section_loses_init`: duplicate check in a section of its own – a 2-thread schedule, every section well bracketed, both `add`s acknowledged, one init command lost; `split_sequential_is_add`: sequentially the split variant is indistinguishable; `one_section_refuses_second_init`, `serial_adds_one_ok`, `concurrent_adds_one_ok`: the code's shape acknowledges exactly one |
| (what the reviewed exemption costs) | `drop_cache_after_section_strays`: `drop_aggregate` removes the cache entry after the section – a command in between writes into the deleted scope and a re-created entity replays it |

Dynamic side (stream `aggstore`, both modes): every call prints the sections it ran
(`sec=s:has.store`); the driver compares them with the generated table (`sectionsFit`,
`FAIL model sections`) and evaluates `singleSection` on them (`FAIL oracle single_section`);
`raceadd` (n threads add one new handle, many rounds) is judged by `exactly_one_init`.
-/
import KrillModel.ES.Sections
import KrillModel.ES.Lemmas
import KrillModel.ES.Reg
import KrillModel.Props.C07
namespace KM.Props.C07Src
open KM.ES KM.Sys KM.ES.Sections KM.Generated.StoreSections

/-! ## The source has the shape the theorems assume -/

/-- **store_methods_single_section.**  Every method of the stores that is one call on one entity
(`add_with_context`, `execute_opt_command` – i.e. `command`, `get_latest`, `save_snapshot` –,
`drop_aggregate`, WAL `add`, `execute_opt_command`, `remove`) performs every storage read and
every storage write – the reviewed exemptions of `Sections.exempt` apart – inside ONE
`execute(Some(scope), …)` closure: primitive operations only, all in the same section, that
section on the scope lock and not nested. -/
theorem store_methods_single_section :
    ∀ m ∈ storeMethods, mutating m.name = true → oneSection (checkedOps m) = true := by
  decide

/-- No exemption for the calls C07 quantifies over. -/
theorem core_calls_not_exempt :
    exempt .agg_add_with_context = [] ∧ exempt .agg_execute_opt_command = [] ∧
    exempt .wal_add = [] ∧ exempt .wal_execute_opt_command = [] := by
  decide

/-- Every method with storage operations is what `Sections.role` says it is: an entity call with
one section, a delegate (exactly one call of another method, nothing else), read-only through
everything it calls, a walk that only calls, a cache helper, or a `KeyValueStore` helper with
one section.  So a storage write is either in an entity call – covered by
`store_methods_single_section` – or in a helper that is one section by itself. -/
theorem store_methods_roles : ∀ m ∈ storeMethods, roleOk m = true := by
  decide

/-- A method that itself writes (key-value store or cache) is an entity call or a helper. -/
theorem writers_are_entity_calls_or_helpers :
    ∀ m ∈ storeMethods, (checkedOps m).any (fun o => writes o.op) = true →
      role m.name = .entityCall ∨ role m.name = .cacheHelper ∨ role m.name = .kvHelper := by
  decide

/-- `oneSection` says what it is meant to say. -/
theorem oneSection_spec {ops : List SectionOp} (h : oneSection ops = true) :
    ∃ i, ∀ o ∈ ops, o.sec = .inside i .scope 1 ∧ isCall o.op = false := by
  cases ops with
  | nil => simp [oneSection] at h
  | cons o rest =>
    simp only [oneSection, Bool.and_eq_true, List.all_eq_true, Bool.not_eq_true', beq_iff_eq] at h
    obtain ⟨⟨h1, h2⟩, h3⟩ := h
    cases hs : o.sec with
    | outside => rw [hs] at h1; simp at h1
    | inside i l d =>
      rw [hs] at h1
      have hl : l = .scope ∧ d = 1 := by
        cases l
        · match d, h1 with
          | 1, _ => exact ⟨rfl, rfl⟩
          | 0, h1 => simp at h1
          | n + 2, h1 => simp at h1
        · simp at h1
        · simp at h1
      obtain ⟨rfl, rfl⟩ := hl
      refine ⟨i, ?_⟩
      intro p hp
      rcases List.mem_cons.mp hp with rfl | hp
      · exact ⟨hs, h2⟩
      · obtain ⟨a, b⟩ := h3 p hp
        exact ⟨by rw [a, hs], b⟩

/-- Not vacuous: the shape of the seeded change – `self.has(..)?` first, then the section with
the write – is refused, and so is a write after the section. -/
example : oneSection [⟨.call .agg_has, .outside, false⟩, ⟨.store, .inside 0 .scope 1, false⟩,
    ⟨.cache_update, .inside 0 .scope 1, false⟩] = false := by decide
example : oneSection [⟨.has, .inside 0 .scope 1, false⟩, ⟨.store, .inside 1 .scope 1, false⟩] = false := by
  decide
example : oneSection [⟨.has, .inside 0 .global 1, false⟩, ⟨.store, .inside 0 .global 1, false⟩] = false := by
  decide
example : oneSection [⟨.has, .inside 0 .scope 1, false⟩, ⟨.store, .inside 0 .scope 1, false⟩] = true := by
  decide

/-! ## The model's phases are the code's operations -/

/-- The Boolean form of `model_phases_match_source`. -/
def phasesMatch (m : MethodRow) : Bool :=
  match modelOps m.name with
  | some l => collapse l == collapse (flatOps m)
  | none => true

/-- **model_phases_match_source.**  For every call the model has a step list for, the operations
of the model's steps – `phAdd`; `phLoad, phCatchUp, phDecide, phStore, phCache, phSnapshot,
phFinish`; the WAL phases; `dropAggregate`, `Wal.add`, `Wal.remove` – are, in order, the
operations the translator found in the method, up to the documented abstraction: calls of
`KeyValueStore` helpers replaced by the helper's operations, the history-cache mutex left out,
an operation directly following the same operation dropped (the two `kv.store` of the error
and the success branch are the one `phStore`; a loop is one round). -/
theorem model_phases_match_source :
    ∀ m ∈ storeMethods, ∀ l, modelOps m.name = some l → collapse l = collapse (flatOps m) := by
  have h : ∀ m ∈ storeMethods, phasesMatch m = true := by decide
  intro m hm l hl
  have := h m hm
  simp only [phasesMatch, hl, beq_iff_eq] at this
  exact this

/-- Every entity call has a model step list (the theorem above is not vacuous for any). -/
theorem entity_calls_are_modelled :
    ∀ m ∈ storeMethods, mutating m.name = true → (modelOps m.name).isSome = true := by
  decide

/-- The annotated phase names are the phases the interleaving model runs. -/
theorem agg_phases_named {A : Agg} (i : Nat) (cmd : Option (Sent A)) (snap wfail : Bool) :
    execPhases i cmd snap wfail = aggPhaseNames.map (aggPhaseFn i cmd snap wfail) := rfl

theorem wal_phases_named {T : Wal.WalT} (i : Nat) (cmd : Option T.Cmd) (snap wfail : Bool) :
    Wal.execPhases i cmd snap wfail = walPhaseNames.map (walPhaseFn i cmd snap wfail) := rfl

/-- The annotation is sound for the model: a phase annotated without a key-value write leaves
the key-value scope alone, a phase annotated without a cache write leaves the cache alone. -/
theorem agg_phase_frame {A : Agg} (i : Nat) (cmd : Option (Sent A)) (snap wfail : Bool)
    (ph : Phase) (p : Ent A × Local A) :
    ((aggPhaseOps ph).any kvWrite = false → (aggPhaseFn i cmd snap wfail ph p).1.kv = p.1.kv) ∧
    ((aggPhaseOps ph).any cacheWrite = false →
      (aggPhaseFn i cmd snap wfail ph p).1.cache = p.1.cache) := by
  cases ph
  case load =>
    refine ⟨fun _ => ?_, fun _ => ?_⟩ <;>
    · simp only [aggPhaseFn, phLoad]; repeat' split
      all_goals rfl
  case catchUp =>
    refine ⟨fun _ => ?_, fun _ => ?_⟩ <;>
    · simp only [aggPhaseFn, phCatchUp]; repeat' split
      all_goals rfl
  case decide =>
    refine ⟨fun _ => ?_, fun _ => ?_⟩ <;>
    · simp only [aggPhaseFn, phDecide]; repeat' split
      all_goals rfl
  case store =>
    refine ⟨fun h => by simp [aggPhaseOps, kvWrite] at h, fun _ => ?_⟩
    simp only [aggPhaseFn, phStore]; repeat' split
    all_goals rfl
  case process =>
    refine ⟨fun h => by simp [aggPhaseOps, kvWrite] at h, fun _ => ?_⟩
    simp only [aggPhaseFn, phProcess]; repeat' split
    all_goals rfl
  case cache =>
    refine ⟨fun _ => ?_, fun h => by simp [aggPhaseOps, cacheWrite] at h⟩
    simp only [aggPhaseFn, phCache]; repeat' split
    all_goals rfl
  case snapshot =>
    refine ⟨fun h => by simp [aggPhaseOps, kvWrite] at h, fun _ => ?_⟩
    simp only [aggPhaseFn, phSnapshot]; repeat' split
    all_goals rfl
  case finish =>
    refine ⟨fun _ => ?_, fun _ => ?_⟩ <;>
    · simp only [aggPhaseFn, phFinish]; repeat' split
      all_goals rfl

theorem wal_phase_frame {T : Wal.WalT} (i : Nat) (cmd : Option T.Cmd) (snap wfail : Bool)
    (ph : Phase) (p : Wal.Ent T × Wal.Local T) :
    ((walPhaseOps ph).any kvWrite = false → (walPhaseFn i cmd snap wfail ph p).1.kv = p.1.kv) ∧
    ((walPhaseOps ph).any cacheWrite = false →
      (walPhaseFn i cmd snap wfail ph p).1.cache = p.1.cache) := by
  cases ph
  case load =>
    refine ⟨fun _ => ?_, fun _ => ?_⟩ <;>
    · simp only [walPhaseFn, Wal.phLoad]; repeat' split
      all_goals rfl
  case catchUp =>
    refine ⟨fun _ => ?_, fun _ => ?_⟩ <;>
    · simp only [walPhaseFn, Wal.phCatchUp]; repeat' split
      all_goals rfl
  case decide => exact ⟨fun _ => rfl, fun _ => rfl⟩
  case store => exact ⟨fun _ => rfl, fun _ => rfl⟩
  case process =>
    refine ⟨fun h => by simp [walPhaseOps, kvWrite] at h, fun _ => ?_⟩
    simp only [walPhaseFn, Wal.phProcess]; repeat' split
    all_goals rfl
  case cache =>
    refine ⟨fun _ => ?_, fun h => by simp [walPhaseOps, cacheWrite] at h⟩
    simp only [walPhaseFn, Wal.phCache]; repeat' split
    all_goals rfl
  case snapshot =>
    refine ⟨fun h => by simp [walPhaseOps, kvWrite] at h, fun _ => ?_⟩
    simp only [walPhaseFn, Wal.phSnapshot]; repeat' split
    all_goals rfl
  case finish =>
    refine ⟨fun _ => ?_, fun _ => ?_⟩ <;>
    · simp only [walPhaseFn, Wal.phFinish]; repeat' split
      all_goals rfl

/-! ## The assumption is necessary: the duplicate check in a section of its own -/

/-- `phAdd` is the duplicate check followed by the rest. -/
theorem phAdd_eq {A : Agg} (i : Nat) (actor : String) (ic : A.InitCmd) (wfail : Bool) (e : Ent A) :
    phAdd i actor ic wfail (e, .start) =
      if e.kv.hasCmd 0 then (e, .done .duplicate) else phAddUnchecked i actor ic wfail (e, .start) := by
  simp only [phAdd, phAddUnchecked]
  split <;> rfl

/-- **split_sequential_is_add.**  Run back to back – nobody in between – the check section
followed by the write section does to the entity and returns to the caller exactly what the
one-section `add` does: no sequential test can tell the two apart. -/
theorem split_sequential_is_add {A : Agg} (s : SplitS A) (caller : Nat) (c : AddCall A) :
    let r := phWrite caller c (phCheck caller (s, Local.start))
    (r.1.ent, r.2.out) = add s.ent c.i c.actor c.ic c.wfail := by
  simp only [phWrite, phCheck, add, phAdd_eq, alookup_ainsert_same]
  cases s.ent.kv.hasCmd 0 <;> simp

/-- Two threads create the same, not yet existing handle (entity 0) through the split variant. -/
def twoCreators : Sys (splitMachine (Reg.regAgg 1)) :=
  Sys.init (fun _ => { ent := Ent.empty })
    [[(0, .check 0), (0, .write 0 ⟨0, "t0", "n0", false⟩)],
     [(0, .check 1), (0, .write 1 ⟨0, "t1", "n1", false⟩)]]

/-- Both duplicate checks first (each a complete, well-bracketed section: acquire, run,
release), then both writes (again complete sections). -/
def bothCheckFirst : List Nat := [0, 0, 0, 1, 1, 1, 0, 0, 0, 1, 1, 1]

/-- What the callers were told (`some (version, name)` = created), the actors of the stored
commands by key, and what a fresh store loads. -/
def splitSummary (sys : Sys (splitMachine (Reg.regAgg 1))) :
    List (List (Option (Nat × String))) × List (Nat × String) × Option (Nat × String) :=
  (sys.threads.map fun th => th.outs.filterMap fun o =>
      o.map fun o => match o with | .ok v => some (v.version, v.st.name) | _ => none,
   (sys.ents 0).ent.kv.cmds.map fun p => (p.1, p.2.actor),
   match loadFresh (sys.ents 0).ent with | .ok v => some (v.version, v.st.name) | _ => none)

/-- **check_outside_section_loses_init.**  With the duplicate check of `add` in a critical
section of its own – every section taken on the scope lock and well bracketed, the lock
excluding (`run true`) – the schedule `bothCheckFirst` lets both threads create the handle: both
are told `ok` (an instance named `n0`, an instance named `n1`), the store holds ONE
`command-0` – `t1`'s; `t0`'s acknowledged init command is lost and a fresh store loads `n1`.
Version 0 was handed out twice.  Hence `store_methods_single_section` is an assumption the
C07 theorems need, not a convenience. -/
theorem check_outside_section_loses_init :
    splitSummary (run true twoCreators bothCheckFirst) =
      ([[some (1, "n0")], [some (1, "n1")]], [(0, "t1")], some (1, "n1")) ∧
    (∀ th ∈ (run true twoCreators bothCheckFirst).threads, th.cur.isNone ∧ th.todo = []) := by
  decide

/-- The same two creators through the code's one-section `add`. -/
def twoCreatorsOneSection : Sys (addMachine (Reg.regAgg 1)) :=
  Sys.init (fun _ => Ent.empty) [[(0, ⟨0, "t0", "n0", false⟩)], [(0, ⟨0, "t1", "n1", false⟩)]]

/-- With check and write in one section the second creator is refused, whatever the two threads
do in between (here: thread 1 tries to start while thread 0 is inside). -/
theorem one_section_refuses_second_init :
    let sys := run true twoCreatorsOneSection [0, 1, 0, 1, 0, 1, 1, 1]
    (sys.threads.map fun th => th.outs.map fun o =>
      match o with | .ok v => "ok:" ++ v.st.name | .duplicate => "duplicate" | _ => "?") =
      [["ok:n0"], ["duplicate"]] ∧
    (sys.ents 0).kv.cmds.map (fun p => (p.1, p.2.actor)) = [(0, "t0")] := by
  decide

section OneOk
variable {A : Agg}

def isOk : Out A → Bool
  | .ok _ => true
  | _ => false

/-- Number of `add` calls that were acknowledged. -/
def okCount (outs : List (Nat × (addMachine A).Out)) : Nat :=
  (outs.filter fun o => isOk (A := A) o.2).length

theorem okCount_append (l : List (Nat × (addMachine A).Out)) (t : Nat) (o : (addMachine A).Out) :
    okCount (l ++ [(t, o)]) = okCount l + (if isOk (A := A) o then 1 else 0) := by
  simp only [okCount, List.filter_append, List.length_append]
  cases h : isOk (A := A) o <;> simp [List.filter, h]

theorem add_step (e : Ent A) (c : AddCall A) :
    let r := (addMachine A).runOp c e
    (e.kv.hasCmd 0 = true → r.1 = e ∧ isOk r.2 = false) ∧
    (e.kv.hasCmd 0 = false →
      (isOk r.2 = true ∧ r.1.kv.hasCmd 0 = true ∧
        r.1.kv.getCmd 0 = (A.processInit c.ic |>.toOption).map fun ev => ⟨c.actor, 0, none, .init ev⟩) ∨
      (isOk r.2 = false ∧ r.1 = e)) := by
  simp only [Machine.runOp, Machine.runFrom, addMachine, List.drop_zero, List.foldl_cons,
    List.foldl_nil, phAdd_eq]
  constructor
  · intro h; simp [h, Local.out, isOk]
  · intro h
    simp only [h, Bool.false_eq_true, if_false, phAddUnchecked]
    cases hp : A.processInit c.ic with
    | error err => right; simp [Local.out, isOk]
    | ok ev =>
      cases hw : c.wfail with
      | true => right; simp [Local.out, isOk]
      | false =>
        left
        simp [Local.out, isOk, Scope.hasCmd, Except.toOption]

/-- **serial_adds_one_ok.**  `add` calls for ONE handle, one after the other in any order, from a
state in which the handle does not exist: the number of acknowledged calls is 1 if the handle
exists afterwards and 0 otherwise – never two. -/
theorem serial_adds_one_ok (ents0 : Nat → Ent A) (h0 : (ents0 0).kv.hasCmd 0 = false)
    (order : List (Acq (addMachine A))) (hent : ∀ a ∈ order, a.ent = 0) :
    okCount (serial ents0 order).outs = if ((serial ents0 order).ents 0).kv.hasCmd 0 then 1 else 0 := by
  have key : ∀ (order : List (Acq (addMachine A))) (st : SerialSt (addMachine A)),
      (∀ a ∈ order, a.ent = 0) →
      okCount st.outs = (if (st.ents 0).kv.hasCmd 0 then 1 else 0) →
      okCount (order.foldl serialStep st).outs =
        if ((order.foldl serialStep st).ents 0).kv.hasCmd 0 then 1 else 0 := by
    intro order
    induction order with
    | nil => intro st _ h; exact h
    | cons a rest ih =>
      intro st hent h
      simp only [List.foldl_cons]
      apply ih _ (fun b hb => hent b (List.mem_cons_of_mem _ hb))
      have ha : a.ent = 0 := hent a List.mem_cons_self
      have hs := add_step (st.ents 0) a.op
      show okCount (st.outs ++ [(a.tid, ((addMachine A).runOp a.op (st.ents a.ent)).2)]) =
        if ((upd st.ents a.ent ((addMachine A).runOp a.op (st.ents a.ent)).1) 0).kv.hasCmd 0 then 1 else 0
      rw [okCount_append, h, ha]
      simp only [upd, if_true]
      cases hh : (st.ents 0).kv.hasCmd 0 with
      | true =>
        obtain ⟨h1, h2⟩ := hs.1 hh
        rw [h1, hh, h2]; simp
      | false =>
        rcases hs.2 hh with ⟨h1, h2, _⟩ | ⟨h1, h2⟩
        · rw [h2, h1]; simp
        · rw [h2, hh, h1]; simp
  have := key order { ents := ents0 } hent (by simp [okCount, h0])
  exact this

/-- **concurrent_adds_one_ok.**  Any number of threads sending `add` for one new handle through
the code's one-section `add`, any schedule, at quiescence: every thread holds the results of
the serial execution in lock order, and in that execution at most one call was acknowledged –
exactly one iff the handle now exists.  (`hent`: the calls are calls on entity 0 – the
acquisition log only holds program entries, `serialisable` item 4.) -/
theorem concurrent_adds_one_ok (ents0 : Nat → Ent A) (h0 : (ents0 0).kv.hasCmd 0 = false)
    (progs : List (List (Nat × AddCall A))) (sched : List Nat)
    (hq : ∀ (t : Nat) (th : Thread (addMachine A)),
      (run true (Sys.init ents0 progs) sched).threads[t]? = some th → th.cur = none ∧ th.todo = [])
    (hent : ∀ a ∈ (run true (Sys.init (M := addMachine A) ents0 progs) sched).acq, a.ent = 0) :
    let sys := run true (Sys.init (M := addMachine A) ents0 progs) sched
    let ser := serial ents0 sys.acq
    (∀ (t : Nat) (th : Thread (addMachine A)), sys.threads[t]? = some th → th.outs = ser.outsOf t) ∧
    okCount ser.outs = (if (sys.ents 0).kv.hasCmd 0 then 1 else 0) := by
  intro sys ser
  obtain ⟨h1, h2⟩ := C07.quiescent_equals_serial (M := addMachine A) ents0 progs sched hq
  refine ⟨fun t th ht => (h2 t th ht).1, ?_⟩
  rw [h1 0]
  exact serial_adds_one_ok ents0 h0 _ hent

/-- The hypotheses are satisfiable (four creators, a schedule that runs them to the end). -/
example :
    let progs : List (List (Nat × AddCall (Reg.regAgg 1))) :=
      [[(0, ⟨0, "t0", "n0", false⟩)], [(0, ⟨0, "t1", "n1", false⟩)],
       [(0, ⟨0, "t2", "n2", false⟩)], [(0, ⟨0, "t3", "n0", false⟩)]]
    let sys := run true (Sys.init (M := addMachine (Reg.regAgg 1)) (fun _ => Ent.empty) progs)
      [2, 0, 1, 2, 3, 2, 0, 0, 0, 1, 1, 1, 3, 3, 3]
    (∀ th ∈ sys.threads, th.cur.isNone ∧ th.todo = []) ∧ (∀ a ∈ sys.acq, a.ent = 0) ∧
    okCount (serial (fun _ => Ent.empty) sys.acq).outs = 1 := by
  decide

end OneOk

/-! ## What the reviewed exemption of `drop_aggregate` costs -/

/-- Thread 0 deletes the entity (`dropKv` in the section, `dropCache` after it), thread 1 sends a
command through the same store object, thread 0 then creates the handle again and reads it. -/
def dropRace : Sys (dropMachine (Reg.regAgg 1)) :=
  Sys.init
    (fun _ => (add (Ent.empty : Ent (Reg.regAgg 1)) 0 "init" "n0" false).1)
    [[(0, .dropKv), (0, .dropCache 0)], [(0, .call (.cmd 0 ⟨"late", .add 2⟩ false))]]

/-- **drop_cache_after_section_strays.**  `drop_aggregate` clears the cache after the scope lock
is released (`Sections.exempt`).  If a command of another thread gets the lock in between, it
finds the deleted entity in the cache, is acknowledged (version 2, count 2) and stores
`command-1` into the emptied scope: the scope now holds `command-1` without `command-0` – an
entity that "does not exist" (`has` = false) with an audit record.  When the handle is created
again, the new entity's first read replays the stray command of the deleted one (count 2
instead of 0).  With the cache cleared inside the section (`dropKv; dropCache` back to back) the
command is refused as `unknown`.  Model-level witness; not replayed on the code (there is no
hook point between the release of the lock and `cache_remove`); the `conc` stream serialises
`drop_aggregate` with the other calls on the entity. -/
theorem drop_cache_after_section_strays :
    let sys := run true dropRace [0, 0, 0, 1, 1, 1, 1, 1, 1, 1, 1, 1, 0, 0, 0]
    let e := sys.ents 0
    (sys.threads.map fun th => th.outs.filterMap fun o => o.map fun o =>
        match o with | .ok v => some (v.version, v.st.count) | _ => none) = [[], [some (2, 2)]] ∧
    e.kv.cmds.map (fun p => (p.1, p.2.actor)) = [(1, "late")] ∧ has e = false ∧
    (let e' := (add e 0 "again" "n1" false).1
     (match (getLatest e' 0).2 with | .ok v => some (v.version, v.st.count) | _ => none) = some (2, 2)) ∧
    (let sys' := run true dropRace [0, 0, 0, 0, 0, 0, 1, 1, 1, 1, 1, 1, 1, 1, 1]
     (sys'.threads.map fun th => th.outs.filterMap fun o => o.map fun o =>
        match o with | .unknown => "unknown" | _ => "other") = [[], ["unknown"]] ∧
     (sys'.ents 0).kv.cmds = []) := by
  decide

/-! ## The dynamic check's predicates on examples -/

/-- What the unchanged `add` shows fits the table and is one section; the two sections of the
seeded variant fit neither. -/
example : sectionsFit .agg_add [⟨"s", ["has", "store"]⟩] = true ∧
    sectionsFit .agg_add [⟨"s", ["has"]⟩] = true ∧
    sectionsFit .agg_add [⟨"s", ["has"]⟩, ⟨"s", ["store"]⟩] = false ∧
    sectionsFit .agg_add [⟨"o", ["has"]⟩, ⟨"s", ["store"]⟩] = false ∧
    singleSection [⟨"s", ["has"]⟩, ⟨"s", ["store"]⟩] = false ∧
    singleSection [⟨"g", []⟩, ⟨"s", ["delete_scope"]⟩] = true := by
  decide

/-- A history query runs one section per command it reads; a WAL removal the store-wide section
of `has_scope` and the section that deletes. -/
example : sectionsFit .agg_command_history [⟨"s", ["get"]⟩, ⟨"s", ["get"]⟩, ⟨"s", ["get"]⟩] = true ∧
    sectionsFit .wal_remove [⟨"g", []⟩, ⟨"s", ["delete_scope"]⟩] = true ∧
    sectionsFit .wal_remove [⟨"g", []⟩] = true ∧
    sectionsFit .agg_drop_aggregate [⟨"s", ["delete_scope"]⟩, ⟨"s", ["get"]⟩] = false := by
  decide

end KM.Props.C07Src
