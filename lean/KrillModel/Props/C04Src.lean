/-
C04 (source tie, function body) — `KeyState::knows_key` (`/repo/src/server/ca/keys.rs`), as the
translator `pure_fns` regenerates it on every run, equals the model's `KeyState.knows`
(Ca/Keys.lean): a key is "one of ours" in EVERY stage of a roll – pending, current, NEW and old.

`append_entitlement_events` asks `knows_key` for every certificate the parent lists; a listed key the
CA does not know becomes `UnexpectedKeyFound` and a revocation request.  The round-4 seeded change for
C04 re-wrote the function over accessors and forgot the new key: a parent synchronisation during
`RollNew` then made the CA ask its parent to revoke its own staged key, and the roll ended on a key
the parent certifies nothing for ("no operation interleaved with the roll can leave a key without
certificate in use").  With `gen_knows_key_eq_model` the set of keys per variant is tied to the Rust
`match`: a forgotten key, a wrong variant, `&&` for `||` – each changes the generated definition and
this file stops checking.  (`Generated/ApplyDomain.lean` ties the panic arms of the `apply_*`
functions; this is the one decision function of the key life cycle that the roll's safety rests on.)
-/
import KrillModel.Generated.PureFnsC04
import KrillModel.Ca.Keys
namespace KM.Props.C04Src
open KM.CaK

/-- Variant of the model's state ↦ variant of the Rust enum. -/
def variantOf : KeyState → KM.Gen.C04.KeyState
  | .pending _ => .Pending
  | .active _ => .Active
  | .rollPending .. => .RollPending
  | .rollNew .. => .RollNew
  | .rollOld .. => .RollOld

/-- The identifiers the payload of the variant holds (`d` where the variant has no such key – the
generated body never consults it there: `gen_knows_key_ignores_absent`). -/
def pendingKey (d : KeyId) : KeyState → KeyId
  | .pending p => p.id | .rollPending p _ => p.id | _ => d
def currentKey (d : KeyId) : KeyState → KeyId
  | .active c => c.id | .rollPending _ c => c.id | .rollNew _ c => c.id | .rollOld c _ => c.id | _ => d
def newKey (d : KeyId) : KeyState → KeyId
  | .rollNew n _ => n.id | _ => d
def oldKey (d : KeyId) : KeyState → KeyId
  | .rollOld _ o => o.id | _ => d

/-- `KeyState::knows_key` as translated from the source = the model, for every state and key. -/
theorem gen_knows_key_eq_model (ks : KeyState) (ki d : KeyId) :
    KM.Gen.C04.KeyState.knows_key (variantOf ks) (pendingKey d ks) (currentKey d ks) (newKey d ks) (oldKey d ks) ki
      = ks.knows ki := by
  cases ks <;>
    simp [KM.Gen.C04.KeyState.knows_key, variantOf, pendingKey, currentKey, newKey, oldKey, KeyState.knows,
      KeyState.keyIds, eq_comm]

/-- The placeholder is irrelevant: keys the variant does not have are not consulted. -/
theorem gen_knows_key_ignores_absent (ks : KeyState) (ki d d' : KeyId) :
    KM.Gen.C04.KeyState.knows_key (variantOf ks) (pendingKey d ks) (currentKey d ks) (newKey d ks) (oldKey d ks) ki
      = KM.Gen.C04.KeyState.knows_key (variantOf ks) (pendingKey d' ks) (currentKey d' ks) (newKey d' ks)
          (oldKey d' ks) ki := by
  rw [gen_knows_key_eq_model, gen_knows_key_eq_model]

/-- Non-vacuity, and what the seeded change broke: the NEW key of a roll is known. -/
example (n c : CertKey) : KM.Gen.C04.KeyState.knows_key (variantOf (.rollNew n c)) (pendingKey 0 (.rollNew n c))
    (currentKey 0 (.rollNew n c)) (newKey 0 (.rollNew n c)) (oldKey 0 (.rollNew n c)) n.id = true := by
  simp [KM.Gen.C04.KeyState.knows_key, variantOf, newKey]

/-! ### `KeyState::append_keyroll_activate`

`roll_completes_partial`, `single_signer` and the activation lemmas (Props/C04.lean) run on `KeyState.keyrollActivate`:
the activation is REFUSED while the new or the current key has an open certificate request (the round-5 seeded change
dropped that precondition: under the trust anchor the old key kept its open request, the issuance replaced the queued
revocation at the proxy and the class stayed in the old-key phase for ever), otherwise exactly one `KeyRollActivated`
with the revocation request for the CURRENT key. -/

/-- What the model's verdict looks like as the result of the Rust function (the event list it appended to). -/
def activateAs {ε Ev : Type} (errPending : ε) (act : Ev) (events : List Ev) : Except KeyErr (List KeyEv) → Except ε (List Ev)
  | .ok [] => .ok events
  | .ok _ => .ok (events ++ [act])
  | .error _ => .error errPending

/-- `KeyState::append_keyroll_activate` as translated from the source = the model, in the stage it is called in
(`ResourceClass::append_keyroll_activate` calls it for a class that has a new key; elsewhere it is `KeyUseNoNewKey`). -/
theorem gen_append_keyroll_activate_eq_model {Q ε Ev : Type} (n c : CertKey) (mkReq : KeyId → Q) (act : Q → Ev)
    (errPending errNoNew : ε) (events : List Ev) :
    KM.Gen.C04.KeyState.append_keyroll_activate (variantOf (.rollNew n c)) n.req c.req c.id (fun k => .ok (mkReq k)) act
      errPending errNoNew events
      = activateAs errPending (act (mkReq c.id)) events (KeyState.rollNew n c).keyrollActivate := by
  simp only [KM.Gen.C04.KeyState.append_keyroll_activate, variantOf, KeyState.keyrollActivate]
  cases n.req <;> cases c.req <;> rfl

/-- In every other stage the function refuses (`KeyUseNoNewKey`). -/
theorem gen_append_keyroll_activate_other {K Q ε Ev : Type} (ks : KeyState) (h : ∀ n c, ks ≠ .rollNew n c) (a b : Bool) (k : K)
    (rk : K → Except ε Q) (act : Q → Ev) (e1 e2 : ε) (events : List Ev) :
    KM.Gen.C04.KeyState.append_keyroll_activate (variantOf ks) a b k rk act e1 e2 events = .error e2 := by
  cases ks <;> first | rfl | exact absurd rfl (h _ _)

end KM.Props.C04Src
