/-
C04 (source tie, function body) — `KeyState::knows_key` (`/repo/src/server/ca/keys.rs`), as the
translator `pure_fns` regenerates it on every run, equals the model's `KeyState.knows`
(Ca/Keys.lean): a key is "one of ours" in EVERY stage of a roll – pending, current, NEW and old.

`append_entitlement_events` asks `knows_key` for every certificate the parent lists; a listed key the
CA does not know becomes `UnexpectedKeyFound` and a revocation request.  The round-4 seeded change for
C04 re-wrote the function over accessors and forgot the new key: a parent synchronisation during
`RollNew` then made the CA ask its parent to revoke its own staged key, and the roll ended on a key
the parent certifies nothing for ("no operation interleaved with the roll can leave a key without
certificate in use").  With `gen_knows_key_eq_model` the set of keys per variant is tied to the Rust
`match`: a forgotten key, a wrong variant, `&&` for `||` – each changes the generated definition and
this file stops checking.  (`Generated/ApplyDomain.lean` ties the panic arms of the `apply_*`
functions; this is the one decision function of the key life cycle that the roll's safety rests on.)
-/
import KrillModel.Generated.PureFnsC04
import KrillModel.Ca.Keys
namespace KM.Props.C04Src
open KM.CaK

/-- Variant of the model's state ↦ variant of the Rust enum. -/
def variantOf : KeyState → KM.Gen.C04.KeyState
  | .pending _ => .Pending
  | .active _ => .Active
  | .rollPending .. => .RollPending
  | .rollNew .. => .RollNew
  | .rollOld .. => .RollOld

/-- The identifiers the payload of the variant holds (`d` where the variant has no such key – the
generated body never consults it there: `gen_knows_key_ignores_absent`). -/
def pendingKey (d : KeyId) : KeyState → KeyId
  | .pending p => p.id | .rollPending p _ => p.id | _ => d
def currentKey (d : KeyId) : KeyState → KeyId
  | .active c => c.id | .rollPending _ c => c.id | .rollNew _ c => c.id | .rollOld c _ => c.id | _ => d
def newKey (d : KeyId) : KeyState → KeyId
  | .rollNew n _ => n.id | _ => d
def oldKey (d : KeyId) : KeyState → KeyId
  | .rollOld _ o => o.id | _ => d

/-- `KeyState::knows_key` as translated from the source = the model, for every state and key. -/
theorem gen_knows_key_eq_model (ks : KeyState) (ki d : KeyId) :
    KM.Gen.C04.KeyState.knows_key (variantOf ks) (pendingKey d ks) (currentKey d ks) (newKey d ks) (oldKey d ks) ki
      = ks.knows ki := by
  cases ks <;>
    simp [KM.Gen.C04.KeyState.knows_key, variantOf, pendingKey, currentKey, newKey, oldKey, KeyState.knows,
      KeyState.keyIds, eq_comm]

/-- The placeholder is irrelevant: keys the variant does not have are not consulted. -/
theorem gen_knows_key_ignores_absent (ks : KeyState) (ki d d' : KeyId) :
    KM.Gen.C04.KeyState.knows_key (variantOf ks) (pendingKey d ks) (currentKey d ks) (newKey d ks) (oldKey d ks) ki
      = KM.Gen.C04.KeyState.knows_key (variantOf ks) (pendingKey d' ks) (currentKey d' ks) (newKey d' ks)
          (oldKey d' ks) ki := by
  rw [gen_knows_key_eq_model, gen_knows_key_eq_model]

/-- Non-vacuity, and what the seeded change broke: the NEW key of a roll is known. -/
example (n c : CertKey) : KM.Gen.C04.KeyState.knows_key (variantOf (.rollNew n c)) (pendingKey 0 (.rollNew n c))
    (currentKey 0 (.rollNew n c)) (newKey 0 (.rollNew n c)) (oldKey 0 (.rollNew n c)) n.id = true := by
  simp [KM.Gen.C04.KeyState.knows_key, variantOf, newKey]

end KM.Props.C04Src
