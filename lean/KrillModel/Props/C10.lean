/-
C10 — Publication protocol: atomic deltas, hash checks, publisher isolation.
Property theorems only; helper lemmas live in `KrillModel.Pubd.Lemmas`.

The model is `KrillModel/Pubd/{Content,Rrdp,Manager}.lean`; it is tied to
`src/server/pubd/{content,rrdp,access,manager}.rs` by the `pubd` correspondence stream.

One statement of the property is *false* of the code and is proved in negated form with a
witness that replays on the implementation (see `known_findings.jsonl`):

* F-C10-1 `isolation_fails_for_nested_handles`: handles may contain `/`, so `a` and `a/b` (and
  `ta` and anything) have nested jails.

F-C10-2 (a URI written with an upper-case scheme and a lower-case authority was equal, as
`uri::Rsync`, to the all-lower-case URI but a different object key) is repaired in the code
(fix 0b03ffe5); the model follows the fixed code, `key_respects_uri_equality` states what the fix
establishes and `pinned_key_splits_equal_uris` keeps the old behaviour as a counter-model.
-/
import KrillModel.Pubd.Lemmas
namespace KM.Props.C10
open KM.Pubd

/-! ## Accepted exactly when every element applies, inside the jail -/

/-- `publish_iff` — a delta verifies (against the publisher's current ⊕ staged objects) exactly
when every published URI is new, every updated or withdrawn URI holds content with the stated
hash, and every URI lies under the publisher's base URI.  (Holds for every delta; elements are
judged against the state before the delta.) -/
theorem publish_iff (objs : Objs) (jail : Uri) (d : Delta) :
    verifyDelta objs jail d = none ↔
      ∀ e ∈ d, inJail jail e.uri = true ∧
        match e with
        | .publish u _ => objs.get? (key u) = none
        | .update u h _ => (objs.get? (key u)).map Content.hash = some h
        | .withdraw u h => (objs.get? (key u)).map Content.hash = some h := by
  rw [verifyDelta_eq_none_iff]
  constructor
  · intro h e he; exact (checkElem_eq_none_iff objs jail e).mp (h e he)
  · intro h e he; exact (checkElem_eq_none_iff objs jail e).mpr (h e he)

/-- The same at the level of the manager: a publication request of publisher `h` is answered
with success exactly when `h` is registered and the delta is empty or verifies in `h`'s jail
against what `list` returns for `h`. -/
theorem publish_accepted_iff (s : Server) (h : Handle) (d : Delta) :
    (s.publish h d).2 = .ok ↔
      ∃ jail, s.jail? h = some jail ∧ (d = [] ∨ verifyDelta (s.list h) jail d = none) := by
  unfold Server.publish Server.list
  cases hj : s.jail? h with
  | none => simp
  | some jail =>
    simp only [Option.some.injEq, exists_eq_left']
    by_cases hd : d = []
    · simp [hd]
    · have : d.isEmpty = false := by cases d <;> simp_all
      simp only [this, Bool.false_eq_true, ↓reduceIte, hd, false_or]
      cases hv : verifyDelta (s.rrdp.objectsFor h) jail d <;> simp

example : (Server.publish ⟨⟨rsyncLower, ⟨"h", 0⟩, ⟨"m", 0⟩, [], true⟩, ⟨5, 50, false, false, false⟩,
      [(["ca"], ⟨rsyncLower, ⟨"h", 0⟩, ⟨"m", 0⟩, ["ca"], true⟩)], Rrdp.create 1 1⟩ ["ca"]
      [.publish ⟨rsyncLower, ⟨"h", 0⟩, ⟨"m", 0⟩, ["ca", "a.cer"], false⟩ ⟨1, 10⟩]).2 = .ok := by decide

/-! ## All or nothing -/

/-- `publish_atomic` — a refused request changes nothing; an accepted one stages the whole delta
(and nothing else changes: access, configuration, RRDP session/serial/snapshot/deltas and the
other publishers' staged elements stay as they are). -/
theorem publish_atomic (s : Server) (h : Handle) (d : Delta) :
    ((s.publish h d).2 ≠ .ok → (s.publish h d).1 = s) ∧
    ((s.publish h d).2 = .ok →
      (s.publish h d).1 = s ∨ (s.publish h d).1 = { s with rrdp := s.rrdp.stage h d }) := by
  unfold Server.publish
  cases s.jail? h with
  | none => simp
  | some jail =>
    by_cases hd : d.isEmpty = true
    · simp [hd]
    · simp only [hd, Bool.false_eq_true, ↓reduceIte]
      cases verifyDelta (s.rrdp.objectsFor h) jail d <;> simp

/-- Staging touches only the publisher's own staged elements. -/
theorem stage_touches_only_own (r : Rrdp) (h q : Handle) (d : Delta) (hq : q ≠ h) :
    (r.stage h d).stagedOf q = r.stagedOf q ∧ (r.stage h d).current q = r.current q ∧
    (r.stage h d).snapshot = r.snapshot ∧ (r.stage h d).deltas = r.deltas ∧
    (r.stage h d).serial = r.serial ∧ (r.stage h d).session = r.session := by
  refine ⟨?_, rfl, rfl, rfl, rfl, rfl⟩
  simp only [Rrdp.stage, Rrdp.stagedOf, hget?_hset_ne _ _ _ _ hq]

/-! ## The list reply is the current content, staged changes included -/

/-- `staging_refines` — for a delta that verifies against current ⊕ staged and names every URI at
most once, merging it into the staged elements has exactly the effect of applying it to
current ⊕ staged; and the staged elements stay consistent with the published objects (so that
the RRDP delta generated from them fits the published snapshot).  `AllCanon` only says that the
URIs are well-formed rsync URIs (scheme `rsync` in any case – what the parser accepts); the
case of scheme and authority is free (`key_respects_uri_equality`). -/
theorem staging_refines (cur : Objs) (st : Staged) (jail : Uri) (d : Delta)
    (hwf : WfStaged cur st) (hcs : AllCanon st) (hcd : AllCanon d) (hnd : KeyNodup d)
    (hv : verifyDelta (objectsFor cur st) jail d = none) :
    (∀ k, (objectsFor cur (mergeNew st d)).get? k = (applyDelta (objectsFor cur st) d).get? k) ∧
    WfStaged cur (mergeNew st d) ∧ AllCanon (mergeNew st d) := by
  have hndo := keyNodup_ordered hnd
  have hco : AllCanon d.ordered := fun e he => hcd e (mem_ordered.mp he)
  obtain ⟨heq, hcanon⟩ := foldl_mergeElem_congr d.ordered hco hcs
  have hok : ∀ e ∈ d.ordered, ElemOkView cur st e := by
    intro e he
    have := (checkElem_eq_none_iff _ jail e).mp
      ((verifyDelta_eq_none_iff _ jail d).mp hv e (mem_ordered.mp he))
    cases e <;> simp only [ElemOk, ElemOkView] at this ⊢ <;>
      rw [← get?_objectsFor cur st hwf.nodup] <;> exact this.2
  obtain ⟨hwf', hview⟩ := foldl_mergeElem_keyEq d.ordered hndo hwf hok
  unfold mergeNew mergeNewWith
  rw [heq]
  refine ⟨fun k => ?_, hwf', hcanon⟩
  rw [get?_objectsFor cur _ hwf'.nodup, hview, get?_applyDelta _ d hnd, findKey_ordered hnd,
    get?_objectsFor cur st hwf.nodup]

example : WfStaged [] [] ∧ AllCanon [] ∧
    verifyDelta (objectsFor [] []) ⟨rsyncLower, ⟨"h", 0⟩, ⟨"m", 0⟩, ["ca"], true⟩
      [.publish ⟨rsyncLower, ⟨"h", 0⟩, ⟨"m", 0⟩, ["ca", "a.cer"], false⟩ ⟨1, 10⟩] = none :=
  ⟨WfStaged.nil _, (fun e he => nomatch he), by decide⟩

/-- The staged elements are keyed by `uri::Rsync` (equality `rsEq`), the published objects by
`CurrentObjectUri` (`key`): for well-formed URIs the two agree (since fix 0b03ffe5). -/
theorem key_respects_uri_equality (u v : Uri) (hu : u.canon = true) (hv : v.canon = true) :
    rsEq u v = true ↔ key u = key v := by
  rw [rsEq_iff_keyEq hu hv]
  simp [keyEq]

/-- An example with every case variant: upper-case scheme with lower-case authority included. -/
example :
    let u : Uri := ⟨rsyncLower, ⟨"h", 0⟩, ⟨"m", 0⟩, ["ca", "a.cer"], false⟩
    let u' : Uri := ⟨⟨"rsync", 31⟩, ⟨"h", 0⟩, ⟨"m", 0⟩, ["ca", "a.cer"], false⟩
    let u'' : Uri := ⟨⟨"rsync", 16⟩, ⟨"h", 1⟩, ⟨"m", 0⟩, ["ca", "a.cer"], false⟩
    key u = key u' ∧ key u = key u'' ∧
    verifyDelta [(key u, ⟨1, 10⟩)] ⟨rsyncLower, ⟨"h", 0⟩, ⟨"m", 0⟩, ["ca"], true⟩
      [.publish u' ⟨2, 10⟩] = some (.present u') := by decide

/-- COUNTER-MODEL OF THE PINNED TREE (F-C10-2, before fix 0b03ffe5): the object key of
`RSYNC://h/m/ca/a.cer` differed from the key of `rsync://h/m/ca/a.cer` although the URIs are
equal – a held URI could be published again and a staged element was silently replaced. -/
theorem pinned_key_splits_equal_uris :
    ∃ u v : Uri, u.canon = true ∧ v.canon = true ∧ rsEq u v = true ∧
      keyPinned u ≠ keyPinned v ∧ key u = key v :=
  ⟨⟨rsyncLower, ⟨"h", 0⟩, ⟨"m", 0⟩, ["ca", "a.cer"], false⟩,
   ⟨⟨"rsync", 31⟩, ⟨"h", 0⟩, ⟨"m", 0⟩, ["ca", "a.cer"], false⟩, by decide, by decide, by decide,
   by decide, by decide⟩

/-! ## An RRDP update publishes exactly what was listed -/

/-- `rrdp_update_preserves` — `apply_rrdp_updated` moves every publisher's staged elements into
the snapshot: afterwards the published objects of `h` are exactly what `list` returned before
(and still returns), nothing is staged, and the elements that went into the RRDP delta fit the
objects `h` had published before (publishes are new, updates and withdraws name the published
hash).  Holds in every state reachable by requests whose deltas name each URI once and use
canonical URIs (`SInv`, see `invariant_reachable`). -/
theorem rrdp_update_preserves (s : Server) (hi : SInv s) (t rnd : Nat) (h : Handle) :
    (s.rrdp.applyUpdated t rnd).objectsFor h = s.rrdp.objectsFor h ∧
    (s.rrdp.applyUpdated t rnd).current h = s.rrdp.objectsFor h ∧
    (s.rrdp.applyUpdated t rnd).staged = [] ∧
    ∀ e ∈ s.rrdp.stagedOf h, ElemWf (s.rrdp.current h) e := by
  have hcur := current_applyUpdated hi.r.stagedNodup hi.r.snapNodup t rnd h
  refine ⟨?_, hcur, rfl, (hi.r.wf h).wf⟩
  show objectsFor ((s.rrdp.applyUpdated t rnd).current h) [] = _
  rw [hcur]
  rfl

/-- The invariant used above holds after every history of requests. -/
theorem invariant_reachable (base : Uri) (cfg : Cfg) (session rnd : Nat) (ops : List Op)
    (hok : ∀ op ∈ ops, OpOk op) : SInv ((Server.init base cfg session rnd).run ops) :=
  (SInv.init base cfg session rnd).run hok

/-! ## Jails -/

/-- `jails_disjoint_iff` — the jails of two publishers have a URI in common exactly when one
handle is a `/`-segment prefix of the other (this includes equal handles) or one of them is
`ta` (whose jail is the whole repository). -/
theorem jails_disjoint_iff (base : Uri) (p q : Handle) (jp jq : Uri)
    (hp : publisherBase base p = some jp) (hq : publisherBase base q = some jq) :
    (∃ u, inJail jp u = true ∧ inJail jq u = true) ↔
      (p <+: q ∨ q <+: p ∨ p = taHandle ∨ q = taHandle) := by
  -- shape of the two jails
  have shape : ∀ (h : Handle) (j : Uri), publisherBase base h = some j →
      (h = taHandle ∧ j = base) ∨
      (h ≠ taHandle ∧ j = { base with segs := base.segs ++ h, dir := true }) := by
    intro h j hj
    unfold publisherBase at hj
    by_cases ht : h = taHandle
    · simp only [ht, beq_self_eq_true, ↓reduceIte, Option.some.injEq] at hj
      exact Or.inl ⟨ht, hj.symm⟩
    · have : (h == taHandle) = false := by simp [ht]
      simp only [this, Bool.false_eq_true, ↓reduceIte] at hj
      split at hj
      · exact Or.inr ⟨ht, (Option.some.inj hj).symm⟩
      · cases hj
  have hmod : ∀ (segs : List String) (d : Bool) (u : Uri),
      eqModule ({ base with segs := segs, dir := d } : Uri) u = eqModule base u := fun _ _ _ => rfl
  have inj : ∀ (segs : List String) (d : Bool) (u : Uri),
      inJail ({ base with segs := segs, dir := d } : Uri) u = true ↔
        eqModule base u = true ∧ segs <+: u.segs ∧ segs.length < u.segs.length := by
    intro segs d u
    simp only [inJail, hmod, Bool.and_eq_true, List.isPrefixOf_iff_prefix, decide_eq_true_eq,
      and_assoc]
  have injb : ∀ (u : Uri), inJail base u = true ↔
      eqModule base u = true ∧ base.segs <+: u.segs ∧ base.segs.length < u.segs.length := by
    intro u
    simp only [inJail, Bool.and_eq_true, List.isPrefixOf_iff_prefix, decide_eq_true_eq, and_assoc]
  -- a URI below `base ++ h`
  let wit : Handle → Uri := fun h => { base with segs := base.segs ++ h ++ ["x"], dir := false }
  have hwm : ∀ h, eqModule base (wit h) = true := by
    intro h; simp [wit, eqModule, CiName.eqIgnoreCase]
  constructor
  · rintro ⟨u, hup, huq⟩
    rcases shape p jp hp with ⟨hpt, _⟩ | ⟨_, rfl⟩
    · exact Or.inr (Or.inr (Or.inl hpt))
    · rcases shape q jq hq with ⟨hqt, _⟩ | ⟨_, rfl⟩
      · exact Or.inr (Or.inr (Or.inr hqt))
      · have h1 := ((inj _ _ u).mp hup).2.1
        have h2 := ((inj _ _ u).mp huq).2.1
        rcases List.prefix_or_prefix_of_prefix h1 h2 with h | h
        · exact Or.inl ((List.prefix_append_right_inj _).mp h)
        · exact Or.inr (Or.inl ((List.prefix_append_right_inj _).mp h))
  · intro hn
    -- the longer handle's witness lies in both jails
    have below : ∀ (a b : Handle) (ja : Uri), publisherBase base a = some ja →
        (a <+: b ∨ a = taHandle) → inJail ja (wit b) = true := by
      intro a b ja ha hab
      rcases shape a ja ha with ⟨_, rfl⟩ | ⟨hna, rfl⟩
      · rw [injb]
        refine ⟨hwm b, ?_, ?_⟩
        · simp only [wit, List.append_assoc]; exact List.prefix_append _ _
        · simp [wit]
      · rcases hab with hab | hab
        · rw [inj]
          refine ⟨hwm b, ?_, ?_⟩
          · simp only [wit, List.append_assoc]
            rw [List.prefix_append_right_inj]
            exact List.IsPrefix.trans hab (List.prefix_append _ _)
          · have := List.IsPrefix.length_le hab
            simp only [wit, List.length_append, List.length_cons, List.length_nil]
            omega
        · exact absurd hab hna
    have self : ∀ (a : Handle) (ja : Uri), publisherBase base a = some ja →
        inJail ja (wit a) = true := fun a ja ha => below a a ja ha (Or.inl (List.prefix_refl a))
    rcases hn with h | h | h | h
    · exact ⟨wit q, below p q jp hp (Or.inl h), self q jq hq⟩
    · exact ⟨wit p, self p jp hp, below q p jq hq (Or.inl h)⟩
    · exact ⟨wit q, below p q jp hp (Or.inr h), self q jq hq⟩
    · exact ⟨wit p, self p jp hp, below q p jq hq (Or.inr h)⟩

example : publisherBase ⟨rsyncLower, ⟨"h", 0⟩, ⟨"m", 0⟩, [], true⟩ ["ca", "x"] =
    some ⟨rsyncLower, ⟨"h", 0⟩, ⟨"m", 0⟩, ["ca", "x"], true⟩ := by decide

/-! ## Isolation -/

/-- `isolation` — for two publishers whose jails have no URI in common (by
`jails_disjoint_iff`: neither handle a segment prefix of the other, neither `ta`), a request of
`p` leaves everything `q` has untouched (listed, published and staged objects), an accepted
delta of `p` names no URI of `q`'s jail, and nothing `p` is told (its list reply) is an object
of `q`.  `hi` holds in every reachable state (`invariant_reachable`). -/
theorem isolation (s : Server) (hi : SInv s) (p q : Handle) (hpq : q ≠ p) (jp jq : Uri)
    (hp : s.jail? p = some jp) (hq : publisherBase s.base q = some jq)
    (hdis : ¬ ∃ u, inJail jp u = true ∧ inJail jq u = true) (d : Delta) :
    (s.publish p d).1.list q = s.list q ∧
    (s.publish p d).1.rrdp.current q = s.rrdp.current q ∧
    (s.publish p d).1.rrdp.stagedOf q = s.rrdp.stagedOf q ∧
    ((s.publish p d).2 = .ok → ∀ e ∈ d, inJail jq e.uri = false) ∧
    (∀ o ∈ s.list p, ∀ o' ∈ s.list q, o.1 ≠ o'.1) := by
  have hstate : (s.publish p d).1 = s ∨ (s.publish p d).1 = { s with rrdp := s.rrdp.stage p d } := by
    have := publish_atomic s p d
    by_cases hr : (s.publish p d).2 = .ok
    · exact this.2 hr
    · exact Or.inl (this.1 hr)
  refine ⟨?_, ?_, ?_, ?_, ?_⟩
  · rcases hstate with h | h <;> rw [h]
    exact objectsFor_stage_ne _ _ _ _ hpq
  · rcases hstate with h | h <;> rw [h]
    rfl
  · rcases hstate with h | h <;> rw [h]
    exact (stage_touches_only_own _ _ _ _ hpq).1
  · intro hok e he
    obtain ⟨jail, hj, hd⟩ := (publish_accepted_iff s p d).mp hok
    rw [hp] at hj
    have hjj : jail = jp := (Option.some.inj hj).symm
    subst hjj
    rcases hd with hd | hd
    · subst hd; cases he
    · have := ((publish_iff _ _ _).mp hd e he).1
      cases hin : inJail jq e.uri with
      | false => rfl
      | true => exact absurd ⟨e.uri, this, hin⟩ hdis
  · intro o ho o' ho' heq
    have h1 := hi.r.objectsFor_jailed (hi.access p jp hp) o ho
    have h2 := hi.r.objectsFor_jailed hq o' ho'
    rw [← heq] at h2
    exact hdis ⟨o.1, h1, h2⟩

/-- `list_reply_is_current_content` — after an accepted publication request the list reply of the
publisher is the former list reply with the delta applied (all of it, including what is not yet
visible in RRDP), and a refused request leaves it as it was. -/
theorem list_reply_is_current_content (s : Server) (hi : SInv s) (h : Handle) (d : Delta)
    (hok : OpOk (.publish h d)) :
    ((s.publish h d).2 = .ok → ∀ k, ((s.publish h d).1.list h).get? k = (applyDelta (s.list h) d).get? k) ∧
    ((s.publish h d).2 ≠ .ok → (s.publish h d).1.list h = s.list h) := by
  refine ⟨fun hacc k => ?_, fun hrej => by rw [(publish_atomic s h d).1 hrej]⟩
  obtain ⟨jail, hj, hd⟩ := (publish_accepted_iff s h d).mp hacc
  unfold Server.publish
  rw [hj]
  simp only
  rcases hd with rfl | hv
  · simp only [List.isEmpty_nil, ↓reduceIte]
    unfold applyDelta Delta.ordered
    rfl
  · by_cases he : d.isEmpty = true
    · have : d = [] := List.isEmpty_iff.mp he
      subst this
      simp only [List.isEmpty_nil, ↓reduceIte]
      unfold applyDelta Delta.ordered
      rfl
    · simp only [he, Bool.false_eq_true, ↓reduceIte]
      unfold Server.list at hv
      rw [hv]
      simp only
      show (objectsFor ((s.rrdp.stage h d).current h) ((s.rrdp.stage h d).stagedOf h)).get? k = _
      rw [stagedOf_stage]
      simp only [↓reduceIte]
      exact (staging_refines _ _ jail d (hi.r.wf h) (hi.r.canon h) hok.1 hok.2 hv).1 k

/-- F-C10-1: without disjoint jails isolation fails.  Handles may contain `/`; `a` and `a/b`
are both accepted, the jail of `a` contains the jail of `a/b`, and `a` may publish the very URI
`a/b` holds: the repository then has two objects for one URI. -/
theorem isolation_fails_for_nested_handles :
    ∃ (base : Uri) (ops : List Op) (u : Uri) (c c' : Content),
      (∀ op ∈ ops, OpOk op) ∧ c ≠ c' ∧
      let s := (Server.init base ⟨5, 50, false, false, false⟩ 1 1).run ops
      (s.list ["a", "b"]).get? u = some c ∧ (s.list ["a"]).get? u = some c' := by
  let base : Uri := ⟨rsyncLower, ⟨"h", 0⟩, ⟨"m", 0⟩, [], true⟩
  let u : Uri := ⟨rsyncLower, ⟨"h", 0⟩, ⟨"m", 0⟩, ["a", "b", "x.cer"], false⟩
  refine ⟨base, [.addpub ["a"], .addpub ["a", "b"], .publish ["a", "b"] [.publish u ⟨1, 10⟩],
    .publish ["a"] [.publish u ⟨2, 10⟩]], u, ⟨1, 10⟩, ⟨2, 10⟩, ?_, by decide, by decide, by decide⟩
  intro op hop
  simp only [List.mem_cons, List.mem_nil_iff, or_false] at hop
  rcases hop with rfl | rfl | rfl | rfl
  · trivial
  · trivial
  · exact ⟨fun e he => by simp only [List.mem_singleton] at he; subst he; rfl,
      List.pairwise_singleton _ _⟩
  · exact ⟨fun e he => by simp only [List.mem_singleton] at he; subst he; rfl,
      List.pairwise_singleton _ _⟩

/-! ## Removing a publisher -/

/-- `remove_exact` — removing publisher `h` leaves `h` with no object (everything it had is
withdrawn, staged changes included), un-registers `h`, and changes nothing of any other
publisher; after the next RRDP update the snapshot holds nothing of `h`. -/
theorem remove_exact (s : Server) (hi : SInv s) (h : Handle) :
    (∀ k, ((s.removePublisher h).1.list h).get? k = none) ∧
    (s.removePublisher h).1.jail? h = none ∧
    (∀ q, q ≠ h → (s.removePublisher h).1.list q = s.list q ∧
      (s.removePublisher h).1.rrdp.current q = s.rrdp.current q ∧
      (s.removePublisher h).1.jail? q = s.jail? q) ∧
    (∀ t rnd k, (((s.removePublisher h).1.rrdp.applyUpdated t rnd).current h).get? k = none) := by
  -- the content part
  have hlist : ∀ k, ((s.rrdp.removePublisher h).objectsFor h).get? k = none := by
    intro k
    unfold Rrdp.removePublisher
    simp only
    split
    · rename_i he
      rw [List.isEmpty_iff.mp he]; rfl
    · obtain ⟨hc, hn, hok⟩ := hi.r.withdraws_facts h (fun _ => true)
      rw [filter_true_eq] at hc hn hok
      obtain ⟨hview, hwf', _⟩ := mergeNew_spec (hi.r.wf h) (hi.r.canon h) hc hn hok
      show (objectsFor ((s.rrdp.stage h _).current h) ((s.rrdp.stage h _).stagedOf h)).get? k = none
      rw [stagedOf_stage]
      simp only [↓reduceIte]
      show (objectsFor (s.rrdp.current h) (mergeNew (s.rrdp.stagedOf h) (withdrawAll (s.rrdp.objectsFor h)))).get? k = none
      unfold withdrawAll
      rw [get?_objectsFor _ _ hwf'.nodup, hview k]
      cases hf : findKey ((s.rrdp.objectsFor h).map fun p => Elem.withdraw p.1 p.2.hash) k with
      | some e =>
        obtain ⟨hm, _⟩ := findKey_some hf
        obtain ⟨p, _, rfl⟩ := List.mem_map.mp hm
        rfl
      | none =>
        simp only
        rw [← get?_objectsFor _ _ (hi.r.wf h).nodup]
        show (s.rrdp.objectsFor h).get? k = none
        cases hg : (s.rrdp.objectsFor h).get? k with
        | none => rfl
        | some c =>
          have hmem := Objs.get?_some_mem hg
          have hkk := ((hi.r.objectsFor_ok h).keys _ hmem).1
          have : findKey ((s.rrdp.objectsFor h).map fun p => Elem.withdraw p.1 p.2.hash) k =
              some (.withdraw k c.hash) := by
            have := findKey_of_mem hn (e := .withdraw k c.hash)
              (List.mem_map.mpr ⟨(k, c), hmem, rfl⟩)
            simp only [Elem.uri] at this hkk
            rw [hkk] at this
            exact this
          rw [hf] at this
          cases this
  have hother : ∀ q, q ≠ h → (s.rrdp.removePublisher h).objectsFor q = s.rrdp.objectsFor q ∧
      (s.rrdp.removePublisher h).current q = s.rrdp.current q := by
    intro q hq
    unfold Rrdp.removePublisher
    simp only
    split
    · exact ⟨rfl, rfl⟩
    · exact ⟨objectsFor_stage_ne _ _ _ _ hq, rfl⟩
  have hrr : (s.removePublisher h).1.rrdp = s.rrdp.removePublisher h := by
    unfold Server.removePublisher; simp only; split <;> rfl
  have hjail : ∀ q, (s.removePublisher h).1.jail? q = if q = h then none else s.jail? q := by
    intro q
    unfold Server.removePublisher
    simp only
    split
    · simp only [Server.jail?]; rw [hget?_herase]
    · rename_i hn
      simp only [Server.jail?] at hn ⊢
      by_cases hq : q = h
      · simp only [hq, ↓reduceIte]
        cases hg : hget? s.access h with
        | none => rfl
        | some j => simp [hg] at hn
      · simp [hq]
  refine ⟨?_, ?_, ?_, ?_⟩
  · intro k; show ((s.removePublisher h).1.rrdp.objectsFor h).get? k = none
    rw [hrr]; exact hlist k
  · rw [hjail]; simp
  · intro q hq
    refine ⟨?_, ?_, ?_⟩
    · show (s.removePublisher h).1.rrdp.objectsFor q = _
      rw [hrr]; exact (hother q hq).1
    · rw [hrr]; exact (hother q hq).2
    · rw [hjail]; simp [hq]
  · intro t rnd k
    rw [hrr]
    have hinv := hi.r.removePublisher h
    rw [current_applyUpdated hinv.stagedNodup hinv.snapNodup]
    exact hlist k

/-- Isolation over histories: whatever the other publishers request (publications, additions and
removals of other publishers), and through RRDP updates and session resets, the list reply of
`q` – everything `q` has – stays exactly as it is. -/
theorem isolation_history (q : Handle) : ∀ (ops : List Op) (s : Server), SInv s →
    (∀ op ∈ ops, OpOk op ∧ match op with
      | .addpub h => h ≠ q
      | .rmpub h => h ≠ q
      | .publish h _ => h ≠ q
      | .update _ => True
      | .reset _ _ => True
      | .delete _ _ => False) →
    (s.run ops).list q = s.list q := by
  intro ops
  induction ops with
  | nil => intro s _ _; rfl
  | cons op t ih =>
    intro s hi hok
    have hstep : (s.step op).list q = s.list q := by
      have ho := (hok op (by simp)).2
      cases op with
      | addpub h =>
        simp only at ho
        simp only [Server.step, Server.addPublisher]
        cases publisherBase s.base h with
        | none => rfl
        | some jail =>
          simp only
          split
          · rfl
          · show objectsFor ((s.rrdp.publisherAdded h).current q) ((s.rrdp.publisherAdded h).stagedOf q) = _
            rw [current_publisherAdded]
            have : (s.rrdp.publisherAdded h).stagedOf q = s.rrdp.stagedOf q := by
              unfold Rrdp.publisherAdded; split <;> rfl
            rw [this]; rfl
      | rmpub h =>
        simp only at ho
        exact ((remove_exact s hi h).2.2.1 q (Ne.symm ho)).1
      | publish h d =>
        simp only at ho
        rcases (publish_atomic s h d) with ⟨h1, h2⟩
        by_cases hr : (s.publish h d).2 = .ok
        · rcases h2 hr with h3 | h3
          · simp only [Server.step]; rw [h3]
          · simp only [Server.step]; rw [h3]; exact objectsFor_stage_ne _ _ _ _ (Ne.symm ho)
        · simp only [Server.step]; rw [h1 hr]
      | update rnd =>
        simp only [Server.step, Server.update]
        split
        · rfl
        · split
          · rfl
          · exact (rrdp_update_preserves s hi _ rnd q).1
      | reset sess rnd => rfl
      | delete del rndOf => exact absurd ho (by simp)
    have := ih (s.step op) (hi.step (hok op (by simp)).1) (fun o ho => hok o (by simp [ho]))
    simp only [Server.run, List.foldl_cons] at this ⊢
    rw [this, hstep]

/-- Non-vacuity: a history of another publisher (with an RRDP update and a session reset) meets
the hypotheses for `q = ca`. -/
example :
    let u : Uri := ⟨rsyncLower, ⟨"h", 0⟩, ⟨"m", 0⟩, ["cb", "a.cer"], false⟩
    ∀ op ∈ ([.addpub ["cb"], .publish ["cb"] [.publish u ⟨1, 10⟩], .update 2, .reset 2 3] : List Op),
      OpOk op ∧ match op with
        | .addpub h => h ≠ ["ca"]
        | .rmpub h => h ≠ ["ca"]
        | .publish h _ => h ≠ ["ca"]
        | .update _ => True
        | .reset _ _ => True
        | .delete _ _ => False := by
  intro u op hop
  simp only [List.mem_cons, List.mem_nil_iff, or_false] at hop
  rcases hop with rfl | rfl | rfl | rfl
  · exact ⟨trivial, by decide⟩
  · refine ⟨⟨fun e he => ?_, List.pairwise_singleton _ _⟩, by decide⟩
    simp only [List.mem_singleton] at he; subst he; rfl
  · exact ⟨trivial, trivial⟩
  · exact ⟨trivial, trivial⟩

end KM.Props.C10
