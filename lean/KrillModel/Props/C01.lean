/-
C01 — Published tree is relying-party valid and says exactly what was configured.

Theorems over `Ca/RoaObjects.lean` (derivation of ROA/ASPA/router-certificate objects from the
configuration), `Ca/Objects.lean` (manifests, repository synchronisation) and `Sys/Rp.lean` (an
abstract relying party) and `Sys/Tree.lean` (a hierarchy of CAs as a rose tree).  Helper lemmas:
`Ca/RoaLemmas.lean`, `Ca/ObjLemmas*.lean`, `Sys/RpLemmas.lean`, `Sys/TreeLemmas.lean` (the walk over
the hierarchy), `Sys/PointLemmas.lean` (one level with all kinds of objects).
-/
import KrillModel.Ca.RoaLemmas
import KrillModel.Ca.ObjLemmas
import KrillModel.Ca.ObjLemmasSync
import KrillModel.Sys.RpLemmas
import KrillModel.Ca.ClassLemmas
import KrillModel.Sys.TreeLemmas
import KrillModel.Sys.PointLemmas
namespace KM.Props.C01
open KM.Ca.Pub KM.Sys.Rp

/-! ### Objects say exactly what is configured and covered -/

/-- For every reachable `Roas` state, every route set, every received certificate (cover
predicate) and every pair of thresholds: after `create_updates` has been applied, the payloads of
the ROA objects are exactly the configured routes the certificate covers – in every mode (simple,
start aggregating, stop aggregating, aggregate) – each payload sits in exactly one object, and the
state is again well-formed. -/
theorem roas_payloads_exact (r : Roas) (hr : r.WF) (cov : Payload → Bool) (routes : List Payload)
    (hroutes : routes.Nodup) (deagg agg : Nat) (mintS : Payload → ObjMeta) (mintA : AggKey → ObjMeta) :
    let r' := r.apply (r.createUpdates cov routes deagg agg mintS mintA)
    (∀ p, p ∈ r'.payloads ↔ (p ∈ routes ∧ cov p = true)) ∧ r'.payloads.Nodup ∧ r'.WF :=
  createUpdates_exact r hr cov routes hroutes deagg agg mintS mintA

/-- Non-vacuity: the initial state is well-formed, so by the theorem (and `renew_due_objects` of
C14 for renewals) every state reached by any sequence of re-derivations is. -/
example : (({} : Roas)).WF := wf_empty

/-- A well-formed state in aggregation mode, with thresholds that make the next step stop
aggregating. -/
example : ∃ r : Roas, r.WF ∧ r.mode 1 2 2 = .stopAggregating := by
  refine ⟨{ agg := [(⟨1, none⟩, ⟨[⟨1, false, 0, 24, 24⟩], default⟩)] }, ?_, by decide⟩
  exact { simpleKeys := by simp [keys], aggKeys := by simp [keys], simpleAuth := by simp,
          aggGroup := by simp, aggAsn := by simp, aggNodup := by simp, aggNonempty := by simp,
          exclusive := Or.inl rfl }

/-- The mode decision (both thresholds, hysteresis, `total = 0` never switches). -/
theorem mode_characterisation (r : Roas) (total deagg agg : Nat) :
    r.mode total deagg agg =
      if r.isAggregating then (if 0 < total ∧ total < deagg then .stopAggregating else .aggregate)
      else (if total > agg ∧ 0 < total then .startAggregating else .simple) := by
  unfold Roas.mode
  by_cases h0 : total = 0
  · subst h0; cases r.isAggregating <;> simp
  · have : 0 < total := Nat.pos_of_ne_zero h0
    cases r.isAggregating <;> simp [h0, this]

/-- ASPA objects: after `create_updates` there is exactly one object per configured customer AS
the certificate holds, carrying exactly the configured definition – nothing else. -/
theorem aspas_exact (objs : AspaObjects) (hasAsn : Nat → Bool) (defs : List AspaDefn)
    (mint : AspaDefn → ObjMeta) (hw : AspaWF objs) (hd : (defs.map (·.customer)).Nodup) :
    let objs' := aspaApply objs (aspaCreateUpdates objs hasAsn defs mint)
    AspaWF objs' ∧ ∀ d, (∃ e ∈ objs', e.2.defn = d) ↔ (d ∈ defs ∧ hasAsn d.customer = true) :=
  aspas_exact' objs hasAsn defs mint hw hd

example : AspaWF [] := ⟨by simp [keys], by simp⟩

/-- Router certificates: after `create_updates` there is exactly one certificate per configured
(AS, key) whose AS the certificate holds. -/
theorem bgpsec_exact (certs : RouterCerts) (hasAsn : Nat → Bool) (defs : List RouterKey)
    (mint : RouterKey → ObjMeta) (hk : (keys certs).Nodup) (hd : defs.Nodup) :
    let certs' := routerApply certs (routerCreateUpdates certs hasAsn defs mint)
    (keys certs').Nodup ∧ ∀ k, k ∈ keys certs' ↔ (k ∈ defs ∧ hasAsn k.asn = true) :=
  routers_exact certs hasAsn defs mint hk hd

/-! ### Manifests -/

/-- A manifest built at creation or re-issue lists the CRL and exactly the published objects. -/
theorem manifest_lists_exactly (s : KeyObjectSet) (t : Timing) (i : IssueIn) (k : NewKey) :
    ListsExactly (s.reissue t i) ∧ ListsExactly (k.create t) :=
  ⟨(good_reissue s t i).2.1, (good_create k t).2.1⟩

/-- … and this holds for every key set of every class after every command (whatever its events)
and every republish run: changes of the object set always come with a re-issue. -/
theorem manifest_lists_exactly_always (t : Timing) (o : CaObjects) (ops : List CaOp)
    (h : ∀ s ∈ allSets o, GoodSet s) : ∀ s ∈ allSets (caRun t o ops), ListsExactly s :=
  fun s hs => (good_caRun t ops o h s hs).2.1

/-- With distinct names the listing is literally "CRL, then every published object". -/
theorem manifest_entries (s : KeyObjectSet) (hg : GoodSet s) (hfresh : s.crlName ∉ keys s.published) :
    s.manifest.entries = (s.crlName, s.crl.hash) :: s.published.map fun e => (e.1, e.2.hash) :=
  entries_eq s hg hfresh

/-! ### Repository synchronisation -/

/-- `ca_repo_sync`: applying the delta computed from the server's list reply to ANY server content
of the publisher yields exactly the map of `all_publish_elements` (a later duplicate URI wins, as
in the code's `collect::<HashMap>`). -/
theorem sync_repo_exact (server : List (Uri × Nat)) (hn : (keys server).Nodup) (o : CaObjects) :
    (keys (syncRepo server o)).Nodup ∧
    ∀ u, get? (syncRepo server o) u = get? (elementMap (allPublishElements o)) u :=
  syncRepo_exact server (allPublishElements o) hn

/-- Nothing to do ⇒ empty delta is *not* claimed; what is claimed is idempotence: a second sync
leaves the content as it is. -/
theorem sync_repo_idempotent (server : List (Uri × Nat)) (hn : (keys server).Nodup) (o : CaObjects) (u : Uri) :
    get? (syncRepo (syncRepo server o) o) u = get? (syncRepo server o) u := by
  obtain ⟨h1, h2⟩ := sync_repo_exact server hn o
  rw [(sync_repo_exact _ h1 o).2 u, h2 u]

/-! ### The key set mirrors the class (`objects_mirror`, ROAs, one key) -/

/-- Along every history of a resource class (re-derivations for any routes / certificate /
thresholds, renewals, republish runs) starting from a fresh class, the key object set publishes
exactly the ROA objects the class believes it issued (by name, serial, expiry, hash), the ROA
state is well-formed and the key set is well-formed (manifest lists exactly, CRL lists the
revocations, numbers agree). -/
theorem objects_mirror (nm : Naming) (hnm : nm.Ok) (t : Timing) (k : NewKey) (ops : List ClassOp)
    (hops : ∀ op ∈ ops, op.ok) :
    let c := (ClassState.init k t).run nm t ops
    c.roas.WF ∧ (keys c.set.published).Nodup ∧ (∀ e, e ∈ c.set.published ↔ e ∈ roaView nm c.roas) ∧
    GoodSet c.set := by
  intro c
  obtain ⟨h1, ⟨h2, h3⟩, h4⟩ := classInv_run nm hnm t ops (ClassState.init k t) hops (classInv_init nm k t)
  exact ⟨h1, h2, h3, h4⟩

/-- Non-vacuity: names that identify objects exist. -/
example : exampleNaming.Ok := exampleNaming_ok

/-! ### One CA level, composed

Full statement (DESIGN `quiescent_valid`): for every history of API operations over a hierarchy of
CAs, once the tasks are drained, `TreeValid` holds from the trust anchor and the validated
payloads are exactly `⋃ configured(ca) ∩ covered-by-current-cert(ca)`.

Proved here: one CA level, one key, ROAs.  After *any* history of the class (re-derivations,
renewals, republish runs from a fresh class) ending – possibly followed by renewals/republish runs
– with a re-derivation for `routes` under the CA's certificate, and after a repository
synchronisation from ANY previous server content, a relying party that decodes the files
faithfully, inside the manifest's window, with no current object expired or revoked, accepts the
publication point and extracts exactly the configured-and-covered payloads.

Missing for the full statement: "no current object is on the CRL / expired" as an invariant over
histories (needs freshness of serial numbers; checked dynamically by the oracle `RpTreeValid`),
child certificates and the recursion over the hierarchy (`TreeValid` with fuel is defined and
judged dynamically through the relying-party walk), ASPA and router objects inside the
composition (their exactness is proved above), key rolls (two key sets per class; C04). -/
theorem quiescent_valid_partial (nm : Naming) (hnm : nm.Ok) (t : Timing) (k : NewKey)
    (ops₁ ops₂ : List ClassOp) (hops₁ : ∀ op ∈ ops₁, op.ok) (hnd : ∀ op ∈ ops₂, op.isDerive = false)
    (routes : List Payload) (hroutes : routes.Nodup) (deagg agg : Nat)
    (mintS : Payload → ObjMeta) (mintA : AggKey → ObjMeta) (i : IssueIn)
    (ca : Cert) (rcn : Nat) (server : List (Uri × Nat)) (hsrv : (keys server).Nodup)
    (cat : Catalog) (now : Nat) :
    let c := (((ClassState.init k t).run nm t ops₁).step nm t
      (.derive ca.resources.coversPfx routes deagg agg mintS mintA i)).run nm t ops₂
    let files := filesAfterSync server rcn c.set
    Decodes cat ca.subject c.roas c.set →
    c.set.mftName = ca.mftName → c.set.crlName = ca.crlName → ca.mftName ≠ ca.crlName →
    ca.mftName ∉ keys c.set.published → ca.crlName ∉ keys c.set.published →
    (c.set.revision.thisUpdate ≤ now ∧ now < c.set.revision.nextUpdate) →
    (∀ x ∈ infos c.roas, now < x.obj.expires) → (∀ x ∈ infos c.roas, x.obj.serial ∉ c.set.crl.revoked) →
    PointValid cat files ca now = true ∧
    PayloadsExact (pointVrps cat files ca) (routes.filter ca.resources.coversPfx) = true := by
  intro c files hdec hm hc hne hmf hcf hwin hexp hrev
  -- the invariant along the whole history
  have inv1 := classInv_run nm hnm t ops₁ (ClassState.init k t) hops₁ (classInv_init nm k t)
  have inv2 := classInv_step nm hnm t _ (.derive ca.resources.coversPfx routes deagg agg mintS mintA i) hroutes inv1
  have hops₂ : ∀ op ∈ ops₂, op.ok := by
    intro op ho
    have := hnd op ho
    cases op <;> simp [ClassOp.isDerive, ClassOp.ok] at this ⊢
  have inv3 : ClassInv nm c := classInv_run nm hnm t ops₂ _ hops₂ inv2
  -- payloads: fixed by the re-derivation, kept by what follows
  have hpay : ∀ p, p ∈ c.roas.payloads ↔ (p ∈ routes ∧ ca.resources.coversPfx p = true) := by
    intro p
    rw [payloads_run_nonDerive nm hnm t ops₂ _ inv2 hnd p]
    exact (createUpdates_exact _ inv1.1 ca.resources.coversPfx routes hroutes deagg agg mintS mintA).1 p
  obtain ⟨f1, f2⟩ := filesAfterSync_spec server hsrv rcn c.set inv3.2.1.1 (by rw [hm, hc]; exact hne)
    (by rw [hm]; exact hmf) (by rw [hc]; exact hcf)
  have ready : Ready nm ca c.roas c.set files now :=
    { wf := inv3.1, good := inv3.2.2, mirror := inv3.2.1.2, mftName := hm, crlName := hc, namesDiffer := hne,
      mftFresh := hmf, crlFresh := hcf, filesNodup := f1, files := f2, window := hwin,
      unexpired := hexp, unrevoked := hrev, covered := fun p hp => ((hpay p).mp hp).2 }
  refine ⟨point_valid nm cat ca c.roas c.set files now hdec ready, ?_⟩
  simp only [PayloadsExact]
  rw [sameMembers_iff]
  intro p
  rw [point_vrps nm cat ca c.roas c.set files now hdec ready p, hpay p, List.mem_filter]

/-- Non-vacuity of the composition: a concrete state (one simple ROA, fresh manifest) meets all
hypotheses and the validator accepts it. -/
example :
    let ca : Cert := ⟨0, 1, .atoms [1], 10000, 5, 100, 101⟩
    let p : Payload := ⟨64513, false, (10 * 256 + 1) * 65536, 24, 24⟩
    let files : Files := [(100, 900), (101, 901), (7, 902)]
    let cat : Catalog := fun h =>
      if h = 900 then some (.mft ⟨1, 2, 0, 5000, [(101, 901), (7, 902)]⟩)
      else if h = 901 then some (.crl ⟨1, 2, 0, 5000, []⟩)
      else if h = 902 then some (.signed ⟨1, 77, 9000, .roa [p]⟩) else none
    PointValid cat files ca 1000 = true ∧ pointVrps cat files ca = [p] := by
  decide

/-! ### The hierarchy, composed (any depth, any branching)

`Sys/Tree.lean`: a hierarchy is a rose tree of `Node`s (certificate, files of the publication
point, configuration, children); `tree.repo` is the server content a relying party sees,
`tree.expectedVrps` / `expectedAspas` / `expectedRouterKeys` the specification
`⋃ configured(ca) ∩ covered-by-current-cert(ca)`.  `NodeOk cat now n` is the *local* condition on
one node, exactly what the one-level results give (point valid; payloads of the point = the
configured-and-covered ones; CA certificates found at the point = the children's certificates).
The theorems below lift the local condition to the relying party's top-down walk. -/

/-- If every node is locally fine and publication-point keys are pairwise distinct, the top-down
validation from the trust anchor succeeds (given fuel for the depth of the hierarchy). -/
theorem tree_valid (cat : Catalog) (now : Nat) (tree : Node) (fuel : Nat)
    (hok : ∀ n ∈ tree.nodes, NodeOk cat now n) (hd : tree.subjects.Nodup) (hfuel : tree.depth ≤ fuel) :
    TreeValid cat tree.repo now fuel tree.ca = true :=
  (treeValid_iff_aux cat now tree hd (fun n hn => (hok n hn).childrenExact) fuel tree
    (Node.mem_nodes_self tree) hfuel).mpr (fun m hm => (hok m hm).valid)

/-- Sharp form: when the child certificates found are exactly the children's, the walk succeeds
*iff* every publication point of the hierarchy validates. -/
theorem tree_valid_iff (cat : Catalog) (now : Nat) (tree : Node) (fuel : Nat)
    (hch : ∀ n ∈ tree.nodes, ChildrenExact cat n) (hd : tree.subjects.Nodup) (hfuel : tree.depth ≤ fuel) :
    TreeValid cat tree.repo now fuel tree.ca = true ↔
      ∀ n ∈ tree.nodes, PointValid cat n.files n.ca now = true :=
  treeValid_iff_aux cat now tree hd hch fuel tree (Node.mem_nodes_self tree) hfuel

/-- Converse direction (`TreeValid` is not trivially true): one publication point anywhere in the
hierarchy that does not validate – stale manifest or CRL, a listed-but-missing or
present-but-unlisted file, an unacceptable object – makes the walk from the trust anchor fail,
for every fuel, as soon as the certificates of the children are found at their parents' points. -/
theorem tree_invalid (cat : Catalog) (now : Nat) (tree : Node) (fuel : Nat) (hd : tree.subjects.Nodup)
    (hfound : ∀ n ∈ tree.nodes, ∀ ch ∈ n.children, ch.ca ∈ childCerts cat n.files n.ca)
    (bad : Node) (hmem : bad ∈ tree.nodes) (hbad : PointValid cat bad.files bad.ca now = false) :
    TreeValid cat tree.repo now fuel tree.ca = false :=
  treeValid_false_aux cat now tree hd hfound bad hbad fuel tree (Node.mem_nodes_self tree) hmem

/-- The route-origin payloads the walk collects are exactly (as a set) the configured
authorisations covered by the configuring CA's current certificate, united over the hierarchy. -/
theorem tree_vrps_exact (cat : Catalog) (now : Nat) (tree : Node) (fuel : Nat)
    (hok : ∀ n ∈ tree.nodes, NodeOk cat now n) (hd : tree.subjects.Nodup) (hfuel : tree.depth ≤ fuel) :
    sameMembers (treeVrps cat tree.repo fuel tree.ca) tree.expectedVrps = true := by
  rw [sameMembers_iff, treeVrps_eq_walk]
  exact walk_exact (pointVrps cat) Node.ownVrps cat tree hd (fun n hn => (hok n hn).childrenExact)
    (fun n hn => sameMembers_iff.mp (hok n hn).vrps) fuel tree (Node.mem_nodes_self tree) hfuel

/-- … likewise the ASPA definitions … -/
theorem tree_aspas_exact (cat : Catalog) (now : Nat) (tree : Node) (fuel : Nat)
    (hok : ∀ n ∈ tree.nodes, NodeOk cat now n) (hd : tree.subjects.Nodup) (hfuel : tree.depth ≤ fuel) :
    sameMembers (treeAspas cat tree.repo fuel tree.ca) tree.expectedAspas = true := by
  rw [sameMembers_iff, treeAspas_eq_walk]
  exact walk_exact (pointAspas cat) Node.ownAspas cat tree hd (fun n hn => (hok n hn).childrenExact)
    (fun n hn => sameMembers_iff.mp (hok n hn).aspas) fuel tree (Node.mem_nodes_self tree) hfuel

/-- … and the router keys. -/
theorem tree_router_keys_exact (cat : Catalog) (now : Nat) (tree : Node) (fuel : Nat)
    (hok : ∀ n ∈ tree.nodes, NodeOk cat now n) (hd : tree.subjects.Nodup) (hfuel : tree.depth ≤ fuel) :
    sameMembers (treeRouterKeys cat tree.repo fuel tree.ca) tree.expectedRouterKeys = true := by
  rw [sameMembers_iff, treeRouterKeys_eq_walk]
  exact walk_exact (pointRouterKeys cat) Node.ownRouterKeys cat tree hd (fun n hn => (hok n hn).childrenExact)
    (fun n hn => sameMembers_iff.mp (hok n hn).routerKeys) fuel tree (Node.mem_nodes_self tree) hfuel

/-- Non-vacuity of the hypotheses of `tree_valid` … `tree_router_keys_exact`: the three-level
hierarchy `Example.tree` (trust anchor → CA → child CA; ROAs at two levels, one ASPA, two router
keys, one configured-but-uncovered route and ASPA) has three nodes, each locally fine, with distinct
keys and depth 3. -/
example : Example.tree.nodes.length = 3 ∧ (∀ n ∈ Example.tree.nodes, NodeOk Example.cat 1000 n) ∧
    Example.tree.subjects.Nodup ∧ Example.tree.depth ≤ 3 := by
  refine ⟨by decide, ?_, by decide, by decide⟩
  have h : Example.tree.nodes.all (nodeOk Example.cat 1000) = true := by decide
  intro n hn
  exact nodeOk_iff.mp (List.all_eq_true.mp h n hn)

/-- … and the walks, computed, are what the theorems say: valid, and exactly the expectation
(the uncovered route `p3` and the ASPA for the AS not held are configured but not expected and not
found). -/
example :
    TreeValid Example.cat Example.tree.repo 1000 3 Example.tree.ca = true ∧
    treeVrps Example.cat Example.tree.repo 3 Example.tree.ca = [Example.p2, Example.p1] ∧
    Example.tree.expectedVrps = [Example.p2, Example.p1] ∧
    treeAspas Example.cat Example.tree.repo 3 Example.tree.ca = [Example.aspa1] ∧
    Example.tree.expectedAspas = [Example.aspa1] ∧
    treeRouterKeys Example.cat Example.tree.repo 3 Example.tree.ca = [Example.rk2, Example.rk1] ∧
    Example.tree.expectedRouterKeys = [Example.rk2, Example.rk1] ∧
    -- too little fuel for the depth: not valid
    TreeValid Example.cat Example.tree.repo 1000 2 Example.tree.ca = false := by
  decide

/-- Negative example: one file present but unlisted at the grandchild's publication point
(`Example.badTree`) – the walk from the trust anchor fails; computed, and by `tree_invalid`. -/
example : TreeValid Example.cat Example.badTree.repo 1000 3 Example.badTree.ca = false := by decide

example (fuel : Nat) : TreeValid Example.cat Example.badTree.repo 1000 fuel Example.badTree.ca = false := by
  have hmid : Example.badMid ∈ Example.badTree.nodes :=
    Node.child_mem_nodes (n := Example.badTree) (List.Mem.head _)
  have hbad : Example.badChild ∈ Example.badTree.nodes :=
    Node.child_mem_of_mem (n := Example.badMid) hmid (List.Mem.head _)
  refine tree_invalid Example.cat 1000 Example.badTree fuel (by decide) ?_ Example.badChild hbad (by decide)
  have h : Example.badTree.nodes.all (fun n => n.children.all fun ch =>
      decide (ch.ca ∈ childCerts Example.cat n.files n.ca)) = true := by decide
  intro n hn ch hch
  exact of_decide_eq_true (List.all_eq_true.mp (List.all_eq_true.mp h n hn) ch hch)

/-! ### One CA level, all kinds of objects

`ReadyAll ca s files now sp` (`Sys/PointLemmas.lean`) generalises `Ready`: the key set `s`
publishes the objects described by `sp` – ROAs, ASPA objects, router certificates and child CA
certificates – with the side conditions a relying party checks (window, unexpired, unrevoked,
payload inside the key's certificate, child certificates issued by this key for resources inside
its certificate).  `DecodesAll` is faithful decoding of manifest, CRL and every object. -/

/-- A publication point holding ROAs, ASPA objects, router certificates and child CA certificates
validates, and what a relying party extracts from it – route origins, ASPA definitions, router
keys, CA certificates to descend into – is exactly what the objects carry. -/
theorem one_level_all (cat : Catalog) (ca : Cert) (s : KeyObjectSet) (files : Files) (now : Nat) (sp : PointSpec)
    (hd : DecodesAll cat ca.subject s sp) (h : ReadyAll ca s files now sp) :
    PointValid cat files ca now = true ∧
    (∀ p, p ∈ pointVrps cat files ca ↔ p ∈ sp.roas.flatMap (·.auths)) ∧
    (∀ d, d ∈ pointAspas cat files ca ↔ d ∈ sp.aspas.map (·.defn)) ∧
    (∀ k, k ∈ pointRouterKeys cat files ca ↔ k ∈ sp.routers.map (·.1)) ∧
    (∀ c, c ∈ childCerts cat files ca ↔ c ∈ sp.certs.map (·.2)) :=
  ⟨point_valid_all hd h, point_vrps_all hd h, point_aspas_all hd h, point_router_keys_all hd h,
   child_certs_all hd h⟩

/-- Non-vacuity: the key set of the middle CA of `Example.tree` – one ROA, one ASPA object, one
router certificate, one child certificate, one earlier serial on the CRL – meets the hypotheses. -/
example : DecodesAll Example.cat Example.mid.ca.subject Example.midSet Example.midSpec ∧
    ReadyAll Example.mid.ca Example.midSet Example.mid.files 1000 Example.midSpec :=
  ⟨Example.mid_decodes, Example.mid_ready⟩

/-- It is a generalisation: the hypotheses of the ROA-only lemmas are the special case without
other objects. -/
theorem ready_is_special_case (nm : Naming) (cat : Catalog) (ca : Cert) (r : Roas) (s : KeyObjectSet)
    (files : Files) (now : Nat) (hd : Decodes cat ca.subject r s) (h : Ready nm ca r s files now) :
    DecodesAll cat ca.subject s { roas := infos r } ∧ ReadyAll ca s files now { roas := infos r } :=
  ⟨hd.toAll, h.toAll⟩

/-- One level ⇒ the local condition of the hierarchy: if moreover the objects say exactly what is
configured and covered and the child certificates are the children's (`SpecExact`), the node is
`NodeOk`. -/
theorem node_ok_of_one_level (cat : Catalog) (now : Nat) (n : Node) (s : KeyObjectSet) (sp : PointSpec)
    (hd : DecodesAll cat n.ca.subject s sp) (h : ReadyAll n.ca s n.files now sp) (hx : SpecExact n sp) :
    NodeOk cat now n :=
  nodeOk_of_readyAll hd h hx

/-- `quiescent_valid_partial` as a statement about a node: a leaf CA with ROAs only, after any
history of its class ending in a re-derivation and a repository synchronisation, is `NodeOk`
(same hypotheses as `quiescent_valid_partial`; its two conclusions are the fields `valid` and
`vrps`). -/
theorem quiescent_leaf_node (nm : Naming) (hnm : nm.Ok) (t : Timing) (k : NewKey)
    (ops₁ ops₂ : List ClassOp) (hops₁ : ∀ op ∈ ops₁, op.ok) (hnd : ∀ op ∈ ops₂, op.isDerive = false)
    (routes : List Payload) (hroutes : routes.Nodup) (deagg agg : Nat)
    (mintS : Payload → ObjMeta) (mintA : AggKey → ObjMeta) (i : IssueIn)
    (ca : Cert) (rcn : Nat) (server : List (Uri × Nat)) (hsrv : (keys server).Nodup)
    (cat : Catalog) (now : Nat) :
    let c := (((ClassState.init k t).run nm t ops₁).step nm t
      (.derive ca.resources.coversPfx routes deagg agg mintS mintA i)).run nm t ops₂
    let files := filesAfterSync server rcn c.set
    Decodes cat ca.subject c.roas c.set →
    c.set.mftName = ca.mftName → c.set.crlName = ca.crlName → ca.mftName ≠ ca.crlName →
    ca.mftName ∉ keys c.set.published → ca.crlName ∉ keys c.set.published →
    (c.set.revision.thisUpdate ≤ now ∧ now < c.set.revision.nextUpdate) →
    (∀ x ∈ infos c.roas, now < x.obj.expires) → (∀ x ∈ infos c.roas, x.obj.serial ∉ c.set.crl.revoked) →
    NodeOk cat now (.mk ca files routes [] [] []) := by
  intro c files hdec hm hc hne hmf hcf hwin hexp hrev
  obtain ⟨ready, hpay⟩ := ready_of_history nm hnm t k ops₁ ops₂ hops₁ hnd routes hroutes deagg agg mintS mintA i
    ca rcn server hsrv now hm hc hne hmf hcf hwin hexp hrev
  exact nodeOk_of_ready (n := .mk ca files routes [] [] []) hdec ready hpay rfl rfl rfl

/-! ### The whole hierarchy, composed

Full statement (DESIGN `quiescent_valid`): for every history of API operations over a hierarchy of
CAs, once the tasks are drained, `TreeValid` holds from the trust anchor and the validated payloads
are exactly `⋃ configured(ca) ∩ covered-by-current-cert(ca)`. -/

/-- **Composition over the hierarchy** (any depth, any branching).  Let `tree` describe the
hierarchy at a quiescent instant: per certified key its certificate, the files at its publication
point, the CA's configuration, and the keys certified below it.  Suppose every node's files are
those of a key set in a state that is `ReadyAll` for objects `sp` which say exactly what is
configured and covered (`SpecExact`).  Then a relying party that starts at the trust anchor
accepts every publication point (current manifest and CRL, listed ⇔ present, every object
acceptable), and the route origins, ASPA definitions and router keys it collects are exactly – as
sets – the configured authorisations covered by a current certificate of the configuring CA.

Which per-node hypotheses are conclusions of other theorems, per CA and for all histories:

* `ReadyAll.good` (manifest lists the CRL and exactly the published objects, CRL = revocations,
  numbers agree): `manifest_lists_exactly_always` / `objects_mirror` (GoodSet component).
* `ReadyAll.filesNodup`, `ReadyAll.files` (server content = the set's elements, from ANY previous
  server content): `sync_repo_exact`, in the form `filesAfterSync_spec`.
* `ReadyAll.sound` / `complete` for the ROA objects, `roaNonempty`, `roaCovered` and
  `SpecExact.roas`: `quiescent_valid_partial` (through `objects_mirror` and `roas_payloads_exact`;
  `quiescent_leaf_node` is that theorem re-stated as `NodeOk` for a ROA-only leaf).
* `SpecExact.aspas` and `aspaCovered`: `aspas_exact`.  `SpecExact.routers` and `routerCovered`:
  `bgpsec_exact`.
* `ReadyAll.certContained` (child certificates inside the key's own certificate): C02
  `never_overclaims` (with `shrink_in_same_command`, `activation_keeps_containment`).

Which remain assumptions, evaluated dynamically by the oracle on the implementation's own
repository content (`RpTreeValid`, `PayloadsExact`, `objects_mirror` in the `sysobjects` driver,
`NoOverclaimPublished` in the `syskeys` driver):

* no current object is expired or on the CRL (`ReadyAll.unexpired`, `unrevoked`) and `now` is
  inside the manifest window (`window`) – needs freshness of serial numbers and the re-issue
  schedule (C14) as an invariant over histories;
* faithful decoding and no hash collisions (`DecodesAll`);
* `ReadyAll.sound` / `complete` for ASPA objects, router certificates and child certificates
  (the key set mirrors the class for these kinds too – `objects_mirror` is proved for ROAs, one
  key), and `certIssuer`;
* `SpecExact.certs`: the certificates a parent publishes are exactly the current certificates of
  its children's keys – parent and child agree once the child has fetched its entitlement, i.e.
  when background work has caught up;
* pairwise distinct publication-point keys (`tree.subjects.Nodup`), manifest / CRL names not used
  by other objects (`mftFresh`, `crlFresh`, `namesDiffer`);
* during a key roll each of the two keys of a class is a node of its own (C04). -/
theorem quiescent_valid_tree (cat : Catalog) (now : Nat) (tree : Node) (fuel : Nat)
    (hd : tree.subjects.Nodup) (hfuel : tree.depth ≤ fuel)
    (hnode : ∀ n ∈ tree.nodes, ∃ (s : KeyObjectSet) (sp : PointSpec),
      DecodesAll cat n.ca.subject s sp ∧ ReadyAll n.ca s n.files now sp ∧ SpecExact n sp) :
    TreeValid cat tree.repo now fuel tree.ca = true ∧
    (∀ n ∈ tree.nodes, PointValid cat n.files n.ca now = true) ∧
    PayloadsExact (treeVrps cat tree.repo fuel tree.ca) tree.expectedVrps = true ∧
    sameMembers (treeAspas cat tree.repo fuel tree.ca) tree.expectedAspas = true ∧
    sameMembers (treeRouterKeys cat tree.repo fuel tree.ca) tree.expectedRouterKeys = true := by
  have hok : ∀ n ∈ tree.nodes, NodeOk cat now n := by
    intro n hn
    obtain ⟨s, sp, h1, h2, h3⟩ := hnode n hn
    exact nodeOk_of_readyAll h1 h2 h3
  exact ⟨tree_valid cat now tree fuel hok hd hfuel, fun n hn => (hok n hn).valid,
    tree_vrps_exact cat now tree fuel hok hd hfuel, tree_aspas_exact cat now tree fuel hok hd hfuel,
    tree_router_keys_exact cat now tree fuel hok hd hfuel⟩

/-- Non-vacuity of `quiescent_valid_tree`: the three-level hierarchy `Example.tree` with the key
sets `Example.taSet`, `midSet`, `childSet` meets all hypotheses (the conclusion for it is also
computed above). -/
example : Example.tree.subjects.Nodup ∧ Example.tree.depth ≤ 3 ∧
    ∀ n ∈ Example.tree.nodes, ∃ (s : KeyObjectSet) (sp : PointSpec),
      DecodesAll Example.cat n.ca.subject s sp ∧ ReadyAll n.ca s n.files 1000 sp ∧ SpecExact n sp :=
  ⟨by decide, by decide, Example.tree_nodes_ready⟩

end KM.Props.C01
