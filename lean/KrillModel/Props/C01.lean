/-
C01 — Published tree is relying-party valid and says exactly what was configured.

Theorems over `Ca/RoaObjects.lean` (derivation of ROA/ASPA/router-certificate objects from the
configuration), `Ca/Objects.lean` (manifests, repository synchronisation) and `Sys/Rp.lean` (an
abstract relying party).  Helper lemmas: `Ca/RoaLemmas.lean`, `Ca/ObjLemmas*.lean`,
`Sys/RpLemmas.lean`.
-/
import KrillModel.Ca.RoaLemmas
import KrillModel.Ca.ObjLemmas
import KrillModel.Ca.ObjLemmasSync
import KrillModel.Sys.RpLemmas
namespace KM.Props.C01
open KM.Ca.Pub KM.Sys.Rp

/-! ### Objects say exactly what is configured and covered -/

/-- For every reachable `Roas` state, every route set, every received certificate (cover
predicate) and every pair of thresholds: after `create_updates` has been applied, the payloads of
the ROA objects are exactly the configured routes the certificate covers – in every mode (simple,
start aggregating, stop aggregating, aggregate) – each payload sits in exactly one object, and the
state is again well-formed. -/
theorem roas_payloads_exact (r : Roas) (hr : r.WF) (cov : Payload → Bool) (routes : List Payload)
    (hroutes : routes.Nodup) (deagg agg : Nat) (mintS : Payload → ObjMeta) (mintA : AggKey → ObjMeta) :
    let r' := r.apply (r.createUpdates cov routes deagg agg mintS mintA)
    (∀ p, p ∈ r'.payloads ↔ (p ∈ routes ∧ cov p = true)) ∧ r'.payloads.Nodup ∧ r'.WF :=
  createUpdates_exact r hr cov routes hroutes deagg agg mintS mintA

/-- Non-vacuity: the initial state is well-formed, so by the theorem (and `renew_due_objects` of
C14 for renewals) every state reached by any sequence of re-derivations is. -/
example : (({} : Roas)).WF := wf_empty

/-- A well-formed state in aggregation mode, with thresholds that make the next step stop
aggregating. -/
example : ∃ r : Roas, r.WF ∧ r.mode 1 2 2 = .stopAggregating := by
  refine ⟨{ agg := [(⟨1, none⟩, ⟨[⟨1, false, 0, 24, 24⟩], default⟩)] }, ?_, by decide⟩
  exact { simpleKeys := by simp [keys], aggKeys := by simp [keys], simpleAuth := by simp,
          aggGroup := by simp, aggAsn := by simp, aggNodup := by simp, aggNonempty := by simp,
          exclusive := Or.inl rfl }

/-- The mode decision (both thresholds, hysteresis, `total = 0` never switches). -/
theorem mode_characterisation (r : Roas) (total deagg agg : Nat) :
    r.mode total deagg agg =
      if r.isAggregating then (if 0 < total ∧ total < deagg then .stopAggregating else .aggregate)
      else (if total > agg ∧ 0 < total then .startAggregating else .simple) := by
  unfold Roas.mode
  by_cases h0 : total = 0
  · subst h0; cases r.isAggregating <;> simp
  · have : 0 < total := Nat.pos_of_ne_zero h0
    cases r.isAggregating <;> simp [h0, this]

/-- ASPA objects: after `create_updates` there is exactly one object per configured customer AS
the certificate holds, carrying exactly the configured definition – nothing else. -/
theorem aspas_exact (objs : AspaObjects) (hasAsn : Nat → Bool) (defs : List AspaDefn)
    (mint : AspaDefn → ObjMeta) (hw : AspaWF objs) (hd : (defs.map (·.customer)).Nodup) :
    let objs' := aspaApply objs (aspaCreateUpdates objs hasAsn defs mint)
    AspaWF objs' ∧ ∀ d, (∃ e ∈ objs', e.2.defn = d) ↔ (d ∈ defs ∧ hasAsn d.customer = true) :=
  aspas_exact' objs hasAsn defs mint hw hd

example : AspaWF [] := ⟨by simp [keys], by simp⟩

/-- Router certificates: after `create_updates` there is exactly one certificate per configured
(AS, key) whose AS the certificate holds. -/
theorem bgpsec_exact (certs : RouterCerts) (hasAsn : Nat → Bool) (defs : List RouterKey)
    (mint : RouterKey → ObjMeta) (hk : (keys certs).Nodup) (hd : defs.Nodup) :
    let certs' := routerApply certs (routerCreateUpdates certs hasAsn defs mint)
    (keys certs').Nodup ∧ ∀ k, k ∈ keys certs' ↔ (k ∈ defs ∧ hasAsn k.asn = true) :=
  routers_exact certs hasAsn defs mint hk hd

/-! ### Manifests -/

/-- A manifest built at creation or re-issue lists the CRL and exactly the published objects. -/
theorem manifest_lists_exactly (s : KeyObjectSet) (t : Timing) (i : IssueIn) (k : NewKey) :
    ListsExactly (s.reissue t i) ∧ ListsExactly (k.create t) :=
  ⟨(good_reissue s t i).2.1, (good_create k t).2.1⟩

/-- … and this holds for every key set of every class after every command (whatever its events)
and every republish run: changes of the object set always come with a re-issue. -/
theorem manifest_lists_exactly_always (t : Timing) (o : CaObjects) (ops : List CaOp)
    (h : ∀ s ∈ allSets o, GoodSet s) : ∀ s ∈ allSets (caRun t o ops), ListsExactly s :=
  fun s hs => (good_caRun t ops o h s hs).2.1

/-- With distinct names the listing is literally "CRL, then every published object". -/
theorem manifest_entries (s : KeyObjectSet) (hg : GoodSet s) (hfresh : s.crlName ∉ keys s.published) :
    s.manifest.entries = (s.crlName, s.crl.hash) :: s.published.map fun e => (e.1, e.2.hash) :=
  entries_eq s hg hfresh

/-! ### Repository synchronisation -/

/-- `ca_repo_sync`: applying the delta computed from the server's list reply to ANY server content
of the publisher yields exactly the map of `all_publish_elements` (a later duplicate URI wins, as
in the code's `collect::<HashMap>`). -/
theorem sync_repo_exact (server : List (Uri × Nat)) (hn : (keys server).Nodup) (o : CaObjects) :
    (keys (syncRepo server o)).Nodup ∧
    ∀ u, get? (syncRepo server o) u = get? (elementMap (allPublishElements o)) u :=
  syncRepo_exact server (allPublishElements o) hn

/-- Nothing to do ⇒ empty delta is *not* claimed; what is claimed is idempotence: a second sync
leaves the content as it is. -/
theorem sync_repo_idempotent (server : List (Uri × Nat)) (hn : (keys server).Nodup) (o : CaObjects) (u : Uri) :
    get? (syncRepo (syncRepo server o) o) u = get? (syncRepo server o) u := by
  obtain ⟨h1, h2⟩ := sync_repo_exact server hn o
  rw [(sync_repo_exact _ h1 o).2 u, h2 u]

/-! ### One CA level, composed

Full statement (DESIGN `quiescent_valid`): for every history of API operations over a hierarchy of
CAs, once the tasks are drained, `TreeValid` holds from the trust anchor and the validated
payloads are exactly `⋃ configured(ca) ∩ covered-by-current-cert(ca)`.

Proved here: one CA level, one key.  After *any* re-derivation of the ROAs (any reachable state,
routes, thresholds) under the CA's certificate, for a key set that mirrors those objects and is
well-formed (which `manifest_lists_exactly_always` / C03 `crl_lists_revocations_always` give along
every history) and is inside its window, and after a repository synchronisation from ANY previous
server content, a relying party that decodes the files faithfully accepts the publication point
and extracts exactly the configured-and-covered payloads.

Missing for the full statement: `Mirror` (`objects_mirror`) and the "unrevoked/unexpired" facts as
invariants over histories (checked dynamically: oracle `ObjectsMirror`, `RpTreeValid`), child
certificates and the recursion over the hierarchy (`TreeValid` with fuel is defined; checked
dynamically by the relying-party walk), ASPA/router objects inside the composition, key rolls
(two sets per class). -/
theorem quiescent_valid_partial (r₀ : Roas) (hr : r₀.WF) (routes : List Payload) (hroutes : routes.Nodup)
    (deagg agg : Nat) (mintS : Payload → ObjMeta) (mintA : AggKey → ObjMeta)
    (ca : Cert) (s : KeyObjectSet) (rcn : Nat) (server : List (Uri × Nat)) (hsrv : (keys server).Nodup)
    (cat : Catalog) (now : Nat) :
    let r := r₀.apply (r₀.createUpdates ca.resources.coversPfx routes deagg agg mintS mintA)
    let files := filesAfterSync server rcn s
    Decodes cat ca.subject r s → GoodSet s → Mirror r s →
    s.mftName = ca.mftName → s.crlName = ca.crlName → ca.mftName ≠ ca.crlName →
    (keys s.published).Nodup → ca.mftName ∉ keys s.published → ca.crlName ∉ keys s.published →
    (s.revision.thisUpdate ≤ now ∧ now < s.revision.nextUpdate) →
    (∀ i ∈ infos r, now < i.obj.expires) → (∀ i ∈ infos r, i.obj.serial ∉ s.crl.revoked) →
    PointValid cat files ca now = true ∧
    PayloadsExact (pointVrps cat files ca) (routes.filter ca.resources.coversPfx) = true := by
  intro r files hdec hgood hmir hm hc hne hnd hmf hcf hwin hexp hrev
  obtain ⟨e1, _, e3⟩ := createUpdates_exact r₀ hr ca.resources.coversPfx routes hroutes deagg agg mintS mintA
  obtain ⟨f1, f2⟩ := filesAfterSync_spec server hsrv rcn s hnd (by rw [hm, hc]; exact hne)
    (by rw [hm]; exact hmf) (by rw [hc]; exact hcf)
  have ready : Ready ca r s files now :=
    { wf := e3, good := hgood, mirror := hmir, mftName := hm, crlName := hc, namesDiffer := hne,
      mftFresh := hmf, crlFresh := hcf, filesNodup := f1, files := f2, window := hwin,
      unexpired := hexp, unrevoked := hrev, covered := fun p hp => ((e1 p).mp hp).2 }
  refine ⟨point_valid cat ca r s files now hdec ready, ?_⟩
  simp only [PayloadsExact]
  rw [sameMembers_iff]
  intro p
  rw [point_vrps cat ca r s files now hdec ready p, e1 p, List.mem_filter]

/-- Non-vacuity of the composition: a concrete state (one simple ROA, fresh manifest) meets all
hypotheses and the validator accepts it. -/
example :
    let ca : Cert := ⟨0, 1, .atoms [1], 10000, 5, 100, 101⟩
    let p : Payload := ⟨64513, false, (10 * 256 + 1) * 65536, 24, 24⟩
    let files : Files := [(100, 900), (101, 901), (7, 902)]
    let cat : Catalog := fun h =>
      if h = 900 then some (.mft ⟨1, 2, 0, 5000, [(101, 901), (7, 902)]⟩)
      else if h = 901 then some (.crl ⟨1, 2, 0, 5000, []⟩)
      else if h = 902 then some (.signed ⟨1, 77, 9000, .roa [p]⟩) else none
    PointValid cat files ca 1000 = true ∧ pointVrps cat files ca = [p] := by
  decide

end KM.Props.C01
