import KrillModel.Ca.ObjLemmas
import KrillModel.Ca.RoaLemmas
namespace KM.Props.C01
open KM.Ca.Pub
end KM.Props.C01
