/-
C19 — Reported parent, repository and child status matches the last exchange.
Property theorems only; helper lemmas live in `KrillModel.Status.Lemmas`.

Clause → theorem table (property text of /verif/properties.jsonl; quantifier: every history of
successful and refused exchanges – child removed at the parent, publisher removed at the server,
identity replaced, suspended child calling in, key rolls, entitlement changes – and restarts at any
point).  All history theorems hold for ARBITRARY event lists (`Ev`: every exchange with any
outcome, removals, re-adding = a new exchange, restarts); the single invariant is `StatusInv`
(`status_invariant`), preserved by every step (`status_invariant_step`); the clauses are its
corollaries.

| clause                                                                   | theorems |
|--------------------------------------------------------------------------|----------|
| "for every CA the status and issues views show"                          | `issues_view_is_the_failures_of_the_status_view` (issues = `opt_failure` of the same view), `restart_invariant` (cache = storage) |
| "for each parent … a failure (with its error) exactly when the most recent synchronisation attempt failed" | `parent_view_is_most_recent_attempt` (all histories), `status_is_last_exchange`, `parent_failure_iff_last_attempt_failed`, `no_exchange_no_entry` |
| "… and for the repository"                                               | `repo_view_is_most_recent_attempt` (all histories), `repo_status_is_last_exchange`, `repo_failure_iff_last_attempt_failed`, `failed_exchange_changes_only_last_exchange` |
| "otherwise success together with the entitlements the parent last returned" | `entitlements_are_most_recent_list_reply` (all histories), `entitlements_are_last_returned`; last success: `last_success_is_most_recent_success` (all histories), `parent_last_success_is_last_successful` (+ `sync_records_no_vacuous_success`), `repo_last_success_is_last_successful` |
| "the list of published objects shown equals what the publication server holds for that CA after its last successful synchronisation" | `published_list_is_server_content_partial` (equal at every moment, guard: no out-of-band change of the server's content), `published_list_covers_server_content` (NO guard: everything the server holds is shown, exactly once, with its content – the only possible deviation is additional stale entries), `published_list_never_has_duplicates`; recorded exception F-C19-3: `published_list_is_server_content_fails` |
| "for every child the parent shows the outcome of the child's most recent request" | `child_view_is_most_recent_processed_request` (all histories), `child_last_request_partial`, `request_is_recorded_iff_not_refused_before_processing` (exactly which refusals are not recorded), `suspension_marker_is_most_recent` ; witness for the unrecorded ones: `child_last_request_fails_for_unauthenticated` |
| "these reports are unchanged by a restart"                               | `restart_invariant`, `restart_anywhere_is_invisible`, `storage_holds_what_is_shown`, `restart_says_nothing` |
| "removing a parent, child or CA removes its entries"                     | `removal_removes_entries`, `ca_removal_removes_entries`, `removed_child_stays_removed`, `parent_removal_removes_what_it_recorded`; re-adding: `readded_entry_shows_only_the_new_exchange` |
| tie to the source                                                        | `source_status_writes_as_modelled`, `source_status_calls_as_modelled`, `source_status_store_as_modelled`, `delta_applied_only_on_success_reply`, `failure_setters_write_last_exchange_only` |

The older theorems are about `run s0 evs` for any store `s0` whose cache shows what its storage
holds (`Consistent`; the empty store is one, every event keeps it: `consistent_reachable`), with
"the most recent attempt" expressed by splitting the history as `pre ++ e :: post`.
-/
import KrillModel.Status.Lemmas
import KrillModel.Generated.StatusWrites
namespace KM.Props.C19
open KM.Status

/-- Non-vacuity of the `Consistent` hypothesis used everywhere below: the empty store satisfies it
and every history keeps it. -/
theorem consistent_reachable (evs : List Ev) : Consistent (run Store.empty evs) :=
  consistent_run _ consistent_empty evs

/-! ## status_is_last_exchange -/

/-- **Parents.** Whatever happened before, and whatever unrelated events (other parents, other
CAs, the repository, children, restarts) happen afterwards: the entry of parent `p` of `ca` shows
exactly the most recent recorded exchange with that parent – time, service URI and result. -/
theorem status_is_last_exchange (s0 : Store) (h0 : Consistent s0) (pre post : List Ev) (e : Ev)
    (ca p : String) (x : Exchange)
    (he : e.parentAttempt? = some (ca, p, x))
    (hpost : ∀ e' ∈ post, e'.touchesParent ca p = false) :
    ((run s0 (pre ++ e :: post)).parent? ca p).bind (·.lastExchange) = some x := by
  rw [run_append, run_cons]
  have hc1 := consistent_run s0 h0 pre
  have hc2 := consistent_step _ hc1 e
  rw [parent?_run _ hc2, parent?_step _ hc1]
  obtain ⟨st, hst, hx, _⟩ := parentProj_attempt e ca p x ((run s0 pre).parent? ca p) he
  rw [foldl_preserves (fun o e => parentProj e ca p o) (fun o => o) post
    (fun e' he' o => parentProj_of_not_touches e' ca p o (hpost e' he')), hst]
  simpa using hx

/-- The view (and with it `get_ca_issues`, which reports `opt_failure` of every parent) shows a
failure with its error exactly when the most recent attempt failed with that error. -/
theorem parent_failure_iff_last_attempt_failed (s0 : Store) (h0 : Consistent s0)
    (pre post : List Ev) (e : Ev) (ca p : String) (x : Exchange)
    (he : e.parentAttempt? = some (ca, p, x))
    (hpost : ∀ e' ∈ post, e'.touchesParent ca p = false) (err : String) :
    ((run s0 (pre ++ e :: post)).parent? ca p).bind ParentStatus.optFailure = some err ↔
      x.result = .failure err := by
  have h := status_is_last_exchange s0 h0 pre post e ca p x he hpost
  cases hp : (run s0 (pre ++ e :: post)).parent? ca p with
  | none => simp [hp] at h
  | some st =>
    simp only [hp, Option.bind_some] at h ⊢
    unfold ParentStatus.optFailure
    rw [h]
    simp only [Option.bind_some, Exchange.optFailure]
    cases hr : x.result with
    | success => simp
    | failure e2 => simp

/-- **Repository.** The repository status of `ca` shows exactly the most recent exchange with the
publication server (list query or delta). -/
theorem repo_status_is_last_exchange (s0 : Store) (h0 : Consistent s0) (pre post : List Ev)
    (e : Ev) (ca : String) (x : Exchange)
    (he : e.repoAttempt? = some (ca, x))
    (hpost : ∀ e' ∈ post, e'.touchesRepo ca = false) :
    ((run s0 (pre ++ e :: post)).repo ca).lastExchange = some x := by
  rw [run_append, run_cons]
  have hc1 := consistent_run s0 h0 pre
  have hc2 := consistent_step _ hc1 e
  rw [repo_run _ hc2, repo_step _ hc1]
  rw [foldl_preserves (fun r e => repoProj e ca r) (fun r => r) post
    (fun e' he' r => repoProj_of_not_touches e' ca r (hpost e' he'))]
  exact (repoProj_attempt e ca x _ he).1

theorem repo_failure_iff_last_attempt_failed (s0 : Store) (h0 : Consistent s0)
    (pre post : List Ev) (e : Ev) (ca : String) (x : Exchange)
    (he : e.repoAttempt? = some (ca, x))
    (hpost : ∀ e' ∈ post, e'.touchesRepo ca = false) (err : String) :
    ((run s0 (pre ++ e :: post)).repo ca).optFailure = some err ↔ x.result = .failure err := by
  have h := repo_status_is_last_exchange s0 h0 pre post e ca x he hpost
  unfold RepoStatus.optFailure
  rw [h]
  simp only [Option.bind_some, Exchange.optFailure]
  cases hr : x.result with
  | success => simp
  | failure e2 => simp

/-- `last_success` is the time of the most recent exchange *recorded as a success*; later failed
attempts do not move it. -/
theorem parent_last_success_is_last_recorded_success (s0 : Store) (h0 : Consistent s0)
    (pre post : List Ev) (e : Ev) (ca p : String) (x : Exchange)
    (he : e.parentAttempt? = some (ca, p, x)) (hs : x.result = .success)
    (hpost : ∀ e' ∈ post, e'.parentSuccess ca p = false ∧ e'.removesParent ca p = false) :
    ((run s0 (pre ++ e :: post)).parent? ca p).bind (·.lastSuccess) = some x.time := by
  rw [run_append, run_cons]
  have hc1 := consistent_run s0 h0 pre
  have hc2 := consistent_step _ hc1 e
  rw [parent?_run _ hc2, parent?_step _ hc1]
  obtain ⟨st, hst, _, hx, _⟩ := parentProj_attempt e ca p x ((run s0 pre).parent? ca p) he
  rw [foldl_preserves (fun o e => parentProj e ca p o) (fun o => o.bind (·.lastSuccess)) post
    (fun e' he' o => parentProj_keeps_lastSuccess e' ca p o (hpost e' he').1 (hpost e' he').2), hst]
  simpa using hx hs

/-- **Full statement**: `last_success` is the time of the most recent exchange in which the parent
answered positively – as long as the entry is not removed, no later event answers positively
and no later event records a success without an answer.  The last condition is a fact about the
CA manager since 0cf51f5b, not an assumption about the environment: a synchronisation never
produces such an event (`sync_records_no_vacuous_success`), and the only call that still can – the
best-effort revocation of `ca_parent_remove` / `delete_ca` with no key to revoke – removes the
entry in the same call (`parent_removal_removes_what_it_recorded`). -/
theorem parent_last_success_is_last_successful (s0 : Store) (h0 : Consistent s0)
    (pre post : List Ev) (e : Ev) (ca p : String) (x : Exchange)
    (he : e.parentAttempt? = some (ca, p, x)) (hs : x.result = .success)
    (hpost : ∀ e' ∈ post, e'.parentAnswered ca p = false ∧ e'.removesParent ca p = false ∧
      e'.vacuousSuccess ca p = false) :
    ((run s0 (pre ++ e :: post)).parent? ca p).bind (·.lastSuccess) = some x.time := by
  apply parent_last_success_is_last_recorded_success s0 h0 pre post e ca p x he hs
  intro e' he'
  obtain ⟨h1, h2, h3⟩ := hpost e' he'
  refine ⟨?_, h2⟩
  cases hps : e'.parentSuccess ca p with
  | false => rfl
  | true => simp [Ev.vacuousSuccess, hps, h1] at h3

/-- `ca_sync_parent` never records a success without an answer: with nothing to revoke the
revocation phase is skipped. -/
theorem sync_records_no_vacuous_success (ca p uri : String) (pending : Bool) (nRevokes : Nat)
    (revokes certs : Except String Unit) (list : Except String Entitlements) (now : Nat)
    (ca' p' : String) :
    ∀ e ∈ syncParentEvents ca p uri pending nRevokes revokes certs list now,
      e.vacuousSuccess ca' p' = false := by
  intro e he
  unfold syncParentEvents at he
  cases pending with
  | false =>
    simp only [Bool.false_eq_true, if_false, List.mem_singleton] at he
    subst he
    simp [Ev.vacuousSuccess, Ev.parentAnswered]
  | true =>
    simp only [if_true] at he
    by_cases hn : nRevokes = 0
    · simp only [hn, if_true, List.mem_singleton] at he
      subst he
      simp [Ev.vacuousSuccess, Ev.parentAnswered]
    · simp only [hn, if_false] at he
      have hpos : nRevokes > 0 := Nat.pos_of_ne_zero hn
      cases revokes with
      | error err =>
        simp only [List.mem_singleton] at he
        subst he
        simp [Ev.vacuousSuccess, Ev.parentAnswered, hpos]
      | ok u =>
        cases u
        simp only [List.mem_cons, List.mem_singleton, List.not_mem_nil, or_false] at he
        rcases he with rfl | rfl
        · simp [Ev.vacuousSuccess, Ev.parentAnswered, hpos]
        · simp [Ev.vacuousSuccess, Ev.parentAnswered]

/-- Whatever the best-effort revocation of a removal records, the removal takes the entry away. -/
theorem parent_removal_removes_what_it_recorded (s0 : Store) (h0 : Consistent s0) (pre : List Ev)
    (ca p uri : String) (n : Nat) (r : Except String Unit) (now : Nat) :
    (run s0 (pre ++ parentRemoveEvents ca p uri n r now)).parent? ca p = none := by
  have hc1 := consistent_run s0 h0 pre
  rw [run_append, parent?_run _ hc1]
  cases r with
  | ok u => cases u; simp [parentRemoveEvents, parentProj]
  | error err => simp [parentRemoveEvents, parentProj]

example : ∀ e' ∈ [Ev.parentList "c" "p" "u" true (.error "x") 9, Ev.parentRevokes "c" "q" "u" 0 (.ok ()) 10,
      Ev.parentRevokes "c" "p" "u" 2 (.error "y") 11],
    e'.parentAnswered "c" "p" = false ∧ e'.removesParent "c" "p" = false ∧
      e'.vacuousSuccess "c" "p" = false := by decide

/-- **F-C19-2, counter-model of the pinned tree** (before 0cf51f5b; no longer the code).  There
`ca_sync_parent` with only a certificate request pending first recorded the success of sending *no*
revocation request, then the refusal of the certificate request: `last_success` moved to the time
of a synchronisation in which nothing succeeded.  The event list below is what the pinned
`send_requests` produced; `syncParentEvents` (the code as it is) no longer produces it. -/
theorem pinned_last_success_moved_without_an_answer :
    let pinnedSync : List Ev := [.parentRevokes "b" "a" "u" 0 (.ok ()) 9, .parentCerts "b" "a" "u" (.error "ca-parent-sync") 9]
    let evs := [Ev.parentList "b" "a" "u" true (.ok [("0", [1])]) 5] ++ pinnedSync
    (pinnedSync.any fun e => e.vacuousSuccess "b" "a") = true ∧
    ((run Store.empty evs).parent? "b" "a").bind (·.lastSuccess) = some 9 ∧
    ((run Store.empty evs).parent? "b" "a").bind ParentStatus.optFailure = some "ca-parent-sync" ∧
    -- the code as it is: the same synchronisation leaves last_success at the last answer
    (let now := [Ev.parentList "b" "a" "u" true (.ok [("0", [1])]) 5] ++
        syncParentEvents "b" "a" "u" true 0 (.ok ()) (.error "ca-parent-sync") (.ok []) 9
     ((run Store.empty now).parent? "b" "a").bind (·.lastSuccess) = some 5 ∧
     ((run Store.empty now).parent? "b" "a").bind ParentStatus.optFailure = some "ca-parent-sync") := by
  decide

theorem repo_last_success_is_last_successful (s0 : Store) (h0 : Consistent s0)
    (pre post : List Ev) (e : Ev) (ca : String) (x : Exchange)
    (he : e.repoAttempt? = some (ca, x)) (hs : x.result = .success)
    (hpost : ∀ e' ∈ post, e'.repoSuccess ca = false ∧ e'.removesCa ca = false) :
    ((run s0 (pre ++ e :: post)).repo ca).lastSuccess = some x.time := by
  rw [run_append, run_cons]
  have hc1 := consistent_run s0 h0 pre
  have hc2 := consistent_step _ hc1 e
  rw [repo_run _ hc2, repo_step _ hc1]
  rw [foldl_preserves (fun r e => repoProj e ca r) (fun r => r.lastSuccess) post
    (fun e' he' r => (repoProj_keeps_lastSuccess e' ca r (hpost e' he').1 (hpost e' he').2).1)]
  exact (repoProj_attempt e ca x _ he).2.1 hs

/-- The entitlements shown are the ones the parent last returned: the payload of the most recent
successful list query; failures and successful certificate / revocation exchanges in between
leave them alone ("LAST KNOWN Resource Entitlements"). -/
theorem entitlements_are_last_returned (s0 : Store) (h0 : Consistent s0) (pre post : List Ev)
    (ca p uri : String) (ex : Bool) (ent : Entitlements) (now : Nat)
    (hpost : ∀ e' ∈ post, e'.parentListSuccess ca p = false ∧ e'.removesParent ca p = false) :
    let st := ((run s0 (pre ++ .parentList ca p uri ex (.ok ent) now :: post)).parent? ca p).getD {}
    st.classes = ent ∧ st.allResources = ent.foldl (fun acc c => unionAtoms acc c.2) [] := by
  intro st
  have hst : st = ((run s0 (pre ++ .parentList ca p uri ex (.ok ent) now :: post)).parent? ca p).getD {} := rfl
  rw [run_append, run_cons] at hst
  have hc1 := consistent_run s0 h0 pre
  have hc2 := consistent_step _ hc1 (.parentList ca p uri ex (.ok ent) now)
  rw [parent?_run _ hc2, parent?_step _ hc1] at hst
  have key : ∀ (l : List Ev), (∀ e' ∈ l, e'.parentListSuccess ca p = false ∧ e'.removesParent ca p = false) →
      ∀ o : Option ParentStatus,
      ((l.foldl (fun o e => parentProj e ca p o) o).getD {}).classes = (o.getD {}).classes ∧
      ((l.foldl (fun o e => parentProj e ca p o) o).getD {}).allResources = (o.getD {}).allResources := by
    intro l
    induction l with
    | nil => intro _ o; exact ⟨rfl, rfl⟩
    | cons a t ih =>
      intro hl o
      simp only [List.foldl_cons]
      have h1 := ih (fun e' he' => hl e' (List.mem_cons_of_mem _ he')) (parentProj a ca p o)
      have h2 := parentProj_keeps_classes a ca p o (hl a (List.mem_cons_self ..)).1
        (hl a (List.mem_cons_self ..)).2
      exact ⟨h1.1.trans h2.1, h1.2.trans h2.2⟩
  have := key post hpost (parentProj (.parentList ca p uri ex (.ok ent) now) ca p ((run s0 pre).parent? ca p))
  rw [← hst] at this
  simp only [parentProj, and_self, if_true, Option.getD_some] at this
  exact this

/-- Without any exchange since the entry was absent there is no entry ("connection still
pending"): nothing else creates one. -/
theorem no_exchange_no_entry (s0 : Store) (h0 : Consistent s0) (evs : List Ev) (ca p : String)
    (hs : s0.parent? ca p = none) (hev : ∀ e ∈ evs, e.touchesParent ca p = false) :
    (run s0 evs).parent? ca p = none := by
  rw [parent?_run _ h0, foldl_preserves (fun o e => parentProj e ca p o) (fun o => o) evs
    (fun e' he' o => parentProj_of_not_touches e' ca p o (hev e' he')), hs]

/-! ### non-vacuity -/

/-- A history with a success, a refused exchange (the child was removed at the parent), an
unrelated event and a restart: the view shows the failure with its error, the entitlements last
returned and the time of the last success. -/
example :
    let evs : List Ev := [.parentList "c" "p" "u" true (.ok [("0", [1, 2])]) 5,
      .parentList "c" "p" "u" true (.error "ca-child-unknown") 9,
      .repoList "c" "r" (.ok ()) 10, .restart]
    let st := ((run Store.empty evs).parent? "c" "p").getD {}
    st.lastExchange = some ⟨9, "u", .failure "ca-child-unknown"⟩ ∧ st.lastSuccess = some 5 ∧
      st.classes = [("0", [1, 2])] ∧ st.allResources = [1, 2] ∧
      (run Store.empty evs).issues "c" = (none, [("p", "ca-child-unknown")]) := by decide

example : (Ev.parentList "c" "p" "u" true (.error "x") 9).parentAttempt? =
    some ("c", "p", ⟨9, "u", .failure "x"⟩) ∧
    (Ev.repoList "c" "r" (.ok ()) 10).touchesParent "c" "p" = false ∧
    Ev.restart.touchesParent "c" "p" = false := by decide

/-! ## published_list_is_server_content

Full statement (FALSE of the code, see `published_list_is_server_content_fails`, F-C19-3):

  for every history of synchronisations and out-of-band events at the server (publisher removed,
  publisher added again), after the last successful synchronisation the list of published objects
  shown equals what the publication server holds for that CA.

What holds, and the hypothesis that makes it true: the server's content for this publisher
changes *only* through deltas this CA sent and got a success reply for (no `publisherRemoved` /
`publisherAdded` in the history).  Then the shadow list and the server's content are the same
multiset of files at every moment – also between synchronisations, across failures and restarts –
because the shadow list replays exactly the deltas the server applied
(`update_published_replays_server`).  The delta being computed against the server's list reply
(`diffDelta`) is what makes the server accept it; it is not needed for the equality itself.  The
shadow list is never reconciled with the list reply, which is why an out-of-band loss is never
repaired (the same root cause shows after a crash between the server accepting a delta and the
status write, F-C08-2).

Without any hypothesis (`published_list_has_no_duplicates`, full since 7b4aa6c7): no URI is ever
listed twice. -/

/-- One accepted delta: the shadow list does to itself what the server did to its content. -/
theorem update_published_replays_server (p m m' : List File) (d : List DeltaEl)
    (hsync : InSync p m) (hacc : srvApply m d = some m') : InSync (applyDelta p d) m' := by
  rw [srvApply_eq m m' d hacc]
  exact inSync_applyDelta p m d hsync

theorem published_list_is_server_content_partial (ca uri : String) (w0 : World) (m0 : List File)
    (h0 : Consistent w0.store) (hs : w0.server = some m0)
    (hin : InSync (w0.store.repo ca).published m0)
    (hist : List WEv) (hh : ∀ e ∈ hist, e.outOfBand = false ∧ e.foreign ca = false) :
    ∃ m, (wrun ca uri w0 hist).server = some m ∧
      InSync ((wrun ca uri w0 hist).store.repo ca).published m := by
  induction hist generalizing w0 m0 with
  | nil => exact ⟨m0, hs, hin⟩
  | cons e t ih =>
    obtain ⟨hc1, m1, hs1, hin1⟩ :=
      wstep_keeps_inSync ca uri w0 m0 h0 hs hin e (hh e (List.mem_cons_self ..))
    exact ih (wstep ca uri w0 e) m1 hc1 hs1 hin1 (fun e' he' => hh e' (List.mem_cons_of_mem _ he'))

/-- Non-vacuity: a fresh krill (empty store, publisher known and empty) meets the hypotheses, and
a history of syncs with changing objects, a refused exchange elsewhere and a restart is
admissible; shadow list and server content then agree (here checked by evaluation). -/
example :
    let hist : List WEv := [.sync [("m", "1"), ("c", "1")] 1, .sync [("m", "2"), ("c", "1"), ("r", "1")] 2,
      .other (.parentList "a" "p" "u" true (.error "x") 3), .other .restart, .sync [("m", "3"), ("c", "2")] 4]
    (∀ e ∈ hist, e.outOfBand = false ∧ e.foreign "a" = false) ∧
    let w := wrun "a" "u" {} hist
    w.server = some [("c", "2"), ("m", "3")] ∧
      (w.server.map fun m => inSyncB (w.store.repo "a").published m) = some true := by decide

/-- **F-C19-3.** The full statement fails: the server loses the publisher's content (publisher
removed and added again) and an object is dropped in the meantime.  The next synchronisation finds
an empty list and publishes what there is now; the dropped object is never withdrawn (the server
does not list it), so it stays in the shown list for good although the last exchange is a
success. -/
theorem published_list_is_server_content_fails :
    ∃ hist : List WEv,
      let w := wrun "a" "u" {} hist
      ((w.store.repo "a").lastExchange.map (·.result)) = some .success ∧
      w.server = some [("mft", "2")] ∧
      (w.store.repo "a").published = [("roa", "1"), ("mft", "2")] ∧
      (w.server.map fun m => inSyncB (w.store.repo "a").published m) = some false :=
  ⟨[.sync [("mft", "1"), ("roa", "1")] 1, .publisherRemoved, .publisherAdded,
    .sync [("mft", "2")] 2], by decide⟩

/-- The loss alone (nothing dropped) is repaired by the next synchronisation since 7b4aa6c7:
everything is published again and replaces the entries of the same URI. -/
theorem published_list_recovers_from_loss_without_drop :
    let w := wrun "a" "u" {} [.sync [("mft", "1"), ("crl", "1")] 1, .publisherRemoved, .publisherAdded,
      .sync [("mft", "1"), ("crl", "1")] 2]
    w.server = some [("mft", "1"), ("crl", "1")] ∧
    (w.store.repo "a").published = [("mft", "1"), ("crl", "1")] := by decide

/-- **Full**: no URI is ever listed twice, whatever deltas are applied (since 7b4aa6c7 every arm
that pushes removes the entry of the same URI first). -/
theorem published_list_has_no_duplicates (p : List File) (d : List DeltaEl)
    (h : (p.map (·.1)).Nodup) : ((applyDelta p d).map (·.1)).Nodup :=
  nodup_applyDelta p d h

/-- In every reachable state: starting from the empty store the shown list of every CA is free
of duplicates after any history. -/
theorem published_list_never_has_duplicates (evs : List Ev) (ca : String) :
    (((run Store.empty evs).repo ca).published.map (·.1)).Nodup := by
  rw [repo_run _ consistent_empty]
  have key : ∀ (l : List Ev) (r : RepoStatus), (r.published.map (·.1)).Nodup →
      ((l.foldl (fun r e => repoProj e ca r) r).published.map (·.1)).Nodup := by
    intro l
    induction l with
    | nil => intro r hr; exact hr
    | cons e t ih =>
      intro r hr
      simp only [List.foldl_cons]
      apply ih
      cases e with
      | repoList ca' uri reply now =>
        cases reply with
        | ok u => cases u; simp only [repoProj]; split <;> simpa [RepoStatus.setLastUpdated] using hr
        | error err => simp only [repoProj]; split <;> simpa [RepoStatus.setFailure] using hr
      | repoDelta ca' uri d reply now =>
        cases reply with
        | ok u =>
          cases u
          simp only [repoProj]
          split
          · exact nodup_applyDelta r.published d hr
          · exact hr
        | error err => simp only [repoProj]; split <;> simpa [RepoStatus.setFailure] using hr
      | caRemove ca' =>
        simp only [repoProj]
        split
        · exact List.nodup_nil
        · exact hr
      | parentList ca' p' uri ex reply now => cases reply <;> exact hr
      | parentRevokes ca' p' uri sent reply now => cases reply <;> exact hr
      | parentCerts ca' p' uri reply now => cases reply <;> exact hr
      | childRequest ca' c agent outcome now => cases outcome <;> exact hr
      | childSuspended ca' c now => exact hr
      | parentRemove ca' p' => exact hr
      | childRemove ca' c => exact hr
      | restart => exact hr
  exact key evs _ List.nodup_nil

/-- **F-C19-1, counter-model of the pinned tree** (before 7b4aa6c7; no longer the code): the
`Publish` arm pushed without removing the entry of the same URI, so after the loss every object was
listed twice.  `applyElPinned` is that arm; `applyEl` (the code as it is) gives no duplicate. -/
theorem pinned_publish_arm_listed_duplicates :
    let shadow : List File := [("mft", "1"), ("crl", "1")]
    let again : List DeltaEl := [.publish "mft" "1", .publish "crl" "1"]
    again.foldl applyElPinned shadow = [("mft", "1"), ("crl", "1"), ("mft", "1"), ("crl", "1")] ∧
    applyDelta shadow again = [("mft", "1"), ("crl", "1")] := by decide

/-! ## child_last_request

Full statement: for every child the parent shows the outcome of the child's most recent request.

What holds (`child_last_request_partial`): the parent shows the outcome – result, error, user
agent – of the most recent request *that reached processing* and clears the suspension marker.
A request that is refused before that point is not recorded: a remote request whose signature does
not validate against the identity registered for the child (the child replaced its identity
without telling the parent) or that names an unknown child; a local request of an unknown child
(except at the trust anchor).  `request_refused_before_processing_is_not_recorded` is the
witness; whether an unauthenticated message counts as "the child's request" is a matter of
reading – nobody but the registered identity can move the entry. -/

theorem child_last_request_partial (s0 : Store) (h0 : Consistent s0) (pre post : List Ev) (e : Ev)
    (ca c : String) (x : ChildExchange)
    (he : e.childAttempt? = some (ca, c, x))
    (hpost : ∀ e' ∈ post, e'.childRequestOf ca c = false ∧ e'.removesChild ca c = false) :
    ((run s0 (pre ++ e :: post)).child? ca c).bind (·.lastExchange) = some x := by
  rw [run_append, run_cons]
  have hc1 := consistent_run s0 h0 pre
  have hc2 := consistent_step _ hc1 e
  rw [child?_run _ hc2, child?_step _ hc1]
  obtain ⟨st, hst, hx, _⟩ := childProj_attempt e ca c x ((run s0 pre).child? ca c) he
  rw [foldl_preserves (fun o e => childProj e ca c o) (fun o => o.bind (·.lastExchange)) post
    (fun e' he' o => (childProj_keeps_lastExchange e' ca c o (hpost e' he').1 (hpost e' he').2).1),
    hst]
  simpa using hx

theorem child_last_success_is_last_successful (s0 : Store) (h0 : Consistent s0)
    (pre post : List Ev) (e : Ev) (ca c : String) (x : ChildExchange)
    (he : e.childAttempt? = some (ca, c, x)) (hs : x.result = .success)
    (hpost : ∀ e' ∈ post, e'.childSuccess ca c = false ∧ e'.removesChild ca c = false) :
    ((run s0 (pre ++ e :: post)).child? ca c).bind (·.lastSuccess) = some x.time := by
  rw [run_append, run_cons]
  have hc1 := consistent_run s0 h0 pre
  have hc2 := consistent_step _ hc1 e
  rw [child?_run _ hc2, child?_step _ hc1]
  obtain ⟨st, hst, _, _, hx, _⟩ := childProj_attempt e ca c x ((run s0 pre).child? ca c) he
  rw [foldl_preserves (fun o e => childProj e ca c o) (fun o => o.bind (·.lastSuccess)) post
    (fun e' he' o => childProj_keeps_lastSuccess e' ca c o (hpost e' he').1 (hpost e' he').2), hst]
  simpa using hx hs

/-- The suspension marker: set by the inactivity check, cleared by the next processed request
(success or failure) – "implicitly unsuspended". -/
theorem suspended_marker (s0 : Store) (h0 : Consistent s0) (pre post : List Ev) (ca c : String)
    (hpost : ∀ e' ∈ post, e'.touchesChild ca c = false) :
    (∀ now, ((run s0 (pre ++ .childSuspended ca c now :: post)).child? ca c).bind (·.suspended) = some now) ∧
    (∀ agent r now,
      ((run s0 (pre ++ .childRequest ca c agent r now :: post)).child? ca c).bind (·.suspended) = none) := by
  have hc1 := consistent_run s0 h0 pre
  constructor
  · intro now
    rw [run_append, run_cons]
    have hc2 := consistent_step _ hc1 (.childSuspended ca c now)
    rw [child?_run _ hc2, child?_step _ hc1]
    rw [foldl_preserves (fun o e => childProj e ca c o) (fun o => o) post
      (fun e' he' o => childProj_of_not_touches e' ca c o (hpost e' he'))]
    simp [childProj, ChildStatus.setSuspended]
  · intro agent r now
    rw [run_append, run_cons]
    have hc2 := consistent_step _ hc1 (.childRequest ca c agent r now)
    rw [child?_run _ hc2, child?_step _ hc1]
    rw [foldl_preserves (fun o e => childProj e ca c o) (fun o => o) post
      (fun e' he' o => childProj_of_not_touches e' ca c o (hpost e' he'))]
    cases r with
    | ok u => cases u; simp [childProj, ChildStatus.setSuccess]
    | error err => simp [childProj, ChildStatus.setFailure]

/-- A request that `verify_rfc6492` refuses (unknown child, or a signature that does not
validate) and a local request of an unknown child produce no event at all: the entry keeps
showing the older outcome. -/
theorem request_refused_before_processing_is_not_recorded (parent child : String)
    (agent : Option String) (outcome : Except String Unit) (now : Nat) :
    childRequestEvents parent child true false true false agent outcome now = [] ∧
    childRequestEvents parent child true false false true agent outcome now = [] ∧
    childRequestEvents parent child false false false true agent outcome now = [] := by
  refine ⟨rfl, rfl, rfl⟩

/-- Witness against the full statement: the child's most recent request was refused (identity
replaced without telling the parent), the parent still shows the earlier success. -/
theorem child_last_request_fails_for_unauthenticated :
    let s := run Store.empty (childRequestEvents "p" "c" true false true true (some "krill/0.16.0") (.ok ()) 1 ++
      childRequestEvents "p" "c" true false true false (some "krill/0.16.0") (.error "cannot-validate") 2)
    (s.child? "p" "c").bind (·.lastExchange) = some ⟨1, .success, some "krill/0.16.0"⟩ := by decide

/-- Non-vacuity for `child_last_request_partial` and `suspended_marker`. -/
example :
    let evs : List Ev := [.childRequest "p" "c" (some "local-child") (.ok ()) 1, .childSuspended "p" "c" 7,
      .childRequest "p" "c" (some "krill/0.9.1") (.error "rfc6492-not-performed") 9,
      .childRequest "p" "d" none (.ok ()) 10, .restart]
    let st := ((run Store.empty evs).child? "p" "c").getD {}
    st.lastExchange = some ⟨9, .failure "rfc6492-not-performed", some "krill/0.9.1"⟩ ∧
      st.lastSuccess = some 1 ∧ st.suspended = none := by decide

/-! ## restart_invariant -/

/-- A new status store on the same storage shows, for every CA, exactly what the running one
showed – after any history. -/
theorem restart_invariant (s0 : Store) (h0 : Consistent s0) (evs : List Ev) (ca : String) :
    (run s0 evs).restart.view ca = (run s0 evs).view ca :=
  view_restart_of_consistent _ (consistent_run s0 h0 evs) ca

/-- A restart at any point of a history changes nothing that is shown later: repository status,
every parent entry, every child entry. -/
theorem restart_anywhere_is_invisible (s0 : Store) (h0 : Consistent s0) (pre post : List Ev)
    (ca : String) :
    (run s0 (pre ++ .restart :: post)).repo ca = (run s0 (pre ++ post)).repo ca ∧
    (∀ p, (run s0 (pre ++ .restart :: post)).parent? ca p = (run s0 (pre ++ post)).parent? ca p) ∧
    (∀ c, (run s0 (pre ++ .restart :: post)).child? ca c = (run s0 (pre ++ post)).child? ca c) := by
  have hc1 := consistent_run s0 h0 pre
  have hc2 := consistent_step _ hc1 .restart
  refine ⟨?_, ?_, ?_⟩
  · rw [run_append, run_append, run_cons, repo_run _ hc2, repo_run _ hc1, repo_step _ hc1]; rfl
  · intro p
    rw [run_append, run_append, run_cons, parent?_run _ hc2, parent?_run _ hc1, parent?_step _ hc1]; rfl
  · intro c
    rw [run_append, run_append, run_cons, child?_run _ hc2, child?_run _ hc1, child?_step _ hc1]; rfl

/-- Reload from storage is the identity on what was written through: the storage holds exactly
the entries the cache shows (nothing more – removed entries are gone from storage too). -/
theorem storage_holds_what_is_shown (s0 : Store) (h0 : Consistent s0) (evs : List Ev) (ca : String) :
    (diskOr (run s0 evs).disk ca).toCa = (run s0 evs).view ca :=
  (consistent_run s0 h0 evs ca).symm

example :
    let evs : List Ev := [.repoDelta "a" "u" [.publish "x" "1"] (.ok ()) 1, .parentList "a" "p" "u" true (.ok []) 2,
      .childRequest "a" "c" none (.error "e") 3, .childRemove "a" "c", .parentRemove "a" "p"]
    (run Store.empty evs).restart.view "a" = (run Store.empty evs).view "a" ∧
      (run Store.empty evs).view "a" ≠ {} := by decide

/-! ## removal_removes_entries -/

/-- Removing a parent, a child or a CA removes its entries from the view *and* from storage
(a restart does not bring them back), whatever was recorded before; they stay away until a new
exchange is recorded for them. -/
theorem removal_removes_entries (s0 : Store) (h0 : Consistent s0) (pre post : List Ev)
    (ca x : String) :
    ((∀ e' ∈ post, e'.touchesParent ca x = false) →
      (run s0 (pre ++ .parentRemove ca x :: post)).parent? ca x = none ∧
      (run s0 (pre ++ .parentRemove ca x :: post)).restart.parent? ca x = none) ∧
    ((∀ e' ∈ post, e'.touchesChild ca x = false) →
      (run s0 (pre ++ .childRemove ca x :: post)).child? ca x = none ∧
      (run s0 (pre ++ .childRemove ca x :: post)).restart.child? ca x = none) := by
  have hc1 := consistent_run s0 h0 pre
  constructor
  · intro hpost
    have hc := consistent_run s0 h0 (pre ++ .parentRemove ca x :: post)
    have : (run s0 (pre ++ .parentRemove ca x :: post)).parent? ca x = none := by
      rw [run_append, run_cons]
      have hc2 := consistent_step _ hc1 (.parentRemove ca x)
      rw [parent?_run _ hc2, parent?_step _ hc1]
      rw [foldl_preserves (fun o e => parentProj e ca x o) (fun o => o) post
        (fun e' he' o => parentProj_of_not_touches e' ca x o (hpost e' he'))]
      simp [parentProj]
    refine ⟨this, ?_⟩
    unfold Store.parent? at this ⊢
    rw [view_restart_of_consistent _ hc]
    exact this
  · intro hpost
    have hc := consistent_run s0 h0 (pre ++ .childRemove ca x :: post)
    have : (run s0 (pre ++ .childRemove ca x :: post)).child? ca x = none := by
      rw [run_append, run_cons]
      have hc2 := consistent_step _ hc1 (.childRemove ca x)
      rw [child?_run _ hc2, child?_step _ hc1]
      rw [foldl_preserves (fun o e => childProj e ca x o) (fun o => o) post
        (fun e' he' o => childProj_of_not_touches e' ca x o (hpost e' he'))]
      simp [childProj]
    refine ⟨this, ?_⟩
    unfold Store.child? at this ⊢
    rw [view_restart_of_consistent _ hc]
    exact this

/-- Removing a CA: default repository status (no exchange, empty list), no parent and no child
entry, and the whole scope gone from storage. -/
theorem ca_removal_removes_entries (s0 : Store) (h0 : Consistent s0) (pre : List Ev) (ca : String) :
    let s := run s0 (pre ++ [.caRemove ca])
    s.view ca = {} ∧ s.restart.view ca = {} ∧ alookup s.disk ca = none := by
  intro s
  have hs : s = step (run s0 pre) (.caRemove ca) := by
    show run s0 (pre ++ [.caRemove ca]) = _
    rw [run_append]; rfl
  have hc := consistent_step _ (consistent_run s0 h0 pre) (.caRemove ca)
  rw [← hs] at hc
  have hv : s.view ca = {} := by
    rw [hs]; show ((run s0 pre).removeCa ca).view ca = {}
    rw [view_removeCa]; simp
  refine ⟨hv, ?_, ?_⟩
  · rw [view_restart_of_consistent _ hc, hv]
  · rw [hs]; show alookup (aerase (run s0 pre).disk ca) ca = none
    rw [alookup_aerase]; simp

/-- A removed child that calls in again is refused before the status is touched (local parent
other than the trust anchor, or remote): the removed entry stays removed. -/
theorem removed_child_stays_removed (s0 : Store) (h0 : Consistent s0) (pre : List Ev)
    (parent child : String) (remote sigValid : Bool) (agent : Option String)
    (outcome : Except String Unit) (now : Nat) :
    (run s0 (pre ++ .childRemove parent child ::
      childRequestEvents parent child remote false false sigValid agent outcome now)).child? parent child
      = none := by
  have hev : childRequestEvents parent child remote false false sigValid agent outcome now = [] := by
    cases remote <;> simp [childRequestEvents]
  rw [hev]
  exact ((removal_removes_entries s0 h0 pre [] parent child).2 (by simp)).1

example :
    let evs : List Ev := [.parentList "a" "p" "u" true (.ok [("0", [1])]) 1, .childRequest "a" "c" none (.ok ()) 2,
      .parentRemove "a" "p", .repoList "a" "r" (.ok ()) 3, .restart]
    (run Store.empty evs).parent? "a" "p" = none ∧ (run Store.empty evs).child? "a" "c" ≠ none ∧
    (run Store.empty (evs ++ [.caRemove "a"])).view "a" = {} := by decide

/-! ## the source is what the model implements

Tables regenerated from /repo on every run (`translate/src/status_writes.rs`); the literals below
are what `Status.lean` models.  A change of a setter, of the arm of a reply on which a setter is
called, or of the order cache / storage in the store breaks these. -/

/-- `src/api/ca.rs`: what every setter writes – a failure touches nothing but `last_exchange`
(and the child's suspension marker); `update_published`: `Publish` and `Update` retain then push,
`Withdraw` retains. -/
theorem source_status_writes_as_modelled : KM.Generated.statusWrites = [
  ("ParentStatus", "set_failure", ["set:last_exchange:Failure"]),
  ("ParentStatus", "set_entitlements", ["call:set_last_updated", "clone_from:classes", "set:all_resources"]),
  ("ParentStatus", "set_last_updated", ["set:last_exchange:Success", "set:last_success"]),
  ("RepoStatus", "set_failure", ["set:last_exchange:Failure"]),
  ("RepoStatus", "update_published", ["set:last_exchange:Success", "arm:Publish", "retain:published", "push:published", "arm:Update", "retain:published", "push:published", "arm:Withdraw", "retain:published", "set:last_success"]),
  ("RepoStatus", "set_last_updated", ["set:last_exchange:Success", "set:last_success"]),
  ("ChildStatus", "set_success", ["set:last_exchange:Success", "set:last_success", "set:suspended:None"]),
  ("ChildStatus", "set_failure", ["set:last_exchange:Failure", "set:suspended:None"]),
  ("ChildStatus", "set_suspended", ["set:suspended"])
] := by decide

/-- `src/server/ca/manager.rs`: on which reply which status setter is called – success only on a
list / success reply, the delta applied only in the `Success` arm of `send_rfc8181_delta`, a
failure in every other arm; child outcome in both arms of `rfc6492_process_request`; the removals. -/
theorem source_status_calls_as_modelled : KM.Generated.statusCalls = [
  ("get_ca_status", "if self.has_ca(ca)?", "get_ca_status"),
  ("delete_ca", "", "remove_ca"),
  ("ca_child_remove", "", "remove_child"),
  ("rfc6492_process_request", "Ok", "set_child_success"),
  ("rfc6492_process_request", "Err", "set_child_failure"),
  ("ca_parent_remove", "", "remove_parent"),
  ("ca_suspend_inactive_children", "if letSome(threshold_seconds)=threshold_sec...", "set_child_suspended"),
  ("ca_schedule_sync_parents", "else", "get_ca_status"),
  ("send_revoke_requests", "Err", "set_parent_failure"),
  ("send_revoke_requests", "Ok", "set_parent_last_updated"),
  ("send_cert_requests_handle_responses", "if errors.is_empty()", "set_parent_last_updated"),
  ("send_cert_requests_handle_responses", "else", "set_parent_failure"),
  ("get_entitlements_from_contact", "Err/if existing_parent", "set_parent_failure"),
  ("get_entitlements_from_contact", "Ok", "set_parent_entitlements"),
  ("send_rfc8181_list", "Err", "set_status_repo_failure"),
  ("send_rfc8181_list", "List", "set_status_repo_success"),
  ("send_rfc8181_list", "Success", "set_status_repo_failure"),
  ("send_rfc8181_list", "ErrorReply", "set_status_repo_failure"),
  ("send_rfc8181_delta", "Err", "set_status_repo_failure"),
  ("send_rfc8181_delta", "Success", "set_status_repo_published"),
  ("send_rfc8181_delta", "ErrorReply", "set_status_repo_failure"),
  ("send_rfc8181_delta", "List", "set_status_repo_failure")
] := by decide

/-- `src/server/ca/status.rs`: every update goes to the cache entry and is then written through;
removals drop the key / the scope; start-up loads every scope. -/
theorem source_status_store_as_modelled : KM.Generated.statusStoreOps = [
  ("create", []),
  ("warm", ["store.scopes", "self.convert_pre_0_9_5_full_status_if_present", "self.load_full_status"]),
  ("load_full_status", ["store.get", "store.keys", "store.get", "parents.insert", "store.keys", "store.get", "children.insert", "unwrap().insert"]),
  ("scope", []),
  ("repo_status_key", []),
  ("parent_status_key", []),
  ("child_status_key", []),
  ("get_ca_status", []),
  ("set_parent_failure", ["status.set_failure", "self.update_ca_parent_status"]),
  ("set_parent_last_updated", ["status.set_last_updated", "self.update_ca_parent_status"]),
  ("set_parent_entitlements", ["status.set_entitlements", "self.update_ca_parent_status"]),
  ("remove_parent", ["cache.get_mut", "parents.remove", "store.drop_key"]),
  ("set_child_success", ["status.set_success", "self.update_ca_child_status"]),
  ("set_child_failure", ["status.set_failure", "self.update_ca_child_status"]),
  ("set_child_suspended", ["status.set_suspended", "self.update_ca_child_status"]),
  ("remove_child", ["cache.get_mut", "children.remove", "store.drop_key"]),
  ("remove_ca", ["unwrap().remove", "store.drop_scope"]),
  ("set_status_repo_failure", ["status.set_failure", "self.update_repo_status"]),
  ("set_status_repo_success", ["status.set_last_updated", "self.update_repo_status"]),
  ("set_status_repo_published", ["status.update_published", "self.update_repo_status"]),
  ("update_repo_status", ["cache.contains_key", "cache.insert", "cache.get_mut", "op()", "store.store"]),
  ("update_ca_child_status", ["cache.contains_key", "cache.insert", "cache.get_mut", "children.contains_key", "children.insert", "children.get_mut", "op()", "store.store"]),
  ("update_ca_parent_status", ["cache.contains_key", "cache.insert", "cache.get_mut", "parents.get_or_default_mut", "op()", "store.store"])
] := by decide

/-- Read off the table: the shadow list is only touched in the `Success` arm of the delta reply. -/
theorem delta_applied_only_on_success_reply :
    (KM.Generated.statusCalls.filter fun c => c.2.2 == "set_status_repo_published") =
      [("send_rfc8181_delta", "Success", "set_status_repo_published")] := by decide

/-- Read off the table: no setter named `set_failure` writes `last_success`, the list, the
entitlements. -/
theorem failure_setters_write_last_exchange_only :
    (KM.Generated.statusWrites.filter fun w => w.2.1 == "set_failure").all
      (fun w => w.2.2.all fun x => x == "set:last_exchange:Failure" || x == "set:suspended:None") = true := by
  decide

/-- The model's counterpart of the two table facts: a failed exchange changes nothing but
`last_exchange` – list of published files, last success, entitlements stay. -/
theorem failed_exchange_changes_only_last_exchange (s : Store) (h : Consistent s) (e : Ev) :
    (∀ ca x, e.repoAttempt? = some (ca, x) → x.result ≠ .success →
      ((step s e).repo ca).published = (s.repo ca).published ∧
      ((step s e).repo ca).lastSuccess = (s.repo ca).lastSuccess) ∧
    (∀ ca p x, e.parentAttempt? = some (ca, p, x) → x.result ≠ .success →
      ∃ st, (step s e).parent? ca p = some st ∧
        st.lastSuccess = ((s.parent? ca p).getD {}).lastSuccess ∧
        st.classes = ((s.parent? ca p).getD {}).classes ∧
        st.allResources = ((s.parent? ca p).getD {}).allResources) := by
  constructor
  · intro ca x he hx
    rw [repo_step s h]
    have := (repoProj_attempt e ca x (s.repo ca) he).2.2 hx
    exact ⟨this.2, this.1⟩
  · intro ca p x he hx
    rw [parent?_step s h]
    obtain ⟨st, hst, _, _, h4⟩ := parentProj_attempt e ca p x (s.parent? ca p) he
    exact ⟨st, hst, h4 hx⟩

example : (Ev.repoDelta "a" "u" [.publish "x" "1"] (.error "pub-unknown") 3).repoAttempt? =
    some ("a", ⟨3, "u", .failure "pub-unknown"⟩) := by decide

/-! ## the invariant over arbitrary histories, and the clauses as its corollaries -/

/-- **`StatusInv`** holds after every history, from the empty store: cache and storage agree, every
field of every view is what the most recent event concerning it says, no URI is listed twice. -/
theorem status_invariant (evs : List Ev) : StatusInv evs (run Store.empty evs) := statusInv_run evs

/-- It is inductive: initially true, preserved by every event whatsoever. -/
theorem status_invariant_step (evs : List Ev) (s : Store) (h : StatusInv evs s) (e : Ev) :
    StatusInv (evs ++ [e]) (step s e) := statusInv_step evs s h e

/-- Clause "parent … failure exactly when the most recent attempt failed": scanning the history
from its end, the first event that is a recorded attempt to talk to this parent or a removal of it
decides – the view shows that exchange (`none` = no entry after a removal or without any attempt).
Restarts, other parents, other CAs, the repository and children are skipped by the scan. -/
theorem parent_view_is_most_recent_attempt (evs : List Ev) (ca p : String) :
    ((run Store.empty evs).parent? ca p).bind (·.lastExchange) =
      (lastTouch (Ev.parentExchangeSays ca p) evs).getD none :=
  (statusInv_run evs).parentExchange ca p

theorem repo_view_is_most_recent_attempt (evs : List Ev) (ca : String) :
    ((run Store.empty evs).repo ca).lastExchange = (lastTouch (Ev.repoExchangeSays ca) evs).getD none :=
  (statusInv_run evs).repoExchange ca

/-- `last_success` of a parent and of the repository: the most recent *successful* attempt (or
nothing after a removal); failed attempts are skipped by the scan. -/
theorem last_success_is_most_recent_success (evs : List Ev) (ca : String) :
    (∀ p, ((run Store.empty evs).parent? ca p).bind (·.lastSuccess) =
      (lastTouch (Ev.parentSuccessSays ca p) evs).getD none) ∧
    ((run Store.empty evs).repo ca).lastSuccess = (lastTouch (Ev.repoSuccessSays ca) evs).getD none :=
  ⟨fun p => (statusInv_run evs).parentSuccess ca p, (statusInv_run evs).repoSuccess ca⟩

/-- Clause "the entitlements the parent last returned": the payload of the most recent successful
list query (nothing after a removal). -/
theorem entitlements_are_most_recent_list_reply (evs : List Ev) (ca p : String) :
    (((run Store.empty evs).parent? ca p).getD {}).classes =
      (lastTouch (Ev.entitlementsSay ca p) evs).getD [] :=
  (statusInv_run evs).entitlements ca p

/-- Clause "for every child the parent shows the outcome of the child's most recent request": the
most recent request of that child that reached processing (result, error, user agent, time). -/
theorem child_view_is_most_recent_processed_request (evs : List Ev) (ca c : String) :
    ((run Store.empty evs).child? ca c).bind (·.lastExchange) =
      (lastTouch (Ev.childExchangeSays ca c) evs).getD none :=
  (statusInv_run evs).childExchange ca c

theorem suspension_marker_is_most_recent (evs : List Ev) (ca c : String) :
    ((run Store.empty evs).child? ca c).bind (·.suspended) =
      (lastTouch (Ev.suspendedSays ca c) evs).getD none :=
  (statusInv_run evs).suspended ca c

/-- Which requests reach processing: exactly those not refused before it.  The refusals before
processing are (and are only): a remote request of an unknown child; a remote request whose
signature does not validate against the registered identity; a local request of an unknown child
at a parent other than the trust anchor.  Every other request – accepted or refused with any
error, from a suspended child or not – is recorded with its outcome and user agent. -/
theorem request_is_recorded_iff_not_refused_before_processing (parent child : String)
    (remote parentIsTa known sigValid : Bool) (agent : Option String) (outcome : Except String Unit)
    (now : Nat) :
    childRequestEvents parent child remote parentIsTa known sigValid agent outcome now =
      if refusedBeforeProcessing remote parentIsTa known sigValid then []
      else [.childRequest parent child (if remote then agent else some "local-child") outcome now] := by
  cases remote <;> cases parentIsTa <;> cases known <;> cases sigValid <;> rfl

/-- … and a recorded request is what the parent then shows, whatever happened before. -/
theorem processed_request_is_shown (pre : List Ev) (parent child : String)
    (remote parentIsTa known sigValid : Bool) (agent : Option String) (outcome : Except String Unit)
    (now : Nat) (h : refusedBeforeProcessing remote parentIsTa known sigValid = false) :
    ((run Store.empty (pre ++ childRequestEvents parent child remote parentIsTa known sigValid agent
        outcome now)).child? parent child).bind (·.lastExchange) =
      some ⟨now, resultOf outcome, if remote then agent else some "local-child"⟩ := by
  rw [request_is_recorded_iff_not_refused_before_processing, h]
  simp only [Bool.false_eq_true, if_false]
  rw [child_view_is_most_recent_processed_request, lastTouch_snoc]
  simp [Ev.childExchangeSays, Ev.childAttempt?]

/-- A restart says nothing about any entry: the scans skip it. -/
theorem restart_says_nothing (ca x : String) :
    Ev.restart.parentExchangeSays ca x = none ∧ Ev.restart.parentSuccessSays ca x = none ∧
    Ev.restart.entitlementsSay ca x = none ∧ Ev.restart.repoExchangeSays ca = none ∧
    Ev.restart.repoSuccessSays ca = none ∧ Ev.restart.childExchangeSays ca x = none ∧
    Ev.restart.suspendedSays ca x = none := by
  refine ⟨rfl, rfl, rfl, rfl, rfl, rfl, rfl⟩

/-- Removing and adding again: the entry shows the new exchange only – nothing of what was
recorded before the removal (last success, entitlements) comes back. -/
theorem readded_entry_shows_only_the_new_exchange (pre : List Ev) (ca p uri err : String) (now : Nat) :
    let s := run Store.empty (pre ++ [.parentRemove ca p, .parentList ca p uri true (.error err) now])
    (s.parent? ca p).bind (·.lastExchange) = some ⟨now, uri, .failure err⟩ ∧
    (s.parent? ca p).bind (·.lastSuccess) = none ∧ ((s.parent? ca p).getD {}).classes = [] := by
  intro s
  have hs : s = run Store.empty ((pre ++ [.parentRemove ca p]) ++ [.parentList ca p uri true (.error err) now]) := by
    simp [s]
  refine ⟨?_, ?_, ?_⟩
  · rw [hs, parent_view_is_most_recent_attempt, lastTouch_snoc]
    simp [Ev.parentExchangeSays, Ev.parentAttempt?]
  · rw [hs, (last_success_is_most_recent_success _ ca).1 p, lastTouch_snoc, lastTouch_snoc]
    simp [Ev.parentSuccessSays, Ev.parentAttempt?, Ev.removesParent]
  · rw [hs, entitlements_are_most_recent_list_reply, lastTouch_snoc, lastTouch_snoc]
    simp [Ev.entitlementsSay, Ev.removesParent, Ev.removesCa]

/-- Clause "status and issues views": `get_ca_issues` reports the repository's `opt_failure` and,
for every parent entry of the same view, its `opt_failure` – nothing else. -/
theorem issues_view_is_the_failures_of_the_status_view (s : Store) (ca : String) :
    (s.issues ca).1 = (s.repo ca).optFailure ∧
    ∀ p err, (p, err) ∈ (s.issues ca).2 ↔
      ∃ st, (p, st) ∈ (s.view ca).parents ∧ st.optFailure = some err := by
  refine ⟨rfl, fun p err => ?_⟩
  simp only [Store.issues, List.mem_filterMap]
  constructor
  · rintro ⟨⟨p', st⟩, hmem, h⟩
    cases hf : st.optFailure with
    | none => simp [hf] at h
    | some e2 =>
      simp only [hf, Option.map_some, Option.some.injEq, Prod.mk.injEq] at h
      obtain ⟨rfl, rfl⟩ := h
      exact ⟨st, hmem, hf⟩
  · rintro ⟨st, hmem, hf⟩
    exact ⟨(p, st), hmem, by simp [hf]⟩

/-- Clause "published = server content", WITHOUT the guard: whatever happens to the server
(publisher removed, added again, content lost) and to the CA (failures, restarts), everything the
server holds for the CA is shown, exactly once and with its content.  So the only way the shown
list can differ from the server's content is by additional entries the server does not hold – the
stale entries of F-C19-3 – and `published_list_is_server_content_partial` says there are none as
long as the server's content changes only through this CA's accepted deltas. -/
theorem published_list_covers_server_content (ca uri : String) (hist : List WEv)
    (hh : ∀ e ∈ hist, e.foreign ca = false) :
    ∀ m, (wrun ca uri {} hist).server = some m →
      Covers ((wrun ca uri {} hist).store.repo ca).published m := by
  have key : ∀ (l : List WEv) (w : World), WorldCovers ca w → (∀ e ∈ l, e.foreign ca = false) →
      WorldCovers ca (wrun ca uri w l) := by
    intro l
    induction l with
    | nil => intro w hw _; exact hw
    | cons e t ih =>
      intro w hw hl
      exact ih (wstep ca uri w e) (wstep_keeps_covers ca uri w hw e (hl e (List.mem_cons_self ..)))
        (fun e' he' => hl e' (List.mem_cons_of_mem _ he'))
  have h0 : WorldCovers ca ({} : World) := by
    refine ⟨consistent_empty, fun m hm => ?_⟩
    have : m = [] := by cases hm; rfl
    subst this
    exact covers_nil _
  exact (key hist {} h0 hh).2

/-- Non-vacuity / the guard made explicit: the F-C19-3 history (loss while an object is dropped)
is admissible for `published_list_covers_server_content` – the server's content is covered, the
stale entry is the additional one – and is exactly what the guard of
`published_list_is_server_content_partial` excludes. -/
example :
    let hist : List WEv := [.sync [("mft", "1"), ("roa", "1")] 1, .publisherRemoved, .publisherAdded,
      .sync [("mft", "2")] 2]
    (∀ e ∈ hist, e.foreign "a" = false) ∧ (hist.any fun e => e.outOfBand) = true ∧
    let w := wrun "a" "u" {} hist
    (w.server.map fun m => coversB (w.store.repo "a").published m) = some true ∧
    (w.server.map fun m => inSyncB (w.store.repo "a").published m) = some false := by decide

/-- Non-vacuity of the scans on a history with a refused exchange, a removal, a re-adding and a
restart. -/
example :
    let evs : List Ev := [.parentList "b" "a" "u" true (.ok [("0", [1, 2])]) 3, .parentCerts "b" "a" "u" (.ok ()) 4,
      .parentList "b" "a" "u" true (.error "ca-child-unknown") 6, .restart, .repoList "b" "r" (.ok ()) 7]
    lastTouch (Ev.parentExchangeSays "b" "a") evs = some (some ⟨6, "u", .failure "ca-child-unknown"⟩) ∧
    lastTouch (Ev.parentSuccessSays "b" "a") evs = some (some 4) ∧
    lastTouch (Ev.entitlementsSay "b" "a") evs = some [("0", [1, 2])] ∧
    lastTouch (Ev.parentExchangeSays "b" "a") (evs ++ [.parentRemove "b" "a"]) = some none ∧
    lastTouch (Ev.childExchangeSays "a" "b") evs = none := by decide

example : refusedBeforeProcessing true false true false = true ∧ refusedBeforeProcessing true false false true = true ∧
    refusedBeforeProcessing false false false true = true ∧ refusedBeforeProcessing false true false true = false ∧
    refusedBeforeProcessing true false true true = false ∧ refusedBeforeProcessing false false true false = false := by
  decide

end KM.Props.C19
