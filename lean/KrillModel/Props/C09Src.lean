/-
C09 (source tie) — the hand-written model of the decision of `Queue::schedule_task`
(`KM.Queue.scheduleWith`, Queue/Queue.lean) equals the definition that the translator `pure_fns`
regenerates from the closure body in `/repo/src/commons/queue.rs` on every run
(`Generated/PureFnsC09.lean`, `KM.Gen.C09.Queue.schedule_task`).

`soonest_keeps_earlier`, `if_missing_keeps_existing` and the other scheduling theorems
(Props/C09.lean) are about `schedule`, i.e. `scheduleWith` for every resolution of the two look-ups.
With `gen_schedule_task_eq_model` the per-mode decision is tied to the Rust `match mode`: which
entries are deleted in which mode, where the earlier of the two time stamps is taken, when nothing
is stored – each such edit changes the generated definition and this file stops checking.

Differences that do not matter, bridged here: the generated definition is over an abstract
transaction with the three store calls as parameters; the statement instantiates it with the
model's `QState` and `kvDel` / `kvPut` on the scope the call names, keys = the entry found, and
feeds the look-up results `(key, time stamp of that key)`.  `toGen` renames the model's modes to the
Rust variants.  What the look-ups return (any entry with that name) stays in the model
(`optChoices`) and is tied to the code by the `queue` stream only.
-/
import KrillModel.Generated.PureFnsC09
import KrillModel.Queue.TaskQueue
namespace KM.Props.C09Src
open KM.Queue

/-- Model mode ↦ Rust variant. -/
def toGen : Mode → KM.Gen.C09.ScheduleMode
  | .replaceExisting => .ReplaceExisting
  | .replaceExistingSoonest => .ReplaceExistingSoonest
  | .finishOrReplaceExisting => .FinishOrReplaceExisting
  | .finishOrReplaceExistingSoonest => .FinishOrReplaceExistingSoonest
  | .ifMissing => .IfMissing

/-- `toGen` is a bijection. -/
theorem toGen_bijective :
    (∀ a b, toGen a = toGen b → a = b) ∧ (∀ g, ∃ m, toGen m = g) := by
  refine ⟨fun a b => by cases a <;> cases b <;> simp [toGen], fun g => ?_⟩
  cases g
  · exact ⟨.replaceExisting, rfl⟩
  · exact ⟨.replaceExistingSoonest, rfl⟩
  · exact ⟨.finishOrReplaceExisting, rfl⟩
  · exact ⟨.finishOrReplaceExistingSoonest, rfl⟩
  · exact ⟨.ifMissing, rfl⟩

/-- What `get_storage_key_and_time` hands back for a found entry: its key and its time stamp. -/
def found (o : Option Entry) : Option (Entry × Nat) := o.map fun e => (e, e.ts)

/-- The definition generated from the closure of `schedule_task` is the model's `scheduleWith` –
for every queue state, task, time stamp (given or taken from the clock), mode and every result of
the two look-ups. -/
theorem gen_schedule_task_eq_model (s : QState) (name val : String) (tsOpt : Option Nat) (now : Nat)
    (mode : Mode) (p r : Option Entry) :
    KM.Gen.C09.Queue.schedule_task (σ := QState) (κ := Entry)
        (fun st e => { st with pending := kvDel st.pending e.ts e.name })
        (fun st e => { st with running := kvDel st.running e.ts e.name })
        (fun st t => { st with pending := kvPut st.pending ⟨t, name, val⟩ })
        now s tsOpt (toGen mode) (found p) (found r) =
      scheduleWith s name val (tsOpt.getD now) mode p r := by
  cases mode <;> cases p <;> cases r <;>
    simp [KM.Gen.C09.Queue.schedule_task, scheduleWith, toGen, found, delOpt, minOpt]

/-- Non-vacuity: the generated definition on a concrete queue – `IfMissing` keeps an existing task,
`ReplaceExistingSoonest` keeps the earlier time, `FinishOrReplaceExisting` removes the running entry. -/
example :
    let e : Entry := ⟨5, "t", "old"⟩
    let s : QState := ⟨[e], [⟨3, "t", "run"⟩]⟩
    let g (m : Mode) (p r : Option Entry) :=
      KM.Gen.C09.Queue.schedule_task (σ := QState) (κ := Entry)
        (fun st e => { st with pending := kvDel st.pending e.ts e.name })
        (fun st e => { st with running := kvDel st.running e.ts e.name })
        (fun st t => { st with pending := kvPut st.pending ⟨t, "t", "new"⟩ })
        0 s (some 9) (toGen m) (found p) (found r)
    g .ifMissing (some e) none = s ∧
    g .replaceExistingSoonest (some e) none = ⟨[⟨5, "t", "new"⟩], [⟨3, "t", "run"⟩]⟩ ∧
    g .replaceExisting (some e) none = ⟨[⟨9, "t", "new"⟩], [⟨3, "t", "run"⟩]⟩ ∧
    g .finishOrReplaceExisting (some e) (some ⟨3, "t", "run"⟩) = ⟨[⟨9, "t", "new"⟩], []⟩ := by
  decide

/-! ## The choice of the task to claim (`Queue::claim_scheduled_pending_task`)

The closure handed to `fold(None, …)` over the keys of the pending scope is regenerated as
`KM.Gen.C09.Queue.claim_fold_step` (the code around it – the clock reading, the fold starting from `None`,
the move to the running scope – is compared verbatim by the translator).  Folding it over the pending
entries IN ANY ORDER yields a member of the model's `claimChoices` (due, minimal time stamp) and `none`
exactly when nothing is due: `claim_earliest_first` and `claim_none_iff_nothing_due` (Props/C09.lean) are
about `claimChoices`; with the theorems below the comparison operators of the Rust closure (`ts > now`,
`acc_ts < ts`) are tied to them – `>=` instead of `>` (a task due exactly now is not claimed), `>` instead
of `<` (the LATEST due task is claimed) change the generated definition and this file stops checking. -/

/-- Every pending key is well formed: `split_storage_key` gives its time stamp (the name is not looked at
by the fold). -/
def splitEntry (e : Entry) : Option (Nat × Entry) := some (e.ts, e)

/-- The generated fold step, instantiated. -/
abbrev genStep (now : Nat) : Option (Nat × Entry) → Entry → Option (Nat × Entry) :=
  KM.Gen.C09.Queue.claim_fold_step splitEntry now

/-- Invariant of the fold: the accumulator is the choice among the entries seen so far. -/
def FoldInv (now : Nat) (seen : List Entry) : Option (Nat × Entry) → Prop
  | none => ∀ x ∈ seen, ¬ x.ts ≤ now
  | some (t, e) => e ∈ seen ∧ t = e.ts ∧ e.ts ≤ now ∧ ∀ x ∈ seen, x.ts ≤ now → e.ts ≤ x.ts

theorem fold_step_inv (now : Nat) (seen : List Entry) (acc : Option (Nat × Entry)) (k : Entry)
    (h : FoldInv now seen acc) : FoldInv now (seen ++ [k]) (genStep now acc k) := by
  unfold genStep KM.Gen.C09.Queue.claim_fold_step splitEntry
  simp only
  by_cases hk : k.ts > now
  · simp only [hk, if_true]
    cases acc with
    | none =>
        simp only [FoldInv] at h ⊢
        intro x hx
        rcases List.mem_append.mp hx with hx | hx
        · exact h x hx
        · simp at hx; subst hx; omega
    | some p =>
        obtain ⟨t, e⟩ := p
        simp only [FoldInv] at h ⊢
        obtain ⟨h1, h2, h3, h4⟩ := h
        refine ⟨List.mem_append.mpr (Or.inl h1), h2, h3, ?_⟩
        intro x hx hd
        rcases List.mem_append.mp hx with hx | hx
        · exact h4 x hx hd
        · simp at hx; subst hx; omega
  · simp only [hk, if_false]
    cases acc with
    | none =>
        simp only [FoldInv] at h ⊢
        refine ⟨by simp, trivial, by omega, ?_⟩
        intro x hx hd
        rcases List.mem_append.mp hx with hx | hx
        · exact absurd hd (h x hx)
        · simp at hx; subst hx; omega
    | some p =>
        obtain ⟨t, e⟩ := p
        simp only [FoldInv] at h
        obtain ⟨h1, h2, h3, h4⟩ := h
        subst h2
        by_cases hlt : e.ts < k.ts
        · simp only [hlt, if_true, FoldInv]
          refine ⟨List.mem_append.mpr (Or.inl h1), trivial, h3, ?_⟩
          intro x hx hd
          rcases List.mem_append.mp hx with hx | hx
          · exact h4 x hx hd
          · simp at hx; subst hx; omega
        · simp only [hlt, if_false, FoldInv]
          refine ⟨by simp, trivial, by omega, ?_⟩
          intro x hx hd
          rcases List.mem_append.mp hx with hx | hx
          · have := h4 x hx hd; omega
          · simp at hx; subst hx; omega

theorem fold_inv (now : Nat) (l : List Entry) :
    ∀ (seen : List Entry) (acc : Option (Nat × Entry)), FoldInv now seen acc →
      FoldInv now (seen ++ l) (l.foldl (genStep now) acc) := by
  induction l with
  | nil => intro seen acc h; simpa using h
  | cons k tl ih =>
      intro seen acc h
      have := ih (seen ++ [k]) (genStep now acc k) (fold_step_inv now seen acc k h)
      simpa [List.append_assoc] using this

/-- **gen_claim_fold_chooses_earliest_due.**  Folding the generated step over the pending entries in ANY
order `l` (a permutation of the pending scope: `list_keys` order is unspecified) from `None`: the result
is `none` exactly when nothing is due, otherwise an entry of the model's `claimChoices`. -/
theorem gen_claim_fold_chooses_earliest_due (s : QState) (now : Nat) (l : List Entry)
    (hl : ∀ e, e ∈ l ↔ e ∈ s.pending) :
    match l.foldl (genStep now) none with
    | none => claimChoices s now = []
    | some (t, e) => e ∈ claimChoices s now ∧ t = e.ts := by
  have h := fold_inv now l [] none (by simp [FoldInv])
  simp only [List.nil_append] at h
  cases hr : l.foldl (genStep now) none with
  | none =>
      rw [hr] at h
      simp only [FoldInv] at h
      simp only [claimChoices, due]
      rw [List.filter_eq_nil_iff]
      intro e he
      have := (List.mem_filter.mp he).1
      have hd := (List.mem_filter.mp he).2
      exact absurd (by simpa using hd) (h e ((hl e).mpr this))
  | some p =>
      obtain ⟨t, e⟩ := p
      rw [hr] at h
      simp only [FoldInv] at h
      obtain ⟨h1, h2, h3, h4⟩ := h
      refine ⟨?_, h2⟩
      simp only [claimChoices, due, List.mem_filter, List.all_eq_true, decide_eq_true_eq]
      refine ⟨⟨(hl e).mp h1, h3⟩, ?_⟩
      intro x hx
      exact h4 x ((hl x).mpr hx.1) hx.2

/-- The pinned alternatives are NOT what the generated step does: a task due exactly now is claimed
(`>` not `>=`), of two due tasks the earlier one wins whatever the order (`<` not `>`), and of two equal
minimal ones the LATER in key order (the model leaves that choice open). -/
example :
    (([⟨5, "a", ""⟩] : List Entry).foldl (genStep 5) none).map (·.2.name) = some "a" ∧
    (([⟨3, "a", ""⟩, ⟨2, "b", ""⟩] : List Entry).foldl (genStep 5) none).map (·.2.name) = some "b" ∧
    (([⟨2, "b", ""⟩, ⟨3, "a", ""⟩] : List Entry).foldl (genStep 5) none).map (·.2.name) = some "b" ∧
    (([⟨2, "b", ""⟩, ⟨2, "c", ""⟩] : List Entry).foldl (genStep 5) none).map (·.2.name) = some "c" ∧
    (([⟨7, "a", ""⟩] : List Entry).foldl (genStep 5) none) = none := by decide

/-! ## The entry points of `TaskQueue` (`src/server/mq.rs`)

`TaskQueue::schedule`, `schedule_and_finish_existing`, `schedule_missing` (which `ScheduleMode` each hands
on), the private `TaskQueue::schedule_task` (name and JSON of the task, `Some(priority.to_millis())` as the
time stamp, the mode unchanged) and `TaskQueue::reschedule` are regenerated too.  Composed with the
generated closure of `Queue::schedule_task` they are the model's `tqSchedule` / `tqScheduleFinish` /
`tqScheduleMissing` for every resolution of the two look-ups: the follow-up theorems of Props/C09.lean
(`followups_scheduled`, `soonest_keeps_earlier`, `if_missing_keeps_existing`, the start-up tasks scheduled
with `schedule_missing`) speak about these.  The seeded change C09 (round 1: `schedule_missing` where
`schedule` is needed) was an edit of a CALLER; an edit of the entry point itself (another mode, the clock
instead of the priority) changes a generated definition here. -/

/-- The generated entry point over the generated private helper over the generated closure of the queue,
on a model queue state, for one resolution `(p, r)` of the two look-ups. -/
def genEntry (entry : (String × String → KM.Gen.C09.ScheduleMode → Nat → Except Unit QState) → String × String → Nat → Except Unit QState)
    (s : QState) (name val : String) (secs now : Nat) (p r : Option Entry) : Except Unit QState :=
  entry
    (fun task mode prio =>
      KM.Gen.C09.TaskQueue.schedule_task (fun t : String × String => t.1) (fun t => Except.ok t.2) prioMillis
        (fun nm js tsOpt mode =>
          Except.ok (KM.Gen.C09.Queue.schedule_task (σ := QState) (κ := Entry)
            (fun st e => { st with pending := kvDel st.pending e.ts e.name })
            (fun st e => { st with running := kvDel st.running e.ts e.name })
            (fun st t => { st with pending := kvPut st.pending ⟨t, nm, js⟩ })
            now s tsOpt mode (found p) (found r)))
        id task mode prio)
    (name, val) secs

theorem gen_tq_entry (mode : Mode) (s : QState) (name val : String) (secs now : Nat) (p r : Option Entry) :
    KM.Gen.C09.TaskQueue.schedule_task (fun t : String × String => t.1) (fun t => Except.ok t.2) prioMillis
        (fun nm js tsOpt mode =>
          Except.ok (ε := Unit) (KM.Gen.C09.Queue.schedule_task (σ := QState) (κ := Entry)
            (fun st e => { st with pending := kvDel st.pending e.ts e.name })
            (fun st e => { st with running := kvDel st.running e.ts e.name })
            (fun st t => { st with pending := kvPut st.pending ⟨t, nm, js⟩ })
            now s tsOpt mode (found p) (found r)))
        id (name, val) (toGen mode) secs =
      Except.ok (scheduleWith s name val (prioMillis secs) mode p r) := by
  unfold KM.Gen.C09.TaskQueue.schedule_task
  simp only [Except.mapError]
  rw [gen_schedule_task_eq_model]
  rfl

/-- `TaskQueue::schedule` = `ReplaceExistingSoonest` at the time of the priority. -/
theorem gen_tq_schedule_eq_model (s : QState) (name val : String) (secs now : Nat) (p r : Option Entry) :
    genEntry (fun st => KM.Gen.C09.TaskQueue.schedule st) s name val secs now p r =
      Except.ok (scheduleWith s name val (prioMillis secs) .replaceExistingSoonest p r) := by
  unfold genEntry KM.Gen.C09.TaskQueue.schedule
  exact gen_tq_entry .replaceExistingSoonest s name val secs now p r

/-- `TaskQueue::schedule_and_finish_existing` = `FinishOrReplaceExistingSoonest`. -/
theorem gen_tq_schedule_finish_eq_model (s : QState) (name val : String) (secs now : Nat) (p r : Option Entry) :
    genEntry (fun st => KM.Gen.C09.TaskQueue.schedule_and_finish_existing st) s name val secs now p r =
      Except.ok (scheduleWith s name val (prioMillis secs) .finishOrReplaceExistingSoonest p r) := by
  unfold genEntry KM.Gen.C09.TaskQueue.schedule_and_finish_existing
  exact gen_tq_entry .finishOrReplaceExistingSoonest s name val secs now p r

/-- `TaskQueue::schedule_missing` = `IfMissing`. -/
theorem gen_tq_schedule_missing_eq_model (s : QState) (name val : String) (secs now : Nat) (p r : Option Entry) :
    genEntry (fun st => KM.Gen.C09.TaskQueue.schedule_missing st) s name val secs now p r =
      Except.ok (scheduleWith s name val (prioMillis secs) .ifMissing p r) := by
  unfold genEntry KM.Gen.C09.TaskQueue.schedule_missing
  exact gen_tq_entry .ifMissing s name val secs now p r

/-- The model's three entry points are exactly these, over every resolution of the look-ups. -/
theorem tq_entries_are_scheduleWith (s : QState) (name val : String) (secs : Nat) :
    tqSchedule s name val secs =
      (optChoices s.pending name).flatMap (fun p => (optChoices s.running name).map fun r =>
        scheduleWith s name val (prioMillis secs) .replaceExistingSoonest p r) ∧
    tqScheduleFinish s name val secs =
      (optChoices s.pending name).flatMap (fun p => (optChoices s.running name).map fun r =>
        scheduleWith s name val (prioMillis secs) .finishOrReplaceExistingSoonest p r) ∧
    tqScheduleMissing s name val secs =
      (optChoices s.pending name).flatMap (fun p => (optChoices s.running name).map fun r =>
        scheduleWith s name val (prioMillis secs) .ifMissing p r) := ⟨rfl, rfl, rfl⟩

/-- `TaskQueue::reschedule`: the claimed task's own key, at the time of the priority. -/
theorem gen_tq_reschedule_eq_model (s : QState) (key : Entry) (secs : Nat) :
    KM.Gen.C09.TaskQueue.reschedule prioMillis
        (fun (k : Entry) (t : Option Nat) => t.map fun ts => reschedule s k.ts k.name ts) key secs =
      some (reschedule s key.ts key.name (prioMillis secs)) := rfl

end KM.Props.C09Src
