/-
C09 (source tie) — the hand-written model of the decision of `Queue::schedule_task`
(`KM.Queue.scheduleWith`, Queue/Queue.lean) equals the definition that the translator `pure_fns`
regenerates from the closure body in `/repo/src/commons/queue.rs` on every run
(`Generated/PureFnsC09.lean`, `KM.Gen.C09.Queue.schedule_task`).

`soonest_keeps_earlier`, `if_missing_keeps_existing` and the other scheduling theorems
(Props/C09.lean) are about `schedule`, i.e. `scheduleWith` for every resolution of the two look-ups.
With `gen_schedule_task_eq_model` the per-mode decision is tied to the Rust `match mode`: which
entries are deleted in which mode, where the earlier of the two time stamps is taken, when nothing
is stored – each such edit changes the generated definition and this file stops checking.

Differences that do not matter, bridged here: the generated definition is over an abstract
transaction with the three store calls as parameters; the statement instantiates it with the
model's `QState` and `kvDel` / `kvPut` on the scope the call names, keys = the entry found, and
feeds the look-up results `(key, time stamp of that key)`.  `toGen` renames the model's modes to the
Rust variants.  What the look-ups return (any entry with that name) stays in the model
(`optChoices`) and is tied to the code by the `queue` stream only.
-/
import KrillModel.Generated.PureFnsC09
import KrillModel.Queue.Queue
namespace KM.Props.C09Src
open KM.Queue

/-- Model mode ↦ Rust variant. -/
def toGen : Mode → KM.Gen.C09.ScheduleMode
  | .replaceExisting => .ReplaceExisting
  | .replaceExistingSoonest => .ReplaceExistingSoonest
  | .finishOrReplaceExisting => .FinishOrReplaceExisting
  | .finishOrReplaceExistingSoonest => .FinishOrReplaceExistingSoonest
  | .ifMissing => .IfMissing

/-- `toGen` is a bijection. -/
theorem toGen_bijective :
    (∀ a b, toGen a = toGen b → a = b) ∧ (∀ g, ∃ m, toGen m = g) := by
  refine ⟨fun a b => by cases a <;> cases b <;> simp [toGen], fun g => ?_⟩
  cases g
  · exact ⟨.replaceExisting, rfl⟩
  · exact ⟨.replaceExistingSoonest, rfl⟩
  · exact ⟨.finishOrReplaceExisting, rfl⟩
  · exact ⟨.finishOrReplaceExistingSoonest, rfl⟩
  · exact ⟨.ifMissing, rfl⟩

/-- What `get_storage_key_and_time` hands back for a found entry: its key and its time stamp. -/
def found (o : Option Entry) : Option (Entry × Nat) := o.map fun e => (e, e.ts)

/-- The definition generated from the closure of `schedule_task` is the model's `scheduleWith` –
for every queue state, task, time stamp (given or taken from the clock), mode and every result of
the two look-ups. -/
theorem gen_schedule_task_eq_model (s : QState) (name val : String) (tsOpt : Option Nat) (now : Nat)
    (mode : Mode) (p r : Option Entry) :
    KM.Gen.C09.Queue.schedule_task (σ := QState) (κ := Entry)
        (fun st e => { st with pending := kvDel st.pending e.ts e.name })
        (fun st e => { st with running := kvDel st.running e.ts e.name })
        (fun st t => { st with pending := kvPut st.pending ⟨t, name, val⟩ })
        now s tsOpt (toGen mode) (found p) (found r) =
      scheduleWith s name val (tsOpt.getD now) mode p r := by
  cases mode <;> cases p <;> cases r <;>
    simp [KM.Gen.C09.Queue.schedule_task, scheduleWith, toGen, found, delOpt, minOpt]

/-- Non-vacuity: the generated definition on a concrete queue – `IfMissing` keeps an existing task,
`ReplaceExistingSoonest` keeps the earlier time, `FinishOrReplaceExisting` removes the running entry. -/
example :
    let e : Entry := ⟨5, "t", "old"⟩
    let s : QState := ⟨[e], [⟨3, "t", "run"⟩]⟩
    let g (m : Mode) (p r : Option Entry) :=
      KM.Gen.C09.Queue.schedule_task (σ := QState) (κ := Entry)
        (fun st e => { st with pending := kvDel st.pending e.ts e.name })
        (fun st e => { st with running := kvDel st.running e.ts e.name })
        (fun st t => { st with pending := kvPut st.pending ⟨t, "t", "new"⟩ })
        0 s (some 9) (toGen m) (found p) (found r)
    g .ifMissing (some e) none = s ∧
    g .replaceExistingSoonest (some e) none = ⟨[⟨5, "t", "new"⟩], [⟨3, "t", "run"⟩]⟩ ∧
    g .replaceExisting (some e) none = ⟨[⟨9, "t", "new"⟩], [⟨3, "t", "run"⟩]⟩ ∧
    g .finishOrReplaceExisting (some e) (some ⟨3, "t", "run"⟩) = ⟨[⟨9, "t", "new"⟩], []⟩ := by
  decide

end KM.Props.C09Src
