/-
C16 — Untrusted input never brings the daemon down.  *Partial by nature.*

What is proved: krill's **own** value-level arithmetic, shifting and slicing on
client-controlled values (`Input/Checked.lean`, `none` = panic) is total on every value
that passed krill's validation – with one exception that is stated precisely – and the
request pipelines (`Input/Pipeline.lean`) answer every request.

What is *not* proved and cannot be at reasonable cost: panic-freedom of the byte-level
decoders of third-party crates (rpki-rs, bcder, serde/serde_json, quick-xml).  They enter
the pipelines as the parameter `decode`; the `pure` stream feeds them structured mutations
and random bytes under `catch_unwind` – that is sampling and search, not proof.

Property theorems only; helper lemmas live in `KrillModel.Input.Lemmas`.
-/
import KrillModel.Input.Lemmas
import KrillModel.Ca.Lemmas
namespace KM.Props.C16
open KM.Bgp KM.Ca KM.Input

/-! ## `nr_of_specific_prefixes` -/

/-- **The arithmetic of `nr_of_specific_prefixes` on a validated payload.**  For every
payload whose prefix length fits its family and that passes `max_length_valid`, the
computation `1u128 << (max_len - pfx_len)` overflows in exactly one case: the IPv6 prefix
of length 0 with max length 128 (`::/0-128`, finding F-C16-1); otherwise the result is the
number of prefixes `2^(max_len - pfx_len)`. -/
theorem validated_arith_total (r : Roa) (hlen : r.pfx.len ≤ r.pfx.fam.bits)
    (hv : maxLengthValid r = true) :
    (nrOfSpecificPrefixes r = none ↔ (r.pfx.fam = .v6 ∧ r.pfx.len = 0 ∧ r.maxLen = some 128)) ∧
    (∀ n, nrOfSpecificPrefixes r = some n → n = 2 ^ (r.effMax - r.pfx.len)) := by
  have hvm := (maxLengthValid_iff r).mp hv
  have hge : r.pfx.len ≤ r.effMax := by
    unfold Roa.effMax
    cases hm : r.maxLen with
    | none => simp
    | some m => simpa using (hvm m hm).1
  have hle : r.effMax ≤ r.pfx.fam.bits := by
    unfold Roa.effMax
    cases hm : r.maxLen with
    | none => simpa using hlen
    | some m => simpa using (hvm m hm).2
  have hb := family_bits_le r.pfx.fam
  unfold nrOfSpecificPrefixes
  rw [checkedSub_eq_some hge]
  simp only [Option.bind_eq_bind, Option.bind_some]
  constructor
  · rw [checkedShl_eq_none]
    constructor
    · intro h
      have h128 : r.effMax = 128 := by omega
      have h0 : r.pfx.len = 0 := by omega
      have hbits : r.pfx.fam.bits = 128 := by omega
      refine ⟨?_, h0, ?_⟩
      · cases hf : r.pfx.fam with
        | v4 => rw [hf] at hbits; cases hbits
        | v6 => rfl
      · unfold Roa.effMax at h128
        cases hm : r.maxLen with
        | none => rw [hm] at h128; simp at h128; omega
        | some m => rw [hm] at h128; simp at h128; rw [h128]
    · rintro ⟨_, h0, hm⟩
      unfold Roa.effMax; rw [hm, h0]; simp
  · intro n hn
    unfold checkedShl at hn
    split at hn
    · rename_i hlt
      simp only [Option.some.injEq, Nat.one_mul] at hn
      rw [← hn]
      exact Nat.mod_eq_of_lt (Nat.pow_lt_pow_right (by decide) hlt)
    · cases hn

/-- Validation is what protects the arithmetic: on an unvalidated payload (max length
below the prefix length) the `u8` subtraction already overflows. -/
theorem unvalidated_arith_partial :
    ∃ r : Roa, r.pfx.WF ∧ maxLengthValid r = false ∧ nrOfSpecificPrefixes r = none :=
  ⟨⟨64496, ⟨.v4, 167772160, 8⟩, some 7⟩, by decide, by decide, by decide⟩

/-- The exception is real: `::/0-128` passes `max_length_valid`. -/
theorem nr_of_specific_prefixes_overflow :
    ∃ r : Roa, r.pfx.WF ∧ maxLengthValid r = true ∧ nrOfSpecificPrefixes r = none :=
  ⟨⟨64496, ⟨.v6, 0, 0⟩, some 128⟩, by decide, by decide, by decide⟩

/-! ## Masks, host-bit tests, slicing -/

/-- The mask shift of `covers` never overflows on a well-formed covering prefix, and the
checked function is `covers`. -/
theorem covers_total (p q : Prefix) (hp : p.WF) : coversChecked p q = some (p.covers q) := by
  unfold coversChecked Prefix.covers
  by_cases hf : p.fam = q.fam
  · have hf' : (p.fam != q.fam) = false := by simp [hf]
    have hf'' : (p.fam == q.fam) = true := by simp [hf]
    simp only [hf', Bool.false_eq_true, if_false, hf'', Bool.true_and]
    by_cases hl : p.len > q.len
    · simp [hl]
    · simp only [hl, if_false]
      by_cases hb : (p.len == p.fam.bits) = true
      · simp [hb]
      · have hb' : (p.len == p.fam.bits) = false := by simpa using hb
        have hne : p.len ≠ p.fam.bits := by simpa using hb
        have hlt : p.len < p.fam.bits := Nat.lt_of_le_of_ne hp.1 hne
        simp [hb', checkedShr, hlt]
  · have hf' : (p.fam != q.fam) = true := by simp [hf]
    have hf'' : (p.fam == q.fam) = false := by simp [hf]
    simp [hf', hf'']

/-- The host-bit test of `Ipv4Prefix::from_str` / `Ipv6Prefix::from_str` never overflows:
the subtraction is guarded by the length test before it. -/
theorem prefix_parse_total (bits addr len : Nat) : prefixFromStrCheck bits addr len ≠ none := by
  unfold prefixFromStrCheck
  by_cases h : len > bits
  · simp [h]
  · have : len ≤ bits := Nat.le_of_not_gt h
    simp [h, checkedSub_eq_some this]

/-- `RoaAggregateKey::from_str` never slices off a character boundary: `&asn_part[2..]` is
reached only behind `starts_with("AS")`. -/
theorem roa_aggregate_key_total (s : List Char) : roaAggregateKeyFromStr s ≠ none := by
  unfold roaAggregateKeyFromStr
  split
  · simp
  · rename_i asnPart rest _
    by_cases hg : (!(asnPart.take 2 == ['A', 'S']) || decide (byteLen asnPart < 3)) = true
    · simp [hg]
    · simp only [hg, Bool.false_eq_true, if_false]
      have htake : asnPart.take 2 = ['A', 'S'] := by
        simp only [Bool.or_eq_true, Bool.not_eq_true', decide_eq_true_eq, not_or] at hg
        simpa using hg.1
      -- so the part is 'A' :: 'S' :: tail
      obtain ⟨tail, rfl⟩ : ∃ tail, asnPart = 'A' :: 'S' :: tail := by
        match asnPart, htake with
        | a :: b :: tail, h =>
          simp only [List.take_succ_cons, List.take_zero, List.cons.injEq, and_true] at h
          exact ⟨tail, by rw [h.1, h.2]⟩
      rw [sliceFrom_AS]
      simp only
      split
      · simp
      · split
        · simp
        · split <;> simp
        · simp

/-- `authorizes_excess` evaluates the count only when there is an announcement at the
maximum length. -/
theorem authorizes_excess_total (r : Roa) (n : Nat) :
    authorizesExcess r n = none ↔ (0 < n ∧ nrOfSpecificPrefixes r = none) := by
  unfold authorizesExcess
  by_cases h : n > 0
  · simp only [h, if_true, true_and]
    cases nrOfSpecificPrefixes r <;> simp
  · simp [h]

/-! ## The analyser -/

/-- **The analysis is total unless a held ROA is `::/0-128`**: if `nr_of_specific_prefixes`
is defined for every held ROA (by `validated_arith_total`: every validated ROA other than
`::/0-128`), `analyse` answers. -/
theorem analyse_total (i : AnalyseInput)
    (h : ∀ rc ∈ i.roasHeld, nrOfSpecificPrefixes rc.payload ≠ none) : analyse i ≠ none := by
  unfold analyse
  simp only
  cases hs : i.seen with
  | none => simp
  | some s =>
    simp only
    have : allSome (i.roasHeld.map (fun r => categoriseRoa r i.validated i.roasHeld)) ≠ none := by
      apply allSome_ne_none
      intro x hx
      obtain ⟨rc, hrc, rfl⟩ := List.mem_map.mp hx
      unfold categoriseRoa
      simp only
      have hne : authorizesExcess rc.payload
          ((authorizesOf rc.payload i.validated).filter
            (fun a => a.pfx.len == rc.payload.effMax)).length ≠ none := by
        intro hc
        exact h rc hrc ((authorizes_excess_total _ _).mp hc).2
      split
      · rename_i hx'; exact absurd hx' hne
      · simp
    cases hr : allSome (i.roasHeld.map (fun r => categoriseRoa r i.validated i.roasHeld)) with
    | none => exact absurd hr this
    | some es => simp

/-- … and for `::/0-128` it does fail as soon as an announcement of length 128 with the
ROA's origin is seen (F-C16-1 through `BgpAnalyser::analyse`). -/
theorem analyse_overflow :
    ∃ i : AnalyseInput, (∀ rc ∈ i.roasHeld, maxLengthValid rc.payload = true ∧ rc.payload.pfx.WF) ∧
      analyse i = none := by
  refine ⟨{ roas := [⟨⟨64496, ⟨.v6, 0, 0⟩, some 128⟩, none⟩], held := fun _ => true, limit := none,
            scope := [⟨.v6, 0, 0⟩], seen := some [⟨64496, ⟨.v6, 1, 128⟩⟩] }, ?_, by decide⟩
  intro rc hrc
  have : rc = ⟨⟨64496, ⟨.v6, 0, 0⟩, some 128⟩, none⟩ := by
    simpa [AnalyseInput.roasHeld, AnalyseInput.inLimit] using hrc
  subst this
  exact ⟨by decide, by decide⟩

/-! ## The request pipelines -/

/-- **Every configuration request is answered**, whatever the body and whatever the decoder
makes of it; a request that is not accepted leaves the configuration as it was.
(`decode` is arbitrary: this says nothing about panics *inside* a decoder.) -/
theorem pipeline_total {B : Type} :
    (∀ (decode : B → Option RoaUpdates) (r : Routes) (held : Roa → Bool) (body : B),
      ∃ reply r', roaUpdateRequest decode r held body = some (reply, r') ∧ (reply ≠ .ok → r' = r)) ∧
    (∀ (decode : B → Option AspaUpdates) (s : AspaDefs) (holdsAsn : Nat → Bool) (body : B),
      ∃ reply s', aspaUpdateRequest decode s holdsAsn body = some (reply, s') ∧ (reply ≠ .ok → s' = s)) ∧
    (∀ (decode : B → Option BgpsecUpdates) (s : BgpsecDefs) (holdsAsn : Nat → Bool) (now : Nat) (body : B),
      ∃ reply s', bgpsecUpdateRequest decode s holdsAsn now body = some (reply, s') ∧
        (reply ≠ .ok → s' = s)) ∧
    (∀ (decode : B → Option (String × Nat × ResSet)) (all : ResSet) (s : Children) (body : B),
      ∃ reply s', childAddRequest decode all s body = some (reply, s') ∧ (reply ≠ .ok → s' = s)) := by
  refine ⟨?_, ?_, ?_, ?_⟩
  · intro decode r held body
    unfold roaUpdateRequest
    cases decode body with
    | none => exact ⟨_, _, rfl, fun _ => rfl⟩
    | some u =>
      simp only
      cases processRouteUpdate r held u with
      | error e => exact ⟨_, _, rfl, fun _ => rfl⟩
      | ok v => exact ⟨_, _, rfl, fun h => absurd rfl h⟩
  · intro decode s holds body
    unfold aspaUpdateRequest
    cases decode body with
    | none => exact ⟨_, _, rfl, fun _ => rfl⟩
    | some u =>
      simp only
      cases aspaProcessUpdates s holds u with
      | error e => exact ⟨_, _, rfl, fun _ => rfl⟩
      | ok v => exact ⟨_, _, rfl, fun h => absurd rfl h⟩
  · intro decode s holds now body
    unfold bgpsecUpdateRequest
    cases decode body with
    | none => exact ⟨_, _, rfl, fun _ => rfl⟩
    | some u =>
      simp only
      cases bgpsecProcessUpdates s holds now u with
      | error e => exact ⟨_, _, rfl, fun _ => rfl⟩
      | ok v => exact ⟨_, _, rfl, fun h => absurd rfl h⟩
  · intro decode all s body
    unfold childAddRequest
    cases decode body with
    | none => exact ⟨_, _, rfl, fun _ => rfl⟩
    | some u =>
      obtain ⟨h, id, res⟩ := u
      simp only
      cases processChildAdd all s h id res with
      | error e => exact ⟨_, _, rfl, fun _ => rfl⟩
      | ok v => exact ⟨_, _, rfl, fun h => absurd rfl h⟩

/-- The dry-run request (decode, validate, *analyse the would-be configuration*) is answered
unless the would-be configuration holds a ROA whose count overflows – by
`validated_arith_total` and the validation in `process_updates` that is `::/0-128` only. -/
theorem dry_run_total {B : Type} (decode : B → Option RoaUpdates) (r : Routes) (held : Roa → Bool)
    (mkInput : Routes → AnalyseInput) (body : B)
    (h : ∀ r', ∀ rc ∈ (mkInput r').roasHeld, nrOfSpecificPrefixes rc.payload ≠ none) :
    roaDryRunRequest decode r held mkInput body ≠ none := by
  unfold roaDryRunRequest
  cases decode body with
  | none => simp
  | some u =>
    simp only
    cases processRouteUpdate r held u with
    | error e => simp
    | ok v =>
      simp only
      have := analyse_total (mkInput v.1) (h v.1)
      cases ha : analyse (mkInput v.1) with
      | none => exact absurd ha this
      | some es => simp

/-! ## Non-vacuity -/

example : ∃ r : Roa, r.pfx.len ≤ r.pfx.fam.bits ∧ maxLengthValid r = true ∧
    nrOfSpecificPrefixes r = some (2 ^ 16) :=
  ⟨⟨64496, ⟨.v4, 167772160, 8⟩, some 24⟩, by decide, by decide, by decide⟩

example : roaAggregateKeyFromStr "AS64496-2".toList = some (some (64496, some 2)) := by decide

example : roaAggregateKeyFromStr "ASé".toList = some none := by decide

end KM.Props.C16
