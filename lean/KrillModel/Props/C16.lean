/-
C16 — Untrusted input never brings the daemon down.  *Partial by nature.*

What is proved: krill's **own** value-level arithmetic, shifting and slicing on
client-controlled values (`Input/Checked.lean`, `none` = panic) is total – the one exception
the pinned tree had (`::/0-128`, F-C16-1) is repaired by da59be0d and kept as a labelled
counter-model – and the request pipelines (`Input/Pipeline.lean`) answer every request.

What is *not* proved and cannot be at reasonable cost: panic-freedom of the byte-level
decoders of third-party crates (rpki-rs, bcder, serde/serde_json, quick-xml).  They enter
the pipelines as the parameter `decode`; the `pure` stream feeds them structured mutations
and random bytes under `catch_unwind` – that is sampling and search, not proof.

Property theorems only; helper lemmas live in `KrillModel.Input.Lemmas`.

Clause → theorem (property text of C16 in properties.jsonl)
| clause | theorem(s) |
|---|---|
| no API request body … makes request processing panic (krill's own value-level code) | `validated_arith_total`, `nr_of_specific_prefixes_value`, `checked_shl_is_bitvec_shl`, `covers_total`, `prefix_parse_total`, `roa_aggregate_key_total`, `asn_parse_range`, `authorizes_excess_total`, `analyse_total`, `counters_total` |
| no path segment (history paging `…/commands/{rows}/{offset}`) | `paging_total` (+ `pinned_paging_capacity_unbounded`, fix 6a45cf4f); exercised by the http `pathfuzz` stage |
| stored-format values (versions, times) | `next_number_total`, `now_plus_weeks_total` / `now_plus_weeks_overflow_config` (operator configuration), `refresh_test_total` |
| such input yields an error reply and leaves configuration unchanged | `pipeline_total`, `dry_run_total` (decoder a parameter) |
| no byte sequence sent to the provisioning or publication endpoints | NOT proved: third-party decoders are sampled by the mutation stream (`dec rfc6492|rfc8181 …`); F-C16-2 (rpki-rs `Asn::from_str`) is the open finding of that sampling |
| (pinned tree, fixed) | `pinned_nr_of_specific_prefixes_overflow` (F-C16-1, da59be0d), `pinned_paging_capacity_unbounded` (6a45cf4f) |
-/
import KrillModel.Input.Lemmas
import KrillModel.Ca.Lemmas
namespace KM.Props.C16
open KM.Bgp KM.Ca KM.Input

/-! ## `nr_of_specific_prefixes` -/

/-- **The arithmetic of `nr_of_specific_prefixes` is total** (after fix da59be0d): for
*every* payload – validated or not – the computation answers. -/
theorem validated_arith_total (r : Roa) : nrOfSpecificPrefixes r ≠ none := by
  unfold nrOfSpecificPrefixes; simp

/-- … and on a payload whose prefix length fits its family and that passes
`max_length_valid` the answer is the number of prefixes `2^(max_len - pfx_len)`, except for
the one payload for which that number does not fit 128 bits, `::/0-128`, where it is
`u128::MAX`. -/
theorem nr_of_specific_prefixes_value (r : Roa) (hlen : r.pfx.len ≤ r.pfx.fam.bits)
    (hv : maxLengthValid r = true) :
    nrOfSpecificPrefixes r =
      some (if r.pfx.fam = .v6 ∧ r.pfx.len = 0 ∧ r.maxLen = some 128 then 2 ^ 128 - 1
            else 2 ^ (r.effMax - r.pfx.len)) := by
  have hvm := (maxLengthValid_iff r).mp hv
  have hle : r.effMax ≤ r.pfx.fam.bits := by
    unfold Roa.effMax
    cases hm : r.maxLen with
    | none => simpa using hlen
    | some m => simpa using (hvm m hm).2
  have hb := family_bits_le r.pfx.fam
  unfold nrOfSpecificPrefixes
  congr 1
  by_cases hc : r.pfx.fam = .v6 ∧ r.pfx.len = 0 ∧ r.maxLen = some 128
  · have hd : r.effMax - r.pfx.len = 128 := by
      unfold Roa.effMax; rw [hc.2.2, hc.2.1]; rfl
    rw [if_pos hc, hd]; rfl
  · simp only [hc, if_false]
    have hlt : r.effMax - r.pfx.len < 128 := by
      apply Classical.byContradiction
      intro hge
      have h128 : r.effMax = 128 := by omega
      have h0 : r.pfx.len = 0 := by omega
      have hbits : r.pfx.fam.bits = 128 := by omega
      apply hc
      refine ⟨?_, h0, ?_⟩
      · cases hf : r.pfx.fam with
        | v4 => rw [hf] at hbits; cases hbits
        | v6 => rfl
      · unfold Roa.effMax at h128
        cases hm : r.maxLen with
        | none => rw [hm] at h128; simp at h128; omega
        | some m => rw [hm] at h128; simp at h128; rw [h128]
    unfold checkedShl
    simp only [hlt, if_true, Option.getD_some, Nat.one_mul]
    exact Nat.mod_eq_of_lt (Nat.pow_lt_pow_right (by decide) hlt)

/-- COUNTER-MODEL WITNESS – what the pinned tree did (finding F-C16-1, fixed by da59be0d):
`1u128 << (max_len - pfx_len)` overflowed for the validated payload `::/0-128`, and the
`u8` subtraction overflowed on unvalidated payloads. -/
theorem pinned_nr_of_specific_prefixes_overflow :
    (∃ r : Roa, r.pfx.WF ∧ maxLengthValid r = true ∧ nrOfSpecificPrefixesPinned r = none) ∧
    (∃ r : Roa, r.pfx.WF ∧ maxLengthValid r = false ∧ nrOfSpecificPrefixesPinned r = none) :=
  ⟨⟨⟨64496, ⟨.v6, 0, 0⟩, some 128⟩, by decide, by decide, by decide⟩,
   ⟨⟨64496, ⟨.v4, 167772160, 8⟩, some 7⟩, by decide, by decide, by decide⟩⟩

/-! ## Masks, host-bit tests, slicing -/

/-- The mask shift of `covers` never overflows on a well-formed covering prefix, and the
checked function is `covers`. -/
theorem covers_total (p q : Prefix) (hp : p.WF) : coversChecked p q = some (p.covers q) := by
  unfold coversChecked Prefix.covers
  by_cases hf : p.fam = q.fam
  · have hf' : (p.fam != q.fam) = false := by simp [hf]
    have hf'' : (p.fam == q.fam) = true := by simp [hf]
    simp only [hf', Bool.false_eq_true, if_false, hf'', Bool.true_and]
    by_cases hl : p.len > q.len
    · simp [hl]
    · simp only [hl, if_false]
      by_cases hb : (p.len == p.fam.bits) = true
      · simp [hb]
      · have hb' : (p.len == p.fam.bits) = false := by simpa using hb
        have hne : p.len ≠ p.fam.bits := by simpa using hb
        have hlt : p.len < p.fam.bits := Nat.lt_of_le_of_ne hp.1 hne
        simp [hb', checkedShr, hlt]
  · have hf' : (p.fam != q.fam) = true := by simp [hf]
    have hf'' : (p.fam == q.fam) = false := by simp [hf]
    simp [hf', hf'']

/-- The host-bit test of `Ipv4Prefix::from_str` / `Ipv6Prefix::from_str` never overflows:
the subtraction is guarded by the length test before it. -/
theorem prefix_parse_total (bits addr len : Nat) : prefixFromStrCheck bits addr len ≠ none := by
  unfold prefixFromStrCheck
  by_cases h : len > bits
  · simp [h]
  · have : len ≤ bits := Nat.le_of_not_gt h
    simp [h, checkedSub_eq_some this]

/-- `RoaAggregateKey::from_str` never slices off a character boundary: `&asn_part[2..]` is
reached only behind `starts_with("AS")`. -/
theorem roa_aggregate_key_total (s : List Char) : roaAggregateKeyFromStr s ≠ none := by
  unfold roaAggregateKeyFromStr
  split
  · simp
  · rename_i asnPart rest _
    by_cases hg : (!(asnPart.take 2 == ['A', 'S']) || decide (byteLen asnPart < 3)) = true
    · simp [hg]
    · simp only [hg, Bool.false_eq_true, if_false]
      have htake : asnPart.take 2 = ['A', 'S'] := by
        simp only [Bool.or_eq_true, Bool.not_eq_true', decide_eq_true_eq, not_or] at hg
        simpa using hg.1
      -- so the part is 'A' :: 'S' :: tail
      obtain ⟨tail, rfl⟩ : ∃ tail, asnPart = 'A' :: 'S' :: tail := by
        match asnPart, htake with
        | a :: b :: tail, h =>
          simp only [List.take_succ_cons, List.take_zero, List.cons.injEq, and_true] at h
          exact ⟨tail, by rw [h.1, h.2]⟩
      rw [sliceFrom_AS]
      simp only
      split
      · simp
      · split
        · simp
        · split <;> simp
        · simp

/-- `authorizes_excess` always answers. -/
theorem authorizes_excess_total (r : Roa) (n : Nat) : authorizesExcess r n ≠ none := by
  unfold authorizesExcess nrOfSpecificPrefixes
  by_cases h : n > 0 <;> simp [h]

/-! ## Counters, versions, time, paging – over the full machine ranges -/

/-- The shift of `nr_of_specific_prefixes`, stated on the machine type: for every shift
amount below the width the checked model is the 128-bit shift. -/
theorem checked_shl_is_bitvec_shl (d : Nat) (h : d < 128) :
    checkedShl 128 1 d = some ((1#128 <<< d).toNat) := by
  unfold checkedShl
  have h1 : (1#128).toNat = 1 := rfl
  simp only [h, if_true, Nat.one_mul, BitVec.toNat_shiftLeft, Nat.shiftLeft_eq, h1]

/-- **History paging** (`command_history_for_records`, after fix 6a45cf4f) **is total for
every `offset` and `rows` a client can send** (`usize`, no bound assumed) and every record
list that fits in memory: no `total += 1`, `skipped += 1` or `total - skipped` overflows,
the page holds `min(matches after the offset, rows)` commands, and the pre-allocated
capacity never exceeds the number of stored records. -/
theorem paging_total (offset rows : Nat) (hits : List Bool) (hlen : hits.length < 2 ^ 64) :
    ∃ st, pageLoop offset rows ⟨0, 0, 0⟩ hits = some st ∧
      st.taken = min (st.total - st.skipped) rows ∧ st.skipped ≤ offset ∧
      st.total ≤ hits.length ∧ st.taken ≤ rows ∧ st.taken ≤ hits.length ∧
      pageCapacity rows hits.length ≤ hits.length := by
  have hinv0 : PageInv offset rows ⟨0, 0, 0⟩ := ⟨Nat.le_refl _, Nat.zero_le _, fun _ => rfl, by simp⟩
  obtain ⟨st, hs, ⟨h1, h2, _, h4⟩, hle⟩ := pageLoop_inv offset rows hits ⟨0, 0, 0⟩ hinv0 (by simpa using hlen)
  simp only [Nat.zero_add] at hle
  refine ⟨st, hs, h4, h2, hle, ?_, ?_, ?_⟩
  · rw [h4]; exact Nat.min_le_right _ _
  · rw [h4]; have := Nat.min_le_left (st.total - st.skipped) rows; omega
  · unfold pageCapacity; exact Nat.min_le_right _ _

/-- COUNTER-MODEL WITNESS – the pinned tree asked for a capacity of `rows` elements, i.e.
whatever the client sent (`Vec::with_capacity(usize::MAX)` is "capacity overflow"). -/
theorem pinned_paging_capacity_unbounded :
    pageCapacityPinned (2 ^ 64 - 1) 3 = 2 ^ 64 - 1 ∧ pageCapacity (2 ^ 64 - 1) 3 = 3 := by decide

/-- Every per-entry `usize` counter (`BgpStats`, paging totals) is total: it counts elements
of a list that is in memory. -/
theorem counters_total {α} (p : α → Bool) (l : List α) (hlen : l.length < 2 ^ 64) :
    ∃ n, countChecked p l = some n ∧ n ≤ l.length :=
  countChecked_total p l hlen

/-- `version + 1` (`u64`) overflows exactly at `u64::MAX`; versions count stored commands. -/
theorem next_number_total (v : Nat) : nextNumber v = none ↔ 2 ^ 64 - 1 ≤ v := by
  unfold nextNumber checkedAdd
  by_cases h : v + 1 < 2 ^ 64
  · simp [h]; omega
  · simp [h]; omega

/-- AS numbers of the text notations are parsed into the `u32` range or refused. -/
theorem asn_parse_range (s : List Char) (v : Nat) (h : parseU32 s = some v) : v < 2 ^ 32 := by
  unfold parseU32 at h
  generalize stripPlus s = s' at h
  simp only at h
  by_cases hc : (s'.isEmpty || !(s'.all isDigit)) = true
  · rw [if_pos hc] at h; cases h
  · rw [if_neg hc] at h
    by_cases hv : s'.foldl (fun acc c => acc * 10 + (c.toNat - 48)) 0 < 2 ^ 32
    · rw [if_pos hv] at h
      simp only [Option.some.injEq] at h
      rw [← h]; exact hv
    · rw [if_neg hv] at h; cases h

/-- **`Time::now() + weeks`** (validity and re-issue times, `u32` weeks from the
configuration) **is total** for every clock reading up to the year 2100 and every value up
to 13 000 000 weeks (≈ 249 000 years) … -/
theorem now_plus_weeks_total (now : Int) (weeks : Nat) (h0 : 0 ≤ now) (h1 : now ≤ 4102444800)
    (hw : weeks ≤ 13000000) : nowPlusWeeks now weeks = some (now + weeks * 604800) := by
  unfold nowPlusWeeks
  apply checkedAddSecs_eq_some
  unfold minUtc maxUtc
  constructor <;> omega

/-- … but not for every `u32`: `timing_*_weeks = 4294967295` in the configuration file makes
`DateTime + TimeDelta` overflow.  (Operator-controlled configuration, not client input; the
full statement "total for all `u32`" is false and this is its witness.) -/
theorem now_plus_weeks_overflow_config : nowPlusWeeks 1800000000 (2 ^ 32 - 1) = none := by decide

/-- The RISwhois refresh test `last_checked + interval >= now` is total for the never-checked
sentinel and for every past check, with any `u32` number of minutes. -/
theorem refresh_test_total (lastChecked : Option Int) (minutes : Nat) (now : Int)
    (hm : minutes < 2 ^ 32) (hl : ∀ t, lastChecked = some t → 0 ≤ t ∧ t ≤ 4102444800) :
    refreshNotDue lastChecked minutes now ≠ none := by
  unfold refreshNotDue
  have key : ∀ t : Int, minUtc ≤ t → t ≤ 4102444800 →
      checkedAddSecs t (minutes * 60) = some (t + minutes * 60) := by
    intro t h1 h2
    apply checkedAddSecs_eq_some
    unfold minUtc at h1
    unfold minUtc maxUtc
    constructor <;> omega
  cases hc : lastChecked with
  | none =>
    rw [Option.getD_none, key minUtc (Int.le_refl _) (by unfold minUtc; omega)]
    simp
  | some t =>
    obtain ⟨a, b⟩ := hl t hc
    rw [Option.getD_some, key t (by unfold minUtc; omega) b]
    simp

/-! ## The analyser -/

/-- **The analysis is total**: `BgpAnalyser::analyse` answers for every list of ROAs, every
resource set, scope and announcement data. -/
theorem analyse_total (i : AnalyseInput) : analyse i ≠ none := by
  unfold analyse
  simp only
  cases hs : i.seen with
  | none => simp
  | some s =>
    simp only
    have : allSome (i.roasHeld.map (fun r => categoriseRoa r i.validated i.roasHeld)) ≠ none := by
      apply allSome_ne_none
      intro x hx
      obtain ⟨rc, _, rfl⟩ := List.mem_map.mp hx
      unfold categoriseRoa
      simp only
      have hne := authorizes_excess_total rc.payload
          ((authorizesOf rc.payload i.validated).filter
            (fun a => a.pfx.len == rc.payload.effMax)).length
      split
      · rename_i hx'; exact absurd hx' hne
      · simp
    cases hr : allSome (i.roasHeld.map (fun r => categoriseRoa r i.validated i.roasHeld)) with
    | none => exact absurd hr this
    | some es => simp

/-! ## The request pipelines -/

/-- **Every configuration request is answered**, whatever the body and whatever the decoder
makes of it; a request that is not accepted leaves the configuration as it was.
(`decode` is arbitrary: this says nothing about panics *inside* a decoder.) -/
theorem pipeline_total {B : Type} :
    (∀ (decode : B → Option RoaUpdates) (r : Routes) (held : Roa → Bool) (body : B),
      ∃ reply r', roaUpdateRequest decode r held body = some (reply, r') ∧ (reply ≠ .ok → r' = r)) ∧
    (∀ (decode : B → Option AspaUpdates) (s : AspaDefs) (holdsAsn : Nat → Bool) (body : B),
      ∃ reply s', aspaUpdateRequest decode s holdsAsn body = some (reply, s') ∧ (reply ≠ .ok → s' = s)) ∧
    (∀ (decode : B → Option BgpsecUpdates) (s : BgpsecDefs) (holdsAsn : Nat → Bool) (now : Nat) (body : B),
      ∃ reply s', bgpsecUpdateRequest decode s holdsAsn now body = some (reply, s') ∧
        (reply ≠ .ok → s' = s)) ∧
    (∀ (decode : B → Option (String × Nat × ResSet)) (all : ResSet) (s : Children) (body : B),
      ∃ reply s', childAddRequest decode all s body = some (reply, s') ∧ (reply ≠ .ok → s' = s)) := by
  refine ⟨?_, ?_, ?_, ?_⟩
  · intro decode r held body
    unfold roaUpdateRequest
    cases decode body with
    | none => exact ⟨_, _, rfl, fun _ => rfl⟩
    | some u =>
      simp only
      cases processRouteUpdate r held u with
      | error e => exact ⟨_, _, rfl, fun _ => rfl⟩
      | ok v => exact ⟨_, _, rfl, fun h => absurd rfl h⟩
  · intro decode s holds body
    unfold aspaUpdateRequest
    cases decode body with
    | none => exact ⟨_, _, rfl, fun _ => rfl⟩
    | some u =>
      simp only
      cases aspaProcessUpdates s holds u with
      | error e => exact ⟨_, _, rfl, fun _ => rfl⟩
      | ok v => exact ⟨_, _, rfl, fun h => absurd rfl h⟩
  · intro decode s holds now body
    unfold bgpsecUpdateRequest
    cases decode body with
    | none => exact ⟨_, _, rfl, fun _ => rfl⟩
    | some u =>
      simp only
      cases bgpsecProcessUpdates s holds now u with
      | error e => exact ⟨_, _, rfl, fun _ => rfl⟩
      | ok v => exact ⟨_, _, rfl, fun h => absurd rfl h⟩
  · intro decode all s body
    unfold childAddRequest
    cases decode body with
    | none => exact ⟨_, _, rfl, fun _ => rfl⟩
    | some u =>
      obtain ⟨h, id, res⟩ := u
      simp only
      cases processChildAdd all s h id res with
      | error e => exact ⟨_, _, rfl, fun _ => rfl⟩
      | ok v => exact ⟨_, _, rfl, fun h => absurd rfl h⟩

/-- The dry-run request (decode, validate, *analyse the would-be configuration*) is answered
as well. -/
theorem dry_run_total {B : Type} (decode : B → Option RoaUpdates) (r : Routes) (held : Roa → Bool)
    (mkInput : Routes → AnalyseInput) (body : B) :
    roaDryRunRequest decode r held mkInput body ≠ none := by
  unfold roaDryRunRequest
  cases decode body with
  | none => simp
  | some u =>
    simp only
    cases processRouteUpdate r held u with
    | error e => simp
    | ok v =>
      simp only
      have := analyse_total (mkInput v.1)
      cases ha : analyse (mkInput v.1) with
      | none => exact absurd ha this
      | some es => simp

/-! ## Non-vacuity -/

example : ∃ r : Roa, r.pfx.len ≤ r.pfx.fam.bits ∧ maxLengthValid r = true ∧
    nrOfSpecificPrefixes r = some (2 ^ 16) :=
  ⟨⟨64496, ⟨.v4, 167772160, 8⟩, some 24⟩, by decide, by decide, by decide⟩

example : nrOfSpecificPrefixes ⟨64496, ⟨.v6, 0, 0⟩, some 128⟩ = some (2 ^ 128 - 1) := by decide

example : roaAggregateKeyFromStr "AS64496-2".toList = some (some (64496, some 2)) := by decide

example : roaAggregateKeyFromStr "ASé".toList = some none := by decide

end KM.Props.C16
