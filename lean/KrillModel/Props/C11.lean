/-
C11 — RRDP and rsync views are consistent for every client at every instant.
Property theorems only; helper lemmas live in `KrillModel.Pubd.Lemmas`.

The model is `KrillModel/Pubd/{Rrdp,Files,Manager}.lean`, tied to
`src/server/pubd/{rrdp,rsync,content,manager}.rs` and `src/commons/file.rs` by the `pubd`
correspondence stream (state of the aggregate, log of file-system mutations, files on disk).

Statements of the property that are false of the code are proved in negated form with
witnesses that replay on the implementation (see `known_findings.jsonl`):

* F-C11-1 `old_left_behind_blocks_all_writes`: an interruption between the two renames of the
  rsync writer and the removal of `old` makes every later write fail;
* F-C11-2 `deltas_le_max_fails_*`, `max_nr_zero_underflows`: the number of retained deltas is
  not bounded by `rrdp_delta_files_max_nr` in general;
* F-C11-3 `notification_corrupt_after_stale_new_notification`: files are opened without
  truncation, a left-over `new-notification.xml` that is longer than the new one corrupts
  `notification.xml`;
* F-C11-4 `rsync_stale_tmp_leaks`: a left-over `tmp-<serial>` directory is re-used without
  being emptied.
-/
import KrillModel.Pubd.Lemmas
namespace KM.Props.C11
open KM.Pubd

/-! ## Serial and session -/

/-- `serial_plus_one` — an RRDP update increases the serial by exactly one, a session reset
restarts at one, nothing else changes the serial. -/
theorem serial_plus_one (r : Rrdp) (op : RrdpOp) :
    (r.step op).serial =
      match op with
      | .update _ _ => r.serial + 1
      | .reset _ _ => 1
      | _ => r.serial := by
  cases op with
  | added h => simp only [Rrdp.step, Rrdp.publisherAdded]; split <;> rfl
  | stage h d => rfl
  | update t rnd => rfl
  | reset s rnd => rfl

/-- `session_changes_only_on_reset` — the session id changes only by an explicit reset, and a
reset restarts at serial 1 without deltas (the snapshot and the staged elements are kept). -/
theorem session_changes_only_on_reset (r : Rrdp) (op : RrdpOp) :
    ((r.step op).session ≠ r.session → ∃ s rnd, op = .reset s rnd) ∧
    (∀ s rnd, op = .reset s rnd →
      (r.step op).session = s ∧ (r.step op).serial = 1 ∧ (r.step op).deltas = [] ∧
      (r.step op).snapshot = r.snapshot ∧ (r.step op).staged = r.staged) := by
  constructor
  · intro h
    cases op with
    | added h' => exfalso; apply h; simp only [Rrdp.step, Rrdp.publisherAdded]; split <;> rfl
    | stage h' d => exact absurd rfl h
    | update t rnd => exact absurd rfl h
    | reset s rnd => exact ⟨s, rnd, rfl⟩
  · intro s rnd h
    subst h
    exact ⟨rfl, rfl, rfl, rfl, rfl⟩

/-- Every request of the manager acts on the content aggregate as a sequence of the four
changes, so the two statements above (and the invariants below) cover whole requests. -/
theorem server_step_is_rrdp_run (s : Server) (op : Op) :
    ∃ rops : List RrdpOp, (s.step op).rrdp = s.rrdp.run rops :=
  server_step_rrdp_run s op

/-! ## The retained deltas -/

/-- `deltas_contiguous` — after every history of changes the retained deltas are the deltas of
the serials `serial, serial - 1, …` without a gap (and there is none for serial 1): a contiguous
run ending at the current serial.  -/
theorem deltas_contiguous (session rnd : Nat) (ops : List RrdpOp) :
    let r := (Rrdp.create session rnd).run ops
    0 < r.serial ∧
    ∀ i (hi : i < r.deltas.length), r.deltas[i].serial + i = r.serial ∧ i + 1 < r.serial := by
  have h := (Contig.create session rnd).run ops
  exact ⟨h.1, contigFrom_get _ _ h.2⟩

/-- The same for histories of requests of the manager. -/
theorem deltas_contiguous_server (base : Uri) (cfg : Cfg) (session rnd : Nat) (ops : List Op) :
    Contig ((Server.init base cfg session rnd).run ops).rrdp := by
  have gen : ∀ (ops : List Op) (s : Server), Contig s.rrdp → Contig (s.run ops).rrdp := by
    intro ops
    induction ops with
    | nil => intro s h; exact h
    | cons op t ih =>
      intro s h
      unfold Server.run
      rw [List.foldl_cons]
      apply ih
      obtain ⟨rops, hr⟩ := server_step_rrdp_run s op
      rw [hr]
      exact h.run rops
  exact gen ops _ (Contig.create session rnd)

/-- Truncation only drops a suffix of the newest-first list: what is retained after an update is
a prefix of "new delta, then the deltas retained before". -/
theorem truncation_drops_suffix (r : Rrdp) (t rnd : Nat) :
    ∃ new : DeltaRec, new.serial = r.serial + 1 ∧
      (r.applyUpdated t rnd).deltas <+: new :: r.deltas := by
  refine ⟨⟨r.serial + 1, rnd, stagedElems r.staged⟩, rfl, ?_⟩
  show List.take _ (_ :: r.deltas.take t) <+: _
  exact List.IsPrefix.trans (List.take_prefix _ _)
    ((List.prefix_cons_inj _).mpr (List.take_prefix _ _))

/-- `deltas_le_max_partial` — the number of retained deltas stays within
`rrdp_delta_files_max_nr` **provided** `min_nr + 1 ≤ max_nr` and no delta at position
`max_nr - 1` or beyond is younger than `rrdp_delta_files_min_seconds`.

The full statement ("the retained deltas never exceed the configured maximum number") is false
of the code: see `deltas_le_max_fails_min_ge_max`, `deltas_le_max_fails_young`,
`max_nr_zero_underflows` (F-C11-2). -/
theorem deltas_le_max_partial (r : Rrdp) (minNr maxNr : Nat) (ages : List (Bool × Bool))
    (t rnd : Nat) (hmin : minNr + 1 ≤ maxNr)
    (hyoung : ∀ j a, ages[j]? = some a → maxNr - 1 ≤ j → a.1 = false)
    (ht : findTruncateAge minNr maxNr ages = some t) :
    (r.applyUpdated t rnd).deltas.length ≤ maxNr := by
  have hle : t ≤ maxNr - 1 :=
    truncLoop_le minNr maxNr hmin ages 0 t (Nat.zero_le _)
      (fun j a hj hle => hyoung j a hj (by simpa using hle)) ht
  show (List.take _ (_ :: r.deltas.take t)).length ≤ maxNr
  rw [List.length_take]
  have : (r.deltas.take t).length ≤ t := by rw [List.length_take]; exact Nat.min_le_left _ _
  simp only [List.length_cons]
  omega

example : findTruncateAge 1 3 [(false, false), (false, false), (false, false)] = some 2 := by decide

/-- F-C11-2 (a): with `min_nr ≥ max_nr` the number arm `keep == max_nr - 1` is never reached
(the `min_nr` arm wins while `keep < min_nr`, afterwards `keep` is already past `max_nr - 1`):
here `min_nr = max_nr = 2`, four old deltas, none young, none too old – all four are kept and
the update makes five. -/
theorem deltas_le_max_fails_min_ge_max :
    findTruncateAge 2 2 [(false, false), (false, false), (false, false), (false, false)] = some 4 := by
  decide

/-- F-C11-2 (b): deltas younger than `min_seconds` are always kept; once `keep` has passed
`max_nr - 1` the equality test never fires again. -/
theorem deltas_le_max_fails_young :
    findTruncateAge 0 2 [(true, false), (true, false), (true, false), (false, false)] = some 4 := by
  decide

/-- F-C11-2 (c): `max_nr = 0` makes `max_nr - 1` underflow as soon as a delta is neither within
`min_nr` nor young (a panic in builds with overflow checks). -/
theorem max_nr_zero_underflows : findTruncateAge 0 0 [(false, false)] = none := by decide

/-! ## The snapshot is the publication state -/

/-- `snapshot_is_state` — after an RRDP update the snapshot holds, for every publisher, exactly
the objects the publisher had (published ⊕ staged) before the update, and nothing is staged any
more: the snapshot at serial `n + 1` is the publication state at the time of the update.  No
other change touches the published objects of any publisher. -/
theorem snapshot_is_state (s : Server) (hi : SInv s) :
    (∀ t rnd h, (s.rrdp.applyUpdated t rnd).current h = s.rrdp.objectsFor h ∧
      (s.rrdp.applyUpdated t rnd).staged = []) ∧
    (∀ h q, (s.rrdp.publisherAdded h).current q = s.rrdp.current q) ∧
    (∀ h d q, (s.rrdp.stage h d).current q = s.rrdp.current q) ∧
    (∀ session rnd q, (s.rrdp.sessionReset session rnd).current q = s.rrdp.current q) :=
  ⟨fun t rnd h => ⟨current_applyUpdated hi.r.stagedNodup hi.r.snapNodup t rnd h, rfl⟩,
   fun h q => current_publisherAdded s.rrdp h q, fun _ _ _ => rfl, fun _ _ _ => rfl⟩

/-! ## Clients catch up -/

/-- `client_catches_up` — take any reachable state `s1` ("then") and any later history `ops`
without a session reset ("now" is `s1.run ops`).  A client that holds the snapshot of `s1`
and applies, oldest first and with the strict checks of RFC 8182, the deltas the server offers
for the serials after `s1`'s, ends with exactly the objects of the current snapshot – whenever
those deltas are still retained (the chain is contiguous from its serial, `deltas_contiguous`).
This holds for every earlier serial of the session at once, since `s1` is arbitrary.

Hypotheses: deltas name every URI once and use canonical URIs (`OpOk`), and no object key is
shared between two publishers in the states passed through (`KeysDisjoint`; by
`keys_disjoint_of_disjoint_jails` this follows from disjoint jails, i.e. handles that are not
nested).  Without them the statement is false (F-C10-1, F-C10-2). -/
theorem client_catches_up (s1 : Server) (hi : SInv s1) (ops : List Op)
    (hok : ∀ op ∈ ops, OpOk op ∧ op.isReset = false)
    (hdis : ∀ n, KeysDisjoint (s1.run (ops.take n)).rrdp) :
    let s2 := s1.run ops
    s2.rrdp.session = s1.rrdp.session ∧ s1.rrdp.serial ≤ s2.rrdp.serial ∧
    (s2.rrdp.serial - s1.rrdp.serial ≤ s2.rrdp.deltas.length →
      ∃ res, catchUp (flatten s1.rrdp.snapshot)
          (chainOf s2.rrdp (s2.rrdp.serial - s1.rrdp.serial)) = some res ∧
        ∀ k, res.get? k = (flatten s2.rrdp.snapshot).get? k) :=
  catch_up_of_reach (run_reach ops s1 hi hok hdis)

/-- Keys are disjoint when the jails of different publishers are (C10 `jails_disjoint_iff`:
neither handle a segment prefix of the other, neither `ta`). -/
theorem keys_disjoint_of_disjoint_jails (s : Server) (hi : SInv s)
    (hj : ∀ h1 h2 j1 j2, h1 ≠ h2 → publisherBase s.base h1 = some j1 →
      publisherBase s.base h2 = some j2 → ¬ ∃ u, inJail j1 u = true ∧ inJail j2 u = true) :
    KeysDisjoint s.rrdp :=
  keysDisjoint_of_jails hi.r hj

/-- Non-vacuity: publish, update, publish, update; the client holding serial 2 applies the delta
of serial 3. -/
example :
    let base : Uri := ⟨rsyncLower, ⟨"h", 0⟩, ⟨"m", 0⟩, [], true⟩
    let u : Uri := ⟨rsyncLower, ⟨"h", 0⟩, ⟨"m", 0⟩, ["ca", "a.cer"], false⟩
    let v : Uri := ⟨rsyncLower, ⟨"h", 0⟩, ⟨"m", 0⟩, ["ca", "b.cer"], false⟩
    let s1 := (Server.init base ⟨5, 50, false, false, false⟩ 1 1).run
      [.addpub ["ca"], .publish ["ca"] [.publish u ⟨1, 10⟩], .update 2]
    let s2 := s1.run [.publish ["ca"] [.publish v ⟨2, 10⟩, .update u 1 ⟨3, 10⟩], .update 3]
    s1.rrdp.serial = 2 ∧ s2.rrdp.serial = 3 ∧
    catchUp (flatten s1.rrdp.snapshot) (chainOf s2.rrdp 1) = some (flatten s2.rrdp.snapshot) := by
  decide

/-! ## The rsync tree -/

/-- `rsync_equals_snapshot` — every complete run of `RsyncdStore::write` (the files of the
snapshot saved in any order) on a directory where

* there is no left-over `tmp-<serial>` directory (otherwise F-C11-4),
* `current` and a non-empty `old` are not both present (otherwise F-C11-1),
* the snapshot gives one content per relative path (otherwise the shared URIs of F-C10-1/2),

succeeds, and afterwards `current` holds exactly the objects of the snapshot, `old` and the
temporary directory are gone. -/
theorem rsync_equals_snapshot (fs : RsyncFs) (base : Uri) (serial : Nat) (objs : Objs)
    (log : List Sig) (ms : List RMut) (rest : List (Bool × List RMut))
    (hm : matchLog RMut.sig (rsyncPlan fs base serial objs) log = some (ms, rest))
    (hdone : planDone rest = true)
    (hclean : fs.get? (.tmp serial) = none)
    (hold : fs.get? .current = none ∨ fs.get? .old = none ∨ fs.get? .old = some [])
    (hfun : FilesFunctional (rsyncFiles base objs)) :
    ∃ fs' t, fs.applyAll ms = (fs', true) ∧ fs'.current = some t ∧
      (∀ rel, t.get? rel = (expectedTree base objs).get? rel) ∧
      fs'.get? .old = none ∧ fs'.get? (.tmp serial) = none := by
  obtain ⟨ss, rfl, hsub, hall⟩ := rsync_complete_shape hm hdone
  -- mkdir
  have hmk : fs.apply (.mkdir (.tmp serial)) = some (fs.set (.tmp serial) []) := by
    simp only [RsyncFs.apply, hclean]
  have h1 : (fs.set (.tmp serial) []).get? (.tmp serial) = some [] := by
    rw [RsyncFs.get?_set]; simp
  -- saves
  obtain ⟨fs2, t, happ, hget, hokt, hoth, _, hfiles⟩ :=
    apply_saves (rsyncFiles base objs) hfun (.tmp serial) ss
      (fun m hm => by
        obtain ⟨p, hp, rfl⟩ := List.mem_map.mp (hsub m hm)
        exact ⟨p, hp, rfl⟩)
      _ [] h1 (fun rel r h => by simp [Tree.get?] at h)
  have hoth' : ∀ n, n ≠ .tmp serial → fs2.get? n = fs.get? n := by
    intro n hn
    rw [hoth n hn, RsyncFs.get?_set]; simp [hn]
  obtain ⟨fs5, htail, hcur, hold5, htmp5⟩ := rsync_tail_ok hget hoth' hold
  refine ⟨fs5, t, ?_, hcur, ?_, hold5, htmp5⟩
  · rw [List.append_assoc, List.singleton_append, applyAll_cons_some hmk,
      RsyncFs.applyAll_append, happ]
    exact htail
  · intro rel
    apply tree_eq_expected hokt
    intro p hp
    exact hfiles p hp (hall _ (List.mem_map.mpr ⟨p, hp, rfl⟩))

example : FilesFunctional (rsyncFiles ⟨rsyncLower, ⟨"h", 0⟩, ⟨"m", 0⟩, [], true⟩
    [(⟨rsyncLower, ⟨"h", 0⟩, ⟨"m", 0⟩, ["ca", "a.cer"], false⟩, ⟨1, 10⟩)]) := by
  intro p hp q hq _
  simp only [rsyncFiles, relPath, eqModule, CiName.eqIgnoreCase, List.filterMap_cons] at hp hq
  simp at hp hq
  rw [hp, hq]

/-- `rsync_write_after_any_cut_partial` — start from a directory without `old` and without
temporary directories and interrupt a write of serial `serial1` anywhere (`ms1` is any run of a
prefix of its plan).  A later complete write for another serial succeeds and yields the
snapshot, **unless** the interruption left both `current` and a non-empty `old` behind.

The full statement ("an interrupted write never prevents later writes") is false: the
exception happens for the cut between `rename(tmp → current)` and the removal of `old`
(`rsync_cut_leaves_old`), and from then on *every* write fails
(`old_left_behind_blocks_all_writes`, F-C11-1).  A later write for the *same* serial re-uses
the left-over temporary directory (`rsync_stale_tmp_leaks`, F-C11-4). -/
theorem rsync_write_after_any_cut_partial (fs : RsyncFs) (base : Uri) (serial1 serial2 : Nat)
    (objs1 objs2 : Objs)
    (hnotmp : ∀ n, fs.get? (.tmp n) = none)
    (log1 : List Sig) (ms1 : List RMut) (rest1 : List (Bool × List RMut))
    (hm1 : matchLog RMut.sig (rsyncPlan fs base serial1 objs1) log1 = some (ms1, rest1))
    (hne : serial2 ≠ serial1)
    (hwin : (fs.applyAll ms1).1.get? .current = none ∨ (fs.applyAll ms1).1.get? .old = none ∨
      (fs.applyAll ms1).1.get? .old = some [])
    (log2 : List Sig) (ms2 : List RMut) (rest2 : List (Bool × List RMut))
    (hm2 : matchLog RMut.sig (rsyncPlan (fs.applyAll ms1).1 base serial2 objs2) log2 = some (ms2, rest2))
    (hdone : planDone rest2 = true)
    (hfun : FilesFunctional (rsyncFiles base objs2)) :
    ∃ fs' t, (fs.applyAll ms1).1.applyAll ms2 = (fs', true) ∧ fs'.current = some t ∧
      ∀ rel, t.get? rel = (expectedTree base objs2).get? rel := by
  -- the interrupted write touches only `tmp-<serial1>`, `current` and `old`
  have hkeep : (fs.applyAll ms1).1.get? (.tmp serial2) = none := by
    rw [applyAll_other fs ms1 (.tmp serial2)]
    · exact hnotmp serial2
    · intro m hm
      obtain ⟨ph, hph, hmem⟩ := matchLog_mem RMut.sig hm1 m hm
      rw [rsyncPlan_eq] at hph
      simp only [List.mem_cons, List.mem_nil_iff, or_false] at hph
      rcases hph with rfl | rfl | rfl
      · simp only [List.mem_singleton] at hmem
        subst hmem
        simp [RMut.touches, hne.symm]
      · obtain ⟨p, _, rfl⟩ := List.mem_map.mp hmem
        simp [RMut.touches, hne.symm]
      · unfold rsyncTail at hmem
        simp only [List.mem_append, List.mem_cons, List.mem_nil_iff, or_false] at hmem
        rcases hmem with (hmem | hmem) | hmem
        · split at hmem
          · simp only [List.mem_singleton] at hmem; subst hmem; simp [RMut.touches]
          · cases hmem
        · subst hmem; simp [RMut.touches, hne.symm]
        · split at hmem
          · simp only [List.mem_singleton] at hmem; subst hmem; simp [RMut.touches]
          · cases hmem
  obtain ⟨fs', t, h1, h2, h3, _, _⟩ :=
    rsync_equals_snapshot _ base serial2 objs2 log2 ms2 rest2 hm2 hdone hkeep hwin hfun
  exact ⟨fs', t, h1, h2, h3⟩

/-- F-C11-1, the window: the cut after `rename(tmp-2 → current)` and before the removal of
`old` leaves `current` and a non-empty `old`. -/
theorem rsync_cut_leaves_old :
    let fs : RsyncFs := [(.current, [(["ca", "a.cer"], .clean ⟨1, 10⟩)])]
    let base : Uri := ⟨rsyncLower, ⟨"h", 0⟩, ⟨"m", 0⟩, [], true⟩
    let objs : Objs := [(⟨rsyncLower, ⟨"h", 0⟩, ⟨"m", 0⟩, ["ca", "a.cer"], false⟩, ⟨2, 10⟩)]
    let log : List Sig := [⟨"create_dir_all", [.name "tmp-2"], []⟩,
           ⟨"create", [.name "tmp-2", .name "ca", .name "a.cer"], []⟩,
           ⟨"rename", [.name "current"], [.name "old"]⟩,
           ⟨"rename", [.name "tmp-2"], [.name "current"]⟩]
    (matchLog RMut.sig (rsyncPlan fs base 2 objs) log).map (fun r =>
        (planDone r.2, (fs.applyAll r.1).2, ((fs.applyAll r.1).1.get? .current).isSome,
          (fs.applyAll r.1).1.get? .old == some [(["ca", "a.cer"], .clean ⟨1, 10⟩)])) =
      some (false, true, true, true) := by
  decide

/-- F-C11-1: once `current` and a non-empty `old` are both present, every complete run of
every later write fails (at `rename(current → old)`), whatever is to be written. -/
theorem old_left_behind_blocks_all_writes (fs : RsyncFs) (tc : Tree) (x : List String × Raw)
    (xs : Tree) (hcur : fs.get? .current = some tc) (hold : fs.get? .old = some (x :: xs))
    (base : Uri) (serial : Nat) (objs : Objs) (log : List Sig) (ms : List RMut)
    (rest : List (Bool × List RMut))
    (hm : matchLog RMut.sig (rsyncPlan fs base serial objs) log = some (ms, rest))
    (hdone : planDone rest = true) :
    (fs.applyAll ms).2 = false := by
  obtain ⟨ss, rfl, hsub, _⟩ := rsync_complete_shape hm hdone
  rw [RsyncFs.applyAll_append]
  -- whatever mkdir and the saves do (they may even fail), `current` and `old` stay
  have hpre := applyAll_other fs ([.mkdir (.tmp serial)] ++ ss)
  have hmem : ∀ m ∈ [RMut.mkdir (.tmp serial)] ++ ss, ∀ n, n = .current ∨ n = .old →
      m.touches n = false := by
    intro m hm n hn
    rw [List.mem_append] at hm
    rcases hm with hm | hm
    · simp only [List.mem_singleton] at hm; subst hm
      rcases hn with rfl | rfl <;> simp [RMut.touches]
    · obtain ⟨p, _, rfl⟩ := List.mem_map.mp (hsub m hm)
      rcases hn with rfl | rfl <;> simp [RMut.touches]
  have hc := hpre .current (fun m hm => hmem m hm _ (Or.inl rfl))
  have ho := hpre .old (fun m hm => hmem m hm _ (Or.inr rfl))
  generalize fs.applyAll ([RMut.mkdir (.tmp serial)] ++ ss) = r at hc ho
  obtain ⟨fs2, ok⟩ := r
  cases ok with
  | false => rfl
  | true =>
    simp only at hc ho ⊢
    unfold rsyncTail
    simp only [hcur, Option.isSome_some, ↓reduceIte, List.cons_append, List.nil_append]
    rw [applyAll_cons_none]
    simp only [RsyncFs.apply, hc, hcur, ho, hold]

/-- F-C11-4: a left-over `tmp-1` directory (from an interrupted write at serial 1 of an earlier
session) is re-used by the next write for serial 1: the write succeeds, but `current` contains
an object the snapshot does not have, and a shorter object written over a longer one is
neither. -/
theorem rsync_stale_tmp_leaks :
    let fs : RsyncFs := [(.tmp 1, [(["ca", "a.cer"], .clean ⟨1, 10⟩), (["ca", "m.mft"], .clean ⟨4, 1500⟩)]),
                         (.current, [(["ca", "m.mft"], .clean ⟨5, 9⟩)])]
    let base : Uri := ⟨rsyncLower, ⟨"h", 0⟩, ⟨"m", 0⟩, [], true⟩
    let objs : Objs := [(⟨rsyncLower, ⟨"h", 0⟩, ⟨"m", 0⟩, ["ca", "m.mft"], false⟩, ⟨5, 9⟩)]
    let log : List Sig := [⟨"create_dir_all", [.name "tmp-1"], []⟩,
           ⟨"create", [.name "tmp-1", .name "ca", .name "m.mft"], []⟩,
           ⟨"rename", [.name "current"], [.name "old"]⟩,
           ⟨"rename", [.name "tmp-1"], [.name "current"]⟩,
           ⟨"remove_dir_all", [.name "old"], []⟩]
    (matchLog RMut.sig (rsyncPlan fs base 1 objs) log).map (fun r =>
        (planDone r.2, (fs.applyAll r.1).2,
          (fs.applyAll r.1).1.current.bind (·.get? ["ca", "a.cer"]),
          (fs.applyAll r.1).1.current.bind (·.get? ["ca", "m.mft"]))) =
      some (true, true, some (.clean ⟨1, 10⟩), some .garbage) := by
  decide

/-! ## The notification at every cut -/

/-- `notification_consistent_at_every_cut` — let `update_rrdp_files` run on files whose
notification names only files that exist with the stated content, and interrupt it anywhere:
`ms` is any sequence of mutations that `matchLog` accepts as a run of a *prefix* of the plan
(the same reader the driver uses on the implementation's mutation log; the clean-up phases may
happen in any order).  Then the notification on disk still names only files that exist with the
stated content.

Preconditions (`RrdpPre`): no left-over `new-notification.xml` (otherwise F-C11-3,
`notification_corrupt_after_stale_new_notification`), file names of the form
`<session>/<serial>/<random>/…`, no notification from the future, contiguous deltas, and a file
already sitting at the path of a delta or of the snapshot is that very file. -/
theorem notification_consistent_at_every_cut (r : Rrdp) (fs : RrdpFs) (hpre : RrdpPre r fs)
    (hc : fs.consistent = true) (log : List Sig) (ms : List Mut) (rest : Plan)
    (hm : matchLog Mut.sig (rrdpPlan r fs) log = some (ms, rest)) :
    (fs.applyAll ms).consistent = true :=
  rrdp_cut_consistent hpre hc hm

/-- Non-vacuity: the state after `init`, one publish and one update, on the files written at
`init`. -/
example :
    let u : Uri := ⟨rsyncLower, ⟨"h", 0⟩, ⟨"m", 0⟩, ["ca", "a.cer"], false⟩
    let r0 := Rrdp.create 1 1
    let r := ((r0.publisherAdded ["ca"]).stage ["ca"] [.publish u ⟨1, 10⟩]).applyUpdated 0 2
    let fs : RrdpFs := [(notifPath, .notif ⟨1, 1, ⟨snapshotPath r0, snapshotFile r0⟩, []⟩),
                        (snapshotPath r0, .data (snapshotFile r0))]
    RrdpPre r fs ∧ fs.consistent = true ∧ (rrdpPlan r fs).length = 3 := by
  refine ⟨⟨by decide, ?_, ?_, ⟨by decide, ⟨rfl, by decide, trivial⟩⟩, by decide, by decide⟩,
    by decide, by decide⟩
  · intro n hn
    have : n = ⟨1, 1, ⟨snapshotPath (Rrdp.create 1 1), snapshotFile (Rrdp.create 1 1)⟩, []⟩ := by
      simp [RrdpFs.notification, RrdpFs.get?, notifPath] at hn
      exact hn.symm
    subst this
    exact ⟨⟨1, rfl⟩, fun d hd => nomatch hd⟩
  · intro n hn _ d hd
    have : n = ⟨1, 1, ⟨snapshotPath (Rrdp.create 1 1), snapshotFile (Rrdp.create 1 1)⟩, []⟩ := by
      simp [RrdpFs.notification, RrdpFs.get?, notifPath] at hn
      exact hn.symm
    subst this
    cases hd

/-- F-C11-3: files are opened without truncation.  An interruption between the creation of
`new-notification.xml` and its rename leaves that file behind; if the next notification is
shorter (here: after a session reset it lists no deltas, the left-over one listed two), its tail
stays and `notification.xml` is not a well-formed file after the rename. -/
theorem notification_corrupt_after_stale_new_notification :
    let r : Rrdp := { session := 2, serial := 1, snapRnd := 5, snapshot := [], deltas := [], staged := [] }
    let d3 : DataRef := ⟨[.sess 1, .num 3, .rnd 3, .name "delta.xml"], .delta 1 3 []⟩
    let d2 : DataRef := ⟨[.sess 1, .num 2, .rnd 2, .name "delta.xml"], .delta 1 2 []⟩
    let sn : DataRef := ⟨[.sess 1, .num 3, .rnd 1, .name "snapshot.xml"], .snapshot 1 3 []⟩
    let stale : Notif := ⟨1, 4, sn, [(3, d3), (2, d2)]⟩
    let fs : RrdpFs := [(notifPath, .notif ⟨1, 3, sn, [(3, d3), (2, d2)]⟩), (sn.path, .data sn.data),
      (d3.path, .data d3.data), (d2.path, .data d2.data), (newNotifPath, .notif stale)]
    let log : List Sig := [⟨"create", snapshotPath r, []⟩, ⟨"create", newNotifPath, []⟩,
      ⟨"rename", newNotifPath, notifPath⟩]
    fs.consistent = true ∧
    (matchLog Mut.sig (rrdpPlan r fs) log).map (fun p => (fs.applyAll p.1).consistent) = some false := by
  decide

end KM.Props.C11
