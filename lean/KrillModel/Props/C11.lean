/-
C11 — RRDP and rsync views are consistent for every client at every instant.
Property theorems only; helper lemmas live in `KrillModel.Pubd.Lemmas`.

The model is `KrillModel/Pubd/{Rrdp,Files,Manager}.lean`, tied to
`src/server/pubd/{rrdp,rsync,content,manager}.rs` and `src/commons/file.rs` by the `pubd`
correspondence stream (state of the aggregate, log of file-system mutations, files on disk).

One statement of the property is false of the code and is proved in negated form with witnesses
that replay on the implementation (see `known_findings.jsonl`):

* F-C11-2 `deltas_le_max_fails_min_ge_max`, `deltas_le_max_fails_young` and the histories
  `deltas_le_max_fails_history_*`: the number of retained deltas is not bounded by
  `rrdp_delta_files_max_nr` in general (documented design: the minimum rules win).  The bound
  holds for every history exactly under the guard of `retention_bound_iff` (`deltas_le_max`).

The clauses about files are also stated over whole histories of requests and interrupted writes
(`world_invariant` and its corollaries at the end of the file).

Repaired in the code, the model follows the fixed code and the old behaviour is kept only as
counter-models of the pinned tree (`pinned_…`):

* F-C11-1 (fix 5d860534): a left-over `old` directory is removed before `current` is renamed
  onto it – `rsync_write_after_any_cut` now holds for every cut;
* F-C11-2, underflow part (fix bf93c0cb): `max_nr.saturating_sub(1)`;
* F-C11-3 (fix 4ab08295): files are truncated when created – `notification_consistent_at_every_cut`
  needs no assumption about a left-over `new-notification.xml`;
* F-C11-4 (fix 8d070115): a left-over `tmp-<serial>` directory is removed before it is filled –
  `rsync_equals_snapshot` needs no assumption about left-over directories.
-/
import KrillModel.Pubd.Lemmas
namespace KM.Props.C11
open KM.Pubd

/-! ## Serial and session -/

/-- `serial_plus_one` — an RRDP update increases the serial by exactly one, a session reset
restarts at one, nothing else changes the serial. -/
theorem serial_plus_one (r : Rrdp) (op : RrdpOp) :
    (r.step op).serial =
      match op with
      | .update _ _ => r.serial + 1
      | .reset _ _ => 1
      | _ => r.serial := by
  cases op with
  | added h => simp only [Rrdp.step, Rrdp.publisherAdded]; split <;> rfl
  | stage h d => rfl
  | update t rnd => rfl
  | reset s rnd => rfl

/-- `session_changes_only_on_reset` — the session id changes only by an explicit reset, and a
reset restarts at serial 1 without deltas (the snapshot and the staged elements are kept). -/
theorem session_changes_only_on_reset (r : Rrdp) (op : RrdpOp) :
    ((r.step op).session ≠ r.session → ∃ s rnd, op = .reset s rnd) ∧
    (∀ s rnd, op = .reset s rnd →
      (r.step op).session = s ∧ (r.step op).serial = 1 ∧ (r.step op).deltas = [] ∧
      (r.step op).snapshot = r.snapshot ∧ (r.step op).staged = r.staged) := by
  constructor
  · intro h
    cases op with
    | added h' => exfalso; apply h; simp only [Rrdp.step, Rrdp.publisherAdded]; split <;> rfl
    | stage h' d => exact absurd rfl h
    | update t rnd => exact absurd rfl h
    | reset s rnd => exact ⟨s, rnd, rfl⟩
  · intro s rnd h
    subst h
    exact ⟨rfl, rfl, rfl, rfl, rfl⟩

/-- Every request of the manager acts on the content aggregate as a sequence of the four
changes, so the two statements above (and the invariants below) cover whole requests. -/
theorem server_step_is_rrdp_run (s : Server) (op : Op) :
    ∃ rops : List RrdpOp, (s.step op).rrdp = s.rrdp.run rops :=
  server_step_rrdp_run s op

/-! ## The retained deltas -/

/-- `deltas_contiguous` — after every history of changes the retained deltas are the deltas of
the serials `serial, serial - 1, …` without a gap (and there is none for serial 1): a contiguous
run ending at the current serial.  -/
theorem deltas_contiguous (session rnd : Nat) (ops : List RrdpOp) :
    let r := (Rrdp.create session rnd).run ops
    0 < r.serial ∧
    ∀ i (hi : i < r.deltas.length), r.deltas[i].serial + i = r.serial ∧ i + 1 < r.serial := by
  have h := (Contig.create session rnd).run ops
  exact ⟨h.1, contigFrom_get _ _ h.2⟩

/-- The same for histories of requests of the manager. -/
theorem deltas_contiguous_server (base : Uri) (cfg : Cfg) (session rnd : Nat) (ops : List Op) :
    Contig ((Server.init base cfg session rnd).run ops).rrdp := by
  have gen : ∀ (ops : List Op) (s : Server), Contig s.rrdp → Contig (s.run ops).rrdp := by
    intro ops
    induction ops with
    | nil => intro s h; exact h
    | cons op t ih =>
      intro s h
      unfold Server.run
      rw [List.foldl_cons]
      apply ih
      obtain ⟨rops, hr⟩ := server_step_rrdp_run s op
      rw [hr]
      exact h.run rops
  exact gen ops _ (Contig.create session rnd)

/-- Truncation only drops a suffix of the newest-first list: what is retained after an update is
a prefix of "new delta, then the deltas retained before". -/
theorem truncation_drops_suffix (r : Rrdp) (t rnd : Nat) :
    ∃ new : DeltaRec, new.serial = r.serial + 1 ∧
      (r.applyUpdated t rnd).deltas <+: new :: r.deltas := by
  refine ⟨⟨r.serial + 1, rnd, stagedElems r.staged⟩, rfl, ?_⟩
  show List.take _ (_ :: r.deltas.take t) <+: _
  exact List.IsPrefix.trans (List.take_prefix _ _)
    ((List.prefix_cons_inj _).mpr (List.take_prefix _ _))

/-- `deltas_le_max_partial` — the number of retained deltas stays within
`rrdp_delta_files_max_nr` **provided** `min_nr + 1 ≤ max_nr` and no delta at position
`max_nr - 1` or beyond is younger than `rrdp_delta_files_min_seconds`.

The full statement ("the retained deltas never exceed the configured maximum number") is false
of the code: see `deltas_le_max_fails_min_ge_max`, `deltas_le_max_fails_young` (F-C11-2, open:
by design the minimum rules win over the maximum). -/
theorem deltas_le_max_partial (r : Rrdp) (minNr maxNr : Nat) (ages : List (Bool × Bool))
    (rnd : Nat) (hmin : minNr + 1 ≤ maxNr)
    (hyoung : ∀ j a, ages[j]? = some a → maxNr - 1 ≤ j → a.1 = false) :
    (r.applyUpdated (findTruncateAge minNr maxNr ages) rnd).deltas.length ≤ maxNr := by
  have hle : findTruncateAge minNr maxNr ages ≤ maxNr - 1 :=
    truncLoop_le minNr maxNr hmin ages 0 (Nat.zero_le _)
      (fun j a hj hle => hyoung j a hj (by simpa using hle))
  show (List.take _ (_ :: r.deltas.take _)).length ≤ maxNr
  rw [List.length_take]
  have : (r.deltas.take (findTruncateAge minNr maxNr ages)).length ≤
      findTruncateAge minNr maxNr ages := by rw [List.length_take]; exact Nat.min_le_left _ _
  simp only [List.length_cons]
  omega

example : findTruncateAge 1 3 [(false, false), (false, false), (false, false)] = 2 := by decide

/-- F-C11-2 (a): with `min_nr ≥ max_nr` the number arm `keep == max_nr - 1` is never reached
(the `min_nr` arm wins while `keep < min_nr`, afterwards `keep` is already past `max_nr - 1`):
here `min_nr = max_nr = 2`, four old deltas, none young, none too old – all four are kept and
the update makes five. -/
theorem deltas_le_max_fails_min_ge_max :
    findTruncateAge 2 2 [(false, false), (false, false), (false, false), (false, false)] = 4 := by
  decide

/-- F-C11-2 (b): deltas younger than `min_seconds` are always kept; once `keep` has passed
`max_nr - 1` the equality test never fires again. -/
theorem deltas_le_max_fails_young :
    findTruncateAge 0 2 [(true, false), (true, false), (true, false), (false, false)] = 4 := by
  decide

/-- With the fix bf93c0cb a limit of 0 behaves like a limit of 1: nothing old is kept beyond the
minimum rules. -/
theorem max_nr_zero_keeps_nothing_old (ages : List (Bool × Bool)) (a : Bool) :
    findTruncateAge 0 0 ((false, a) :: ages) = 0 := by
  simp [findTruncateAge, truncLoop]

/-- COUNTER-MODEL OF THE PINNED TREE (F-C11-2, underflow part, before fix bf93c0cb): `max_nr = 0`
made `max_nr - 1` underflow as soon as a delta was neither within `min_nr` nor young (a panic
in builds with overflow checks). -/
theorem pinned_max_nr_zero_underflows : truncLoopPinned 0 0 0 [(false, false)] = none := by decide

/-- `deltas_le_max` — **for exactly which configurations the bound holds.**  With the clock
answers of a regime (`young`: the retained deltas are younger than `min_seconds`; `old`: older
than `max_seconds`), the retention rule keeps at most `max_nr - 1` old deltas – for delta lists
of every length – if and only if `min_nr + 1 ≤ max_nr` and the deltas are not young.  Outside
this guard the list `max_nr` deltas long is kept whole (F-C11-2). -/
theorem retention_bound_iff (minNr maxNr : Nat) (young old : Bool) :
    (∀ n, findTruncateAge minNr maxNr (List.replicate n (young, old)) + 1 ≤ maxNr) ↔
      (minNr + 1 ≤ maxNr ∧ young = false) := by
  constructor
  · intro h
    have h0 := h maxNr
    by_cases hg : minNr + 1 ≤ maxNr ∧ young = false
    · exact hg
    · exfalso
      have : findTruncateAge minNr maxNr (List.replicate maxNr (young, old)) = 0 + maxNr := by
        apply truncLoop_first_arm
        by_cases hy : young = true
        · exact Or.inl hy
        · right
          have : young = false := by simpa using hy
          have : ¬ (minNr + 1 ≤ maxNr) := fun hm => hg ⟨hm, this⟩
          omega
      omega
  · rintro ⟨hmin, rfl⟩ n
    have := truncLoop_le minNr maxNr hmin (List.replicate n (false, old)) 0 (Nat.zero_le _)
      (fun j a hj _ => by
        rw [List.getElem?_replicate] at hj
        split at hj
        · rw [← Option.some.inj hj]
        · cases hj)
    unfold findTruncateAge
    omega

/-- `deltas_le_max` over histories: under the guard (`min_nr + 1 ≤ max_nr`, deltas not young) the
number of retained deltas never exceeds `rrdp_delta_files_max_nr`, after every history of
requests (RRDP updates, session resets, publications, deletions …). -/
theorem deltas_le_max (base : Uri) (cfg : Cfg) (session rnd : Nat) (ops : List Op)
    (hmin : cfg.minNr + 1 ≤ cfg.maxNr) (hyoung : cfg.young = false) :
    ((Server.init base cfg session rnd).run ops).rrdp.deltas.length ≤ cfg.maxNr :=
  run_deltas_le ops (Server.init base cfg session rnd) hmin hyoung (Nat.zero_le _)

/-- Outside the guard, histories exceed the maximum (F-C11-2): `min_nr = max_nr = 2`, three
publications with an RRDP update each – three deltas are retained. -/
theorem deltas_le_max_fails_history_min_ge_max :
    let base : Uri := ⟨rsyncLower, ⟨"h", 0⟩, ⟨"m", 0⟩, [], true⟩
    let u : Nat → Uri := fun i => ⟨rsyncLower, ⟨"h", 0⟩, ⟨"m", 0⟩, ["ca", toString i], false⟩
    let s := (Server.init base ⟨2, 2, false, false, false⟩ 1 1).run
      [.addpub ["ca"], .publish ["ca"] [.publish (u 1) ⟨1, 10⟩], .update 2,
       .publish ["ca"] [.publish (u 2) ⟨2, 10⟩], .update 3,
       .publish ["ca"] [.publish (u 3) ⟨3, 10⟩], .update 4]
    s.rrdp.deltas.length = 3 ∧ s.cfg.maxNr = 2 := by
  decide

/-- … and with young deltas (`min_nr = 0`, `max_nr = 2`, everything younger than `min_seconds`). -/
theorem deltas_le_max_fails_history_young :
    let base : Uri := ⟨rsyncLower, ⟨"h", 0⟩, ⟨"m", 0⟩, [], true⟩
    let u : Nat → Uri := fun i => ⟨rsyncLower, ⟨"h", 0⟩, ⟨"m", 0⟩, ["ca", toString i], false⟩
    let s := (Server.init base ⟨0, 2, true, false, false⟩ 1 1).run
      [.addpub ["ca"], .publish ["ca"] [.publish (u 1) ⟨1, 10⟩], .update 2,
       .publish ["ca"] [.publish (u 2) ⟨2, 10⟩], .update 3,
       .publish ["ca"] [.publish (u 3) ⟨3, 10⟩], .update 4]
    s.rrdp.deltas.length = 3 ∧ s.cfg.maxNr = 2 := by
  decide

/-- Non-vacuity of the guard: the default configuration (5, 50) and the smallest one (0, 1). -/
example : (5 + 1 ≤ 50 ∧ false = false) ∧ (0 + 1 ≤ 1 ∧ false = false) := by decide

/-! ## The snapshot is the publication state -/

/-- `snapshot_is_state` — after an RRDP update the snapshot holds, for every publisher, exactly
the objects the publisher had (published ⊕ staged) before the update, and nothing is staged any
more: the snapshot at serial `n + 1` is the publication state at the time of the update.  No
other change touches the published objects of any publisher. -/
theorem snapshot_is_state (s : Server) (hi : SInv s) :
    (∀ t rnd h, (s.rrdp.applyUpdated t rnd).current h = s.rrdp.objectsFor h ∧
      (s.rrdp.applyUpdated t rnd).staged = []) ∧
    (∀ h q, (s.rrdp.publisherAdded h).current q = s.rrdp.current q) ∧
    (∀ h d q, (s.rrdp.stage h d).current q = s.rrdp.current q) ∧
    (∀ session rnd q, (s.rrdp.sessionReset session rnd).current q = s.rrdp.current q) :=
  ⟨fun t rnd h => ⟨current_applyUpdated hi.r.stagedNodup hi.r.snapNodup t rnd h, rfl⟩,
   fun h q => current_publisherAdded s.rrdp h q, fun _ _ _ => rfl, fun _ _ _ => rfl⟩

/-! ## Clients catch up -/

/-- `client_catches_up` — take any reachable state `s1` ("then") and any later history `ops`
without a session reset ("now" is `s1.run ops`).  A client that holds the snapshot of `s1`
and applies, oldest first and with the strict checks of RFC 8182, the deltas the server offers
for the serials after `s1`'s, ends with exactly the objects of the current snapshot – whenever
those deltas are still retained (the chain is contiguous from its serial, `deltas_contiguous`).
This holds for every earlier serial of the session at once, since `s1` is arbitrary.

Hypotheses: deltas name every URI once and use canonical URIs (`OpOk`), and no object key is
shared between two publishers in the states passed through (`KeysDisjoint`; by
`keys_disjoint_of_disjoint_jails` this follows from disjoint jails, i.e. handles that are not
nested).  Without them the statement is false (F-C10-1, F-C10-2). -/
theorem client_catches_up (s1 : Server) (hi : SInv s1) (ops : List Op)
    (hok : ∀ op ∈ ops, OpOk op ∧ op.isReset = false)
    (hdis : ∀ n, KeysDisjoint (s1.run (ops.take n)).rrdp) :
    let s2 := s1.run ops
    s2.rrdp.session = s1.rrdp.session ∧ s1.rrdp.serial ≤ s2.rrdp.serial ∧
    (s2.rrdp.serial - s1.rrdp.serial ≤ s2.rrdp.deltas.length →
      ∃ res, catchUp (flatten s1.rrdp.snapshot)
          (chainOf s2.rrdp (s2.rrdp.serial - s1.rrdp.serial)) = some res ∧
        ∀ k, res.get? k = (flatten s2.rrdp.snapshot).get? k) :=
  catch_up_of_reach (run_reach ops s1 hi hok hdis)

/-- Keys are disjoint when the jails of different publishers are (C10 `jails_disjoint_iff`:
neither handle a segment prefix of the other, neither `ta`). -/
theorem keys_disjoint_of_disjoint_jails (s : Server) (hi : SInv s)
    (hj : ∀ h1 h2 j1 j2, h1 ≠ h2 → publisherBase s.base h1 = some j1 →
      publisherBase s.base h2 = some j2 → ¬ ∃ u, inJail j1 u = true ∧ inJail j2 u = true) :
    KeysDisjoint s.rrdp :=
  keysDisjoint_of_jails hi.r hj

/-- Non-vacuity: publish, update, publish, update; the client holding serial 2 applies the delta
of serial 3. -/
example :
    let base : Uri := ⟨rsyncLower, ⟨"h", 0⟩, ⟨"m", 0⟩, [], true⟩
    let u : Uri := ⟨rsyncLower, ⟨"h", 0⟩, ⟨"m", 0⟩, ["ca", "a.cer"], false⟩
    let v : Uri := ⟨rsyncLower, ⟨"h", 0⟩, ⟨"m", 0⟩, ["ca", "b.cer"], false⟩
    let s1 := (Server.init base ⟨5, 50, false, false, false⟩ 1 1).run
      [.addpub ["ca"], .publish ["ca"] [.publish u ⟨1, 10⟩], .update 2]
    let s2 := s1.run [.publish ["ca"] [.publish v ⟨2, 10⟩, .update u 1 ⟨3, 10⟩], .update 3]
    s1.rrdp.serial = 2 ∧ s2.rrdp.serial = 3 ∧
    catchUp (flatten s1.rrdp.snapshot) (chainOf s2.rrdp 1) = some (flatten s2.rrdp.snapshot) := by
  decide

/-! ## The rsync tree -/

/-- `rsync_equals_snapshot` — every complete run of `RsyncdStore::write` (the files of the
snapshot saved in any order), on **any** content of the rsync directory – whatever an earlier
interrupted or failed write left behind –, succeeds, and afterwards `current` holds exactly the
objects of the snapshot, `old` and the temporary directory are gone.  The only assumption is
that the snapshot gives one content per relative path (false only for the shared URIs of
F-C10-1). -/
theorem rsync_equals_snapshot (fs : RsyncFs) (base : Uri) (serial : Nat) (objs : Objs)
    (log : List Sig) (ms : List RMut) (rest : List (Bool × List RMut))
    (hm : matchLog RMut.sig (rsyncPlan fs base serial objs) log = some (ms, rest))
    (hdone : planDone rest = true)
    (hfun : FilesFunctional (rsyncFiles base objs)) :
    ∃ fs' t, fs.applyAll ms = (fs', true) ∧ fs'.current = some t ∧
      (∀ rel, t.get? rel = (expectedTree base objs).get? rel) ∧
      fs'.get? .old = none ∧ fs'.get? (.tmp serial) = none := by
  obtain ⟨ss, rfl, hsub, hall⟩ := rsync_complete_shape hm hdone
  obtain ⟨fs1, hhead, h1, hoth1⟩ := rsync_head_ok fs serial
  obtain ⟨fs2, t, happ, hget, hokt, hoth, _, hfiles⟩ :=
    apply_saves (rsyncFiles base objs) hfun (.tmp serial) ss
      (fun m hm => by
        obtain ⟨p, hp, rfl⟩ := List.mem_map.mp (hsub m hm)
        exact ⟨p, hp, rfl⟩)
      fs1 [] h1 (fun rel r h => by simp [Tree.get?] at h)
  have hoth' : ∀ n, n ≠ .tmp serial → fs2.get? n = fs.get? n := by
    intro n hn
    rw [hoth n hn, hoth1 n hn]
  obtain ⟨fs5, htail, hcur, hold5, htmp5⟩ := rsync_tail_ok hget hoth'
  refine ⟨fs5, t, ?_, hcur, ?_, hold5, htmp5⟩
  · rw [RsyncFs.applyAll_append, RsyncFs.applyAll_append, hhead]
    simp only
    rw [happ]
    exact htail
  · intro rel
    apply tree_eq_expected hokt
    intro p hp
    exact hfiles p hp (hall _ (List.mem_map.mpr ⟨p, hp, rfl⟩))

example : FilesFunctional (rsyncFiles ⟨rsyncLower, ⟨"h", 0⟩, ⟨"m", 0⟩, [], true⟩
    [(⟨rsyncLower, ⟨"h", 0⟩, ⟨"m", 0⟩, ["ca", "a.cer"], false⟩, ⟨1, 10⟩)]) := by
  intro p hp q hq _
  simp only [rsyncFiles, relPath, eqModule, CiName.eqIgnoreCase, List.filterMap_cons] at hp hq
  simp at hp hq
  rw [hp, hq]

/-- `rsync_write_after_any_cut` — interrupt a write anywhere (`ms1` is any run of a prefix of its
plan, on any directory `fs`; it does not even matter whether its mutations succeeded): every
later complete write, for any serial and any snapshot, succeeds and yields the snapshot.  An
interrupted write never prevents later writes. -/
theorem rsync_write_after_any_cut (fs : RsyncFs) (base : Uri) (serial1 serial2 : Nat)
    (objs1 objs2 : Objs) (log1 : List Sig) (ms1 : List RMut) (rest1 : List (Bool × List RMut))
    (_hm1 : matchLog RMut.sig (rsyncPlan fs base serial1 objs1) log1 = some (ms1, rest1))
    (log2 : List Sig) (ms2 : List RMut) (rest2 : List (Bool × List RMut))
    (hm2 : matchLog RMut.sig (rsyncPlan (fs.applyAll ms1).1 base serial2 objs2) log2 = some (ms2, rest2))
    (hdone : planDone rest2 = true)
    (hfun : FilesFunctional (rsyncFiles base objs2)) :
    ∃ fs' t, (fs.applyAll ms1).1.applyAll ms2 = (fs', true) ∧ fs'.current = some t ∧
      ∀ rel, t.get? rel = (expectedTree base objs2).get? rel := by
  obtain ⟨fs', t, h1, h2, h3, _, _⟩ :=
    rsync_equals_snapshot _ base serial2 objs2 log2 ms2 rest2 hm2 hdone hfun
  exact ⟨fs', t, h1, h2, h3⟩

/-- Non-vacuity, and the former failing case: the cut after `rename(tmp-2 → current)` and before
the removal of `old` leaves `current` and a non-empty `old`; the next write removes `old` first
and succeeds. -/
example :
    let fs : RsyncFs := [(.current, [(["ca", "a.cer"], .clean ⟨1, 10⟩)])]
    let base : Uri := ⟨rsyncLower, ⟨"h", 0⟩, ⟨"m", 0⟩, [], true⟩
    let objs : Objs := [(⟨rsyncLower, ⟨"h", 0⟩, ⟨"m", 0⟩, ["ca", "a.cer"], false⟩, ⟨2, 10⟩)]
    let log1 : List Sig := [⟨"create_dir_all", [.name "tmp-2"], []⟩,
           ⟨"create", [.name "tmp-2", .name "ca", .name "a.cer"], []⟩,
           ⟨"rename", [.name "current"], [.name "old"]⟩,
           ⟨"rename", [.name "tmp-2"], [.name "current"]⟩]
    let log2 : List Sig := [⟨"create_dir_all", [.name "tmp-3"], []⟩,
           ⟨"create", [.name "tmp-3", .name "ca", .name "a.cer"], []⟩,
           ⟨"remove_dir_all", [.name "old"], []⟩,
           ⟨"rename", [.name "current"], [.name "old"]⟩,
           ⟨"rename", [.name "tmp-3"], [.name "current"]⟩,
           ⟨"remove_dir_all", [.name "old"], []⟩]
    (matchLog RMut.sig (rsyncPlan fs base 2 objs) log1).bind (fun r1 =>
      let fs1 := (fs.applyAll r1.1).1
      (matchLog RMut.sig (rsyncPlan fs1 base 3 objs) log2).map (fun r2 =>
        (planDone r1.2, (fs1.get? .old).isSome, planDone r2.2, (fs1.applyAll r2.1).2,
          (fs1.applyAll r2.1).1.get? .current == some [(["ca", "a.cer"], .clean ⟨2, 10⟩)]))) =
      some (false, true, true, true, true) := by
  decide

/-- COUNTER-MODEL OF THE PINNED TREE (F-C11-1, before fix 5d860534): after the same cut the next
write (plan of the pinned tree: no removal of a left-over `old`) fails at
`rename(current → old)`, and so did every later one. -/
theorem pinned_old_left_behind_blocks_write :
    let fs : RsyncFs := [(.current, [(["ca", "a.cer"], .clean ⟨1, 10⟩)])]
    let base : Uri := ⟨rsyncLower, ⟨"h", 0⟩, ⟨"m", 0⟩, [], true⟩
    let objs : Objs := [(⟨rsyncLower, ⟨"h", 0⟩, ⟨"m", 0⟩, ["ca", "a.cer"], false⟩, ⟨2, 10⟩)]
    let log1 : List Sig := [⟨"create_dir_all", [.name "tmp-2"], []⟩,
           ⟨"create", [.name "tmp-2", .name "ca", .name "a.cer"], []⟩,
           ⟨"rename", [.name "current"], [.name "old"]⟩,
           ⟨"rename", [.name "tmp-2"], [.name "current"]⟩]
    let log2 : List Sig := [⟨"create_dir_all", [.name "tmp-3"], []⟩,
           ⟨"create", [.name "tmp-3", .name "ca", .name "a.cer"], []⟩,
           ⟨"rename", [.name "current"], [.name "old"]⟩,
           ⟨"rename", [.name "tmp-3"], [.name "current"]⟩,
           ⟨"remove_dir_all", [.name "old"], []⟩]
    (matchLog RMut.sig (rsyncPlanPinned fs base 2 objs) log1).bind (fun r1 =>
      let fs1 := (fs.applyAllPinned r1.1).1
      (matchLog RMut.sig (rsyncPlanPinned fs1 base 3 objs) log2).map (fun r2 =>
        (planDone r1.2, (fs1.get? .old).isSome, planDone r2.2, (fs1.applyAllPinned r2.1).2))) =
      some (false, true, true, false) := by
  decide

/-- COUNTER-MODEL OF THE PINNED TREE (F-C11-4, before fixes 8d070115 and 4ab08295): a left-over
`tmp-1` directory was re-used by the next write for serial 1: the write succeeded, but `current`
contained an object the snapshot did not have, and a shorter object written over a longer one
was neither. -/
theorem pinned_rsync_stale_tmp_leaks :
    let fs : RsyncFs := [(.tmp 1, [(["ca", "a.cer"], .clean ⟨1, 10⟩), (["ca", "m.mft"], .clean ⟨4, 1500⟩)]),
                         (.current, [(["ca", "m.mft"], .clean ⟨5, 9⟩)])]
    let base : Uri := ⟨rsyncLower, ⟨"h", 0⟩, ⟨"m", 0⟩, [], true⟩
    let objs : Objs := [(⟨rsyncLower, ⟨"h", 0⟩, ⟨"m", 0⟩, ["ca", "m.mft"], false⟩, ⟨5, 9⟩)]
    let log : List Sig := [⟨"create_dir_all", [.name "tmp-1"], []⟩,
           ⟨"create", [.name "tmp-1", .name "ca", .name "m.mft"], []⟩,
           ⟨"rename", [.name "current"], [.name "old"]⟩,
           ⟨"rename", [.name "tmp-1"], [.name "current"]⟩,
           ⟨"remove_dir_all", [.name "old"], []⟩]
    (matchLog RMut.sig (rsyncPlanPinned fs base 1 objs) log).map (fun r =>
        (planDone r.2, (fs.applyAllPinned r.1).2,
          (fs.applyAllPinned r.1).1.current.bind (·.get? ["ca", "a.cer"]),
          (fs.applyAllPinned r.1).1.current.bind (·.get? ["ca", "m.mft"]))) =
      some (true, true, some (.clean ⟨1, 10⟩), some .garbage) := by
  decide

/-! ## The notification at every cut -/

/-- `notification_consistent_at_every_cut` — let `update_rrdp_files` run on files whose
notification names only files that exist with the stated content, and interrupt it anywhere:
`ms` is any sequence of mutations that `matchLog` accepts as a run of a *prefix* of the plan
(the same reader the driver uses on the implementation's mutation log; the clean-up phases may
happen in any order).  Then the notification on disk still names only files that exist with the
stated content.

Preconditions (`RrdpPre`): file names of the form `<session>/<serial>/<random>/…`, no
notification from the future, contiguous deltas, and a file already sitting at the path of a
delta or of the snapshot is that very file.  Nothing is assumed about a left-over
`new-notification.xml` (files are truncated when created, fix 4ab08295). -/
theorem notification_consistent_at_every_cut (r : Rrdp) (fs : RrdpFs) (hpre : RrdpPre r fs)
    (hc : fs.consistent = true) (log : List Sig) (ms : List Mut) (rest : Plan)
    (hm : matchLog Mut.sig (rrdpPlan r fs) log = some (ms, rest)) :
    (fs.applyAll ms).consistent = true :=
  rrdp_cut_consistent hpre hc hm

/-- Non-vacuity: the state after `init`, one publish and one update, on the files written at
`init`. -/
example :
    let u : Uri := ⟨rsyncLower, ⟨"h", 0⟩, ⟨"m", 0⟩, ["ca", "a.cer"], false⟩
    let r0 := Rrdp.create 1 1
    let r := ((r0.publisherAdded ["ca"]).stage ["ca"] [.publish u ⟨1, 10⟩]).applyUpdated 0 2
    let fs : RrdpFs := [(notifPath, .notif ⟨1, 1, ⟨snapshotPath r0, snapshotFile r0⟩, []⟩),
                        (snapshotPath r0, .data (snapshotFile r0))]
    RrdpPre r fs ∧ fs.consistent = true ∧ (rrdpPlan r fs).length = 3 := by
  refine ⟨⟨?_, ?_, ⟨by decide, ⟨rfl, by decide, trivial⟩⟩, by decide, by decide⟩,
    by decide, by decide⟩
  · intro n hn
    have : n = ⟨1, 1, ⟨snapshotPath (Rrdp.create 1 1), snapshotFile (Rrdp.create 1 1)⟩, []⟩ := by
      simp [RrdpFs.notification, RrdpFs.get?, notifPath] at hn
      exact hn.symm
    subst this
    exact ⟨⟨1, rfl⟩, fun d hd => nomatch hd⟩
  · intro n hn _ d hd
    have : n = ⟨1, 1, ⟨snapshotPath (Rrdp.create 1 1), snapshotFile (Rrdp.create 1 1)⟩, []⟩ := by
      simp [RrdpFs.notification, RrdpFs.get?, notifPath] at hn
      exact hn.symm
    subst this
    cases hd

/-- The former failing case: a left-over, longer `new-notification.xml` (two deltas) and a new
notification without deltas (after a session reset): the notification is well-formed and
consistent after the rename. -/
example :
    let r : Rrdp := { session := 2, serial := 1, snapRnd := 5, snapshot := [], deltas := [], staged := [] }
    let d3 : DataRef := ⟨[.sess 1, .num 3, .rnd 3, .name "delta.xml"], .delta 1 3 []⟩
    let d2 : DataRef := ⟨[.sess 1, .num 2, .rnd 2, .name "delta.xml"], .delta 1 2 []⟩
    let sn : DataRef := ⟨[.sess 1, .num 3, .rnd 1, .name "snapshot.xml"], .snapshot 1 3 []⟩
    let stale : Notif := ⟨1, 4, sn, [(3, d3), (2, d2)]⟩
    let fs : RrdpFs := [(notifPath, .notif ⟨1, 3, sn, [(3, d3), (2, d2)]⟩), (sn.path, .data sn.data),
      (d3.path, .data d3.data), (d2.path, .data d2.data), (newNotifPath, .notif stale)]
    let log : List Sig := [⟨"create", snapshotPath r, []⟩, ⟨"create", newNotifPath, []⟩,
      ⟨"rename", newNotifPath, notifPath⟩]
    fs.consistent = true ∧
    (matchLog Mut.sig (rrdpPlan r fs) log).map (fun p => (fs.applyAll p.1).consistent) = some true := by
  decide

/-- COUNTER-MODEL OF THE PINNED TREE (F-C11-3, before fix 4ab08295): files were opened without
truncation.  In the same situation the tail of the left-over file stayed and `notification.xml`
was not a well-formed file after the rename. -/
theorem pinned_notification_corrupt_after_stale_new_notification :
    let r : Rrdp := { session := 2, serial := 1, snapRnd := 5, snapshot := [], deltas := [], staged := [] }
    let d3 : DataRef := ⟨[.sess 1, .num 3, .rnd 3, .name "delta.xml"], .delta 1 3 []⟩
    let d2 : DataRef := ⟨[.sess 1, .num 2, .rnd 2, .name "delta.xml"], .delta 1 2 []⟩
    let sn : DataRef := ⟨[.sess 1, .num 3, .rnd 1, .name "snapshot.xml"], .snapshot 1 3 []⟩
    let stale : Notif := ⟨1, 4, sn, [(3, d3), (2, d2)]⟩
    let fs : RrdpFs := [(notifPath, .notif ⟨1, 3, sn, [(3, d3), (2, d2)]⟩), (sn.path, .data sn.data),
      (d3.path, .data d3.data), (d2.path, .data d2.data), (newNotifPath, .notif stale)]
    let log : List Sig := [⟨"create", snapshotPath r, []⟩, ⟨"create", newNotifPath, []⟩,
      ⟨"rename", newNotifPath, notifPath⟩]
    fs.consistent = true ∧
    (matchLog Mut.sig (rrdpPlan r fs) log).map (fun p => (fs.applyAllPinned p.1).consistent) =
      some false := by
  decide

/-! ## Histories: requests and interrupted writes -/

/-- `world_invariant` — the inductive invariant over arbitrary histories.  A history is any
sequence of requests of the manager (publish / update / withdraw deltas, publisher addition and
removal, RRDP updates under any retention configuration, deletions, session resets) and writes
of the repository interrupted before any of their file-system mutations (or complete).  It is
valid if deltas name each URI once with well-formed URIs (`OpOk`) and a session reset chooses a
session id that is not on disk.  After every valid history the manager's invariant (`SInv`) and
the file invariant (`FInv`: the preconditions `RrdpPre` of the RRDP writer, a consistent
notification, no file beyond the current serial) hold.  The clauses below are corollaries. -/
theorem world_invariant (base : Uri) (cfg : Cfg) (session rnd : Nat) (es : List Event)
    (hv : World.Valid (World.init base cfg session rnd) es) :
    WInv ((World.init base cfg session rnd).run es) :=
  (WInv.init base cfg session rnd).run es hv

/-- At every instant – after every valid history, wherever its writes were cut – the
notification file names only files that exist with the stated content. -/
theorem notification_consistent_at_every_instant (base : Uri) (cfg : Cfg) (session rnd : Nat)
    (es : List Event) (hv : World.Valid (World.init base cfg session rnd) es) :
    ((World.init base cfg session rnd).run es).rfs.consistent = true :=
  (world_invariant base cfg session rnd es hv).files.cons

/-- … the retained deltas are a contiguous run ending at the current serial, and the serial is
positive … -/
theorem deltas_contiguous_at_every_instant (base : Uri) (cfg : Cfg) (session rnd : Nat)
    (es : List Event) (hv : World.Valid (World.init base cfg session rnd) es) :
    Contig ((World.init base cfg session rnd).run es).srv.rrdp :=
  (world_invariant base cfg session rnd es hv).files.pre.contig

/-- … and an interrupted write never prevents later writes (RRDP part): in the world reached by
any valid history a complete run of `update_rrdp_files` ends with a consistent notification
that names the session and serial of the current state. -/
theorem rrdp_write_after_any_history (base : Uri) (cfg : Cfg) (session rnd : Nat)
    (es : List Event) (hv : World.Valid (World.init base cfg session rnd) es)
    (log : List Sig) (ms : List Mut) (rest : Plan) :
    let w := (World.init base cfg session rnd).run es
    matchLog Mut.sig (rrdpPlan w.srv.rrdp w.rfs) log = some (ms, rest) → planDone rest = true →
    (w.rfs.applyAll ms).consistent = true ∧
    ∃ n, (w.rfs.applyAll ms).notification = some n ∧ n.session = w.srv.rrdp.session ∧
      n.serial = w.srv.rrdp.serial := by
  intro w hm hd
  have hi := world_invariant base cfg session rnd es hv
  obtain ⟨hc, _, hdone⟩ := rrdp_cut_facts hi.files.pre hi.files.cons hm
  obtain ⟨n, hn, h1, h2⟩ := hdone hd
  refine ⟨hc, n, ?_, h1, h2⟩
  unfold RrdpFs.notification; rw [hn]

/-- (rsync part) in the world reached by any history – valid or not, whatever its writes left in
the rsync directory – a complete run of `RsyncdStore::write` succeeds and `current` is the
snapshot: the rsync tree equals the snapshot after every successful write. -/
theorem rsync_write_after_any_history (w0 : World) (es : List Event) (log : List Sig)
    (ms : List RMut) (rest : List (Bool × List RMut)) :
    let w := w0.run es
    matchLog RMut.sig (rsyncPlan w.sfs w.srv.base w.srv.rrdp.serial (flatten w.srv.rrdp.snapshot)) log
      = some (ms, rest) → planDone rest = true →
    FilesFunctional (rsyncFiles w.srv.base (flatten w.srv.rrdp.snapshot)) →
    ∃ fs' t, w.sfs.applyAll ms = (fs', true) ∧ fs'.current = some t ∧
      ∀ rel, t.get? rel = (expectedTree w.srv.base (flatten w.srv.rrdp.snapshot)).get? rel := by
  intro w hm hd hf
  obtain ⟨fs', t, h1, h2, h3, _, _⟩ := rsync_equals_snapshot _ _ _ _ log ms rest hm hd hf
  exact ⟨fs', t, h1, h2, h3⟩

/-- "Whenever the chain is contiguous from its serial": with contiguous deltas, the deltas of all
serials after `m` up to the current one are offered exactly when `serial - m` deltas are
retained – the condition under which `client_catches_up` speaks. -/
theorem chain_offered_iff (r : Rrdp) (hc : Contig r) (m : Nat) (hm : m ≤ r.serial) :
    r.serial - m ≤ r.deltas.length ↔
      ∀ j, m < j → j ≤ r.serial → ∃ d ∈ r.deltas, d.serial = j := by
  have hget := contigFrom_get _ _ hc.2
  constructor
  · intro h j hj1 hj2
    have hi : r.serial - j < r.deltas.length := by omega
    refine ⟨r.deltas[r.serial - j], List.getElem_mem hi, ?_⟩
    have := (hget _ hi).1
    omega
  · intro h
    apply Classical.byContradiction
    intro hn
    have hlt : r.deltas.length < r.serial - m := by omega
    obtain ⟨d, hd, hs⟩ := h (r.serial - r.deltas.length) (by omega) (by omega)
    obtain ⟨i, hi, rfl⟩ := List.getElem_of_mem hd
    have := (hget i hi).1
    omega

/-- Non-vacuity of the world: a publication, an RRDP update whose write is cut after three
mutations (delta, snapshot and `new-notification.xml` written, not yet renamed), a retry, and
a session reset with a fresh id; the history is valid, the first write left the old
notification, the retry published serial 2. -/
example :
    let base : Uri := ⟨rsyncLower, ⟨"h", 0⟩, ⟨"m", 0⟩, [], true⟩
    let u : Uri := ⟨rsyncLower, ⟨"h", 0⟩, ⟨"m", 0⟩, ["ca", "a.cer"], false⟩
    let w0 := World.init base ⟨5, 50, false, false, false⟩ 1 1
    let initLog : List Sig := [⟨"create", [.sess 1, .num 1, .rnd 1, .name "snapshot.xml"], []⟩,
      ⟨"create", newNotifPath, []⟩, ⟨"rename", newNotifPath, notifPath⟩]
    let rsyncLog : Nat → List Sig := fun n => [⟨"create_dir_all", [.name ("tmp-" ++ toString n)], []⟩,
      ⟨"rename", [.name ("tmp-" ++ toString n)], [.name "current"]⟩]
    let cutLog : List Sig := [⟨"create", [.sess 1, .num 2, .rnd 2, .name "delta.xml"], []⟩,
      ⟨"create", [.sess 1, .num 2, .rnd 1, .name "snapshot.xml"], []⟩, ⟨"create", newNotifPath, []⟩]
    let w1 := w0.run [.write initLog (rsyncLog 1), .req (.addpub ["ca"]),
      .req (.publish ["ca"] [.publish u ⟨1, 10⟩]), .req (.update 2), .write cutLog []]
    let w2 := w1.run [.write (cutLog ++ [⟨"rename", newNotifPath, notifPath⟩,
      ⟨"remove_dir_all", [.sess 1, .num 1], []⟩]) []]
    (w1.rfs.notification.map (·.serial), w1.rfs.consistent, (w1.rfs.get? newNotifPath).isSome,
      w2.rfs.notification.map (·.serial), w2.rfs.consistent, (w2.rfs.get? newNotifPath).isSome,
      (w0.run [.write initLog (rsyncLog 1)]).sfs.current.isSome) =
      (some 1, true, true, some 2, true, false, true) := by
  decide

/-- … and that history (without its last, complete write) is valid. -/
example :
    let base : Uri := ⟨rsyncLower, ⟨"h", 0⟩, ⟨"m", 0⟩, [], true⟩
    let u : Uri := ⟨rsyncLower, ⟨"h", 0⟩, ⟨"m", 0⟩, ["ca", "a.cer"], false⟩
    World.Valid (World.init base ⟨5, 50, false, false, false⟩ 1 1)
      [.write [] [], .req (.addpub ["ca"]), .req (.publish ["ca"] [.publish u ⟨1, 10⟩]),
       .req (.update 2), .write [] []] := by
  refine ⟨trivial, ⟨trivial, fun _ _ h => nomatch h⟩, ⟨⟨?_, ?_⟩, fun _ _ h => nomatch h⟩,
    ⟨trivial, fun _ _ h => nomatch h⟩, trivial, trivial⟩
  · intro e he; simp only [List.mem_singleton] at he; subst he; rfl
  · exact List.pairwise_singleton _ _

end KM.Props.C11
