/-
C14 (source tie) — the hand-written models of the "is re-issuance due" tests
(`KeyObjectSet.requiresReissuance`, `ClassObjects.requiresReissuance`, Ca/Objects.lean) equal the
definitions that the translator `pure_fns` regenerates from `/repo/src/server/ca/publishing.rs` on
every run (`Generated/PureFnsC14.lean`: `KM.Gen.C14.KeyObjectSet.requires_reissuance`,
`KM.Gen.C14.ResourceClassObjects.requires_re_issuance`).

`due_is_reissued`, `nothing_due_nothing_changes` (Props/C14.lean) are about the model's tests.  With
the two theorems below these are tied to the Rust bodies: `>` vs `>=`, `-` vs `+` of the margin,
which set of a key state is consulted, `||` vs `&&` – each such edit changes the generated definition
and this file stops checking.

Differences that do not matter, bridged here:
* the model counts times and the margin in `Nat` (seconds since the epoch / hours ≥ 0) and tests
  `now + hours·3600 > next_update`; the Rust code computes `now > next_update - hours` on signed
  values, generated over `Int`.  The statement casts the model's naturals into `Int`; on them the
  two tests agree (no truncated subtraction is involved on the model side).  Negative `hours` (i64)
  are outside the model: the configuration value is unsigned.
* the generated `ResourceClassKeyState` has no payload; `shape` forgets the sets of the model's
  `ClassObjects`, the sets are passed separately.  Each arm reads only sets its variant has; for the
  absent ones the statement quantifies over an arbitrary default `d`.
-/
import KrillModel.Generated.PureFnsC14
import KrillModel.Ca.Objects
namespace KM.Props.C14Src
open KM.Ca.Pub

/-- `KeyObjectSet::requires_reissuance`: generated definition (over `Int`) = model (over `Nat`),
for every set, every clock value and every margin. -/
theorem gen_requires_reissuance_eq_model (s : KeyObjectSet) (now hours : Nat) :
    KM.Gen.C14.KeyObjectSet.requires_reissuance (now : Int) (s.revision.nextUpdate : Int) (hours : Int) =
      s.requiresReissuance now hours := by
  unfold KM.Gen.C14.KeyObjectSet.requires_reissuance KeyObjectSet.requiresReissuance
  rw [decide_eq_decide]
  omega

/-- Model key state ↦ Rust variant. -/
def shape : ClassObjects → KM.Gen.C14.ResourceClassKeyState
  | .current _ => .Current
  | .staging _ _ => .Staging
  | .old _ _ => .Old

def stagingSet (d : KeyObjectSet) : ClassObjects → KeyObjectSet
  | .staging s _ => s
  | _ => d

def oldSet (d : KeyObjectSet) : ClassObjects → KeyObjectSet
  | .old _ o => o
  | _ => d

/-- `ResourceClassObjects::requires_re_issuance`: generated definition, with the generated
set-level test as `due`, = model, for every key state, clock value and margin. -/
theorem gen_requires_re_issuance_eq_model (co : ClassObjects) (now hours : Nat) (d : KeyObjectSet) :
    KM.Gen.C14.ResourceClassObjects.requires_re_issuance
        (fun (s : KeyObjectSet) (h : Int) =>
          KM.Gen.C14.KeyObjectSet.requires_reissuance (now : Int) (s.revision.nextUpdate : Int) h)
        (shape co) co.cur (oldSet d co) (stagingSet d co) (hours : Int) =
      co.requiresReissuance now hours := by
  cases co <;>
    simp only [KM.Gen.C14.ResourceClassObjects.requires_re_issuance, shape, ClassObjects.cur, oldSet, stagingSet,
      ClassObjects.requiresReissuance, gen_requires_reissuance_eq_model]

/-- Non-vacuity: both answers occur, and the boundary is strict (`now = next_update - margin` is
not yet due). -/
example :
    KM.Gen.C14.KeyObjectSet.requires_reissuance 100 (100 + 7200) 2 = false ∧
    KM.Gen.C14.KeyObjectSet.requires_reissuance 101 (100 + 7200) 2 = true ∧
    KM.Gen.C14.ResourceClassObjects.requires_re_issuance (fun (s : Bool) _ => s) .Old false true false 0 = true ∧
    KM.Gen.C14.ResourceClassObjects.requires_re_issuance (fun (s : Bool) _ => s) .Current false true true 0 = false := by
  decide

/-! ### `ObjectSetRevision::next`

`number_plus_one`, `mft_crl_numbers_agree`, `numbers_strictly_increase` (Props/C14.lean) and the TA theorems of C15 run
on `Revision.next` / `Revision.nextWith`: the number of the next manifest AND CRL (both are built from this one
revision) is the old number plus one, or the operator's override; the validity window is taken from the arguments. -/

/-- `ObjectSetRevision::next` as translated from the source = the model's `nextWith`, for every revision, window and
override. -/
theorem gen_next_eq_model (r : Revision) (thisUpdate nextUpdate : Nat) (override : Option Nat) :
    KM.Gen.C14.ObjectSetRevision.next r.number r.thisUpdate r.nextUpdate thisUpdate nextUpdate override
      = ((r.nextWith thisUpdate nextUpdate override).number, (r.nextWith thisUpdate nextUpdate override).thisUpdate,
         (r.nextWith thisUpdate nextUpdate override).nextUpdate) := by
  cases override <;> rfl

/-- Without override (all the daemon itself ever passes): exactly one more. -/
theorem gen_next_plus_one (n : Nat) (a b c d : Nat) :
    (KM.Gen.C14.ObjectSetRevision.next n a b c d none).1 = n + 1 := rfl

/-- … and `Revision.next` (CA key sets) is `nextWith` without override at the issuing instant. -/
theorem next_is_nextWith (r : Revision) (t : Timing) (i : IssueIn) :
    r.next t i = r.nextWith (fiveMinutesAgo i.now) (publishNext t i) none := rfl

end KM.Props.C14Src
