/-
C01 (source tie) — the hand-written model of `Roas::mode` equals the definition that the
translator `pure_fns` regenerates from `/repo/src/server/ca/roa.rs` on every run
(`Generated/PureFnsC01.lean`, `KM.Gen.C01.Roas.mode`).

`mode_characterisation` and `roas_payloads_exact` (Props/C01.lean) are about `KM.Ca.Pub.Roas.mode`.
With `gen_mode_eq_model` that function is tied to the Rust body statement by statement: an edit of
the comparison operators, of the thresholds used, of the order of the tests or of the variants
returned changes `KM.Gen.C01.Roas.mode` and this file stops checking.

Differences that do not matter, bridged here: the generated enum `KM.Gen.C01.RoaMode` is regenerated
from the Rust `enum RoaMode` (variant names as in Rust); `toModel` is the obvious bijection onto
the model's `KM.Ca.Pub.RoaMode`.  `self` enters the Rust function only through
`self.is_currently_aggregating()` (name map of the translator), the model's `Roas.isAggregating`.
-/
import KrillModel.Generated.PureFnsC01
import KrillModel.Ca.RoaObjects
namespace KM.Props.C01Src
open KM.Ca.Pub

/-- Rust `RoaMode` variant ↦ model variant. -/
def toModel : KM.Gen.C01.RoaMode → RoaMode
  | .Simple => .simple
  | .StopAggregating => .stopAggregating
  | .StartAggregating => .startAggregating
  | .Aggregate => .aggregate

/-- `toModel` is a bijection (so the equality below loses nothing). -/
theorem toModel_bijective :
    (∀ a b, toModel a = toModel b → a = b) ∧ (∀ m, ∃ g, toModel g = m) := by
  refine ⟨fun a b => by cases a <;> cases b <;> simp [toModel], ?_⟩
  intro m
  cases m
  · exact ⟨.Simple, rfl⟩
  · exact ⟨.StopAggregating, rfl⟩
  · exact ⟨.StartAggregating, rfl⟩
  · exact ⟨.Aggregate, rfl⟩

/-- The definition generated from the body of `Roas::mode` is the model function, for every
`Roas` state and all three numbers. -/
theorem gen_mode_eq_model (r : Roas) (total deagg agg : Nat) :
    toModel (KM.Gen.C01.Roas.mode r.isAggregating total deagg agg) = r.mode total deagg agg := by
  unfold KM.Gen.C01.Roas.mode Roas.mode
  cases r.isAggregating <;> simp only [] <;> (repeat' split) <;> simp_all [toModel]

/-- Non-vacuity: the generated definition reaches all four variants. -/
example :
    KM.Gen.C01.Roas.mode false 0 2 5 = .Simple ∧ KM.Gen.C01.Roas.mode true 0 2 5 = .Aggregate ∧
    KM.Gen.C01.Roas.mode true 1 2 5 = .StopAggregating ∧ KM.Gen.C01.Roas.mode true 2 2 5 = .Aggregate ∧
    KM.Gen.C01.Roas.mode false 6 2 5 = .StartAggregating ∧ KM.Gen.C01.Roas.mode false 5 2 5 = .Simple := by
  decide

end KM.Props.C01Src
