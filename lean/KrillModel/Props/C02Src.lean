/-
C02 (source tie) — the hand-written model of `CertifiedKey::wants_update`
(`KM.CaK.CertKey.wantsUpdate`, Ca/Keys.lean) equals the definition that the translator `pure_fns`
regenerates from `/repo/src/server/ca/keys.rs` on every run (`Generated/PureFnsC02.lean`,
`KM.Gen.C02.CertifiedKey.wants_update`).

`sync_idempotent`, `sync_converges_partial` and the key-sync lemmas (Props/C02.lean, Ca/LemmasKeySync.lean)
are about `wantsUpdate`.  With `gen_wants_update_eq_model` it is tied to the Rust body: the order of the
tests, the early returns, `<=` vs `<`, the sign tests on the remaining times, the one-week constant,
the TA exception – each such edit changes the generated definition and this file stops checking.

NOT covered by the translation (trusted name map, stated in the header of the generated file): the two
`f64` ratio tests are mapped to the model's integer predicates `10·e < 9·c` and `10·e > 11·c`, and the
three facts about the certificate (`ca_repository` ends with `/`, resource difference empty, resources
= all) enter as Booleans.  A change *inside* those expressions makes the translator refuse the
function (the obligation then reports broken), it cannot be proved equal.

Difference that does not matter, bridged here: argument order, and the model reads the Booleans from
its `Cert` record (`slash`, `seteq newRes cert.res`, `all`).
-/
import KrillModel.Generated.PureFnsC02
import KrillModel.Ca.Keys
import KrillModel.Ca.Child
namespace KM.Props.C02Src
open KM.CaK KM.Res

/-- The definition generated from the body of `wants_update` is the model function – for every key,
every entitled resource set, every pair of not-after times and every clock value. -/
theorem gen_wants_update_eq_model (k : CertKey) (newRes : ResSet) (newNa now : Int) :
    KM.Gen.C02.CertifiedKey.wants_update k.cert.slash (seteq newRes k.cert.res) k.cert.all k.cert.na newNa now =
      k.wantsUpdate newRes newNa now := by
  unfold KM.Gen.C02.CertifiedKey.wants_update CertKey.wantsUpdate
  generalize k.cert.slash = s
  generalize seteq newRes k.cert.res = e
  generalize k.cert.all = al
  generalize k.cert.na = na
  cases s <;> cases e <;> cases al <;> simp

/-- Non-vacuity: the generated definition takes both values and reaches the 10 % margins and the
one-week rule (cf. the `example` next to the model). -/
example :
    KM.Gen.C02.CertifiedKey.wants_update false true false 1000 1000 0 = true ∧
    KM.Gen.C02.CertifiedKey.wants_update true false false 1000 1000 0 = true ∧
    KM.Gen.C02.CertifiedKey.wants_update true true false 1000 900 0 = false ∧
    KM.Gen.C02.CertifiedKey.wants_update true true false 1000 899 0 = true ∧
    KM.Gen.C02.CertifiedKey.wants_update true true false 1000 1100 0 = false ∧
    KM.Gen.C02.CertifiedKey.wants_update true true false 1000 1101 0 = true ∧
    KM.Gen.C02.CertifiedKey.wants_update true true false 100000000 (100000000 + 604800) 0 = true ∧
    KM.Gen.C02.CertifiedKey.wants_update true true false 100000000 (100000000 + 604799) 0 = false ∧
    KM.Gen.C02.CertifiedKey.wants_update true true true 100000000 (100000000 + 604799) 0 = true ∧
    KM.Gen.C02.CertifiedKey.wants_update true true false 1000 0 0 = false := by
  decide

/-! ### `keys_for_requests` of `KeyState::append_entitlement_events`

For which keys a certificate is requested when entitlements arrive – per stage of a key roll.  The exchange theorems
(`sync_converges_partial`, `exchange_converges`, Props/C02.lean) run on `KeyState.requestKeys`; the round-5 seeded change
for C02 pushed, in `RollNew`, the request for the CURRENT key under the NEW key's id (the current key's certificate was
never re-requested, the new key's re-issued on every second sync: no convergence).  The quirk of the `RollOld` arm – the
request is made for the current key id when the OLD key wants an update – is in the source and in the model alike. -/

def variantOf : KeyState → KM.Gen.C02.KeyState
  | .pending _ => .Pending
  | .active _ => .Active
  | .rollPending .. => .RollPending
  | .rollNew .. => .RollNew
  | .rollOld .. => .RollOld

def pendingKey (d : KeyId) : KeyState → KeyId
  | .pending p => p.id | .rollPending p _ => p.id | _ => d
def currentKey (d : KeyId) : KeyState → KeyId
  | .active c => c.id | .rollPending _ c => c.id | .rollNew _ c => c.id | .rollOld c _ => c.id | _ => d
def newKey (d : KeyId) : KeyState → KeyId
  | .rollNew n _ => n.id | _ => d
def oldKey (d : KeyId) : KeyState → KeyId
  | .rollOld _ o => o.id | _ => d

/-- `<key>.wants_update(…)` for the keys the variant has (`false` where it has no such key: never consulted). -/
def currentWants (ent : Entitlement) (now : Int) : KeyState → Bool
  | .active c => c.wantsUpdate ent.res ent.na now | .rollPending _ c => c.wantsUpdate ent.res ent.na now
  | .rollNew _ c => c.wantsUpdate ent.res ent.na now | .rollOld c _ => c.wantsUpdate ent.res ent.na now | _ => false
def newWants (ent : Entitlement) (now : Int) : KeyState → Bool
  | .rollNew n _ => n.wantsUpdate ent.res ent.na now | _ => false
def oldWants (ent : Entitlement) (now : Int) : KeyState → Bool
  | .rollOld _ o => o.wantsUpdate ent.res ent.na now | _ => false

/-- The first part of `append_entitlement_events` as translated from the source = the model's `requestKeys`, for every
key state, entitlement and clock value. -/
theorem gen_keys_for_requests_eq_model (ks : KeyState) (ent : Entitlement) (now : Int) (d : KeyId) :
    KM.Gen.C02.KeyState.keys_for_requests (variantOf ks) (pendingKey d ks) (currentKey d ks) (newKey d ks) (oldKey d ks)
      (currentWants ent now ks) (newWants ent now ks) (oldWants ent now ks) = ks.requestKeys ent now := by
  cases ks with
  | pending p => rfl
  | active c =>
    simp only [KM.Gen.C02.KeyState.keys_for_requests, variantOf, currentKey, currentWants, KeyState.requestKeys]
    by_cases h : c.wantsUpdate ent.res ent.na now = true <;> simp [h]
  | rollPending p c =>
    simp only [KM.Gen.C02.KeyState.keys_for_requests, variantOf, pendingKey, currentKey, currentWants, KeyState.requestKeys]
    by_cases h : c.wantsUpdate ent.res ent.na now = true <;> simp [h]
  | rollNew n c =>
    simp only [KM.Gen.C02.KeyState.keys_for_requests, variantOf, newKey, currentKey, currentWants, newWants,
      KeyState.requestKeys]
    by_cases h : n.wantsUpdate ent.res ent.na now = true <;> by_cases h' : c.wantsUpdate ent.res ent.na now = true <;> simp [h, h']
  | rollOld c o =>
    simp only [KM.Gen.C02.KeyState.keys_for_requests, variantOf, currentKey, currentWants, oldWants,
      KeyState.requestKeys]
    by_cases h : c.wantsUpdate ent.res ent.na now = true <;> by_cases h' : o.wantsUpdate ent.res ent.na now = true <;> simp [h, h']

/-! ## The two maps of `ChildCertificates` (`src/server/ca/child.rs`)

`add_issued_certificate`, `unsuspend_certificate`, `suspend_certificate`, `remove_revoked_key` and
`is_empty` are regenerated as `KM.Gen.C02.ChildCertificates.*`.  `never_overclaims`,
`shrink_in_same_command`, `shrink_active_child` (Props/C02.lean) and the tidy-maps lemmas (`Ca/LemmasTidy`)
are about the model's `ChildCerts.addIssued / unsuspend / suspend / removeRevoked`.  With the theorems
below an edit of one of the four bodies changes a generated definition and this file stops checking – in
particular the `suspended.remove` of `add_issued_certificate` (fix bb96d233 of F-C02-1; the seeded changes
C01-r3 and C02-r6 take it out again): `pinned_add_issued_differs` shows that the pinned behaviour is not
what the generated body does. -/

def insM (m : KM.AMap.AMap KeyId ChildCert) (k : KeyId) (c : ChildCert) := KM.AMap.set m k c
def remM (m : KM.AMap.AMap KeyId ChildCert) (k : KeyId) := KM.AMap.del m k

theorem gen_add_issued_certificate_eq_model (cs : ChildCerts) (p : KeyId × ChildCert) :
    KM.Gen.C02.ChildCertificates.add_issued_certificate insM remM (fun _ : ChildCert => p.1) cs.issued cs.suspended p.2 =
      ((cs.addIssued p).issued, (cs.addIssued p).suspended) := rfl

theorem gen_unsuspend_certificate_eq_model (cs : ChildCerts) (p : KeyId × ChildCert) :
    KM.Gen.C02.ChildCertificates.unsuspend_certificate insM remM (fun _ : ChildCert => p.1) cs.issued cs.suspended p.2 =
      ((cs.unsuspend p).issued, (cs.unsuspend p).suspended) := rfl

theorem gen_suspend_certificate_eq_model (cs : ChildCerts) (p : KeyId × ChildCert) :
    KM.Gen.C02.ChildCertificates.suspend_certificate insM remM (fun _ : ChildCert => p.1) cs.issued cs.suspended p.2 =
      ((cs.suspend p).issued, (cs.suspend p).suspended) := rfl

theorem gen_remove_revoked_key_eq_model (cs : ChildCerts) (k : KeyId) :
    KM.Gen.C02.ChildCertificates.remove_revoked_key insM remM cs.issued cs.suspended k =
      ((cs.removeRevoked k).issued, (cs.removeRevoked k).suspended) := rfl

/-- `is_empty` looks at BOTH maps (it is the serde skip predicate of the class's certificates). -/
theorem gen_is_empty_iff (cs : ChildCerts) :
    KM.Gen.C02.ChildCertificates.is_empty (fun m : KM.AMap.AMap KeyId ChildCert => m.isEmpty) cs.issued cs.suspended = true ↔
      cs.issued = [] ∧ cs.suspended = [] := by
  simp [KM.Gen.C02.ChildCertificates.is_empty, List.isEmpty_iff]

/-- The pinned `add_issued_certificate` (before bb96d233: no `suspended.remove`) differs from the generated
body on a key that is suspended. -/
theorem pinned_add_issued_differs (k : KeyId) (c : ChildCert) :
    let cs : ChildCerts := { issued := [], suspended := [(k, c)] }
    (KM.Gen.C02.ChildCertificates.add_issued_certificate insM remM (fun _ : ChildCert => k) cs.issued cs.suspended c).2 ≠
      (cs.pinnedAddIssued (k, c)).suspended := by
  simp [KM.Gen.C02.ChildCertificates.add_issued_certificate, remM, KM.AMap.del, ChildCerts.pinnedAddIssued]

end KM.Props.C02Src
