/-
C02 (source tie) — the hand-written model of `CertifiedKey::wants_update`
(`KM.CaK.CertKey.wantsUpdate`, Ca/Keys.lean) equals the definition that the translator `pure_fns`
regenerates from `/repo/src/server/ca/keys.rs` on every run (`Generated/PureFnsC02.lean`,
`KM.Gen.CertifiedKey.wants_update`).

`sync_idempotent`, `sync_converges_partial` and the key-sync lemmas (Props/C02.lean, Ca/LemmasKeySync.lean)
are about `wantsUpdate`.  With `gen_wants_update_eq_model` it is tied to the Rust body: the order of the
tests, the early returns, `<=` vs `<`, the sign tests on the remaining times, the one-week constant,
the TA exception – each such edit changes the generated definition and this file stops checking.

NOT covered by the translation (trusted name map, stated in the header of the generated file): the two
`f64` ratio tests are mapped to the model's integer predicates `10·e < 9·c` and `10·e > 11·c`, and the
three facts about the certificate (`ca_repository` ends with `/`, resource difference empty, resources
= all) enter as Booleans.  A change *inside* those expressions makes the translator refuse the
function (the obligation then reports broken), it cannot be proved equal.

Difference that does not matter, bridged here: argument order, and the model reads the Booleans from
its `Cert` record (`slash`, `seteq newRes cert.res`, `all`).
-/
import KrillModel.Generated.PureFnsC02
import KrillModel.Ca.Keys
namespace KM.Props.C02Src
open KM.CaK KM.Res

/-- The definition generated from the body of `wants_update` is the model function – for every key,
every entitled resource set, every pair of not-after times and every clock value. -/
theorem gen_wants_update_eq_model (k : CertKey) (newRes : ResSet) (newNa now : Int) :
    KM.Gen.CertifiedKey.wants_update k.cert.slash (seteq newRes k.cert.res) k.cert.all k.cert.na newNa now =
      k.wantsUpdate newRes newNa now := by
  unfold KM.Gen.CertifiedKey.wants_update CertKey.wantsUpdate
  generalize k.cert.slash = s
  generalize seteq newRes k.cert.res = e
  generalize k.cert.all = al
  generalize k.cert.na = na
  cases s <;> cases e <;> cases al <;> simp

/-- Non-vacuity: the generated definition takes both values and reaches the 10 % margins and the
one-week rule (cf. the `example` next to the model). -/
example :
    KM.Gen.CertifiedKey.wants_update false true false 1000 1000 0 = true ∧
    KM.Gen.CertifiedKey.wants_update true false false 1000 1000 0 = true ∧
    KM.Gen.CertifiedKey.wants_update true true false 1000 900 0 = false ∧
    KM.Gen.CertifiedKey.wants_update true true false 1000 899 0 = true ∧
    KM.Gen.CertifiedKey.wants_update true true false 1000 1100 0 = false ∧
    KM.Gen.CertifiedKey.wants_update true true false 1000 1101 0 = true ∧
    KM.Gen.CertifiedKey.wants_update true true false 100000000 (100000000 + 604800) 0 = true ∧
    KM.Gen.CertifiedKey.wants_update true true false 100000000 (100000000 + 604799) 0 = false ∧
    KM.Gen.CertifiedKey.wants_update true true true 100000000 (100000000 + 604799) 0 = true ∧
    KM.Gen.CertifiedKey.wants_update true true false 1000 0 0 = false := by
  decide

end KM.Props.C02Src
