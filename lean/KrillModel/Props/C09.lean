/-
C09 — Background work is durable and recurring maintenance never stops.
Property theorems only; helper lemmas live in `KrillModel.Queue.Lemmas`.
-/
import KrillModel.Queue.Lemmas
import KrillModel.Queue.Wakeup
import KrillModel.Generated.StartupGuard
import KrillModel.Generated.SchedulerTasks
namespace KM.Props.C09
open KM.Queue

/-! ## Claim: earliest first, none iff nothing due -/

/-- Due tasks are handed out earliest first: whatever entry a claim returns, it was
pending, due, and no due pending entry had an earlier time stamp. -/
theorem claim_earliest_first (s s' : QState) (now now2 : Nat) (r : Entry)
    (h : (s', some r) ∈ claim s now now2) :
    ∃ e ∈ s.pending, e.name = r.name ∧ e.val = r.val ∧ e.ts ≤ now ∧
      ∀ x ∈ s.pending, x.ts ≤ now → e.ts ≤ x.ts := by
  unfold claim at h
  split at h
  · simp at h
  · rename_i hne
    simp only [List.mem_map] at h
    obtain ⟨e, he, heq⟩ := h
    have hm := mem_claimChoices.mp he
    simp only [claimWith, Prod.mk.injEq, Option.some.injEq] at heq
    obtain ⟨_, rfl⟩ := heq
    exact ⟨e, hm.1.1, rfl, rfl, hm.1.2, hm.2⟩

/-- A claim returns nothing exactly when no pending task is due. -/
theorem claim_none_iff_nothing_due (s : QState) (now now2 : Nat) :
    (∃ s', (s', none) ∈ claim s now now2) ↔ ∀ x ∈ s.pending, now < x.ts := by
  unfold claim
  constructor
  · rintro ⟨s', h⟩
    split at h
    · rename_i hnil
      intro x hx
      apply Nat.lt_of_not_le
      intro hle
      -- pick a minimal due entry: contradiction with `claimChoices = []`
      have hdue : x ∈ due s now := mem_due.mpr ⟨hx, hle⟩
      -- existence of a minimum of a non-empty list
      have : ∀ (l : List Entry), l ≠ [] → ∃ m ∈ l, ∀ y ∈ l, m.ts ≤ y.ts := by
        intro l
        induction l with
        | nil => intro h; exact absurd rfl h
        | cons a t ih =>
          intro _
          by_cases ht : t = []
          · subst ht; exact ⟨a, by simp, by simp⟩
          · obtain ⟨m, hm, hmin⟩ := ih ht
            by_cases hc : a.ts ≤ m.ts
            · refine ⟨a, by simp, ?_⟩
              intro y hy
              rcases List.mem_cons.mp hy with rfl | hy
              · exact Nat.le_refl _
              · exact Nat.le_trans hc (hmin y hy)
            · refine ⟨m, by simp [hm], ?_⟩
              intro y hy
              rcases List.mem_cons.mp hy with rfl | hy
              · exact Nat.le_of_lt (Nat.lt_of_not_le hc)
              · exact hmin y hy
      obtain ⟨m, hm, hmin⟩ := this (due s now) (List.ne_nil_of_mem hdue)
      have hmc : m ∈ claimChoices s now := by
        rw [mem_claimChoices]
        refine ⟨mem_due.mp hm, ?_⟩
        intro y hy hyle
        exact hmin y (mem_due.mpr ⟨hy, hyle⟩)
      rw [hnil] at hmc
      cases hmc
    · simp at h
  · intro h
    have : claimChoices s now = [] := by
      apply List.eq_nil_iff_forall_not_mem.mpr
      intro e he
      have := (mem_claimChoices.mp he).1
      exact absurd this.2 (Nat.not_le_of_lt (h e this.1))
    rw [this]
    exact ⟨s, by simp⟩

/-- A claim moves exactly the claimed entry: every other pending entry stays pending and
the claimed one is running afterwards (nothing is lost by handing out work). -/
theorem claim_moves (s s' : QState) (now now2 : Nat) (r : Entry)
    (h : (s', some r) ∈ claim s now now2) :
    r ∈ s'.running ∧
    ∃ e ∈ s.pending, e.name = r.name ∧
      ∀ x ∈ s.pending, ¬ (x.ts = e.ts ∧ x.name = e.name) → x ∈ s'.pending := by
  unfold claim at h
  split at h
  · simp at h
  · simp only [List.mem_map] at h
    obtain ⟨e, he, heq⟩ := h
    have hm := mem_claimChoices.mp he
    simp only [claimWith, Prod.mk.injEq, Option.some.injEq] at heq
    obtain ⟨rfl, rfl⟩ := heq
    refine ⟨by simp, e, hm.1.1, rfl, ?_⟩
    intro x hx hne
    exact mem_kvDel.mpr ⟨hx, hne⟩

/-! ## Eventually executed: a due task is handed out after boundedly many claims -/

/-- The pending entries that may be handed out before `t`: not later than `t`, other key. -/
def notAfter (s : QState) (t : Entry) : Nat :=
  (s.pending.filter fun e => decide (e.ts ≤ t.ts) && !(e.sameKey t.ts t.name)).length

/-- Removing from a list an element that passes a filter makes the filtered list shorter. -/
theorem length_filter_filter_lt {α : Type} (l : List α) (p q : α → Bool) (a : α) (ha : a ∈ l)
    (hp : p a = true) (hq : q a = false) :
    ((l.filter q).filter p).length < (l.filter p).length := by
  have hle : ∀ ys : List α, ((ys.filter q).filter p).length ≤ (ys.filter p).length := by
    intro ys
    induction ys with
    | nil => exact Nat.le_refl _
    | cons y ys ihy =>
      cases hqy : q y <;> cases hpy : p y <;>
        simp only [List.filter_cons, hqy, hpy, if_true, if_false, Bool.false_eq_true,
          List.length_cons] <;> omega
  induction l with
  | nil => cases ha
  | cons x xs ih =>
    rcases List.mem_cons.mp ha with rfl | hmem
    · have := hle xs
      simp only [List.filter_cons, hp, hq, if_true, if_false, Bool.false_eq_true,
        List.length_cons]
      omega
    · have := ih hmem
      cases hqx : q x <;> cases hpx : p x <;>
        simp only [List.filter_cons, hqx, hpx, if_true, if_false, Bool.false_eq_true,
          List.length_cons] <;> omega

/-- **Progress of one claim.**  If `t` is pending and due, a claim hands out something, and
either `t`'s key has left the pending scope (it is the one handed out) or `t` is still
pending and strictly fewer entries can be handed out before it. -/
theorem claim_progress (s s' : QState) (now now2 : Nat) (o : Option Entry) (t : Entry)
    (ht : t ∈ s.pending) (hdue : t.ts ≤ now) (h : (s', o) ∈ claim s now now2) :
    o.isSome = true ∧
    (t ∉ s'.pending ∨ (t ∈ s'.pending ∧ notAfter s' t < notAfter s t)) := by
  unfold claim at h
  split at h
  · rename_i hnil
    -- impossible: something is due
    have hnone : ∃ s', (s', (none : Option Entry)) ∈ claim s now now2 := by
      unfold claim; rw [hnil]; exact ⟨s, by simp⟩
    have := (claim_none_iff_nothing_due s now now2).mp hnone t ht
    omega
  · simp only [List.mem_map] at h
    obtain ⟨e, he, heq⟩ := h
    have hm := mem_claimChoices.mp he
    simp only [claimWith, Prod.mk.injEq] at heq
    obtain ⟨rfl, rfl⟩ := heq
    refine ⟨rfl, ?_⟩
    have hle : e.ts ≤ t.ts := hm.2 t ht hdue
    by_cases hk : t.ts = e.ts ∧ t.name = e.name
    · left
      simp only [mem_kvDel]
      exact fun hc => hc.2 hk
    · right
      refine ⟨mem_kvDel.mpr ⟨ht, hk⟩, ?_⟩
      unfold notAfter
      show ((kvDel s.pending e.ts e.name).filter _).length < _
      unfold kvDel
      apply length_filter_filter_lt s.pending _ _ e hm.1.1
      · have hne : e.sameKey t.ts t.name = false := by
          cases hs : e.sameKey t.ts t.name with
          | false => rfl
          | true =>
            have := (sameKey_iff e t.ts t.name).mp hs
            exact absurd ⟨this.1.symm, this.2.symm⟩ hk
        simp [hle, hne]
      · simp [Entry.sameKey]

/-- What happens between two claims (requests scheduling follow-ups, tasks finishing or being
re-scheduled) as far as `t` is concerned: `t` stays pending and nothing is put before it.
Scheduling at or after the present satisfies this once `t` is overdue; re-scheduling `t`'s own
name is covered by `soonest_keeps_earlier` instead. -/
def EnvOk (t : Entry) (s s' : QState) : Prop :=
  t ∈ s'.pending ∧ notAfter s' t ≤ notAfter s t

/-- `t` has survived `k` claims, each made when `t` was due, with environment steps between. -/
inductive Survives (t : Entry) : QState → Nat → Prop
  | zero (s : QState) : t ∈ s.pending → Survives t s 0
  | step (s s1 s2 : QState) (now now2 : Nat) (o : Option Entry) (k : Nat) :
      t ∈ s.pending → EnvOk t s s1 → t.ts ≤ now → (s2, o) ∈ claim s1 now now2 →
      t ∈ s2.pending → Survives t s2 k → Survives t s (k + 1)

/-- **Bounded waiting.**  A due task cannot be passed over more often than there are entries
that may go before it: after at most `notAfter s t` claims the next claim hands out `t`
itself.  In particular every follow-up that was committed to the queue is eventually
executed as long as the scheduler keeps claiming (and restarts do not lose it:
`survives_restart`). -/
theorem due_task_claimed_within (t : Entry) (s : QState) (k : Nat) (h : Survives t s k) :
    k ≤ notAfter s t := by
  induction h with
  | zero s _ => exact Nat.zero_le _
  | step s s1 s2 now now2 o k _ henv hdue hclaim hstill _ ih =>
    have hp := claim_progress s1 s2 now now2 o t henv.1 hdue hclaim
    rcases hp.2 with hgone | ⟨_, hlt⟩
    · exact absurd hstill hgone
    · have := henv.2
      omega

/-- Non-vacuity: a task behind two earlier ones survives two claims and no more. -/
example :
    let t : Entry := ⟨5, "sync", "v"⟩
    let s : QState := ⟨[⟨3, "a", ""⟩, t, ⟨4, "b", ""⟩, ⟨9, "late", ""⟩], []⟩
    notAfter s t = 2 ∧ t ∈ s.pending := by decide

/-! ## Scheduling: soonest keeps the earlier time, if-missing keeps what exists -/

/-- Re-scheduling a task (`TaskQueue::schedule`, `schedule_and_finish_existing`) keeps the
earlier of the two times: afterwards the task is pending no later than requested, and for
every pending entry of that name that existed before there is one now that is no later. -/
theorem soonest_keeps_earlier (s s' : QState) (name val : String) (ts : Nat) (mode : Mode)
    (hm : mode = .replaceExistingSoonest ∨ mode = .finishOrReplaceExistingSoonest)
    (h : s' ∈ schedule s name val ts mode) :
    (∃ e ∈ s'.pending, e.name = name ∧ e.val = val ∧ e.ts ≤ ts) ∧
    ∀ x ∈ s.pending, x.name = name → ∃ y ∈ s'.pending, y.name = name ∧ y.ts ≤ x.ts := by
  obtain ⟨p, hp, r, _, rfl⟩ := mem_schedule h
  have key : ∀ (pend : List Entry), pend = kvPut (delOpt s.pending p) ⟨minOpt ts p, name, val⟩ →
      (∃ e ∈ pend, e.name = name ∧ e.val = val ∧ e.ts ≤ ts) ∧
      ∀ x ∈ s.pending, x.name = name → ∃ y ∈ pend, y.name = name ∧ y.ts ≤ x.ts := by
    intro pend hpend
    subst hpend
    have hmin : minOpt ts p ≤ ts := by
      cases p <;> simp [minOpt]; exact Nat.min_le_left _ _
    refine ⟨⟨⟨minOpt ts p, name, val⟩, by simp, rfl, rfl, hmin⟩, ?_⟩
    intro x hx hxn
    rcases optChoices_spec hp with ⟨rfl, _⟩ | ⟨e, rfl, he, hen⟩
    · -- nothing was deleted: x itself is still there unless it has the new key
      by_cases hk : x.ts = ts ∧ x.name = name
      · exact ⟨⟨ts, name, val⟩, by simp [minOpt], rfl, by simp [hk.1]⟩
      · refine ⟨x, ?_, hxn, Nat.le_refl _⟩
        simp [delOpt, minOpt, hx, hk]
    · -- entry e was replaced by one at min ts e.ts
      by_cases hxe : x.ts = e.ts ∧ x.name = e.name
      · refine ⟨⟨min ts e.ts, name, val⟩, by simp [minOpt], rfl, ?_⟩
        simp only; rw [hxe.1]; exact Nat.min_le_right _ _
      · by_cases hk : x.ts = min ts e.ts ∧ x.name = name
        · refine ⟨⟨min ts e.ts, name, val⟩, by simp [minOpt], rfl, ?_⟩
          simp [hk.1]
        · refine ⟨x, ?_, hxn, Nat.le_refl _⟩
          simp only [delOpt, minOpt, mem_kvPut, mem_kvDel]
          right
          exact ⟨⟨hx, hxe⟩, hk⟩
  rcases hm with rfl | rfl <;> simp only [scheduleWith] <;> exact key _ rfl

/-- `schedule_missing` leaves the queue untouched when the task is already pending or
running … -/
theorem if_missing_keeps_existing (s s' : QState) (name val : String) (ts : Nat)
    (hex : s.hasName name = true) (h : s' ∈ schedule s name val ts .ifMissing) : s' = s := by
  obtain ⟨p, hp, r, hr, rfl⟩ := mem_schedule h
  simp only [scheduleWith]
  split
  · rename_i hnone
    simp only [Bool.and_eq_true, Option.isNone_iff_eq_none] at hnone
    obtain ⟨rfl, rfl⟩ := hnone
    rcases optChoices_spec hp with ⟨_, hpn⟩ | ⟨e, he, _⟩
    · rcases optChoices_spec hr with ⟨_, hrn⟩ | ⟨e, he, _⟩
      · simp only [QState.hasName, Bool.or_eq_true, List.any_eq_true, beq_iff_eq] at hex
        rcases hex with ⟨x, hx, hxn⟩ | ⟨x, hx, hxn⟩
        · exact absurd hxn (hpn x hx)
        · exact absurd hxn (hrn x hx)
      · cases he
    · cases he
  · rfl

/-- … and adds it (pending, at the requested time) when it is not. -/
theorem if_missing_adds_when_absent (s s' : QState) (name val : String) (ts : Nat)
    (hex : s.hasName name = false) (h : s' ∈ schedule s name val ts .ifMissing) :
    s' = { s with pending := kvPut s.pending ⟨ts, name, val⟩ } := by
  obtain ⟨p, hp, r, hr, rfl⟩ := mem_schedule h
  simp only [QState.hasName, Bool.or_eq_false_iff, List.any_eq_false, beq_iff_eq] at hex
  have hp' : p = none := by
    rcases optChoices_spec hp with ⟨rfl, _⟩ | ⟨e, _, he, hen⟩
    · rfl
    · exact absurd hen (hex.1 e he)
  have hr' : r = none := by
    rcases optChoices_spec hr with ⟨rfl, _⟩ | ⟨e, _, he, hen⟩
    · rfl
    · exact absurd hen (hex.2 e he)
  subst hp' hr'
  simp [scheduleWith]

/-! ## Durability: a task only leaves the queue by being finished -/

/-- Scheduling (in any mode) never makes a task name disappear. -/
theorem schedule_keeps_names (s s' : QState) (name val : String) (ts : Nat) (mode : Mode)
    (h : s' ∈ schedule s name val ts mode) (n : String) (hn : s.hasName n = true) :
    s'.hasName n = true := by
  obtain ⟨p, hp, r, hr, rfl⟩ := mem_schedule h
  simp only [QState.hasName, Bool.or_eq_true, List.any_eq_true, beq_iff_eq] at hn ⊢
  -- helper: membership in pending after a put over a delOpt of a same-name entry
  have hpend : ∀ (t : Nat) x, x ∈ s.pending → x.name = n →
      ∃ y ∈ kvPut (delOpt s.pending p) ⟨t, name, val⟩, y.name = n := by
    intro t x hx hxn
    by_cases hnn : n = name
    · exact ⟨⟨t, name, val⟩, by simp, hnn.symm⟩
    · refine ⟨x, ?_, hxn⟩
      have hx' : x ∈ delOpt s.pending p := by
        rcases optChoices_spec hp with ⟨rfl, _⟩ | ⟨e, rfl, _, hen⟩
        · exact hx
        · simp only [delOpt, mem_kvDel]
          exact ⟨hx, fun hc => hnn (by rw [← hxn, hc.2, hen])⟩
      simp only [mem_kvPut]
      right
      exact ⟨hx', fun hc => hnn (by rw [← hxn, hc.2])⟩
  have hrun : ∀ x, x ∈ s.running → x.name = n → n ≠ name → x ∈ delOpt s.running r := by
    intro x hx hxn hnn
    rcases optChoices_spec hr with ⟨rfl, _⟩ | ⟨e, rfl, _, hen⟩
    · exact hx
    · simp only [delOpt, mem_kvDel]
      exact ⟨hx, fun hc => hnn (by rw [← hxn, hc.2, hen])⟩
  cases mode <;> simp only [scheduleWith]
  · rcases hn with ⟨x, hx, hxn⟩ | hn
    · exact Or.inl (hpend _ x hx hxn)
    · exact Or.inr hn
  · rcases hn with ⟨x, hx, hxn⟩ | hn
    · exact Or.inl (hpend _ x hx hxn)
    · exact Or.inr hn
  · rcases hn with ⟨x, hx, hxn⟩ | ⟨x, hx, hxn⟩
    · exact Or.inl (hpend _ x hx hxn)
    · by_cases hnn : n = name
      · exact Or.inl ⟨⟨ts, name, val⟩, by simp, hnn.symm⟩
      · exact Or.inr ⟨x, hrun x hx hxn hnn, hxn⟩
  · rcases hn with ⟨x, hx, hxn⟩ | ⟨x, hx, hxn⟩
    · exact Or.inl (hpend _ x hx hxn)
    · by_cases hnn : n = name
      · exact Or.inl ⟨⟨minOpt ts p, name, val⟩, by simp, hnn.symm⟩
      · exact Or.inr ⟨x, hrun x hx hxn hnn, hxn⟩
  · split
    · rcases hn with ⟨x, hx, hxn⟩ | hn
      · by_cases hk : x.ts = ts ∧ x.name = name
        · exact Or.inl ⟨⟨ts, name, val⟩, by simp, by rw [← hxn, hk.2]⟩
        · exact Or.inl ⟨x, by simp [hx, hk], hxn⟩
      · exact Or.inr hn
    · exact hn

/-- Claiming never makes a task name disappear (it moves to `running`). -/
theorem claim_keeps_names (s s' : QState) (now now2 : Nat) (o : Option Entry)
    (h : (s', o) ∈ claim s now now2) (n : String) (hn : s.hasName n = true) :
    s'.hasName n = true := by
  unfold claim at h
  split at h
  · simp at h; rw [h.1]; exact hn
  · simp only [List.mem_map] at h
    obtain ⟨e, he, heq⟩ := h
    simp only [claimWith, Prod.mk.injEq] at heq
    obtain ⟨rfl, _⟩ := heq
    simp only [QState.hasName, Bool.or_eq_true, List.any_eq_true, beq_iff_eq] at hn ⊢
    rcases hn with ⟨x, hx, hxn⟩ | ⟨x, hx, hxn⟩
    · by_cases hk : x.ts = e.ts ∧ x.name = e.name
      · right
        exact ⟨_, mem_kvPut.mpr (Or.inl rfl), by simp only; rw [← hk.2, hxn]⟩
      · left; exact ⟨x, mem_kvDel.mpr ⟨hx, hk⟩, hxn⟩
    · right
      by_cases hk : x.name = e.name
      · exact ⟨_, mem_kvPut.mpr (Or.inl rfl), by simp only; rw [← hk, hxn]⟩
      · refine ⟨x, ?_, hxn⟩
        simp only [mem_kvPut]
        right
        exact ⟨hx, fun hc => hk hc.2⟩

/-- Re-scheduling a running task (`TaskResult::Reschedule`) keeps every name. -/
theorem reschedule_keeps_names (s s' : QState) (ts nts : Nat) (name : String)
    (h : reschedule s ts name nts = some s') (n : String) (hn : s.hasName n = true) :
    s'.hasName n = true := by
  unfold reschedule at h
  split at h
  · rename_i e hg
    cases h
    simp only [QState.hasName, Bool.or_eq_true, List.any_eq_true, beq_iff_eq] at hn ⊢
    rcases hn with ⟨x, hx, hxn⟩ | ⟨x, hx, hxn⟩
    · by_cases hk : x.ts = nts ∧ x.name = name
      · left; exact ⟨⟨nts, name, e.val⟩, by simp, by rw [← hxn, hk.2]⟩
      · left; exact ⟨x, by simp [hx, hk], hxn⟩
    · by_cases hk : x.ts = ts ∧ x.name = name
      · left; exact ⟨⟨nts, name, e.val⟩, by simp, by rw [← hxn, hk.2]⟩
      · right; exact ⟨x, mem_kvDel.mpr ⟨hx, hk⟩, hxn⟩
  · cases h

/-- Finishing removes only the finished entry: all other names stay. -/
theorem finish_keeps_other_names (s s' : QState) (ts : Nat) (name : String)
    (h : finish s ts name = some s') (n : String) (hne : n ≠ name)
    (hn : s.hasName n = true) : s'.hasName n = true := by
  unfold finish at h
  split at h
  · cases h
    simp only [QState.hasName, Bool.or_eq_true, List.any_eq_true, beq_iff_eq] at hn ⊢
    rcases hn with hn | ⟨x, hx, hxn⟩
    · exact Or.inl hn
    · right
      exact ⟨x, mem_kvDel.mpr ⟨hx, fun hc => hne (by rw [← hxn, hc.2])⟩, hxn⟩
  · cases h

/-! ## Restart -/

/-- Re-queuing at start-up (`reschedule_tasks_at_startup` when its guard fires): whatever
order the running keys are listed in, every listed running task is moved back to pending,
and nothing that was pending or running is lost. -/
theorem startupFold_requeues (now : Nat) :
    ∀ (order : List Entry) (s : QState),
      (∀ e ∈ order, e ∈ s.running) → KeysNodup order →
      ∃ s', startupFold s order now = some s' ∧
        (∀ x, x ∈ s'.running ↔
          x ∈ s.running ∧ ∀ e ∈ order, ¬ (x.ts = e.ts ∧ x.name = e.name)) ∧
        (∀ n, (∃ y ∈ s.pending, y.name = n) → ∃ y ∈ s'.pending, y.name = n) ∧
        (∀ e ∈ order, ∃ y ∈ s'.pending, y.name = e.name) := by
  intro order
  induction order with
  | nil =>
    intro s _ _
    exact ⟨s, rfl, fun x => ⟨fun h => ⟨h, by simp⟩, fun h => h.1⟩, fun _ h => h, by simp⟩
  | cons e rest ih =>
    intro s hall hnd
    have he : e ∈ s.running := hall e (by simp)
    have hsome := kvGet?_isSome_of_mem he
    cases hg : kvGet? s.running e.ts e.name with
    | none => simp [hg] at hsome
    | some e0 =>
      have hr : reschedule s e.ts e.name now =
          some { pending := kvPut s.pending ⟨now, e.name, e0.val⟩,
                 running := kvDel s.running e.ts e.name } := by
        simp [reschedule, hg]
      rw [KeysNodup, List.pairwise_cons] at hnd
      have hall1 : ∀ x ∈ rest, x ∈ kvDel s.running e.ts e.name := by
        intro x hx
        refine mem_kvDel.mpr ⟨hall x (by simp [hx]), ?_⟩
        intro hc
        exact hnd.1 x hx ⟨hc.1.symm, hc.2.symm⟩
      obtain ⟨s', hs', hrun, hpn, hpend⟩ :=
        ih { pending := kvPut s.pending ⟨now, e.name, e0.val⟩,
             running := kvDel s.running e.ts e.name } hall1 hnd.2
      -- pending names persist across the first move
      have hpn1 : ∀ n, (∃ y ∈ s.pending, y.name = n) →
          ∃ y ∈ kvPut s.pending ⟨now, e.name, e0.val⟩, y.name = n := by
        rintro n ⟨y, hy, hyn⟩
        by_cases hk : y.ts = now ∧ y.name = e.name
        · exact ⟨⟨now, e.name, e0.val⟩, by simp, by rw [← hyn, hk.2]⟩
        · exact ⟨y, by simp [hy, hk], hyn⟩
      refine ⟨s', by simp [startupFold, hr, hs'], ?_, ?_, ?_⟩
      · intro x
        rw [hrun x]
        simp only [mem_kvDel, List.mem_cons, forall_eq_or_imp]
        constructor
        · rintro ⟨⟨h1, h2⟩, h3⟩; exact ⟨h1, h2, h3⟩
        · rintro ⟨h1, h2, h3⟩; exact ⟨⟨h1, h2⟩, h3⟩
      · intro n hn
        exact hpn n (hpn1 n hn)
      · intro x hx
        rcases List.mem_cons.mp hx with rfl | hx
        · exact hpn x.name ⟨⟨now, x.name, e0.val⟩, by simp, rfl⟩
        · exact hpend x hx

/-- **Survives restart.**  If the start-up guard fires whenever at least one task is in the
running state, then after `reschedule_tasks_at_startup` – for every queue state, every
number of running tasks and every listing order – no task is left running and every task
that was pending or running is pending. -/
theorem survives_restart (guard : Nat → Bool) (hguard : ∀ n, 0 < n → guard n = true)
    (s : QState) (order : List Entry) (now : Nat)
    (hsub : ∀ e ∈ order, e ∈ s.running) (hcov : ∀ x ∈ s.running, x ∈ order)
    (hnd : KeysNodup order) :
    ∃ s', startup guard s order now = some s' ∧ s'.running = [] ∧
      ∀ n, s.hasName n = true → ∃ y ∈ s'.pending, y.name = n := by
  unfold startup
  by_cases hlen : order = []
  · subst hlen
    have hrun : s.running = [] := by
      apply List.eq_nil_iff_forall_not_mem.mpr
      intro x hx; exact absurd (hcov x hx) (by simp)
    refine ⟨s, by split <;> simp [startupFold], hrun, ?_⟩
    intro n hn
    simp only [QState.hasName, hrun, List.any_nil, Bool.or_false, List.any_eq_true,
      beq_iff_eq] at hn
    exact hn
  · have hpos : 0 < order.length := List.length_pos_iff.mpr hlen
    rw [hguard _ hpos]
    obtain ⟨s', hs', hrun, hpn, hpend⟩ := startupFold_requeues now order s hsub hnd
    refine ⟨s', by simpa using hs', ?_, ?_⟩
    · apply List.eq_nil_iff_forall_not_mem.mpr
      intro x hx
      have := (hrun x).mp hx
      exact this.2 x (hcov x this.1) ⟨rfl, rfl⟩
    · intro n hn
      simp only [QState.hasName, Bool.or_eq_true, List.any_eq_true, beq_iff_eq] at hn
      rcases hn with hn | ⟨x, hx, hxn⟩
      · exact hpn n hn
      · obtain ⟨y, hy, hyn⟩ := hpend x (hcov x hx)
        exact ⟨y, hy, by rw [hyn, hxn]⟩

/-- The guard found in the source (`KrillModel.Generated.StartupGuard`, regenerated from
`reschedule_tasks_at_startup` on every run) fires for every non-empty set of running
tasks.  On the pinned tree the guard was `keys.len() > 1` and this statement was false
(finding F-C09-1, witness `startup_guard_gt1_loses_single_task`). -/
theorem startup_guard_fires_when_nonempty :
    ∀ n, 0 < n → KM.Generated.startupGuard n = true := by
  intro n h
  unfold KM.Generated.startupGuard
  first
    | (simp; omega)
    | (simp only [decide_eq_true_eq]; omega)
    | (cases n <;> simp_all)

/-- Survives restart, for the code as it is. -/
theorem survives_restart_code (s : QState) (order : List Entry) (now : Nat)
    (hsub : ∀ e ∈ order, e ∈ s.running) (hcov : ∀ x ∈ s.running, x ∈ order)
    (hnd : KeysNodup order) :
    ∃ s', startup KM.Generated.startupGuard s order now = some s' ∧ s'.running = [] ∧
      ∀ n, s.hasName n = true → ∃ y ∈ s'.pending, y.name = n :=
  survives_restart _ startup_guard_fires_when_nonempty s order now hsub hcov hnd

/-- Non-vacuity / what the pinned tree did: with the guard `n > 1`, a queue whose only
running task is the recurring re-publication keeps it "running" for ever, and
`schedule_missing` of the same task at start-up then adds nothing: the recurring task is
never executed again. -/
theorem startup_guard_gt1_loses_single_task :
    let s : QState := ⟨[], [⟨5, "all_cas_republish_if_needed", "v"⟩]⟩
    startup (fun n => decide (n > 1)) s s.running 9 = some s ∧
    tqScheduleMissing s "all_cas_republish_if_needed" "v" 9 = [s] := by
  decide

/-- After start-up every recurring task is scheduled: if nothing is running, then after
`schedule_missing` of a list of tasks each of them is pending in every outcome (and stays
so while the remaining ones are added). -/
theorem recurring_scheduled_after_start (tasks : List (String × String × Nat)) :
    ∀ (ss : List QState), (∀ s ∈ ss, s.running = []) →
      ∀ s' ∈ scheduleMissingAll ss tasks,
        s'.running = [] ∧ ∀ t ∈ tasks, ∃ y ∈ s'.pending, y.name = t.1 := by
  induction tasks with
  | nil =>
    intro ss h s' hs'
    simp only [scheduleMissingAll, List.foldl_nil] at hs'
    exact ⟨h s' hs', by simp⟩
  | cons t rest ih =>
    intro ss h s' hs'
    simp only [scheduleMissingAll, List.foldl_cons] at hs'
    -- outcomes after the first task
    have h1 : ∀ s1 ∈ ss.flatMap (fun s => tqScheduleMissing s t.1 t.2.1 t.2.2),
        s1.running = [] ∧ ∃ y ∈ s1.pending, y.name = t.1 := by
      intro s1 hs1
      simp only [List.mem_flatMap] at hs1
      obtain ⟨s0, hs0, hs1⟩ := hs1
      unfold tqScheduleMissing at hs1
      cases hex : s0.hasName t.1 with
      | true =>
        have := if_missing_keeps_existing s0 s1 _ _ _ hex hs1
        subst this
        refine ⟨h _ hs0, ?_⟩
        simp only [QState.hasName, h _ hs0, List.any_nil, Bool.or_false, List.any_eq_true,
          beq_iff_eq] at hex
        exact hex
      | false =>
        have := if_missing_adds_when_absent s0 s1 _ _ _ hex hs1
        rw [this]
        exact ⟨h s0 hs0, ⟨_, mem_kvPut.mpr (Or.inl rfl), rfl⟩⟩
    have hrest := ih _ (fun s1 hs1 => (h1 s1 hs1).1)
    -- names persist through the remaining schedule_missing calls
    have hpersist : ∀ (tasks : List (String × String × Nat)) (ss : List QState) (n : String),
        (∀ s ∈ ss, s.running = [] ∧ ∃ y ∈ s.pending, y.name = n) →
        ∀ s' ∈ scheduleMissingAll ss tasks, ∃ y ∈ s'.pending, y.name = n := by
      intro tasks
      induction tasks with
      | nil => intro ss n h s' hs'; simp only [scheduleMissingAll, List.foldl_nil] at hs'; exact (h s' hs').2
      | cons t2 rest2 ih2 =>
        intro ss n h s' hs'
        simp only [scheduleMissingAll, List.foldl_cons] at hs'
        apply ih2 _ n _ s' hs'
        intro s1 hs1
        simp only [List.mem_flatMap] at hs1
        obtain ⟨s0, hs0, hs1⟩ := hs1
        unfold tqScheduleMissing at hs1
        obtain ⟨hr0, y, hy, hyn⟩ := h s0 hs0
        cases hex : s0.hasName t2.1 with
        | true =>
          have := if_missing_keeps_existing s0 s1 _ _ _ hex hs1
          subst this; exact ⟨hr0, y, hy, hyn⟩
        | false =>
          have := if_missing_adds_when_absent s0 s1 _ _ _ hex hs1
          rw [this]
          refine ⟨hr0, ?_⟩
          by_cases hk : y.ts = prioMillis t2.2.2 ∧ y.name = t2.1
          · exact ⟨_, mem_kvPut.mpr (Or.inl rfl), by simp only; rw [← hk.2, hyn]⟩
          · exact ⟨y, mem_kvPut.mpr (Or.inr ⟨hy, hk⟩), hyn⟩
    refine ⟨(hrest s' hs').1, ?_⟩
    intro t' ht'
    rcases List.mem_cons.mp ht' with rfl | ht'
    · exact hpersist rest _ t'.1 h1 s' hs'
    · exact (hrest s' hs').2 t' ht'

/-! ## Scheduler result handling -/

/-- `TaskResult::Done` removes exactly the claimed entry, `Reschedule` keeps the task, and
a `FollowUp` leaves the follow-up task pending no later than requested. -/
theorem followup_is_pending (s s' : QState) (key : Entry) (name val : String) (secs : Nat)
    (h : some s' ∈ handleResult s key (.followUp name val secs)) :
    ∃ e ∈ s'.pending, e.name = name ∧ e.val = val ∧ e.ts ≤ prioMillis secs := by
  simp only [handleResult, tqScheduleFinish, List.mem_map, Option.some.injEq] at h
  obtain ⟨s1, hs1, rfl⟩ := h
  exact (soonest_keeps_earlier s s1 name val _ _ (Or.inr rfl) hs1).1

theorem reschedule_result_keeps_task (s s' : QState) (key : Entry) (secs : Nat)
    (h : some s' ∈ handleResult s key (.reschedule secs)) :
    ∃ e ∈ s'.pending, e.name = key.name ∧ e.ts = prioMillis secs := by
  simp only [handleResult, List.mem_singleton] at h
  unfold reschedule at h
  split at h
  · cases h; exact ⟨_, mem_kvPut.mpr (Or.inl rfl), rfl, rfl⟩
  · cases h

/-! ## Follow-ups implied by committed changes (over the tables generated from the source)

`KrillModel.Generated.EventTasks` and `KrillModel.Generated.SchedulerTasks` are regenerated
from `mq.rs`, `events.rs`, `taproxy.rs`, `pubd/manager.rs` and `scheduler.rs` on every run.
The lists on the left are the specification (what the property names). -/

open KM.Generated in
/-- CA events that change the set of published objects. -/
def objectChanging : List KM.Generated.CaEvent :=
  [.RoasUpdated, .AspaObjectsUpdated, .ChildCertificatesUpdated, .BgpSecCertificatesUpdated,
   .ChildKeyRevoked, .KeyPendingToNew, .KeyPendingToActive, .KeyRollActivated,
   .KeyRollFinished, .ParentRemoved, .ResourceClassRemoved]

/-- A follow-up put on the queue with `schedule` or `schedule_and_finish_existing` is pending
afterwards whatever else is pending or running (`soonest_keeps_earlier`); with
`schedule_missing` a *running* task of the same name would swallow it
(`if_missing_keeps_existing`) – the follow-up of a change committed while the task runs would
be lost.  So follow-ups must use one of the first two. -/
def guaranteed : KM.Generated.SchedMethod → Bool
  | .Schedule => true
  | .ScheduleAndFinishExisting => true
  | _ => false

/-- `t` is scheduled for event/method `row` with a method that guarantees it is pending. -/
def scheduled (t : KM.Generated.TaskKind)
    (row : List (KM.Generated.TaskKind × KM.Generated.SchedMethod)) : Bool :=
  row.any fun (k, m) => k == t && guaranteed m

/-- What makes `guaranteed` the right notion: in the queue model the two methods leave the
task pending in every outcome, `schedule_missing` does not when the task is running. -/
theorem guaranteed_methods_leave_pending (s s' : QState) (name val : String) (secs : Nat)
    (h : s' ∈ tqSchedule s name val secs ∨ s' ∈ tqScheduleFinish s name val secs) :
    ∃ e ∈ s'.pending, e.name = name ∧ e.ts ≤ prioMillis secs := by
  rcases h with h | h
  · obtain ⟨⟨e, he, hn, _, ht⟩, _⟩ := soonest_keeps_earlier s s' name val _ _ (Or.inl rfl) h
    exact ⟨e, he, hn, ht⟩
  · obtain ⟨⟨e, he, hn, _, ht⟩, _⟩ := soonest_keeps_earlier s s' name val _ _ (Or.inr rfl) h
    exact ⟨e, he, hn, ht⟩

theorem schedule_missing_swallowed_by_running :
    tqScheduleMissing ⟨[], [⟨5, "update_rrdp_if_needed", "v"⟩]⟩ "update_rrdp_if_needed" "v" 9 =
      [⟨[], [⟨5, "update_rrdp_if_needed", "v"⟩]⟩] := by
  decide

/-- Repository synchronisation after an object change. -/
theorem object_change_schedules_repo_sync :
    ∀ e ∈ objectChanging, scheduled .SyncRepo (KM.Generated.caPreSaveTasks e) = true := by
  decide

/-- Parent synchronisation after a request is created (certificate request; parent or
repository added/updated so that requests can be made). -/
theorem request_schedules_parent_sync :
    ∀ e ∈ [KM.Generated.CaEvent.CertificateRequested, .ParentAdded, .ParentUpdated, .RepoUpdated],
      scheduled .SyncParent (KM.Generated.caPreSaveTasks e) = true := by
  decide

/-- Revocation after a key is activated (the old key's revocation request is sent by the
parent sync) and after a class is removed. -/
theorem activation_and_removal_schedule_revocation :
    scheduled .SyncParent (KM.Generated.caPreSaveTasks .KeyRollActivated) = true ∧
    scheduled .ResourceClassRemoved (KM.Generated.caPreSaveTasks .ResourceClassRemoved) = true ∧
    scheduled .UnexpectedKey (KM.Generated.caPreSaveTasks .UnexpectedKeyFound) = true := by
  decide

/-- A parent's change of a child's entitlement or key makes the (local) child sync. -/
theorem parent_change_schedules_child_sync :
    ∀ e ∈ [KM.Generated.CaEvent.ChildUpdatedResources, .ChildKeyRevoked],
      scheduled .SyncParent (KM.Generated.caPostSaveTasks e) = true := by
  decide

/-- Trust-anchor proxy: a child request triggers the proxy–signer exchange, a signer response
triggers publication and the children's syncs. -/
theorem ta_proxy_followups :
    scheduled .SyncTrustAnchorProxySignerIfPossible (KM.Generated.taPreSaveTasks .ChildRequestAdded) = true ∧
    scheduled .SyncRepo (KM.Generated.taPreSaveTasks .SignerResponseReceived) = true ∧
    scheduled .SyncParent (KM.Generated.taPostSaveTasks .SignerResponseReceived) = true := by
  decide

/-- An RRDP update after a publication (and after a publisher is removed). -/
theorem publication_schedules_rrdp_update :
    scheduled .RrdpUpdateIfNeeded (KM.Generated.pubdMethodTasks .publish) = true ∧
    scheduled .RrdpUpdateIfNeeded (KM.Generated.pubdMethodTasks .remove_publisher) = true := by
  decide

/-- …and the task is put on the queue only after the change is in the repository content: a
task scheduled first could be claimed, find nothing staged and finish before the change
exists (a lost wake-up: the change would wait for the next unrelated publication). -/
theorem publication_schedules_after_change :
    KM.Generated.pubdScheduleAfterChange .publish = true ∧
    KM.Generated.pubdScheduleAfterChange .remove_publisher = true := by
  decide

/-! ## Follow-ups are scheduled after the change, with a method that cannot be swallowed -/

open KM.Queue.Wakeup in
theorem wakeup_inv_step (s : St) (st : Step) (h : Inv s) : Inv (step ⟨true, true⟩ s st) := by
  obtain ⟨hr, hs⟩ := h
  cases st with
  | first =>
    simp only [step]
    split
    · exact ⟨hr, hs⟩
    · refine ⟨hr, fun _ => Or.inr (Or.inr (by simp [doStage]))⟩
  | second =>
    simp only [step]
    split
    · exact ⟨hr, hs⟩
    · refine ⟨hr, fun _ => Or.inl (by simp [doSchedule])⟩
  | claim =>
    simp only [step]
    split
    · refine ⟨by simp, fun _ => Or.inr (Or.inl rfl)⟩
    · exact ⟨hr, hs⟩
  | process =>
    simp only [step]
    split
    · refine ⟨by simp, fun h => by simp at h⟩
    · exact ⟨hr, hs⟩
  | finish =>
    simp only [step]
    split
    · rename_i h2
      refine ⟨by simp, fun hst => ?_⟩
      have h2' : s.running = 2 := by simpa using h2
      rcases hs hst with hp | hr1 | hn
      · exact Or.inl hp
      · omega
      · exact Or.inr (Or.inr hn)
    · exact ⟨hr, hs⟩

open KM.Queue.Wakeup in
/-- **No change is left behind.**  With the statement order and the scheduling method of the
unchanged tree – change first, then `schedule` – for any number of request threads and every
interleaving with the scheduler: whenever everything has come to rest, nothing is staged. -/
theorem followup_never_lost (threads : Nat) (steps : List Step)
    (hq : quiescent (run ⟨true, true⟩ (init threads) steps) = true) :
    (run ⟨true, true⟩ (init threads) steps).staged = false := by
  have hinv : ∀ (steps : List Step) (s : St), Inv s → Inv (run ⟨true, true⟩ s steps) := by
    intro steps
    induction steps with
    | nil => intro s h; exact h
    | cons st rest ih => intro s h; exact ih _ (wakeup_inv_step s st h)
  have h0 : Inv (init threads) := ⟨by simp [init], fun h => by simp [init] at h⟩
  have := hinv steps (init threads) h0
  generalize run ⟨true, true⟩ (init threads) steps = s at *
  simp only [quiescent, Bool.and_eq_true, beq_iff_eq, Bool.not_eq_true'] at hq
  obtain ⟨⟨⟨h0', h1⟩, hp⟩, hrun⟩ := hq
  cases hst : s.staged with
  | false => rfl
  | true =>
    rcases this.2 hst with h | h | h
    · rw [hp] at h; cases h
    · omega
    · omega

open KM.Queue.Wakeup in
/-- Scheduling first loses the change: the task is claimed, finds nothing and is finished
before the change is staged (the seeded change C18-r2). -/
theorem schedule_before_change_loses :
    let s := run ⟨false, true⟩ (init 1) [.first, .claim, .process, .finish, .second]
    quiescent s = true ∧ s.staged = true := by decide

open KM.Queue.Wakeup in
/-- `schedule_missing` loses the change made while the task is running after it has looked
(the seeded change C09 round 1). -/
theorem schedule_missing_loses :
    let s := run ⟨true, false⟩ (init 2) [.first, .second, .claim, .process, .first, .second, .finish]
    quiescent s = true ∧ s.staged = true := by decide

/-- Tie to the source: the code of `RepositoryManager::publish` and `remove_publisher` is the
instance `⟨changeFirst := true, guaranteed := true⟩` the theorem is about. -/
theorem source_publish_is_change_first_guaranteed :
    KM.Generated.pubdScheduleAfterChange .publish = true ∧
    scheduled .RrdpUpdateIfNeeded (KM.Generated.pubdMethodTasks .publish) = true ∧
    KM.Generated.pubdScheduleAfterChange .remove_publisher = true ∧
    scheduled .RrdpUpdateIfNeeded (KM.Generated.pubdMethodTasks .remove_publisher) = true := by
  decide

/-- The recurring maintenance tasks. -/
def recurring : List KM.Generated.TaskKind :=
  [.RepublishIfNeeded, .RenewObjectsIfNeeded, .UpdateSnapshots]

/-- After every start the recurring tasks (re-publication, object renewal, snapshot update)
and the parent refresh are scheduled again (`schedule_missing`; with
`recurring_scheduled_after_start` and `survives_restart_code`: they are then pending). -/
theorem start_schedules_recurring :
    ∀ t ∈ recurring ++ [KM.Generated.TaskKind.SyncParent], t ∈ KM.Generated.startMissing := by
  decide

/-- … and they are scheduled on EVERY start: the scheduling calls of the store-wide recurring tasks are plain
statements of `queue_start_tasks`, inside no loop and under no condition (`startGuards`, regenerated from the source
with the loops and conditions each call is nested in).  A call moved under "if there are CAs" would leave an instance
that starts empty without re-publication and renewal for the life of the process – the tasks only ever re-queue
themselves, and nothing else schedules them. -/
theorem recurring_scheduled_unconditionally :
    ∀ t ∈ recurring, (t, ([] : List String)) ∈ KM.Generated.startGuards := by
  decide

/-- The guards of the other start tasks are the reviewed ones: per CA (and per parent), the re-sync threshold, the
suspension and testbed and RISwhois switches of the configuration. -/
theorem start_guards_reviewed :
    KM.Generated.startGuards.map (fun g => (g.1, g.2.length)) =
      [(.SyncParent, 2), (.SyncRepo, 2), (.SuspendChildrenIfNeeded, 2), (.RepublishIfNeeded, 0),
       (.RenewObjectsIfNeeded, 0), (.RefreshAnnouncementsInfo, 1), (.UpdateSnapshots, 0), (.RenewTestbedTa, 1)] ∧
    (∀ g ∈ KM.Generated.startGuards, g.1 = .SyncParent ∨ g.1 = .SyncRepo ∨ g.1 = .SuspendChildrenIfNeeded →
      g.2.head? = some "for handle in &cas") := by
  decide

/-- A recurring task never ends without scheduling itself again: the only result its handler
can return is a follow-up of the same task. -/
theorem recurring_never_stops :
    ∀ t ∈ recurring, KM.Generated.taskResults t = [.followUp t] := by
  decide

/-- The parent refresh either follows itself up, is re-scheduled, or ends (`Done` is returned
only for an unknown parent or a removed CA, scheduler.rs `sync_parent`). -/
theorem parent_refresh_results :
    ∀ r ∈ KM.Generated.taskResults .SyncParent,
      r = .followUp .SyncParent ∨ r = .reschedule ∨ r = .done := by
  decide

/-- No task handler follows up with a *different* task (so `schedule_and_finish_existing`,
which finishes the running entry of the follow-up's name, always finishes the task that
just ran). -/
theorem followups_are_self (t t' : KM.Generated.TaskKind)
    (h : KM.Generated.ResultKind.followUp t' ∈ KM.Generated.taskResults t) : t' = t := by
  cases t <;> simp [KM.Generated.taskResults] at h <;> exact h

/-! ## Non-vacuity -/

example : WF (⟨[⟨3, "a", "x"⟩, ⟨5, "b", "y"⟩], [⟨1, "c", "z"⟩]⟩ : QState) := by
  simp [WF, KeysNodup]

example : (⟨⟨[⟨5, "b", "y"⟩], [⟨9, "a", "x"⟩]⟩, some ⟨9, "a", "x"⟩⟩ : QState × Option Entry)
    ∈ claim ⟨[⟨3, "a", "x"⟩, ⟨5, "b", "y"⟩], []⟩ 9 9 := by decide

end KM.Props.C09
