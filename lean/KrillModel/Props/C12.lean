/-
C12 — Up-down (RFC 6492) and publication (RFC 8181) requests act only for the registered
identity key.

Property theorems only; helper lemmas live in `KrillModel.Proto.Lemmas`; model
`KrillModel.Proto.Cms`.  Every theorem holds for every decoder `decode : Bytes → Option Signed`
(every way byte strings map to signed messages – so in particular for every corruption of a
valid message: it either no longer decodes, or decodes to *some* signed message, and then the
theorems apply to that message), for every state of the parent CA / publication server (so
before and after any identity update on either side) and every message.
-/
import KrillModel.Proto.Lemmas
namespace KM.Props.C12
open KM.Proto

variable {Bytes : Type}

theorem no_act {σ μ : Type} (s : σ) (w : Refusal)
    (h : (s, (Out.refused w : Out μ)).1 ≠ s ∨ ∃ m, (s, (Out.refused w : Out μ)).2 = .replied m) :
    False := by
  rcases h with h | ⟨m, h⟩
  · exact h rfl
  · cases h

/-! ## Only the key registered for the named sender makes anything happen -/

/-- RFC 6492: if the parent CA changes in any way, or any reply comes back, then the bytes decode
to a message whose signature validates (key and validity) under the ID key registered – in this
very state – for the child named as its sender. -/
theorem acts_only_for_registered_key (decode : Bytes → Option (Signed Msg)) (ca : Ca) (bytes : Bytes)
    (h : (rfc6492 decode ca bytes).1 ≠ ca ∨ ∃ m, (rfc6492 decode ca bytes).2 = .replied m) :
    ∃ sg c, decode bytes = some sg ∧ lookup ca.children sg.body.sender = some c ∧
      sg.signer = c.idKey ∧ sg.fresh = true := by
  have g := rfc6492_gate decode ca bytes
  generalize rfc6492 decode ca bytes = r at g h
  cases g with
  | ta _ => exact (no_act _ _ h).elim
  | undecodable _ => exact (no_act _ _ h).elim
  | unknown _ _ _ => exact (no_act _ _ h).elim
  | badSig _ _ _ _ _ => exact (no_act _ _ h).elim
  | passed sg c _ hd hl hs _ _ => exact ⟨sg, c, hd, hl, hs.1, hs.2⟩

/-- RFC 8181: the same for the publication server; the publisher is the one named in the URL, the
key the one in its access record. -/
theorem acts_only_for_registered_key_8181 (decode : Bytes → Option (Signed PMsg)) (srv : Server)
    (publisher : Handle) (bytes : Bytes)
    (h : (rfc8181 decode srv publisher bytes).1 ≠ srv ∨
         ∃ m, (rfc8181 decode srv publisher bytes).2 = .replied m) :
    ∃ sg p, decode bytes = some sg ∧ lookup srv.publishers publisher = some p ∧
      sg.signer = p.idKey ∧ sg.fresh = true := by
  have g := rfc8181_gate decode srv publisher bytes
  generalize rfc8181 decode srv publisher bytes = r at g h
  cases g with
  | unknown _ => exact (no_act _ _ h).elim
  | undecodable _ _ _ => exact (no_act _ _ h).elim
  | badSig _ _ _ _ _ => exact (no_act _ _ h).elim
  | passed p sg hl hd hs _ _ => exact ⟨sg, p, hd, hl, hs.1, hs.2⟩

/-! ## Everything else is refused, and nothing changes -/

/-- RFC 6492: a message that is not signed with the key registered for its claimed sender –
another child's key, a replaced identity, a random key, a sender that is not a child, bytes that
do not decode – is refused before anything is done: same state, no reply. -/
theorem refused_no_change (decode : Bytes → Option (Signed Msg)) (ca : Ca) (bytes : Bytes)
    (h : ¬ ∃ sg c, decode bytes = some sg ∧ lookup ca.children sg.body.sender = some c ∧
      sg.signer = c.idKey ∧ sg.fresh = true) :
    ∃ why, rfc6492 decode ca bytes = (ca, .refused why) ∧ why ≠ .processing := by
  have g := rfc6492_gate decode ca bytes
  generalize rfc6492 decode ca bytes = r at g
  cases g with
  | ta _ => exact ⟨_, rfl, by intro e; cases e⟩
  | undecodable _ => exact ⟨_, rfl, by intro e; cases e⟩
  | unknown _ _ _ => exact ⟨_, rfl, by intro e; cases e⟩
  | badSig _ _ _ _ _ => exact ⟨_, rfl, by intro e; cases e⟩
  | passed sg c _ hd hl hs _ _ => exact absurd ⟨sg, c, hd, hl, hs.1, hs.2⟩ h

theorem refused_no_change_8181 (decode : Bytes → Option (Signed PMsg)) (srv : Server)
    (publisher : Handle) (bytes : Bytes)
    (h : ¬ ∃ sg p, decode bytes = some sg ∧ lookup srv.publishers publisher = some p ∧
      sg.signer = p.idKey ∧ sg.fresh = true) :
    ∃ why, rfc8181 decode srv publisher bytes = (srv, .refused why) ∧ why ≠ .processing := by
  have g := rfc8181_gate decode srv publisher bytes
  generalize rfc8181 decode srv publisher bytes = r at g
  cases g with
  | unknown _ => exact ⟨_, rfl, by intro e; cases e⟩
  | undecodable _ _ _ => exact ⟨_, rfl, by intro e; cases e⟩
  | badSig _ _ _ _ _ => exact ⟨_, rfl, by intro e; cases e⟩
  | passed p sg hl hd hs _ _ => exact absurd ⟨sg, p, hd, hl, hs.1, hs.2⟩ h

/-- Corruption: what happens depends on the bytes only through what they decode to.  So a
corrupted copy `bytes'` of a message is treated exactly like the original if it still decodes to
the identical signed message (same sender, recipient, payload, still validating – e.g. a flipped
padding bit), and in every other case the theorems above apply to whatever it decodes to: refused
without change unless that is itself validly signed with the registered key of its sender. -/
theorem outcome_depends_on_decoding_only (decode : Bytes → Option (Signed Msg)) (ca : Ca)
    (bytes bytes' : Bytes) (h : decode bytes' = decode bytes) :
    rfc6492 decode ca bytes' = rfc6492 decode ca bytes := by
  unfold rfc6492; rw [h]

theorem outcome_depends_on_decoding_only_8181 (decode : Bytes → Option (Signed PMsg)) (srv : Server)
    (publisher : Handle) (bytes bytes' : Bytes) (h : decode bytes' = decode bytes) :
    rfc8181 decode srv publisher bytes' = rfc8181 decode srv publisher bytes := by
  unfold rfc8181; rw [h]

/-- A corrupted copy that is accepted although it does *not* decode to the original message is
nevertheless a message validly signed with the registered key of its own claimed sender – which a
corruption of a message signed under a one-off key cannot produce (symbolic cryptography). -/
theorem corrupted_accepted_only_if_authentic (decode : Bytes → Option (Signed Msg)) (ca : Ca)
    (bytes' : Bytes)
    (hacc : (rfc6492 decode ca bytes').1 ≠ ca ∨ ∃ m, (rfc6492 decode ca bytes').2 = .replied m) :
    ∃ sg c, decode bytes' = some sg ∧ lookup ca.children sg.body.sender = some c ∧
      sg.signer = c.idKey ∧ sg.fresh = true :=
  acts_only_for_registered_key decode ca bytes' hacc

/-- Identity updates: once the parent has registered a new ID key for a child, a message under
the replaced key is refused without change, whatever it asks for … -/
theorem replaced_identity_refused (decode : Bytes → Option (Signed Msg)) (ca : Ca) (bytes : Bytes)
    (sg : Signed Msg) (c : ChildRec) (newKey : Key)
    (hd : decode bytes = some sg) (hl : lookup ca.children sg.body.sender = some c)
    (hold : sg.signer ≠ newKey) :
    ∃ why, rfc6492 decode (ca.updateChildId sg.body.sender newKey) bytes =
      (ca.updateChildId sg.body.sender newKey, .refused why) ∧ why ≠ .processing := by
  apply refused_no_change
  rintro ⟨sg', c', hd', hl', hs', _⟩
  rw [hd] at hd'; cases hd'
  have : lookup (ca.updateChildId sg.body.sender newKey).children sg.body.sender =
      some { c with idKey := newKey } := by
    simpa [Ca.updateChildId] using
      lookup_update_eq ca.children sg.body.sender (fun c => { c with idKey := newKey }) c hl
  rw [this] at hl'
  cases hl'
  exact hold hs'

/-- … and a message under the new key passes the identity check (what happens next is up to the
request). -/
theorem new_identity_accepted (decode : Bytes → Option (Signed Msg)) (ca : Ca) (bytes : Bytes)
    (sg : Signed Msg) (c : ChildRec) (hta : ca.handle ≠ "ta")
    (hd : decode bytes = some sg) (hl : lookup ca.children sg.body.sender = some c)
    (hfresh : sg.fresh = true) :
    ∀ why, rfc6492 decode (ca.updateChildId sg.body.sender sg.signer) bytes =
        (ca.updateChildId sg.body.sender sg.signer, .refused why) → why = .processing := by
  intro why h
  have g := rfc6492_gate decode (ca.updateChildId sg.body.sender sg.signer) bytes
  have hl2 : lookup (ca.updateChildId sg.body.sender sg.signer).children sg.body.sender =
      some { c with idKey := sg.signer } := by
    simpa [Ca.updateChildId] using
      lookup_update_eq ca.children sg.body.sender (fun c => { c with idKey := sg.signer }) c hl
  rw [h] at g
  cases g with
  | ta hh => exact absurd hh hta
  | undecodable hh => rw [hd] at hh; cases hh
  | unknown sg' hh hl' => rw [hd] at hh; cases hh; rw [hl2] at hl'; cases hl'
  | badSig sg' c' hh hl' hs =>
    rw [hd] at hh; cases hh; rw [hl2] at hl'; cases hl'
    exact absurd ⟨rfl, hfresh⟩ hs
  | passed sg' c' _ hh hl' hs r hr =>
    split at hr
    · simp only [Prod.mk.injEq, Out.refused.injEq] at hr; exact hr.2
    · simp only [Prod.mk.injEq] at hr; cases hr.2

/-! ## An accepted request acts for its sender only -/

/-- RFC 6492: whatever an accepted request does – **the automatic un-suspension of a suspended
sender included** – it does to the record of the child named as sender: every other child's
record, the CA's own identity and classes are untouched; a new or replaced certificate (one issued
on request, or re-issued because the sender came back from suspension) is issued to that child
with resources inside its *current* entitlement and inside the class; a certificate that
disappears is the one for the key named in the request, and for a revocation that key is one the
sender has in use; no suspended certificate appears, and one disappears only from the slot of the
key named in the request or of a key the suspended sender has in use. -/
theorem scope_of_accepted (decode : Bytes → Option (Signed Msg)) (ca : Ca) (bytes : Bytes)
    (sg : Signed Msg) (hd : decode bytes = some sg) :
    let ca' := (rfc6492 decode ca bytes).1
    ca'.handle = ca.handle ∧ ca'.idKey = ca.idKey ∧ ca'.classes = ca.classes ∧
    (∀ h, h ≠ sg.body.sender → lookup ca'.children h = lookup ca.children h) ∧
    (∀ ce ∈ ca'.certs, ce ∈ ca.certs ∨
      (ce.2.2.1 = sg.body.sender ∧
        ∃ c res, lookup ca.children sg.body.sender = some c ∧ subset ce.2.2.2.1 c.resources = true ∧
          lookup ca.classes ce.2.1 = some res ∧ subset ce.2.2.2.1 res = true)) ∧
    (∀ ce ∈ ca.certs, ce ∈ ca'.certs ∨
      (sg.body.payload.key? = some ce.1 ∧
        ∀ cls k, sg.body.payload = .revoke cls k →
          ∃ c, lookup ca.children sg.body.sender = some c ∧ c.inUse.any (·.1 == k) = true)) ∧
    (∀ s ∈ ca'.suspendedCerts, s ∈ ca.suspendedCerts) ∧
    (∀ s ∈ ca.suspendedCerts, s ∈ ca'.suspendedCerts ∨ sg.body.payload.key? = some s.key ∨
      ∃ c, lookup ca.children sg.body.sender = some c ∧ c.suspended = true ∧
        (c.inUse.any fun ku => ku.1 == s.key && ku.2 == s.cls) = true) := by
  have g := rfc6492_gate decode ca bytes
  generalize rfc6492 decode ca bytes = r at g
  have same : ∀ ca0 : Ca, ca0 = ca →
      ca0.handle = ca.handle ∧ ca0.idKey = ca.idKey ∧ ca0.classes = ca.classes ∧
      (∀ h, h ≠ sg.body.sender → lookup ca0.children h = lookup ca.children h) ∧
      (∀ ce ∈ ca0.certs, ce ∈ ca.certs ∨
        (ce.2.2.1 = sg.body.sender ∧
          ∃ c res, lookup ca.children sg.body.sender = some c ∧ subset ce.2.2.2.1 c.resources = true ∧
            lookup ca.classes ce.2.1 = some res ∧ subset ce.2.2.2.1 res = true)) ∧
      (∀ ce ∈ ca.certs, ce ∈ ca0.certs ∨
        (sg.body.payload.key? = some ce.1 ∧
          ∀ cls k, sg.body.payload = .revoke cls k →
            ∃ c, lookup ca.children sg.body.sender = some c ∧ c.inUse.any (·.1 == k) = true)) ∧
      (∀ s ∈ ca0.suspendedCerts, s ∈ ca.suspendedCerts) ∧
      (∀ s ∈ ca.suspendedCerts, s ∈ ca0.suspendedCerts ∨ sg.body.payload.key? = some s.key ∨
        ∃ c, lookup ca.children sg.body.sender = some c ∧ c.suspended = true ∧
          (c.inUse.any fun ku => ku.1 == s.key && ku.2 == s.cls) = true) := by
    intro ca0 h; subst h
    exact ⟨rfl, rfl, rfl, fun _ _ => rfl, fun ce h => Or.inl h, fun ce h => Or.inl h,
      fun s h => h, fun s h => Or.inl h⟩
  cases g with
  | ta _ => exact same _ rfl
  | undecodable _ => exact same _ rfl
  | unknown _ _ _ => exact same _ rfl
  | badSig _ _ _ _ _ => exact same _ rfl
  | passed sg' c _ hd' hl hs r hr =>
    rw [hd] at hd'; cases hd'
    obtain ⟨d1, d2, d3, d4, d5, d6, d7, d8⟩ :=
      processRequest_frame ca sg.body.sender c sg.body.payload
    have hfst : r.1 = (processRequest ca sg.body.sender c sg.body.payload).1 := by
      rw [hr]
      split
      · rename_i heq; rw [heq]
      · rename_i heq; rw [heq]
    simp only
    rw [hfst]
    refine ⟨d1, d2, d3, d4, ?_, ?_, d7, ?_⟩
    · intro ce hce
      rcases d5 ce hce with h | ⟨h1, h2, res, h3, h4⟩
      · left; exact h
      · right; exact ⟨h1, c, res, hl, h2, h3, h4⟩
    · intro ce hce
      rcases d6 ce hce with h | ⟨h1, h2⟩
      · left; exact h
      · right; exact ⟨h1, fun cls k hp => ⟨c, hl, h2 cls k hp⟩⟩
    · intro s hs'
      rcases d8 s hs' with h | h | ⟨h1, h2⟩
      · left; exact h
      · right; left; exact h
      · right; right; exact ⟨c, hl, h1, h2⟩

/-- RFC 6492 list: the reply names only classes the sender is entitled in, with resources inside
its entitlement, and only certificates issued to that sender for that class – with the resources
these certificates carry. -/
theorem list_only_own (ca : Ca) (child : Handle) (c : ChildRec) :
    ∀ e ∈ entitlements ca child c, subset e.2.1 c.resources = true ∧
      ∀ kc ∈ e.2.2, ∃ ce ∈ ca.certs, ce.1 = kc.1 ∧ ce.2.1 = e.1 ∧ ce.2.2.1 = child ∧
        ce.2.2.2.1 = kc.2 := by
  intro e he
  simp only [entitlements, List.mem_map, List.mem_filter] at he
  obtain ⟨cl, _, rfl⟩ := he
  refine ⟨subset_inter_left _ _, ?_⟩
  intro kc hkc
  simp only [List.mem_filterMap, List.mem_filter, Option.map_eq_some_iff] at hkc
  obtain ⟨ku, _, ce, hfind, rfl⟩ := hkc
  have h1 := List.mem_of_find?_eq_some hfind
  have h2 := List.find?_some hfind
  simp only [Bool.and_eq_true, beq_iff_eq] at h2
  exact ⟨ce, h1, h2.1.1, h2.1.2, h2.2, rfl⟩

/-- RFC 6492, request kind by request kind – the only requests that are answered at all are list,
issue and revoke, and each acts for the sender of the validated message (`ca'` is the state
afterwards):
* **list**: the reply is the sender's entitlement: resources inside what the parent entitled it
  to, and only certificates the CA holds for the sender; a listed certificate that the CA did not
  hold before the request (re-issued by the un-suspension) carries only resources inside the
  sender's entitlement; for a sender that was not suspended nothing changes at all;
* **issue**: the reply carries a certificate for the key of the request, issued to the sender
  (it is in the CA's state under the sender's name afterwards), with resources inside the
  sender's entitlement and inside the class;
* **revoke**: the reply confirms the key of the request; either the class is unknown and nothing
  was done (beyond un-suspending the sender), or the key is one the sender has in use IN THE CLASS
  THE REQUEST NAMES (since fix 239f0a59; a key in use in another class is not answered), or (since
  fix 7be8c4c6) it is one the sender HAD in use and this CA revoked itself (marked revoked before
  the request, or dropped by the un-suspension of this very request) – then nothing is done
  either.  In every case the key is the sender's own. -/
theorem acts_for_sender_by_kind (decode : Bytes → Option (Signed Msg)) (ca : Ca) (bytes : Bytes)
    (m : Signed Msg) (h : (rfc6492 decode ca bytes).2 = .replied m) :
    ∃ sg c, decode bytes = some sg ∧ lookup ca.children sg.body.sender = some c ∧
      sg.signer = c.idKey ∧
      match sg.body.payload with
      | .list =>
        (c.suspended = false → (rfc6492 decode ca bytes).1 = ca) ∧
        ∃ cls, m.body.payload = .listResponse cls ∧
          ∀ e ∈ cls, subset e.2.1 c.resources = true ∧
            ∀ kc ∈ e.2.2, ∃ ce ∈ (rfc6492 decode ca bytes).1.certs,
              ce.1 = kc.1 ∧ ce.2.1 = e.1 ∧ ce.2.2.1 = sg.body.sender ∧ ce.2.2.2.1 = kc.2 ∧
              (ce ∈ ca.certs ∨ subset kc.2 c.resources = true)
      | .issue cls key limit _ =>
        ∃ grant res, m.body.payload = .issueResponse cls key grant ∧
          (key, cls, sg.body.sender, grant, limit) ∈ (rfc6492 decode ca bytes).1.certs ∧
          lookup ca.classes cls = some res ∧
          subset grant c.resources = true ∧ subset grant res = true
      | .revoke cls key =>
        m.body.payload = .revokeResponse cls key ∧
          ((lookup ca.classes cls = none ∧ (c.suspended = false → (rfc6492 decode ca bytes).1 = ca)) ∨
            c.inUse.any (fun ku => ku.1 == key && ku.2 == cls) = true ∨
            c.inUse.any (·.1 == key) = true ∧ c.suspended = true ∨
            (c.revoked.contains key = true ∧ (c.suspended = false → (rfc6492 decode ca bytes).1 = ca)))
      | _ => False := by
  have g := rfc6492_gate decode ca bytes
  generalize rfc6492 decode ca bytes = r at g h
  cases g with
  | ta _ => cases h
  | undecodable _ => cases h
  | unknown _ _ _ => cases h
  | badSig _ _ _ _ _ => cases h
  | passed sg c _ hd hl hs r hr =>
    refine ⟨sg, c, hd, hl, hs.1, ?_⟩
    obtain ⟨_, _, _, _, f5, _⟩ := processRequest_frame ca sg.body.sender c sg.body.payload
    cases hdp : processRequest ca sg.body.sender c sg.body.payload with
    | mk ca2 o =>
      rw [hdp] at hr f5
      cases o with
      | none => rw [hr] at h; cases h
      | some p =>
        simp only at hr
        rw [hr] at h ⊢
        simp only [Out.replied.injEq] at h
        subst h
        obtain ⟨X, cX, hdis, hcl, hres, hin, hns, _, hrevk⟩ :=
          processRequest_replied ca sg.body.sender c sg.body.payload ca2 p hdp
        have hrep := dispatch_reply X sg.body.sender cX sg.body.payload p ca2 hdis
        cases hpl : sg.body.payload with
        | list =>
          rw [hpl] at hrep
          simp only [ReplyFor] at hrep
          obtain ⟨e1, e2⟩ := hrep
          refine ⟨fun hx => by rw [e1]; exact (hns hx).1, _, e2, ?_⟩
          intro e he
          obtain ⟨a, b⟩ := list_only_own X sg.body.sender cX e he
          refine ⟨hres ▸ a, ?_⟩
          intro kc hkc
          obtain ⟨ce, hce, x1, x2, x3, x4⟩ := b kc hkc
          have hce2 : ce ∈ ca2.certs := by rw [e1]; exact hce
          refine ⟨ce, hce2, x1, x2, x3, x4, ?_⟩
          rcases f5 ce hce2 with y | ⟨_, y, _⟩
          · left; exact y
          · right; rw [← x4]; exact y
        | issue cls key limit csrOk =>
          rw [hpl] at hrep
          simp only [ReplyFor] at hrep
          obtain ⟨grant, res, e1, e2, e3, e4, e5⟩ := hrep
          exact ⟨grant, res, e1, e2, hcl ▸ e3, hres ▸ e4, e5⟩
        | revoke cls key =>
          rw [hpl] at hrep
          simp only [ReplyFor] at hrep
          obtain ⟨e1, e2⟩ := hrep
          refine ⟨e1, ?_⟩
          rcases e2 with ⟨a, b⟩ | b | ⟨a, b⟩
          · left; exact ⟨hcl ▸ a, fun hx => by rw [b]; exact (hns hx).1⟩
          · right; left
            obtain ⟨ku, hku, hk⟩ := List.any_eq_true.mp b
            exact List.any_eq_true.mpr ⟨ku, hin ku hku, hk⟩
          · right; right
            cases hs : c.suspended with
            | false =>
              obtain ⟨hX, hcc⟩ := hns hs
              right
              exact ⟨by rw [← hcc]; exact a, fun _ => by rw [b]; exact hX⟩
            | true =>
              rcases hrevk key (List.contains_iff_mem.mp a) with hk | ⟨ku, hku, hk⟩
              · right; exact ⟨List.contains_iff_mem.mpr hk, fun hx => by cases hx⟩
              · -- the key was dropped by the un-suspension of this very request
                left; exact ⟨List.any_eq_true.mpr ⟨ku, hku, by simp [hk]⟩, rfl⟩
        | listResponse x => rw [hpl] at hrep; exact hrep
        | issueResponse x y z => rw [hpl] at hrep; exact hrep
        | revokeResponse x y => rw [hpl] at hrep; exact hrep
        | errorResponse x => rw [hpl] at hrep; exact hrep

/-- RFC 8181: an accepted request changes the files of the publisher named in the URL only, and
of those only files under the base URI in its access record; the reply to a list query is that
publisher's own file list. -/
theorem scope_of_accepted_8181 (decode : Bytes → Option (Signed PMsg)) (srv : Server)
    (publisher : Handle) (bytes : Bytes) :
    let srv' := (rfc8181 decode srv publisher bytes).1
    srv'.idKey = srv.idKey ∧
    (∀ h, h ≠ publisher → lookup srv'.publishers h = lookup srv.publishers h) ∧
    (∀ p, lookup srv.publishers publisher = some p →
      ∃ p', lookup srv'.publishers publisher = some p' ∧ p'.idKey = p.idKey ∧ p'.base = p.base ∧
        ∀ f, f.1.under p.base = false → (f ∈ p'.files ↔ f ∈ p.files)) ∧
    (∀ m fs, (rfc8181 decode srv publisher bytes).2 = .replied m → m.body = .listReply fs →
      ∃ p, lookup srv.publishers publisher = some p ∧ fs = p.files) := by
  have g := rfc8181_gate decode srv publisher bytes
  generalize rfc8181 decode srv publisher bytes = r at g
  have same : ∀ out : Out PMsg, (∀ m, out ≠ .replied m) →
      (srv, out).1.idKey = srv.idKey ∧
      (∀ h, h ≠ publisher → lookup (srv, out).1.publishers h = lookup srv.publishers h) ∧
      (∀ p, lookup srv.publishers publisher = some p →
        ∃ p', lookup (srv, out).1.publishers publisher = some p' ∧ p'.idKey = p.idKey ∧
          p'.base = p.base ∧ ∀ f, f.1.under p.base = false → (f ∈ p'.files ↔ f ∈ p.files)) ∧
      (∀ m fs, (srv, out).2 = .replied m → m.body = .listReply fs →
        ∃ p, lookup srv.publishers publisher = some p ∧ fs = p.files) := by
    intro out hno
    exact ⟨rfl, fun _ _ => rfl, fun p hp => ⟨p, hp, rfl, rfl, fun _ _ => Iff.rfl⟩,
      fun m fs h _ => absurd h (hno m)⟩
  cases g with
  | unknown _ => exact same _ (by intro m h; cases h)
  | undecodable _ _ _ => exact same _ (by intro m h; cases h)
  | badSig _ _ _ _ _ => exact same _ (by intro m h; cases h)
  | passed p sg hl hd hs r hr =>
    subst hr
    cases hb : sg.body with
    | listQuery =>
      simp only
      refine ⟨by first | rfl | trivial, fun _ _ => by first | rfl | trivial,
        fun p' hp' => ⟨p', hp', rfl, rfl, fun _ _ => Iff.rfl⟩, ?_⟩
      intro m fs hm hfs
      simp only [Out.replied.injEq] at hm
      subst hm
      simp only [PMsg.listReply.injEq] at hfs
      exact ⟨p, hl, hfs.symm⟩
    | delta els =>
      simp only
      cases hf : els.findSome? (elemError p) with
      | some code =>
        simp only
        refine ⟨by first | rfl | trivial, fun _ _ => by first | rfl | trivial,
        fun p' hp' => ⟨p', hp', rfl, rfl, fun _ _ => Iff.rfl⟩, ?_⟩
        intro m fs hm hfs
        simp only [Out.replied.injEq] at hm
        subst hm
        cases hfs
      | none =>
        simp only
        refine ⟨by first | rfl | trivial, fun h hne => lookup_update_ne _ _ _ _ hne, ?_, ?_⟩
        · intro p0 hp0
          rw [hl] at hp0; cases hp0
          refine ⟨_, lookup_update_eq _ _ _ _ hl, rfl, rfl, ?_⟩
          intro f hfu
          apply mem_foldl_applyElem
          intro e he hfe
          have := elemError_none_under p e (findSome_none _ _ hf e he)
          rw [← hfe, hfu] at this
          cases this
        · intro m fs hm hfs
          simp only [Out.replied.injEq] at hm
          subst hm
          cases hfs
    | listReply fs' => exact same _ (by intro m h; cases h)
    | success => exact same _ (by intro m h; cases h)
    | errorReply code => exact same _ (by intro m h; cases h)

/-- RFC 8181, request kind by request kind – only list and publish/update/withdraw queries are
answered:
* **list**: the reply is exactly the file list of the publisher named in the URL, nothing changes;
* **publish / update / withdraw**: either the whole delta is refused with an error reply and
  nothing changes, or every element is under the base URI of that publisher's access record, a
  plain publish does not overwrite an existing object, an update or withdraw names an object the
  publisher has (same URI, same hash) – and the publisher's new file set is the old one with
  exactly those elements applied. -/
theorem acts_for_publisher_by_kind_8181 (decode : Bytes → Option (Signed PMsg)) (srv : Server)
    (publisher : Handle) (bytes : Bytes) (m : Signed PMsg)
    (h : (rfc8181 decode srv publisher bytes).2 = .replied m) :
    ∃ sg p, decode bytes = some sg ∧ lookup srv.publishers publisher = some p ∧
      sg.signer = p.idKey ∧
      match sg.body with
      | .listQuery => m.body = .listReply p.files ∧ (rfc8181 decode srv publisher bytes).1 = srv
      | .delta els =>
        (∃ code, m.body = .errorReply code ∧ (rfc8181 decode srv publisher bytes).1 = srv) ∨
        (m.body = .success ∧
          (∀ e ∈ els, e.uri.under p.base = true ∧
            (∀ u hh, e = .publish u hh → hasUri p.files u = false) ∧
            (∀ u old new, e = .update u old new → hasFile p.files u old = true) ∧
            (∀ u old, e = .withdraw u old → hasFile p.files u old = true)) ∧
          lookup (rfc8181 decode srv publisher bytes).1.publishers publisher =
            some { p with files := els.foldl applyElem p.files })
      | _ => False := by
  have g := rfc8181_gate decode srv publisher bytes
  generalize rfc8181 decode srv publisher bytes = r at g h
  cases g with
  | unknown _ => cases h
  | undecodable _ _ _ => cases h
  | badSig _ _ _ _ _ => cases h
  | passed p sg hl hd hs r hr =>
    refine ⟨sg, p, hd, hl, hs.1, ?_⟩
    subst hr
    cases hb : sg.body with
    | listQuery =>
      simp only [hb, Out.replied.injEq] at h ⊢
      subst h
      exact ⟨by first | rfl | trivial, by first | rfl | trivial⟩
    | delta els =>
      simp only [hb] at h ⊢
      cases hf : els.findSome? (elemError p) with
      | some code =>
        simp only [hf, Out.replied.injEq] at h ⊢
        subst h
        exact Or.inl ⟨code, by first | rfl | trivial, by first | rfl | trivial⟩
      | none =>
        simp only [hf, Out.replied.injEq] at h ⊢
        subst h
        exact Or.inr ⟨rfl, delta_accepted p els hf, lookup_update_eq _ _ _ _ hl⟩
    | listReply fs => simp only [hb] at h; cases h
    | success => simp only [hb] at h; cases h
    | errorReply code => simp only [hb] at h; cases h

/-! ## The reply is signed with the server side's current identity key -/

/-- RFC 6492: any reply is signed with the ID key the CA has in this state (so with the new key
right after `ca_update_id`), is sent in the CA's name and addressed to the sender of the request. -/
theorem reply_signed_by_current_id (decode : Bytes → Option (Signed Msg)) (ca : Ca) (bytes : Bytes)
    (m : Signed Msg) (h : (rfc6492 decode ca bytes).2 = .replied m) :
    m.signer = ca.idKey ∧ m.body.sender = ca.handle ∧
    ∃ sg, decode bytes = some sg ∧ m.body.recipient = sg.body.sender := by
  have g := rfc6492_gate decode ca bytes
  generalize rfc6492 decode ca bytes = r at g h
  cases g with
  | ta _ => cases h
  | undecodable _ => cases h
  | unknown _ _ _ => cases h
  | badSig _ _ _ _ _ => cases h
  | passed sg c _ hd hl hs r hr =>
    subst hr
    split at h
    · cases h
    · simp only [Out.replied.injEq] at h
      subst h
      exact ⟨rfl, rfl, sg, hd, rfl⟩

theorem reply_signed_by_current_id_after_update (decode : Bytes → Option (Signed Msg)) (ca : Ca)
    (k : Key) (bytes : Bytes) (m : Signed Msg)
    (h : (rfc6492 decode (ca.updateId k) bytes).2 = .replied m) : m.signer = k :=
  (reply_signed_by_current_id decode (ca.updateId k) bytes m h).1

theorem reply_signed_by_current_id_8181 (decode : Bytes → Option (Signed PMsg)) (srv : Server)
    (publisher : Handle) (bytes : Bytes) (m : Signed PMsg)
    (h : (rfc8181 decode srv publisher bytes).2 = .replied m) : m.signer = srv.idKey := by
  have g := rfc8181_gate decode srv publisher bytes
  generalize rfc8181 decode srv publisher bytes = r at g h
  cases g with
  | unknown _ => cases h
  | undecodable _ _ _ => cases h
  | badSig _ _ _ _ _ => cases h
  | passed p sg hl hd hs r hr =>
    subst hr
    simp only at h
    split at h
    · simp only [Out.replied.injEq] at h; subst h; rfl
    · split at h
      · simp only [Out.replied.injEq] at h; subst h; rfl
      · simp only [Out.replied.injEq] at h; subst h; rfl
    · cases h

/-! ## A suspended sender: what the automatic un-suspension brings back -/

/-- `ChildUnsuspend`, certificate by certificate.  Let `s` be the suspended certificate in the slot
of a key the child has in use (in a class that still exists).  After a successful un-suspension
* the slot is empty in the suspended certificates in every case;
* the certificate **comes back** – a new certificate for the same key, class and limit, issued to
  this child, with the resources `issue_cert` computes from the old certificate's resources, and
  the key stays in use – **iff** it is not about to expire **and its resources are inside the
  child's current entitlement**;
* otherwise it is **gone**: the key is no longer in use, it is marked revoked in the child's
  record, and no certificate was made for that slot. -/
theorem unsuspend_reissues_iff (ca : Ca) (child : Handle) (c : ChildRec) (ca1 : Ca) (c1 : ChildRec)
    (h : unsuspend ca child c = some (ca1, c1))
    (s : SuspCert) (hs : suspFor ca s.cls s.key = some s) (hk : (s.key, s.cls) ∈ c.inUse)
    (cres : List Nat) (hc : lookup ca.classes s.cls = some cres) :
    (∀ s' ∈ ca1.suspendedCerts, ¬ (s'.key = s.key ∧ s'.cls = s.cls)) ∧
    ((∃ g, issueRes cres s.res s.limit = some g ∧ (s.key, s.cls, child, g, s.limit) ∈ ca1.certs ∧
        (s.key, s.cls) ∈ c1.inUse) ↔
      (s.expiring = false ∧ subset s.res c.resources = true)) ∧
    (¬ (s.expiring = false ∧ subset s.res c.resources = true) →
      (s.key, s.cls) ∉ c1.inUse ∧ s.key ∈ c1.revoked ∧
      ∀ ce ∈ ca1.certs, ce.1 = s.key → ce.2.1 = s.cls → ce ∈ ca.certs) := by
  obtain ⟨nofail, hc1, hca1⟩ := unsuspend_eq_some ca child c ca1 c1 h
  have hfate := fate_of_slot ca c (s.key, s.cls) cres s hc hs
  subst hca1
  refine ⟨?_, ?_, ?_⟩
  · intro s' hs' hsame
    have hp := (List.mem_filter.mp hs').2
    simp only [Bool.not_eq_true', List.any_eq_false] at hp
    apply hp (s.key, s.cls) hk
    simp [hsame.1, hsame.2, hc]
  · constructor
    · rintro ⟨g, _, _, hin⟩
      rw [hc1] at hin
      have hnd := (List.mem_filter.mp hin).2
      by_cases hcond : (!s.expiring && subset s.res c.resources) = true
      · simpa [Bool.and_eq_true] using hcond
      · rw [hfate] at hnd
        simp [hcond, Fate.isDrop] at hnd
    · rintro ⟨he, hsub⟩
      have hcond : (!s.expiring && subset s.res c.resources) = true := by simp [he, hsub]
      rw [if_pos hcond] at hfate
      cases hi : issueRes cres s.res s.limit with
      | none =>
        rw [hi] at hfate
        have := nofail (s.key, s.cls) hk
        rw [hfate] at this
        simp [Fate.isFail] at this
      | some g =>
        rw [hi] at hfate
        refine ⟨g, rfl, ?_, ?_⟩
        · apply List.mem_append_left
          exact List.mem_filterMap.mpr ⟨(s.key, s.cls), hk, by simp [hfate, Fate.cert?]⟩
        · rw [hc1]
          exact List.mem_filter.mpr ⟨hk, by simp [hfate, Fate.isDrop]⟩
  · intro hn
    have hcond : ¬ (!s.expiring && subset s.res c.resources) = true := by
      simpa [Bool.and_eq_true] using hn
    rw [if_neg hcond] at hfate
    refine ⟨?_, ?_, ?_⟩
    · rw [hc1]
      intro hin
      have := (List.mem_filter.mp hin).2
      simp [hfate, Fate.isDrop] at this
    · rw [hc1]
      apply List.mem_append_left
      exact List.mem_map.mpr ⟨(s.key, s.cls), List.mem_filter.mpr ⟨hk, by simp [hfate, Fate.isDrop]⟩, rfl⟩
    · intro ce hce h1 h2
      rcases List.mem_append.mp hce with hce | hce
      · obtain ⟨ku, _, hcert⟩ := List.mem_filterMap.mp hce
        cases hfa : fate ca c ku with
        | reissue g l =>
          simp only [hfa, Fate.cert?, Option.some.injEq] at hcert
          subst hcert
          have : ku = (s.key, s.cls) := Prod.ext h1 h2
          rw [this, hfate] at hfa
          cases hfa
        | keep => simp [hfa, Fate.cert?] at hcert
        | drop => simp [hfa, Fate.cert?] at hcert
        | fail => simp [hfa, Fate.cert?] at hcert
      · exact hce

/-- What `issue_cert` demands, and what a failure means: the un-suspension fails exactly when a
suspended certificate that qualifies for re-issue (not expiring, inside the entitlement) carries
a limit that is no longer inside *class ∩ its resources* (`RequestResourceLimit::apply_to`) –
nothing else makes `issue_cert` fail for a class with a current key, in particular not an empty
result. -/
theorem unsuspend_fails_iff (ca : Ca) (child : Handle) (c : ChildRec) :
    unsuspend ca child c = none ↔
      ∃ ku ∈ c.inUse, ∃ cres s, lookup ca.classes ku.2 = some cres ∧ suspFor ca ku.2 ku.1 = some s ∧
        s.expiring = false ∧ subset s.res c.resources = true ∧
        s.limit ≠ [] ∧ subset s.limit (inter s.res cres) = false := by
  rw [unsuspend_eq_none]
  constructor
  · rintro ⟨ku, hku, hf⟩
    obtain ⟨cres, s, a1, a2, a3, a4, a5⟩ := (fate_fail_iff ca c ku).mp hf
    obtain ⟨b1, b2⟩ := (issueRes_none_iff _ _ _).mp a5
    exact ⟨ku, hku, cres, s, a1, a2, a3, a4, b1, b2⟩
  · rintro ⟨ku, hku, cres, s, a1, a2, a3, a4, b1, b2⟩
    exact ⟨ku, hku, (fate_fail_iff ca c ku).mpr
      ⟨cres, s, a1, a2, a3, a4, (issueRes_none_iff _ _ _).mpr ⟨b1, b2⟩⟩⟩

/-- An authentic request of a suspended sender: either the un-suspension fails – then the request
is refused and **nothing** changes, the sender stays suspended – or it is carried out first and
the request is dispatched on the resulting state; afterwards the sender is active. -/
theorem suspended_sender_unsuspended_first (decode : Bytes → Option (Signed Msg)) (ca : Ca)
    (bytes : Bytes) (sg : Signed Msg) (c : ChildRec) (hta : ca.handle ≠ "ta")
    (hd : decode bytes = some sg) (hl : lookup ca.children sg.body.sender = some c)
    (hsig : sg.signer = c.idKey) (hfresh : sg.fresh = true) (hsus : c.suspended = true) :
    (unsuspend ca sg.body.sender c = none ∧ rfc6492 decode ca bytes = (ca, .refused .processing)) ∨
    (∃ ca1 c1, unsuspend ca sg.body.sender c = some (ca1, c1) ∧
      (rfc6492 decode ca bytes).1 = (dispatch ca1 sg.body.sender c1 sg.body.payload).1 ∧
      ∃ c', lookup (rfc6492 decode ca bytes).1.children sg.body.sender = some c' ∧
        c'.suspended = false ∧ c'.idKey = c.idKey ∧ c'.resources = c.resources) := by
  have g := rfc6492_gate decode ca bytes
  generalize rfc6492 decode ca bytes = r at g
  cases g with
  | ta hh => exact absurd hh hta
  | undecodable hh => rw [hd] at hh; cases hh
  | unknown sg' hh hl' => rw [hd] at hh; cases hh; rw [hl] at hl'; cases hl'
  | badSig sg' c' hh hl' hs =>
    rw [hd] at hh; cases hh; rw [hl] at hl'; cases hl'
    exact absurd ⟨hsig, hfresh⟩ hs
  | passed sg' c' _ hh hl' hs r hr =>
    rw [hd] at hh; cases hh; rw [hl] at hl'; cases hl'
    rcases processRequest_cases ca sg.body.sender c sg.body.payload with
      ⟨hx, _⟩ | ⟨_, hu, he⟩ | ⟨_, ca1, c1, hu, he⟩
    · rw [hsus] at hx; cases hx
    · left
      rw [he] at hr
      exact ⟨hu, hr⟩
    · right
      have hfst : r.1 = (dispatch ca1 sg.body.sender c1 sg.body.payload).1 := by
        rw [hr, he]
        split
        · rename_i heq; rw [heq]
        · rename_i heq; rw [heq]
      obtain ⟨_, _, _, _, u5, ⟨u6, u7, u8, _⟩, _⟩ := unsuspend_frame ca sg.body.sender c ca1 c1 hu
      obtain ⟨c', k1, k2, k3, k4⟩ :=
        dispatch_child_rec ca1 sg.body.sender c1 sg.body.payload (u5 c hl)
      exact ⟨ca1, c1, hu, hfst, c', hfst ▸ k1, k2.trans u8, k3.trans u6, k4.trans u7⟩

/-- … and a request that names a suspended child as sender but is **not** signed with the key
registered for it changes nothing: the child is still suspended, nothing is re-issued, no
suspended certificate is touched (an instance of `refused_no_change`). -/
theorem foreign_key_leaves_suspended (decode : Bytes → Option (Signed Msg)) (ca : Ca) (bytes : Bytes)
    (sg : Signed Msg) (c : ChildRec) (hd : decode bytes = some sg)
    (hl : lookup ca.children sg.body.sender = some c) (hforeign : sg.signer ≠ c.idKey) :
    ∃ why, rfc6492 decode ca bytes = (ca, .refused why) ∧ why ≠ .processing := by
  apply refused_no_change
  rintro ⟨sg', c', hd', hl', hs', _⟩
  rw [hd] at hd'; cases hd'
  rw [hl] at hl'; cases hl'
  exact hforeign hs'

/-! ### Counter-model: the entitlement test the other way round

`process_child_unsuspend` with the operands of `contains` swapped
(`suspended.resources.contains(&child.resources)`): everything else as in the model. -/
def swappedFate (ca : Ca) (c : ChildRec) (ku : Key × String) : Fate :=
  match lookup ca.classes ku.2 with
  | none => .keep
  | some classRes =>
    match suspFor ca ku.2 ku.1 with
    | none => .keep
    | some s =>
      if !s.expiring && subset c.resources s.res then     -- ← swapped
        match issueRes classRes s.res s.limit with
        | some g => .reissue g s.limit
        | none => .fail
      else .drop

def swappedUnsuspend (ca : Ca) (child : Handle) (c : ChildRec) : Option (Ca × ChildRec) :=
  if c.inUse.any (fun ku => (swappedFate ca c ku).isFail) then none
  else
    let c' : ChildRec :=
      { c with suspended := false,
               inUse := c.inUse.filter (fun ku => !(swappedFate ca c ku).isDrop),
               revoked := (c.inUse.filter (fun ku => (swappedFate ca c ku).isDrop)).map (·.1) ++ c.revoked }
    some ({ ca with
        children := update ca.children child (fun _ => c'),
        certs := c.inUse.filterMap (fun ku => (swappedFate ca c ku).cert? child ku) ++ ca.certs,
        suspendedCerts := ca.suspendedCerts.filter fun s =>
          !(c.inUse.any fun ku => ku.1 == s.key && ku.2 == s.cls && (lookup ca.classes ku.2).isSome) },
      c')

def swappedProcessRequest (ca : Ca) (child : Handle) (c : ChildRec) (pl : Payload) : Ca × Option Payload :=
  if c.suspended then
    match swappedUnsuspend ca child c with
    | none => (ca, none)
    | some (ca1, c1) => dispatch ca1 child c1 pl
  else dispatch ca child c pl

def swappedRfc6492 {Bytes : Type} (decode : Bytes → Option (Signed Msg)) (ca : Ca) (bytes : Bytes) :
    Ca × Out Msg :=
  if ca.handle = "ta" then (ca, .refused .taNotRemote) else
  match decode bytes with
  | none => (ca, .refused .undecodable)
  | some sg =>
    match lookup ca.children sg.body.sender with
    | none => (ca, .refused .unknownSender)
    | some c =>
      if !(sg.signer == c.idKey && sg.fresh) then (ca, .refused .badSignature)
      else
        match swappedProcessRequest ca sg.body.sender c sg.body.payload with
        | (ca2, none) => (ca2, .refused .processing)
        | (ca2, some p) =>
          (ca2, .replied { signer := ca.idKey,
                           body := { sender := ca.handle, recipient := sg.body.sender, payload := p } })

/-- A child that was entitled to `[1, 2]`, got a certificate for it, was suspended, and whose
entitlement was then reduced to `[1]`. -/
def reducedWhileSuspended : Ca :=
  { handle := "p", idKey := 5,
    children := [("c", { idKey := 11, suspended := true, resources := [1], inUse := [(101, "0")] })],
    classes := [("0", [1, 2, 3])],
    suspendedCerts := [{ key := 101, cls := "0", child := "c", res := [1, 2] }] }

def listFromC : Nat → Option (Signed Msg)
  | 0 => some { signer := 11, body := ⟨"c", "p", .list⟩ }
  | _ => none

/-- The swapped test violates the clause of `scope_of_accepted` about new certificates: on a list
request of the child that came back, the CA ends up with a certificate for `[1, 2]` – not held
before, and outside the sender's entitlement `[1]` – and lists it in the reply.  (The model drops
the certificate, see the `example` below.) -/
theorem swapped_contains_overclaims :
    let ca := reducedWhileSuspended
    let ca' := (swappedRfc6492 listFromC ca 0).1
    ¬ (∀ ce ∈ ca'.certs, ce ∈ ca.certs ∨
        (ce.2.2.1 = "c" ∧
          ∃ c res, lookup ca.children "c" = some c ∧ subset ce.2.2.2.1 c.resources = true ∧
            lookup ca.classes ce.2.1 = some res ∧ subset ce.2.2.2.1 res = true)) := by
  intro ca ca' hall
  have hmem : ((101, "0", "c", [1, 2], []) : Cert) ∈ ca'.certs := by decide
  rcases hall _ hmem with h | ⟨_, c, res, hc, hsub, _⟩
  · revert h; decide
  · have : c = { idKey := 11, suspended := true, resources := [1], inUse := [(101, "0")] } := by
      have hc' : lookup ca.children "c" =
          some { idKey := 11, suspended := true, resources := [1], inUse := [(101, "0")] } := by decide
      rw [hc'] at hc
      exact (Option.some.inj hc).symm
    subst this
    revert hsub; decide

example :
    (swappedRfc6492 listFromC reducedWhileSuspended 0).2 =
      .replied { signer := 5, body := ⟨"p", "c", .listResponse [("0", [1], [(101, [1, 2])])]⟩ } ∧
    -- the model: the certificate is dropped, the key revoked, the class listed without certificate
    (rfc6492 listFromC reducedWhileSuspended 0).2 =
      .replied { signer := 5, body := ⟨"p", "c", .listResponse [("0", [1], [])]⟩ } ∧
    (rfc6492 listFromC reducedWhileSuspended 0).1.certs = [] ∧
    (rfc6492 listFromC reducedWhileSuspended 0).1.suspendedCerts = [] ∧
    lookup (rfc6492 listFromC reducedWhileSuspended 0).1.children "c" =
      some { idKey := 11, suspended := false, resources := [1], inUse := [], revoked := [101] } := by
  decide

/-! ## Non-vacuity -/

/-- A parent with two children; bytes are small numbers with a table as decoder. -/
example :
    let c1 : ChildRec := { idKey := 11, resources := [1, 2], inUse := [(101, "0")] }
    let c2 : ChildRec := { idKey := 12, resources := [3], suspended := true }
    let ca : Ca := { handle := "p", idKey := 5, children := [("a", c1), ("b", c2)],
                     classes := [("0", [1, 2, 3])], certs := [(101, "0", "a", [1, 2], [])] }
    let decode : Nat → Option (Signed Msg)
      | 0 => some { signer := 11, body := ⟨"a", "p", .list⟩ }               -- a, own key
      | 1 => some { signer := 12, body := ⟨"a", "p", .list⟩ }               -- a, signed by b
      | 2 => some { signer := 11, body := ⟨"a", "p", .revoke "0" 101⟩ }
      | 3 => some { signer := 12, body := ⟨"b", "p", .revoke "0" 101⟩ }     -- b revokes a's key
      | 4 => some { signer := 12, body := ⟨"b", "x", .issue "0" 201 [] true⟩ }  -- wrong recipient
      | 5 => some { signer := 11, body := ⟨"a", "p", .list⟩, fresh := false }
      | _ => none
    (rfc6492 decode ca 0).2 = .replied { signer := 5, body := ⟨"p", "a", .listResponse [("0", [1, 2], [(101, [1, 2])])]⟩ } ∧
    rfc6492 decode ca 1 = (ca, .refused .badSignature) ∧
    (rfc6492 decode ca 2).1.certs = [] ∧
    (rfc6492 decode ca 3).2 = .refused .processing ∧ (rfc6492 decode ca 3).1.certs = ca.certs ∧
    (rfc6492 decode ca 4).2 = .replied { signer := 5, body := ⟨"p", "b", .issueResponse "0" 201 [3]⟩ } ∧
    rfc6492 decode ca 5 = (ca, .refused .badSignature) ∧
    rfc6492 decode ca 9 = (ca, .refused .undecodable) ∧
    rfc6492 decode (ca.updateChildId "a" 13) 0 = (ca.updateChildId "a" 13, .refused .badSignature) := by
  intro c1 c2 ca decode
  decide

/-- Suspension and what comes back.  Child `a` holds certificates in two classes and one with a
limit; it is suspended (`suspendChild`), then the entitlement changes, then it sends a list request:
* entitlement unchanged → all three certificates are re-issued, nothing is left suspended;
* reduced to `[1]` → only the certificate for `[1]` (key 101) comes back, 102 (`[2]`, limit) and
  103 (`[4]`, other class) are dropped and their keys revoked;
* disjoint `[3]` → nothing comes back;
* a certificate about to expire is dropped although it is inside the entitlement;
* a request under another child's key leaves the suspended child exactly as it was;
* a limit that no longer fits the class makes the un-suspension – and the request – fail with no
  change; an issue request for a class in which the sender has no entitlement stores an empty
  certificate and is answered with an error (`issuance_response`: `KeyUseNoIssuedCert`); that
  certificate makes later list requests fail as soon as the class is listed for the sender. -/
example :
    let a : ChildRec := { idKey := 11, resources := [1, 2, 4], inUse := [(101, "0"), (102, "0"), (103, "1")] }
    let b : ChildRec := { idKey := 12, resources := [3], inUse := [(201, "0")] }
    let ca : Ca := { handle := "p", idKey := 5, children := [("a", a), ("b", b)],
                     classes := [("0", [1, 2, 3]), ("1", [4])],
                     certs := [(101, "0", "a", [1], []), (102, "0", "a", [2], [2]), (103, "1", "a", [4], []),
                               (201, "0", "b", [3], [])] }
    let sus := ca.suspendChild "a" (fun _ => false)
    let decode : Nat → Option (Signed Msg)
      | 0 => some { signer := 11, body := ⟨"a", "p", .list⟩ }
      | 1 => some { signer := 12, body := ⟨"a", "p", .list⟩ }               -- signed by b
      | 2 => some { signer := 11, body := ⟨"a", "p", .issue "1" 104 [] true⟩ }
      | _ => none
    -- suspension moves a's certificates, b's stays
    sus.certs = [(201, "0", "b", [3], [])] ∧ sus.suspendedCerts.length = 3 ∧
    (lookup sus.children "a").map (·.suspended) = some true ∧
    ca.suspendChild "zz" (fun _ => false) = ca ∧ sus.suspendChild "a" (fun _ => true) = sus ∧
    -- (a) unchanged entitlement: everything comes back
    (rfc6492 decode sus 0).2 = .replied { signer := 5, body := ⟨"p", "a",
        .listResponse [("0", [1, 2], [(101, [1]), (102, [2])]), ("1", [4], [(103, [4])])]⟩ } ∧
    (rfc6492 decode sus 0).1.suspendedCerts = [] ∧
    (lookup (rfc6492 decode sus 0).1.children "a").map (·.suspended) = some false ∧
    -- (b) reduced to a strict subset
    (rfc6492 decode (sus.updateChildResources "a" [1]) 0).2 = .replied { signer := 5, body := ⟨"p", "a",
        .listResponse [("0", [1], [(101, [1])])]⟩ } ∧
    (lookup (rfc6492 decode (sus.updateChildResources "a" [1]) 0).1.children "a").map (·.revoked) =
      some [102, 103] ∧
    -- (c) disjoint
    (rfc6492 decode (sus.updateChildResources "a" [3]) 0).2 = .replied { signer := 5, body := ⟨"p", "a",
        .listResponse [("0", [3], [])]⟩ } ∧
    (rfc6492 decode (sus.updateChildResources "a" [3]) 0).1.certs = [(201, "0", "b", [3], [])] ∧
    -- about to expire
    (rfc6492 decode (ca.suspendChild "a" (fun k => k == 101)) 0).2 = .replied { signer := 5, body := ⟨"p", "a",
        .listResponse [("0", [1, 2], [(102, [2])]), ("1", [4], [(103, [4])])]⟩ } ∧
    -- (e) foreign key: refused, still suspended, nothing re-issued
    rfc6492 decode sus 1 = (sus, .refused .badSignature) ∧
    -- the class lost `2`: the limit `[2]` of 102 no longer fits → the whole request fails, no change
    (let shrunk := { sus with classes := [("0", [1, 3]), ("1", [4])] }
     rfc6492 decode shrunk 0 = (shrunk, .refused .processing) ∧ unsuspend shrunk "a" { a with suspended := true } = none) ∧
    -- issue in a class without entitlement: an empty certificate is stored, the reply is an error
    (rfc6492 decode (ca.updateChildResources "a" [1]) 2).2 = .refused .processing ∧
    (104, "1", "a", [], []) ∈ (rfc6492 decode (ca.updateChildResources "a" [1]) 2).1.certs ∧
    -- … and that certificate cannot be parsed back (`to_rfc6492_issued_cert`): once the sender is
    -- entitled in that class again, its list requests fail
    (let poisoned := (rfc6492 decode (ca.updateChildResources "a" [1]) 2).1.updateChildResources "a" [1, 4]
     rfc6492 decode poisoned 0 = (poisoned, .refused .processing)) := by
  intro a b ca sus decode
  decide

example :
    let pa : Publisher := { idKey := 11, base := ["repo", "a"], files := [(["repo", "a", "x.cer"], 1)] }
    let pb : Publisher := { idKey := 12, base := ["repo", "b"] }
    let srv : Server := { idKey := 7, publishers := [("a", pa), ("b", pb)] }
    let decode : Nat → Option (Signed PMsg)
      | 0 => some { signer := 11, body := .listQuery }
      | 1 => some { signer := 11, body := .delta [.publish ["repo", "a", "y.roa"] 2] }
      | 2 => some { signer := 11, body := .delta [.publish ["repo", "b", "y.roa"] 2] }   -- outside
      | 3 => some { signer := 11, body := .delta [.withdraw ["repo", "a", "x.cer"] 9] }  -- wrong hash
      | _ => none
    (rfc8181 decode srv "a" 0).2 = .replied { signer := 7, body := .listReply pa.files } ∧
    rfc8181 decode srv "b" 0 = (srv, .refused .badSignature) ∧      -- a's message on b's URL
    rfc8181 decode srv "c" 0 = (srv, .refused .unknownSender) ∧
    (rfc8181 decode srv "a" 1).2 = .replied { signer := 7, body := .success } ∧
    rfc8181 decode srv "a" 2 = (srv, .replied { signer := 7, body := .errorReply "permission_failure" }) ∧
    rfc8181 decode srv "a" 3 = (srv, .replied { signer := 7, body := .errorReply "no_object_present" }) := by
  intro pa pb srv decode
  decide

end KM.Props.C12
