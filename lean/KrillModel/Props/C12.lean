/-
C12 — Up-down (RFC 6492) and publication (RFC 8181) requests act only for the registered
identity key.

Property theorems only; helper lemmas live in `KrillModel.Proto.Lemmas`; model
`KrillModel.Proto.Cms`.  Every theorem holds for every decoder `decode : Bytes → Option Signed`
(every way byte strings map to signed messages – so in particular for every corruption of a
valid message: it either no longer decodes, or decodes to *some* signed message, and then the
theorems apply to that message), for every state of the parent CA / publication server (so
before and after any identity update on either side) and every message.
-/
import KrillModel.Proto.Lemmas
namespace KM.Props.C12
open KM.Proto

variable {Bytes : Type}

theorem no_act {σ μ : Type} (s : σ) (w : Refusal)
    (h : (s, (Out.refused w : Out μ)).1 ≠ s ∨ ∃ m, (s, (Out.refused w : Out μ)).2 = .replied m) :
    False := by
  rcases h with h | ⟨m, h⟩
  · exact h rfl
  · cases h

/-! ## Only the key registered for the named sender makes anything happen -/

/-- RFC 6492: if the parent CA changes in any way, or any reply comes back, then the bytes decode
to a message whose signature validates (key and validity) under the ID key registered – in this
very state – for the child named as its sender. -/
theorem acts_only_for_registered_key (decode : Bytes → Option (Signed Msg)) (ca : Ca) (bytes : Bytes)
    (h : (rfc6492 decode ca bytes).1 ≠ ca ∨ ∃ m, (rfc6492 decode ca bytes).2 = .replied m) :
    ∃ sg c, decode bytes = some sg ∧ lookup ca.children sg.body.sender = some c ∧
      sg.signer = c.idKey ∧ sg.fresh = true := by
  have g := rfc6492_gate decode ca bytes
  generalize rfc6492 decode ca bytes = r at g h
  cases g with
  | ta _ => exact (no_act _ _ h).elim
  | undecodable _ => exact (no_act _ _ h).elim
  | unknown _ _ _ => exact (no_act _ _ h).elim
  | badSig _ _ _ _ _ => exact (no_act _ _ h).elim
  | passed sg c _ hd hl hs _ _ => exact ⟨sg, c, hd, hl, hs.1, hs.2⟩

/-- RFC 8181: the same for the publication server; the publisher is the one named in the URL, the
key the one in its access record. -/
theorem acts_only_for_registered_key_8181 (decode : Bytes → Option (Signed PMsg)) (srv : Server)
    (publisher : Handle) (bytes : Bytes)
    (h : (rfc8181 decode srv publisher bytes).1 ≠ srv ∨
         ∃ m, (rfc8181 decode srv publisher bytes).2 = .replied m) :
    ∃ sg p, decode bytes = some sg ∧ lookup srv.publishers publisher = some p ∧
      sg.signer = p.idKey ∧ sg.fresh = true := by
  have g := rfc8181_gate decode srv publisher bytes
  generalize rfc8181 decode srv publisher bytes = r at g h
  cases g with
  | unknown _ => exact (no_act _ _ h).elim
  | undecodable _ _ _ => exact (no_act _ _ h).elim
  | badSig _ _ _ _ _ => exact (no_act _ _ h).elim
  | passed p sg hl hd hs _ _ => exact ⟨sg, p, hd, hl, hs.1, hs.2⟩

/-! ## Everything else is refused, and nothing changes -/

/-- RFC 6492: a message that is not signed with the key registered for its claimed sender –
another child's key, a replaced identity, a random key, a sender that is not a child, bytes that
do not decode – is refused before anything is done: same state, no reply. -/
theorem refused_no_change (decode : Bytes → Option (Signed Msg)) (ca : Ca) (bytes : Bytes)
    (h : ¬ ∃ sg c, decode bytes = some sg ∧ lookup ca.children sg.body.sender = some c ∧
      sg.signer = c.idKey ∧ sg.fresh = true) :
    ∃ why, rfc6492 decode ca bytes = (ca, .refused why) ∧ why ≠ .processing := by
  have g := rfc6492_gate decode ca bytes
  generalize rfc6492 decode ca bytes = r at g
  cases g with
  | ta _ => exact ⟨_, rfl, by intro e; cases e⟩
  | undecodable _ => exact ⟨_, rfl, by intro e; cases e⟩
  | unknown _ _ _ => exact ⟨_, rfl, by intro e; cases e⟩
  | badSig _ _ _ _ _ => exact ⟨_, rfl, by intro e; cases e⟩
  | passed sg c _ hd hl hs _ _ => exact absurd ⟨sg, c, hd, hl, hs.1, hs.2⟩ h

theorem refused_no_change_8181 (decode : Bytes → Option (Signed PMsg)) (srv : Server)
    (publisher : Handle) (bytes : Bytes)
    (h : ¬ ∃ sg p, decode bytes = some sg ∧ lookup srv.publishers publisher = some p ∧
      sg.signer = p.idKey ∧ sg.fresh = true) :
    ∃ why, rfc8181 decode srv publisher bytes = (srv, .refused why) ∧ why ≠ .processing := by
  have g := rfc8181_gate decode srv publisher bytes
  generalize rfc8181 decode srv publisher bytes = r at g
  cases g with
  | unknown _ => exact ⟨_, rfl, by intro e; cases e⟩
  | undecodable _ _ _ => exact ⟨_, rfl, by intro e; cases e⟩
  | badSig _ _ _ _ _ => exact ⟨_, rfl, by intro e; cases e⟩
  | passed p sg hl hd hs _ _ => exact absurd ⟨sg, p, hd, hl, hs.1, hs.2⟩ h

/-- Corruption: what happens depends on the bytes only through what they decode to.  So a
corrupted copy `bytes'` of a message is treated exactly like the original if it still decodes to
the identical signed message (same sender, recipient, payload, still validating – e.g. a flipped
padding bit), and in every other case the theorems above apply to whatever it decodes to: refused
without change unless that is itself validly signed with the registered key of its sender. -/
theorem outcome_depends_on_decoding_only (decode : Bytes → Option (Signed Msg)) (ca : Ca)
    (bytes bytes' : Bytes) (h : decode bytes' = decode bytes) :
    rfc6492 decode ca bytes' = rfc6492 decode ca bytes := by
  unfold rfc6492; rw [h]

theorem outcome_depends_on_decoding_only_8181 (decode : Bytes → Option (Signed PMsg)) (srv : Server)
    (publisher : Handle) (bytes bytes' : Bytes) (h : decode bytes' = decode bytes) :
    rfc8181 decode srv publisher bytes' = rfc8181 decode srv publisher bytes := by
  unfold rfc8181; rw [h]

/-- A corrupted copy that is accepted although it does *not* decode to the original message is
nevertheless a message validly signed with the registered key of its own claimed sender – which a
corruption of a message signed under a one-off key cannot produce (symbolic cryptography). -/
theorem corrupted_accepted_only_if_authentic (decode : Bytes → Option (Signed Msg)) (ca : Ca)
    (bytes' : Bytes)
    (hacc : (rfc6492 decode ca bytes').1 ≠ ca ∨ ∃ m, (rfc6492 decode ca bytes').2 = .replied m) :
    ∃ sg c, decode bytes' = some sg ∧ lookup ca.children sg.body.sender = some c ∧
      sg.signer = c.idKey ∧ sg.fresh = true :=
  acts_only_for_registered_key decode ca bytes' hacc

/-- Identity updates: once the parent has registered a new ID key for a child, a message under
the replaced key is refused without change, whatever it asks for … -/
theorem replaced_identity_refused (decode : Bytes → Option (Signed Msg)) (ca : Ca) (bytes : Bytes)
    (sg : Signed Msg) (c : ChildRec) (newKey : Key)
    (hd : decode bytes = some sg) (hl : lookup ca.children sg.body.sender = some c)
    (hold : sg.signer ≠ newKey) :
    ∃ why, rfc6492 decode (ca.updateChildId sg.body.sender newKey) bytes =
      (ca.updateChildId sg.body.sender newKey, .refused why) ∧ why ≠ .processing := by
  apply refused_no_change
  rintro ⟨sg', c', hd', hl', hs', _⟩
  rw [hd] at hd'; cases hd'
  have : lookup (ca.updateChildId sg.body.sender newKey).children sg.body.sender =
      some { c with idKey := newKey } := by
    simpa [Ca.updateChildId] using
      lookup_update_eq ca.children sg.body.sender (fun c => { c with idKey := newKey }) c hl
  rw [this] at hl'
  cases hl'
  exact hold hs'

/-- … and a message under the new key passes the identity check (what happens next is up to the
request). -/
theorem new_identity_accepted (decode : Bytes → Option (Signed Msg)) (ca : Ca) (bytes : Bytes)
    (sg : Signed Msg) (c : ChildRec) (hta : ca.handle ≠ "ta")
    (hd : decode bytes = some sg) (hl : lookup ca.children sg.body.sender = some c)
    (hfresh : sg.fresh = true) :
    ∀ why, rfc6492 decode (ca.updateChildId sg.body.sender sg.signer) bytes =
        (ca.updateChildId sg.body.sender sg.signer, .refused why) → why = .processing := by
  intro why h
  have g := rfc6492_gate decode (ca.updateChildId sg.body.sender sg.signer) bytes
  have hl2 : lookup (ca.updateChildId sg.body.sender sg.signer).children sg.body.sender =
      some { c with idKey := sg.signer } := by
    simpa [Ca.updateChildId] using
      lookup_update_eq ca.children sg.body.sender (fun c => { c with idKey := sg.signer }) c hl
  rw [h] at g
  cases g with
  | ta hh => exact absurd hh hta
  | undecodable hh => rw [hd] at hh; cases hh
  | unknown sg' hh hl' => rw [hd] at hh; cases hh; rw [hl2] at hl'; cases hl'
  | badSig sg' c' hh hl' hs =>
    rw [hd] at hh; cases hh; rw [hl2] at hl'; cases hl'
    exact absurd ⟨rfl, hfresh⟩ hs
  | passed sg' c' _ hh hl' hs r hr =>
    simp only at hr
    split at hr
    · simp only [Prod.mk.injEq, Out.refused.injEq] at hr; exact hr.2
    · simp only [Prod.mk.injEq] at hr; cases hr.2

/-! ## An accepted request acts for its sender only -/

/-- RFC 6492: whatever an accepted request does, it does to the record of the child named as
sender: every other child's record, the CA's own identity and classes are untouched; a new or
replaced certificate is issued to that child with resources inside its entitlement and inside the
class; a certificate that disappears is the one for the key named in the request, and for a
revocation that key is one the sender has in use. -/
theorem scope_of_accepted (decode : Bytes → Option (Signed Msg)) (ca : Ca) (bytes : Bytes)
    (sg : Signed Msg) (hd : decode bytes = some sg) :
    let ca' := (rfc6492 decode ca bytes).1
    ca'.handle = ca.handle ∧ ca'.idKey = ca.idKey ∧ ca'.classes = ca.classes ∧
    (∀ h, h ≠ sg.body.sender → lookup ca'.children h = lookup ca.children h) ∧
    (∀ ce ∈ ca'.certs, ce ∈ ca.certs ∨
      (ce.2.2.1 = sg.body.sender ∧
        ∃ c res, lookup ca.children sg.body.sender = some c ∧ subset ce.2.2.2 c.resources = true ∧
          lookup ca.classes ce.2.1 = some res ∧ subset ce.2.2.2 res = true)) ∧
    (∀ ce ∈ ca.certs, ce ∈ ca'.certs ∨
      (sg.body.payload.key? = some ce.1 ∧
        ∀ cls k, sg.body.payload = .revoke cls k →
          ∃ c, lookup ca.children sg.body.sender = some c ∧ c.inUse.any (·.1 == k) = true)) := by
  have g := rfc6492_gate decode ca bytes
  generalize rfc6492 decode ca bytes = r at g
  have same : ∀ ca0 : Ca, ca0 = ca →
      ca0.handle = ca.handle ∧ ca0.idKey = ca.idKey ∧ ca0.classes = ca.classes ∧
      (∀ h, h ≠ sg.body.sender → lookup ca0.children h = lookup ca.children h) ∧
      (∀ ce ∈ ca0.certs, ce ∈ ca.certs ∨
        (ce.2.2.1 = sg.body.sender ∧
          ∃ c res, lookup ca.children sg.body.sender = some c ∧ subset ce.2.2.2 c.resources = true ∧
            lookup ca.classes ce.2.1 = some res ∧ subset ce.2.2.2 res = true)) ∧
      (∀ ce ∈ ca.certs, ce ∈ ca0.certs ∨
        (sg.body.payload.key? = some ce.1 ∧
          ∀ cls k, sg.body.payload = .revoke cls k →
            ∃ c, lookup ca.children sg.body.sender = some c ∧ c.inUse.any (·.1 == k) = true)) := by
    intro ca0 h; subst h
    exact ⟨rfl, rfl, rfl, fun _ _ => rfl, fun ce h => Or.inl h, fun ce h => Or.inl h⟩
  cases g with
  | ta _ => exact same _ rfl
  | undecodable _ => exact same _ rfl
  | unknown _ _ _ => exact same _ rfl
  | badSig _ _ _ _ _ => exact same _ rfl
  | passed sg' c _ hd' hl hs r hr =>
    rw [hd] at hd'; cases hd'
    -- the state the request is dispatched on: the sender unsuspended, nothing else
    let c1 : ChildRec := { c with suspended := false }
    let ca1 : Ca := if c.suspended then
        { ca with children := update ca.children sg.body.sender (fun _ => c1) } else ca
    have h1 : ca1.handle = ca.handle ∧ ca1.idKey = ca.idKey ∧ ca1.classes = ca.classes ∧
        ca1.certs = ca.certs ∧
        ∀ h, h ≠ sg.body.sender → lookup ca1.children h = lookup ca.children h := by
      simp only [ca1]
      split
      · exact ⟨rfl, rfl, rfl, rfl, fun h hne => by
          simpa using lookup_update_ne ca.children sg.body.sender h (fun _ => c1) hne⟩
      · exact ⟨rfl, rfl, rfl, rfl, fun _ _ => rfl⟩
    obtain ⟨a1, a2, a3, a4, a5⟩ := h1
    obtain ⟨d1, d2, d3, d4, d5, d6⟩ := dispatch_frame ca1 sg.body.sender c1 sg.body.payload
    have hfst : r.1 = (dispatch ca1 sg.body.sender c1 sg.body.payload).1 := by
      rw [hr]
      simp only [ca1, c1]
      split
      · rename_i heq; rw [heq]
      · rename_i heq; rw [heq]
    simp only
    rw [hfst]
    refine ⟨d1.trans a1, d2.trans a2, d3.trans a3, fun h hne => (d4 h hne).trans (a5 h hne), ?_, ?_⟩
    · intro ce hce
      rcases d5 ce hce with h | ⟨h1, h2, res, h3, h4⟩
      · left; rw [← a4]; exact h
      · right; exact ⟨h1, c, res, hl, h2, by rw [← a3]; exact h3, h4⟩
    · intro ce hce
      rw [← a4] at hce
      rcases d6 ce hce with h | ⟨h1, h2⟩
      · left; exact h
      · right; exact ⟨h1, fun cls k hp => ⟨c, hl, h2 cls k hp⟩⟩

/-- RFC 6492 list: the reply names only classes the sender is entitled in, with resources inside
its entitlement, and only certificates issued to that sender. -/
theorem list_only_own (ca : Ca) (child : Handle) (c : ChildRec) :
    ∀ e ∈ entitlements ca child c, subset e.2.1 c.resources = true ∧
      ∀ k ∈ e.2.2, ∃ ce ∈ ca.certs, ce.1 = k ∧ ce.2.2.1 = child := by
  intro e he
  simp only [entitlements, List.mem_map, List.mem_filter] at he
  obtain ⟨cl, _, rfl⟩ := he
  refine ⟨subset_inter_left _ _, ?_⟩
  intro k hk
  simp only [List.mem_map, List.mem_filter, Bool.and_eq_true, List.any_eq_true, beq_iff_eq] at hk
  obtain ⟨ku, ⟨_, _, ce, hce, h1, h2⟩, rfl⟩ := hk
  exact ⟨ce, hce, h1, h2⟩

/-- RFC 6492, request kind by request kind – the only requests that are answered at all are list,
issue and revoke, and each acts for the sender of the validated message:
* **list**: the reply is the sender's entitlement: resources inside what the parent entitled it
  to, and only certificates that were issued to the sender;
* **issue**: the reply carries a certificate for the key of the request, issued to the sender
  (it is in the CA's state under the sender's name afterwards), with resources inside the
  sender's entitlement and inside the class;
* **revoke**: the reply confirms the key of the request; either the class is unknown and nothing
  was done, or the key is one the sender has in use. -/
theorem acts_for_sender_by_kind (decode : Bytes → Option (Signed Msg)) (ca : Ca) (bytes : Bytes)
    (m : Signed Msg) (h : (rfc6492 decode ca bytes).2 = .replied m) :
    ∃ sg c, decode bytes = some sg ∧ lookup ca.children sg.body.sender = some c ∧
      sg.signer = c.idKey ∧
      match sg.body.payload with
      | .list =>
        (rfc6492 decode ca bytes).1.certs = ca.certs ∧
        ∃ cls, m.body.payload = .listResponse cls ∧
          ∀ e ∈ cls, subset e.2.1 c.resources = true ∧
            ∀ k ∈ e.2.2, ∃ ce ∈ ca.certs, ce.1 = k ∧ ce.2.2.1 = sg.body.sender
      | .issue cls key _ _ =>
        ∃ grant res, m.body.payload = .issueResponse cls key grant ∧
          (key, cls, sg.body.sender, grant) ∈ (rfc6492 decode ca bytes).1.certs ∧
          lookup ca.classes cls = some res ∧
          subset grant c.resources = true ∧ subset grant res = true
      | .revoke cls key =>
        m.body.payload = .revokeResponse cls key ∧
          ((lookup ca.classes cls = none ∧ (rfc6492 decode ca bytes).1.certs = ca.certs) ∨
            c.inUse.any (·.1 == key) = true)
      | _ => False := by
  have g := rfc6492_gate decode ca bytes
  generalize rfc6492 decode ca bytes = r at g h
  cases g with
  | ta _ => cases h
  | undecodable _ => cases h
  | unknown _ _ _ => cases h
  | badSig _ _ _ _ _ => cases h
  | passed sg c _ hd hl hs r hr =>
    refine ⟨sg, c, hd, hl, hs.1, ?_⟩
    let c1 : ChildRec := { c with suspended := false }
    let ca1 : Ca := if c.suspended then
        { ca with children := update ca.children sg.body.sender (fun _ => c1) } else ca
    have h1 : ca1.classes = ca.classes ∧ ca1.certs = ca.certs := by
      simp only [ca1]; split <;> exact ⟨rfl, rfl⟩
    cases hdp : dispatch ca1 sg.body.sender c1 sg.body.payload with
    | mk ca2 o =>
      have hr' : r = (match dispatch ca1 sg.body.sender c1 sg.body.payload with
          | (ca2, none) => (ca2, .refused .processing)
          | (ca2, some p) =>
            (ca2, .replied { signer := ca.idKey,
                             body := { sender := ca.handle, recipient := sg.body.sender, payload := p } })) := hr
      rw [hdp] at hr'
      cases o with
      | none => rw [hr'] at h; cases h
      | some p =>
        rw [hr'] at h ⊢
        simp only [Out.replied.injEq] at h
        subst h
        have hrep := dispatch_reply ca1 sg.body.sender c1 sg.body.payload p ca2 hdp
        cases hpl : sg.body.payload with
        | list =>
          rw [hpl] at hrep
          simp only [ReplyFor] at hrep
          obtain ⟨e1, e2⟩ := hrep
          refine ⟨by rw [e1]; exact h1.2, _, e2, ?_⟩
          intro e he
          obtain ⟨a, b⟩ := list_only_own ca1 sg.body.sender c1 e he
          refine ⟨a, ?_⟩
          intro k hk
          obtain ⟨ce, hce, x⟩ := b k hk
          exact ⟨ce, h1.2 ▸ hce, x⟩
        | issue cls key limit csrOk =>
          rw [hpl] at hrep
          simp only [ReplyFor] at hrep
          obtain ⟨grant, res, e1, e2, e3, e4, e5⟩ := hrep
          exact ⟨grant, res, e1, e2, h1.1 ▸ e3, e4, e5⟩
        | revoke cls key =>
          rw [hpl] at hrep
          simp only [ReplyFor] at hrep
          obtain ⟨e1, e2⟩ := hrep
          refine ⟨e1, ?_⟩
          rcases e2 with ⟨a, b⟩ | b
          · left; exact ⟨h1.1 ▸ a, by rw [b]; exact h1.2⟩
          · right; exact b
        | listResponse x => rw [hpl] at hrep; exact hrep
        | issueResponse x y z => rw [hpl] at hrep; exact hrep
        | revokeResponse x y => rw [hpl] at hrep; exact hrep
        | errorResponse x => rw [hpl] at hrep; exact hrep

/-- RFC 8181: an accepted request changes the files of the publisher named in the URL only, and
of those only files under the base URI in its access record; the reply to a list query is that
publisher's own file list. -/
theorem scope_of_accepted_8181 (decode : Bytes → Option (Signed PMsg)) (srv : Server)
    (publisher : Handle) (bytes : Bytes) :
    let srv' := (rfc8181 decode srv publisher bytes).1
    srv'.idKey = srv.idKey ∧
    (∀ h, h ≠ publisher → lookup srv'.publishers h = lookup srv.publishers h) ∧
    (∀ p, lookup srv.publishers publisher = some p →
      ∃ p', lookup srv'.publishers publisher = some p' ∧ p'.idKey = p.idKey ∧ p'.base = p.base ∧
        ∀ f, f.1.under p.base = false → (f ∈ p'.files ↔ f ∈ p.files)) ∧
    (∀ m fs, (rfc8181 decode srv publisher bytes).2 = .replied m → m.body = .listReply fs →
      ∃ p, lookup srv.publishers publisher = some p ∧ fs = p.files) := by
  have g := rfc8181_gate decode srv publisher bytes
  generalize rfc8181 decode srv publisher bytes = r at g
  have same : ∀ out : Out PMsg, (∀ m, out ≠ .replied m) →
      (srv, out).1.idKey = srv.idKey ∧
      (∀ h, h ≠ publisher → lookup (srv, out).1.publishers h = lookup srv.publishers h) ∧
      (∀ p, lookup srv.publishers publisher = some p →
        ∃ p', lookup (srv, out).1.publishers publisher = some p' ∧ p'.idKey = p.idKey ∧
          p'.base = p.base ∧ ∀ f, f.1.under p.base = false → (f ∈ p'.files ↔ f ∈ p.files)) ∧
      (∀ m fs, (srv, out).2 = .replied m → m.body = .listReply fs →
        ∃ p, lookup srv.publishers publisher = some p ∧ fs = p.files) := by
    intro out hno
    exact ⟨rfl, fun _ _ => rfl, fun p hp => ⟨p, hp, rfl, rfl, fun _ _ => Iff.rfl⟩,
      fun m fs h _ => absurd h (hno m)⟩
  cases g with
  | unknown _ => exact same _ (by intro m h; cases h)
  | undecodable _ _ _ => exact same _ (by intro m h; cases h)
  | badSig _ _ _ _ _ => exact same _ (by intro m h; cases h)
  | passed p sg hl hd hs r hr =>
    subst hr
    cases hb : sg.body with
    | listQuery =>
      simp only
      refine ⟨by first | rfl | trivial, fun _ _ => by first | rfl | trivial,
        fun p' hp' => ⟨p', hp', rfl, rfl, fun _ _ => Iff.rfl⟩, ?_⟩
      intro m fs hm hfs
      simp only [Out.replied.injEq] at hm
      subst hm
      simp only [PMsg.listReply.injEq] at hfs
      exact ⟨p, hl, hfs.symm⟩
    | delta els =>
      simp only
      cases hf : els.findSome? (elemError p) with
      | some code =>
        simp only
        refine ⟨by first | rfl | trivial, fun _ _ => by first | rfl | trivial,
        fun p' hp' => ⟨p', hp', rfl, rfl, fun _ _ => Iff.rfl⟩, ?_⟩
        intro m fs hm hfs
        simp only [Out.replied.injEq] at hm
        subst hm
        cases hfs
      | none =>
        simp only
        refine ⟨by first | rfl | trivial, fun h hne => lookup_update_ne _ _ _ _ hne, ?_, ?_⟩
        · intro p0 hp0
          rw [hl] at hp0; cases hp0
          refine ⟨_, lookup_update_eq _ _ _ _ hl, rfl, rfl, ?_⟩
          intro f hfu
          apply mem_foldl_applyElem
          intro e he hfe
          have := elemError_none_under p e (findSome_none _ _ hf e he)
          rw [← hfe, hfu] at this
          cases this
        · intro m fs hm hfs
          simp only [Out.replied.injEq] at hm
          subst hm
          cases hfs
    | listReply fs' => exact same _ (by intro m h; cases h)
    | success => exact same _ (by intro m h; cases h)
    | errorReply code => exact same _ (by intro m h; cases h)

/-- RFC 8181, request kind by request kind – only list and publish/update/withdraw queries are
answered:
* **list**: the reply is exactly the file list of the publisher named in the URL, nothing changes;
* **publish / update / withdraw**: either the whole delta is refused with an error reply and
  nothing changes, or every element is under the base URI of that publisher's access record, a
  plain publish does not overwrite an existing object, an update or withdraw names an object the
  publisher has (same URI, same hash) – and the publisher's new file set is the old one with
  exactly those elements applied. -/
theorem acts_for_publisher_by_kind_8181 (decode : Bytes → Option (Signed PMsg)) (srv : Server)
    (publisher : Handle) (bytes : Bytes) (m : Signed PMsg)
    (h : (rfc8181 decode srv publisher bytes).2 = .replied m) :
    ∃ sg p, decode bytes = some sg ∧ lookup srv.publishers publisher = some p ∧
      sg.signer = p.idKey ∧
      match sg.body with
      | .listQuery => m.body = .listReply p.files ∧ (rfc8181 decode srv publisher bytes).1 = srv
      | .delta els =>
        (∃ code, m.body = .errorReply code ∧ (rfc8181 decode srv publisher bytes).1 = srv) ∨
        (m.body = .success ∧
          (∀ e ∈ els, e.uri.under p.base = true ∧
            (∀ u hh, e = .publish u hh → hasUri p.files u = false) ∧
            (∀ u old new, e = .update u old new → hasFile p.files u old = true) ∧
            (∀ u old, e = .withdraw u old → hasFile p.files u old = true)) ∧
          lookup (rfc8181 decode srv publisher bytes).1.publishers publisher =
            some { p with files := els.foldl applyElem p.files })
      | _ => False := by
  have g := rfc8181_gate decode srv publisher bytes
  generalize rfc8181 decode srv publisher bytes = r at g h
  cases g with
  | unknown _ => cases h
  | undecodable _ _ _ => cases h
  | badSig _ _ _ _ _ => cases h
  | passed p sg hl hd hs r hr =>
    refine ⟨sg, p, hd, hl, hs.1, ?_⟩
    subst hr
    cases hb : sg.body with
    | listQuery =>
      simp only [hb, Out.replied.injEq] at h ⊢
      subst h
      exact ⟨by first | rfl | trivial, by first | rfl | trivial⟩
    | delta els =>
      simp only [hb] at h ⊢
      cases hf : els.findSome? (elemError p) with
      | some code =>
        simp only [hf, Out.replied.injEq] at h ⊢
        subst h
        exact Or.inl ⟨code, by first | rfl | trivial, by first | rfl | trivial⟩
      | none =>
        simp only [hf, Out.replied.injEq] at h ⊢
        subst h
        exact Or.inr ⟨rfl, delta_accepted p els hf, lookup_update_eq _ _ _ _ hl⟩
    | listReply fs => simp only [hb] at h; cases h
    | success => simp only [hb] at h; cases h
    | errorReply code => simp only [hb] at h; cases h

/-! ## The reply is signed with the server side's current identity key -/

/-- RFC 6492: any reply is signed with the ID key the CA has in this state (so with the new key
right after `ca_update_id`), is sent in the CA's name and addressed to the sender of the request. -/
theorem reply_signed_by_current_id (decode : Bytes → Option (Signed Msg)) (ca : Ca) (bytes : Bytes)
    (m : Signed Msg) (h : (rfc6492 decode ca bytes).2 = .replied m) :
    m.signer = ca.idKey ∧ m.body.sender = ca.handle ∧
    ∃ sg, decode bytes = some sg ∧ m.body.recipient = sg.body.sender := by
  have g := rfc6492_gate decode ca bytes
  generalize rfc6492 decode ca bytes = r at g h
  cases g with
  | ta _ => cases h
  | undecodable _ => cases h
  | unknown _ _ _ => cases h
  | badSig _ _ _ _ _ => cases h
  | passed sg c _ hd hl hs r hr =>
    subst hr
    simp only at h
    split at h
    · cases h
    · simp only [Out.replied.injEq] at h
      subst h
      exact ⟨rfl, rfl, sg, hd, rfl⟩

theorem reply_signed_by_current_id_after_update (decode : Bytes → Option (Signed Msg)) (ca : Ca)
    (k : Key) (bytes : Bytes) (m : Signed Msg)
    (h : (rfc6492 decode (ca.updateId k) bytes).2 = .replied m) : m.signer = k :=
  (reply_signed_by_current_id decode (ca.updateId k) bytes m h).1

theorem reply_signed_by_current_id_8181 (decode : Bytes → Option (Signed PMsg)) (srv : Server)
    (publisher : Handle) (bytes : Bytes) (m : Signed PMsg)
    (h : (rfc8181 decode srv publisher bytes).2 = .replied m) : m.signer = srv.idKey := by
  have g := rfc8181_gate decode srv publisher bytes
  generalize rfc8181 decode srv publisher bytes = r at g h
  cases g with
  | unknown _ => cases h
  | undecodable _ _ _ => cases h
  | badSig _ _ _ _ _ => cases h
  | passed p sg hl hd hs r hr =>
    subst hr
    simp only at h
    split at h
    · simp only [Out.replied.injEq] at h; subst h; rfl
    · split at h
      · simp only [Out.replied.injEq] at h; subst h; rfl
      · simp only [Out.replied.injEq] at h; subst h; rfl
    · cases h

/-! ## Non-vacuity -/

/-- A parent with two children; bytes are small numbers with a table as decoder. -/
example :
    let c1 : ChildRec := { idKey := 11, resources := [1, 2], inUse := [(101, "0")] }
    let c2 : ChildRec := { idKey := 12, resources := [3], suspended := true }
    let ca : Ca := { handle := "p", idKey := 5, children := [("a", c1), ("b", c2)],
                     classes := [("0", [1, 2, 3])], certs := [(101, "0", "a", [1, 2])] }
    let decode : Nat → Option (Signed Msg)
      | 0 => some { signer := 11, body := ⟨"a", "p", .list⟩ }               -- a, own key
      | 1 => some { signer := 12, body := ⟨"a", "p", .list⟩ }               -- a, signed by b
      | 2 => some { signer := 11, body := ⟨"a", "p", .revoke "0" 101⟩ }
      | 3 => some { signer := 12, body := ⟨"b", "p", .revoke "0" 101⟩ }     -- b revokes a's key
      | 4 => some { signer := 12, body := ⟨"b", "x", .issue "0" 201 [] true⟩ }  -- wrong recipient
      | 5 => some { signer := 11, body := ⟨"a", "p", .list⟩, fresh := false }
      | _ => none
    (rfc6492 decode ca 0).2 = .replied { signer := 5, body := ⟨"p", "a", .listResponse [("0", [1, 2], [101])]⟩ } ∧
    rfc6492 decode ca 1 = (ca, .refused .badSignature) ∧
    (rfc6492 decode ca 2).1.certs = [] ∧
    (rfc6492 decode ca 3).2 = .refused .processing ∧ (rfc6492 decode ca 3).1.certs = ca.certs ∧
    (rfc6492 decode ca 4).2 = .replied { signer := 5, body := ⟨"p", "b", .issueResponse "0" 201 [3]⟩ } ∧
    rfc6492 decode ca 5 = (ca, .refused .badSignature) ∧
    rfc6492 decode ca 9 = (ca, .refused .undecodable) ∧
    rfc6492 decode (ca.updateChildId "a" 13) 0 = (ca.updateChildId "a" 13, .refused .badSignature) := by
  intro c1 c2 ca decode
  decide

example :
    let pa : Publisher := { idKey := 11, base := ["repo", "a"], files := [(["repo", "a", "x.cer"], 1)] }
    let pb : Publisher := { idKey := 12, base := ["repo", "b"] }
    let srv : Server := { idKey := 7, publishers := [("a", pa), ("b", pb)] }
    let decode : Nat → Option (Signed PMsg)
      | 0 => some { signer := 11, body := .listQuery }
      | 1 => some { signer := 11, body := .delta [.publish ["repo", "a", "y.roa"] 2] }
      | 2 => some { signer := 11, body := .delta [.publish ["repo", "b", "y.roa"] 2] }   -- outside
      | 3 => some { signer := 11, body := .delta [.withdraw ["repo", "a", "x.cer"] 9] }  -- wrong hash
      | _ => none
    (rfc8181 decode srv "a" 0).2 = .replied { signer := 7, body := .listReply pa.files } ∧
    rfc8181 decode srv "b" 0 = (srv, .refused .badSignature) ∧      -- a's message on b's URL
    rfc8181 decode srv "c" 0 = (srv, .refused .unknownSender) ∧
    (rfc8181 decode srv "a" 1).2 = .replied { signer := 7, body := .success } ∧
    rfc8181 decode srv "a" 2 = (srv, .replied { signer := 7, body := .errorReply "permission_failure" }) ∧
    rfc8181 decode srv "a" 3 = (srv, .replied { signer := 7, body := .errorReply "no_object_present" }) := by
  intro pa pb srv decode
  decide

end KM.Props.C12
