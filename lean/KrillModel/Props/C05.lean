/-
C05 — Configuration changes are validated against held resources, all or nothing.
Property theorems only; helper lemmas live in `KrillModel.Ca.Lemmas`.

Models: `Ca/Roa.lean` (`Routes::process_updates`), `Ca/Aspa.lean`, `Ca/Bgpsec.lean` (BGPsec
and the child checks), `Ca/Resources.lean` (what "held" is for krill).

`held`/`holdsAsn` are parameters of the iff-theorems: they hold for every predicate, in
particular for `ResSet.holdsCode`, the test krill performs, which is the property's notion
of holding (`held_is_own_family`; the pinned tree's family-blind test is kept as a labelled
counter-model, `pinned_held_family_confusion`).

Clause → theorem (property text of C05 in properties.jsonl)
| clause | theorem(s) |
|---|---|
| a ROA delta is applied entirely or not at all | `roa_delta_all_or_nothing`, `roa_delta_result_keys`, `refused_leaves_untouched` |
| refused exactly when it adds a prefix not held / invalid max length / already present (same comment) / removes one not present | `roa_delta_iff` (+ `roa_update_iff` on the normalised delta), `roa_delta_errors_exact`, `held_is_own_family` |
| implicit and explicit max length, duplicates inside one delta | `normalised_explicit`, `Spec.present`/`commentOf` in `roa_delta_iff` |
| ASPA changes refused exactly when: customer AS not held, empty or duplicated provider list, customer its own provider, removal of what does not exist | `aspa_update_iff`, `aspa_existing_iff`; applied entirely: `aspa_update_applied` |
| router-key changes: AS not held, CSR not validly self-signed, removal of what does not exist | `bgpsec_update_iff`; applied entirely: `bgpsec_update_applied` |
| child changes: entitled to nothing (add), resources the parent does not hold, unknown / duplicate child | `child_add_iff`, `child_update_iff`, `child_update_accepts_empty` (shrinking to nothing is legitimate, C02) |
| a refused change leaves configuration (and repository) untouched | `refused_leaves_untouched` (per command); per API request: false for the multi-field child update, `child_request_not_atomic` (F-C05-1, open, system stream); repository: no event ⇒ nothing to publish (C07/C01) |
| for every request content against every reachable CA state (histories) | `history_entries_held_when_accepted`, `api_view_is_fold_of_accepted`, `aspa_history_customers_held`, `bgpsec_history_keys_held` |
| (pinned tree, fixed) | `pinned_held_family_confusion` (F-C05-2), `pinned_aspa_update_not_applied` (F-C05-3) |
-/
import KrillModel.Ca.Lemmas
namespace KM.Props.C05
open KM.Bgp KM.Ca KM.Input

/-! ## ROA deltas -/

/-- The error report of `process_updates` is exactly the list of bad entries, class by class
and in the order of the delta. -/
theorem roa_delta_errors_exact (r : Routes) (held : Roa → Bool) (u : RoaUpdates) (E : DeltaError)
    (h : processUpdates r held u = .error E) : E = Spec.expectedErrors r held u := by
  rw [processUpdates_def] at h
  have hc := (processUpdates_closed r held u).1
  split at h
  · cases h
  · simp only [Except.error.injEq] at h
    rw [← h, hc]

/-- **A ROA delta is refused exactly when one of its entries is bad.** -/
theorem roa_delta_iff (r : Routes) (held : Roa → Bool) (u : RoaUpdates) :
    (∃ E, processUpdates r held u = .error E) ↔ Spec.SomeEntryBad r held u := by
  have hc := (processUpdates_closed r held u).1
  rw [processUpdates_def, hc]
  by_cases he : (Spec.expectedErrors r held u).isEmpty = true
  · simp only [he, if_true]
    constructor
    · rintro ⟨E, hE⟩; cases hE
    · intro hb; exact absurd hb ((expected_empty_iff r held u).mp he)
  · simp only [he, Bool.false_eq_true, if_false]
    constructor
    · intro _
      apply Classical.byContradiction
      intro hno
      exact he ((expected_empty_iff r held u).mpr hno)
    · intro _; exact ⟨_, rfl⟩

/-- **All or nothing.**  A refused delta yields no event at all (`Except.error` carries
none); an accepted delta yields events that, applied to the configuration, produce exactly
`(r ∖ removed) ∪ added`, every added authorisation carrying the comment of its last
mention, and the configuration handed on for issuing ROA objects has the same
authorisations. -/
theorem roa_delta_all_or_nothing (r : Routes) (held : Roa → Bool) (u : RoaUpdates)
    (r' : Routes) (evs : List RouteEv) (h : processUpdates r held u = .ok (r', evs)) :
    (∀ p, (applyRouteEvs r evs).get? p = Spec.expectedGet r u p) ∧
    (∀ p, r'.has p = (applyRouteEvs r evs).has p) := by
  obtain ⟨hE, _, hJ, hK⟩ := processUpdates_closed r held u
  rw [processUpdates_def] at h
  split at h
  · rename_i hempty
    simp only [Except.ok.injEq, Prod.mk.injEq] at h
    obtain ⟨rfl, rfl⟩ := h
    refine ⟨?_, fun p => (hJ p).symm⟩
    intro p
    rw [hK hempty p]
    unfold Spec.expectedGet
    rfl
  · cases h

/-- On an accepted delta every listed removal is gone unless re-added, every addition is
there. -/
theorem roa_delta_result_keys (r : Routes) (held : Roa → Bool) (u : RoaUpdates)
    (r' : Routes) (evs : List RouteEv) (h : processUpdates r held u = .ok (r', evs)) (p : Roa) :
    (applyRouteEvs r evs).has p =
      ((r.has p && !(u.removed.contains p)) || u.added.any (fun c => c.payload == p)) := by
  have := (roa_delta_all_or_nothing r held u r' evs h).1 p
  rw [Routes.has_eq_isSome, this]
  unfold Spec.expectedGet Spec.lastComment
  cases hf : u.added.reverse.find? (fun c => c.payload == p) with
  | some c =>
    have hm := List.mem_of_find?_eq_some hf
    have hp : (c.payload == p) = true := by simpa using List.find?_some hf
    have : u.added.any (fun c => c.payload == p) = true :=
      List.any_eq_true.mpr ⟨c, List.mem_reverse.mp hm, hp⟩
    simp [this]
  | none =>
    have : u.added.any (fun c => c.payload == p) = false := by
      rw [List.any_eq_false]
      intro c hc
      have := List.find?_eq_none.mp hf c (List.mem_reverse.mpr hc)
      simpa using this
    simp only [Option.map_none, this, Bool.or_false]
    rw [← Routes.has_eq_isSome, Spec.baseline_has]

/-- The production path (`process_route_authorizations_update`) normalises the delta first;
the characterisation is the same on the normalised delta. -/
theorem roa_update_iff (r : Routes) (held : Roa → Bool) (u : RoaUpdates) :
    (∃ E, processRouteUpdate r held u = .error E) ↔ Spec.SomeEntryBad r held u.setExplicitMaxLength :=
  roa_delta_iff r held u.setExplicitMaxLength

/-- After normalisation every payload of the delta carries an explicit max length. -/
theorem normalised_explicit (u : RoaUpdates) :
    (∀ c ∈ u.setExplicitMaxLength.added, c.payload.maxLen.isSome = true) ∧
    (∀ p ∈ u.setExplicitMaxLength.removed, p.maxLen.isSome = true) := by
  unfold RoaUpdates.setExplicitMaxLength setExplicitMaxLength
  constructor
  · intro c hc
    simp only [List.mem_map] at hc
    obtain ⟨c', _, rfl⟩ := hc; rfl
  · intro p hp
    simp only [List.mem_map] at hp
    obtain ⟨p', _, rfl⟩ := hp; rfl

/-! ## Histories of ROA requests -/

/-- One request: what it can bring into the configuration.  An authorisation that is
configured afterwards either was configured before, or the request was accepted and lists it
among its (normalised) additions with a valid max length and a prefix held *at that
moment*. -/
theorem request_adds_only_held (r : Routes) (q : RouteReq) (p : Roa)
    (h : (routeCommand r q.held q.upd).has p = true) :
    r.has p = true ∨
      (Spec.accepted r q = true ∧ (∃ c ∈ q.upd.setExplicitMaxLength.added, c.payload = p) ∧
        q.held p = true ∧ maxLengthValid p = true) := by
  obtain ⟨hacc, href⟩ := routeCommand_view r q
  by_cases ha : Spec.accepted r q = true
  · have hv := hacc ha p
    rw [Routes.has_eq_isSome, hv] at h
    unfold Spec.viewStep at h
    cases hl : Spec.lastComment q.upd.setExplicitMaxLength.added p with
    | none =>
      rw [hl] at h
      simp only at h
      left
      split at h
      · cases h
      · rw [Routes.has_eq_isSome]; exact h
    | some c =>
      right
      unfold Spec.lastComment at hl
      obtain ⟨cf, hcf, _⟩ := Option.map_eq_some_iff.mp hl
      have hmem : cf ∈ q.upd.setExplicitMaxLength.added := List.mem_reverse.mp (List.mem_of_find?_eq_some hcf)
      have hpay : cf.payload = p := by simpa using List.find?_some hcf
      -- accepted: the entry is not bad
      have hnb := (expected_empty_iff r q.held q.upd.setExplicitMaxLength).mp ha
      obtain ⟨pre, post, hsplit⟩ := List.append_of_mem hmem
      have hv1 : maxLengthValid cf.payload = true := by
        apply Classical.byContradiction
        intro hn
        exact hnb (Or.inr ⟨pre, cf, post, hsplit, Or.inl (by simpa using hn)⟩)
      have hh1 : q.held cf.payload = true := by
        apply Classical.byContradiction
        intro hn
        exact hnb (Or.inr ⟨pre, cf, post, hsplit, Or.inr (Or.inl (by simpa using hn))⟩)
      exact ⟨ha, ⟨cf, hmem, hpay⟩, hpay ▸ hh1, hpay ▸ hv1⟩
  · have ha' : Spec.accepted r q = false := by simpa using ha
    rw [href ha'] at h
    exact Or.inl h

/-- **Every reachable configuration only contains authorisations that were within the held
resources at the time of acceptance**: whatever is configured after a history of requests
was configured at the start or was added by an accepted request whose resources held its
prefix (and whose max length was valid) – entitlements may change freely between requests. -/
theorem history_entries_held_when_accepted (r0 : Routes) (h : List RouteReq) (p : Roa)
    (hp : (runRoutes r0 h).has p = true) :
    r0.has p = true ∨
      ∃ pre q post, h = pre ++ q :: post ∧ Spec.accepted (runRoutes r0 pre) q = true ∧
        (∃ c ∈ q.upd.setExplicitMaxLength.added, c.payload = p) ∧
        q.held p = true ∧ maxLengthValid p = true := by
  induction h generalizing r0 with
  | nil => exact Or.inl hp
  | cons q rest ih =>
    have hrun : runRoutes r0 (q :: rest) = runRoutes (routeCommand r0 q.held q.upd) rest := rfl
    rw [hrun] at hp
    rcases ih (routeCommand r0 q.held q.upd) hp with h1 | ⟨pre, q', post, hs, hacc, hc, hh, hv⟩
    · rcases request_adds_only_held r0 q p h1 with h2 | ⟨hacc, hc, hh, hv⟩
      · exact Or.inl h2
      · exact Or.inr ⟨[], q, rest, rfl, hacc, hc, hh, hv⟩
    · refine Or.inr ⟨q :: pre, q', post, by rw [hs]; rfl, ?_, hc, hh, hv⟩
      exact hacc

/-- **What the API shows equals the fold of the accepted deltas**: after any history of
requests the configured authorisations and their comments are what results from applying
the accepted deltas in order (`Spec.viewStep`: last mention among the additions, else gone
if removed, else unchanged); refused requests leave no trace. -/
theorem api_view_is_fold_of_accepted (r0 : Routes) (h : List RouteReq) :
    ∀ p, (runRoutes r0 h).get? p = Spec.viewRun r0 r0.get? h p := by
  suffices H : ∀ (r : Routes) (g : Roa → Option Comment), (∀ p, r.get? p = g p) →
      ∀ p, (runRoutes r h).get? p = Spec.viewRun r g h p from H r0 r0.get? (fun _ => rfl)
  induction h with
  | nil => intro r g hg p; exact hg p
  | cons q rest ih =>
    intro r g hg p
    have hrun : runRoutes r (q :: rest) = runRoutes (routeCommand r q.held q.upd) rest := rfl
    rw [hrun]
    obtain ⟨hacc, href⟩ := routeCommand_view r q
    unfold Spec.viewRun
    by_cases ha : Spec.accepted r q = true
    · simp only [ha, if_true]
      apply ih
      intro p'
      rw [hacc ha p']
      unfold Spec.viewStep
      rw [hg p']
    · have ha' : Spec.accepted r q = false := by simpa using ha
      simp only [ha', Bool.false_eq_true, if_false]
      rw [href ha']
      exact ih r g hg p

/-! ## What krill takes for "held" -/

/-- **krill's test is the property's notion of holding** (after fix f600a28f,
`RoaPayload::is_held_by`): a block of the prefix' own address family spans the prefix.
Together with `roa_delta_iff` (which holds for every `held`): a ROA delta is refused exactly
when … it adds a prefix the CA does not hold. -/
theorem held_is_own_family (res : ResSet) (roa : Roa) :
    res.holdsCode roa = res.holdsSpec roa := rfl

/-- COUNTER-MODEL WITNESS – what the pinned tree did (finding F-C05-2, fixed by f600a28f):
rpki-rs's `contains_roa_address` is blind to the address family.  A CA that held only IPv4
`10.0.0.0/8` passed the test for the IPv6 prefix `a00::/16` and the delta was accepted. -/
theorem pinned_held_family_confusion :
    ∃ (res : ResSet) (roa : Roa), roa.pfx.WF ∧ res.v6 = [] ∧ roa.pfx.fam = .v6 ∧
      res.holdsSpec roa = false ∧ res.holdsPinned roa = true ∧
      (∃ r' evs, processUpdates [] res.holdsPinned ⟨[⟨roa, none⟩], []⟩ = .ok (r', evs)) ∧
      (∃ E, processUpdates [] res.holdsCode ⟨[⟨roa, none⟩], []⟩ = .error E) := by
  refine ⟨{ v4 := [(10 * 2 ^ 120, 11 * 2 ^ 120 - 1)] }, ⟨64496, ⟨.v6, 0x0a00 * 2 ^ 112, 16⟩, some 16⟩,
    by decide, rfl, rfl, by decide, by decide, ?_, ?_⟩
  · exact ⟨[(⟨64496, ⟨.v6, 0x0a00 * 2 ^ 112, 16⟩, some 16⟩, none)],
      [.added ⟨64496, ⟨.v6, 0x0a00 * 2 ^ 112, 16⟩, some 16⟩], rfl⟩
  · exact ⟨{ notheld := [⟨⟨64496, ⟨.v6, 0x0a00 * 2 ^ 112, 16⟩, some 16⟩, none⟩] }, rfl⟩

/-! ## ASPA -/

/-- **An ASPA update is refused exactly when** it removes a definition that does not exist
(or that an earlier removal of the same update took), or contains a definition with an empty
provider list, with the customer among the providers, with a duplicated provider, or for a
customer AS that is not held. -/
theorem aspa_update_iff (s : AspaDefs) (holdsAsn : Nat → Bool) (u : AspaUpdates) :
    (∃ e, aspaProcessUpdates s holdsAsn u = .error e) ↔
      (∃ pre c post, u.remove = pre ++ c :: post ∧ (s.has c = false ∨ c ∈ pre)) ∨
      (∃ d ∈ u.addOrReplace, d.providers = [] ∨ d.customer ∈ d.providers ∨
        hasDup d.providers = true ∨ holdsAsn d.customer = false) := by
  have hrem := aspaRemoveFold s u.remove [] (s, []) (aspaBase_nil s).symm
  simp only [List.nil_append] at hrem
  have hbadrem : (∃ pre c post, u.remove = pre ++ c :: post ∧ Spec.badRemove s pre c = true) ↔
      (∃ pre c post, u.remove = pre ++ c :: post ∧ (s.has c = false ∨ c ∈ pre)) := by
    unfold Spec.badRemove
    constructor <;> rintro ⟨pre, c, post, hs, hb⟩ <;> refine ⟨pre, c, post, hs, ?_⟩ <;> simpa using hb
  have hbaddef : (∃ d ∈ u.addOrReplace, Spec.badDef holdsAsn d = true) ↔
      (∃ d ∈ u.addOrReplace, d.providers = [] ∨ d.customer ∈ d.providers ∨
        hasDup d.providers = true ∨ holdsAsn d.customer = false) := by
    unfold Spec.badDef
    constructor <;> rintro ⟨d, hd, hb⟩ <;> refine ⟨d, hd, ?_⟩
    · simpa [or_assoc] using hb
    · simpa [or_assoc] using hb
  rw [← hbadrem, ← hbaddef]
  unfold aspaProcessUpdates
  cases hf : foldlE aspaRemoveStep (s, []) u.remove with
  | error e =>
    simp only
    constructor
    · intro _; exact Or.inl (hrem.1.mp ⟨e, hf⟩)
    · intro _; exact ⟨e, rfl⟩
  | ok acc =>
    simp only
    rw [aspaAddFold]
    constructor
    · intro h; exact Or.inr h
    · rintro (h | h)
      · obtain ⟨e, he⟩ := hrem.1.mpr h
        rw [hf] at he; cases he
      · exact h

/-- **A provider update of an existing definition is refused exactly when** it would leave a
changed, non-empty definition for a customer AS that is not held or that would list the
customer as its own provider. -/
theorem aspa_existing_iff (s : AspaDefs) (holdsAsn : Nat → Bool) (c : Nat) (u : ProvUpdate) :
    (∃ e, updatedAllowedAndNeeded s holdsAsn c u = .error e) ↔
      (let existing : AspaDef := (s.get? c).getD ⟨c, []⟩
       let updated := existing.applyUpdate u
       updated ≠ existing ∧ updated.providers ≠ [] ∧
        (holdsAsn c = false ∨ updated.customer ∈ updated.providers)) := by
  unfold updatedAllowedAndNeeded AspaDef.customerUsedAsProvider
  simp only
  by_cases h1 : (((s.get? c).getD ⟨c, []⟩).applyUpdate u == (s.get? c).getD ⟨c, []⟩) = true
  · have : ((s.get? c).getD ⟨c, []⟩).applyUpdate u = (s.get? c).getD ⟨c, []⟩ := by simpa using h1
    simp [this]
  · have hne : ((s.get? c).getD ⟨c, []⟩).applyUpdate u ≠ (s.get? c).getD ⟨c, []⟩ := by simpa using h1
    simp only [h1, Bool.false_eq_true, if_false]
    by_cases h2 : (((s.get? c).getD ⟨c, []⟩).applyUpdate u).providers.isEmpty = true
    · have : (((s.get? c).getD ⟨c, []⟩).applyUpdate u).providers = [] := by simpa using h2
      simp [this]
    · have hn2 : (((s.get? c).getD ⟨c, []⟩).applyUpdate u).providers ≠ [] := by simpa using h2
      simp only [h2, Bool.false_eq_true, if_false]
      by_cases h3 : holdsAsn c = true
      · simp only [h3, Bool.not_true, Bool.false_eq_true, if_false]
        by_cases h4 : (((s.get? c).getD ⟨c, []⟩).applyUpdate u).providers.contains
            (((s.get? c).getD ⟨c, []⟩).applyUpdate u).customer = true
        · have h4' : (((s.get? c).getD ⟨c, []⟩).applyUpdate u).customer ∈
              (((s.get? c).getD ⟨c, []⟩).applyUpdate u).providers := by simpa using h4
          simp only [h4, if_true]
          exact ⟨fun _ => ⟨hne, hn2, Or.inr h4'⟩, fun _ => ⟨_, rfl⟩⟩
        · have h4' : ¬ (((s.get? c).getD ⟨c, []⟩).applyUpdate u).customer ∈
              (((s.get? c).getD ⟨c, []⟩).applyUpdate u).providers := by simpa using h4
          simp only [h4, Bool.false_eq_true, if_false]
          constructor
          · rintro ⟨e, he⟩; cases he
          · rintro ⟨_, _, h | h⟩
            · cases h
            · exact absurd h h4'
      · have h3' : holdsAsn c = false := by simpa using h3
        simp only [h3', Bool.not_false, if_true]
        exact ⟨fun _ => ⟨hne, hn2, by simp⟩, fun _ => ⟨_, rfl⟩⟩

/-- **An accepted ASPA update is applied entirely** (after fix abeec4b3): for every customer
the definition the events leave behind has the providers of the definition the ASPA objects
are issued from (`apply_update` sorts them, hence "up to order") – also when a customer is
removed and listed again, or listed twice, in one update. -/
theorem aspa_update_applied (s : AspaDefs) (holdsAsn : Nat → Bool) (u : AspaUpdates)
    (all : AspaDefs) (evs : List AspaEv)
    (h : aspaProcessUpdates s holdsAsn u = .ok (all, evs)) :
    ∀ c, SameProviders ((applyAspaEvs s evs).get? c) (all.get? c) := by
  unfold aspaProcessUpdates at h
  cases hf : foldlE aspaRemoveStep (s, []) u.remove with
  | error e => rw [hf] at h; cases h
  | ok acc =>
    rw [hf] at h
    simp only at h
    have happ := aspaRemoveFold_applied s u.remove (s, []) acc (by simp [applyAspaEvs]) hf
    exact aspaAddFold_applied s holdsAsn u.addOrReplace acc (all, evs)
      (by intro c; rw [happ]; exact sameProviders_refl _) h

/-- COUNTER-MODEL WITNESS – what the pinned tree did (finding F-C05-3, fixed by abeec4b3):
`process_updates` computed the event of an `add_or_replace` entry against the definitions
*before* the update.  With `64496 => 1,2` configured, the update
`{remove: [64496], add_or_replace: [64496 => 1,2]}` was accepted, the returned definitions
(from which the objects were issued) contained `64496 => 1,2`, the events left nothing;
and with `64496 => 1` configured, listing `64496 => 1,2` and then `64496 => 1` returned
`64496 => 1` while the events left `64496 => 1,2`.  The fixed code gets both right. -/
theorem pinned_aspa_update_not_applied :
    (∃ (s : AspaDefs) (holdsAsn : Nat → Bool) (u : AspaUpdates) (all : AspaDefs) (evs : List AspaEv),
      aspaProcessUpdatesPinned s holdsAsn u = .ok (all, evs) ∧
      all.has 64496 = true ∧ (applyAspaEvs s evs).has 64496 = false) ∧
    (∃ (s : AspaDefs) (holdsAsn : Nat → Bool) (u : AspaUpdates) (all : AspaDefs) (evs : List AspaEv),
      aspaProcessUpdatesPinned s holdsAsn u = .ok (all, evs) ∧ u.remove = [] ∧
      (all.get? 64496).map (·.providers) = some [1] ∧
      ((applyAspaEvs s evs).get? 64496).map (·.providers) = some [1, 2]) := by
  refine ⟨⟨[⟨64496, [1, 2]⟩], fun _ => true, ⟨[⟨64496, [1, 2]⟩], [64496]⟩, _, _, rfl, ?_, ?_⟩,
    ⟨[⟨64496, [1]⟩], fun _ => true, ⟨[⟨64496, [1, 2]⟩, ⟨64496, [1]⟩], []⟩, _, _, rfl, rfl, ?_, ?_⟩⟩ <;> decide

/-- **ASPA histories**: a customer that has a definition after a history of update requests
had one at the start or was listed by an accepted request while its AS was held, with a
non-empty, duplicate-free provider list that does not name the customer. -/
theorem aspa_history_customers_held (s0 : AspaDefs) (h : List AspaReq) (c : Nat)
    (hc : (runAspa s0 h).has c = true) :
    s0.has c = true ∨
      ∃ pre q post d, h = pre ++ q :: post ∧ d ∈ q.upd.addOrReplace ∧ d.customer = c ∧
        (∃ r, aspaProcessUpdates (runAspa s0 pre) q.holdsAsn q.upd = .ok r) ∧
        q.holdsAsn c = true ∧ d.providers ≠ [] ∧ d.customer ∉ d.providers ∧ hasDup d.providers = false := by
  induction h generalizing s0 with
  | nil => exact Or.inl hc
  | cons q rest ih =>
    have hrun : runAspa s0 (q :: rest) = runAspa (aspaCommand s0 q.holdsAsn q.upd) rest := rfl
    rw [hrun] at hc
    rcases ih (aspaCommand s0 q.holdsAsn q.upd) hc with h1 | ⟨pre, q', post, d, hs, hd, hdc, hok, hh, h3⟩
    · -- one request
      unfold aspaCommand at h1
      cases hp : aspaProcessUpdates s0 q.holdsAsn q.upd with
      | error e => rw [hp] at h1; exact Or.inl h1
      | ok r =>
        obtain ⟨all, evs⟩ := r
        rw [hp] at h1
        simp only at h1
        -- the applied definitions have the customers of the running copy
        have hsame := aspa_update_applied s0 q.holdsAsn q.upd all evs hp c
        have hall : all.has c = true := by
          rw [AspaDefs.has_eq_isSome, ← sameProviders_isSome hsame, ← AspaDefs.has_eq_isSome]; exact h1
        -- which were there before or are listed
        have hp' := hp
        unfold aspaProcessUpdates at hp'
        cases hf : foldlE aspaRemoveStep (s0, []) q.upd.remove with
        | error e => rw [hf] at hp'; cases hp'
        | ok acc =>
          rw [hf] at hp'
          simp only at hp'
          have hbase := (aspaRemoveFold s0 q.upd.remove [] (s0, []) (aspaBase_nil s0).symm).2 acc hf
          simp only [List.nil_append] at hbase
          rcases aspaAddFold_has q.holdsAsn q.upd.addOrReplace acc (all, evs) hp' c hall with h2 | ⟨d, hd, hdc⟩
          · left
            rw [hbase, aspaBase_has] at h2
            simp only [Bool.and_eq_true] at h2
            exact h2.1
          · right
            -- accepted: no listed definition is bad
            have hnobad : ¬ ∃ e, aspaProcessUpdates s0 q.holdsAsn q.upd = .error e := by
              rintro ⟨e, he⟩; rw [hp] at he; cases he
            rw [aspa_update_iff] at hnobad
            have hgood : ¬ (d.providers = [] ∨ d.customer ∈ d.providers ∨
                hasDup d.providers = true ∨ q.holdsAsn d.customer = false) :=
              fun hb => hnobad (Or.inr ⟨d, hd, hb⟩)
            simp only [not_or] at hgood
            refine ⟨[], q, rest, d, rfl, hd, hdc, ⟨_, hp⟩, ?_, hgood.1, hgood.2.1, by simpa using hgood.2.2.1⟩
            rw [← hdc]; simpa using hgood.2.2.2
    · exact Or.inr ⟨q :: pre, q', post, d, by rw [hs]; rfl, hd, hdc, hok, hh, h3⟩

/-! ## BGPsec router keys -/

/-- **A router-key update is refused exactly when** it removes a definition that does not
exist (or that an earlier removal of the same update took), or adds one whose CSR is not
validly self-signed or whose AS is not held. -/
theorem bgpsec_update_iff (s : BgpsecDefs) (holdsAsn : Nat → Bool) (now : Nat) (u : BgpsecUpdates) :
    (∃ e, bgpsecProcessUpdates s holdsAsn now u = .error e) ↔
      (∃ pre k post, u.remove = pre ++ k :: post ∧ (s.has k = false ∨ k ∈ pre)) ∨
      (∃ d ∈ u.add, d.valid = false ∨ holdsAsn d.asn = false) := by
  have hrem := bgpsecRemoveFold s u.remove [] (s, []) (bgpsecBase_nil s).symm
  simp only [List.nil_append] at hrem
  have hbadrem : (∃ pre k post, u.remove = pre ++ k :: post ∧ bgpsecBadRemove s pre k = true) ↔
      (∃ pre k post, u.remove = pre ++ k :: post ∧ (s.has k = false ∨ k ∈ pre)) := by
    unfold bgpsecBadRemove
    constructor <;> rintro ⟨pre, c, post, hs, hb⟩ <;> refine ⟨pre, c, post, hs, ?_⟩ <;> simpa using hb
  have hbaddef : (∃ d ∈ u.add, bgpsecBadDef holdsAsn d = true) ↔
      (∃ d ∈ u.add, d.valid = false ∨ holdsAsn d.asn = false) := by
    unfold bgpsecBadDef
    constructor <;> rintro ⟨d, hd, hb⟩ <;> refine ⟨d, hd, ?_⟩ <;> simpa using hb
  rw [← hbadrem, ← hbaddef]
  unfold bgpsecProcessUpdates
  cases hf : foldlE' bgpsecRemoveStep (s, []) u.remove with
  | error e =>
    simp only
    constructor
    · intro _; exact Or.inl (hrem.1.mp ⟨e, hf⟩)
    · intro _; exact ⟨e, rfl⟩
  | ok acc =>
    simp only
    have hadd := bgpsecAddFold holdsAsn u.add (acc.1, acc.2, now)
    constructor
    · rintro ⟨e, he⟩
      right
      apply hadd.mp
      cases hx : foldlE' (bgpsecAddStep holdsAsn) (acc.1, acc.2, now) u.add with
      | error e' => exact ⟨e', rfl⟩
      | ok r => rw [hx] at he; cases he
    · rintro (h | h)
      · obtain ⟨e, he⟩ := hrem.1.mpr h
        rw [hf] at he; cases he
      · obtain ⟨e, he⟩ := hadd.mpr h
        exact ⟨e, by rw [he]⟩

/-- The events of an accepted router-key update produce exactly the definitions the
certificates are issued from. -/
theorem bgpsec_update_applied (s : BgpsecDefs) (holdsAsn : Nat → Bool) (now : Nat) (u : BgpsecUpdates)
    (all : BgpsecDefs) (evs : List BgpsecEv)
    (h : bgpsecProcessUpdates s holdsAsn now u = .ok (all, evs)) :
    applyBgpsecEvs s evs = all ∧
      ∀ k, all.has k = true → s.has k = true ∨ ∃ d ∈ u.add, (⟨d.asn, d.key⟩ : BgpsecKey) = k := by
  unfold bgpsecProcessUpdates at h
  cases hf : foldlE' bgpsecRemoveStep (s, []) u.remove with
  | error e => rw [hf] at h; cases h
  | ok acc =>
    rw [hf] at h
    simp only at h
    obtain ⟨r1, r2⟩ := bgpsecRemoveFold_applied s u.remove (s, []) acc (by simp [applyBgpsecEvs]) hf
    cases hg : foldlE' (bgpsecAddStep holdsAsn) (acc.1, acc.2, now) u.add with
    | error e => rw [hg] at h; cases h
    | ok r =>
      rw [hg] at h
      simp only [Except.ok.injEq, Prod.mk.injEq] at h
      obtain ⟨rfl, rfl⟩ := h
      obtain ⟨a1, a2⟩ := bgpsecAddFold_applied s holdsAsn u.add (acc.1, acc.2, now) r r1 hg
      refine ⟨a1, ?_⟩
      intro k hk
      rcases a2 k hk with h1 | h1
      · exact Or.inl (r2 k h1)
      · exact Or.inr h1

/-- **Router-key histories**: a definition that exists after a history of update requests
existed at the start or was added by an accepted request with a validly signed CSR while
its AS was held. -/
theorem bgpsec_history_keys_held (s0 : BgpsecDefs) (h : List BgpsecReq) (k : BgpsecKey)
    (hk : (runBgpsec s0 h).has k = true) :
    s0.has k = true ∨
      ∃ pre q post d, h = pre ++ q :: post ∧ d ∈ q.upd.add ∧ (⟨d.asn, d.key⟩ : BgpsecKey) = k ∧
        d.valid = true ∧ q.holdsAsn d.asn = true := by
  induction h generalizing s0 with
  | nil => exact Or.inl hk
  | cons q rest ih =>
    have hrun : runBgpsec s0 (q :: rest) = runBgpsec (bgpsecCommand s0 q.holdsAsn q.now q.upd) rest := rfl
    rw [hrun] at hk
    rcases ih _ hk with h1 | ⟨pre, q', post, d, hs, hd, hdk, hv, hh⟩
    · unfold bgpsecCommand at h1
      cases hp : bgpsecProcessUpdates s0 q.holdsAsn q.now q.upd with
      | error e => rw [hp] at h1; exact Or.inl h1
      | ok r =>
        obtain ⟨all, evs⟩ := r
        rw [hp] at h1
        simp only at h1
        obtain ⟨happ, hkeys⟩ := bgpsec_update_applied s0 q.holdsAsn q.now q.upd all evs hp
        rw [happ] at h1
        rcases hkeys k h1 with h2 | ⟨d, hd, hdk⟩
        · exact Or.inl h2
        · right
          have hnobad : ¬ ∃ e, bgpsecProcessUpdates s0 q.holdsAsn q.now q.upd = .error e := by
            rintro ⟨e, he⟩; rw [hp] at he; cases he
          rw [bgpsec_update_iff] at hnobad
          have hgood : ¬ (d.valid = false ∨ q.holdsAsn d.asn = false) :=
            fun hb => hnobad (Or.inr ⟨d, hd, hb⟩)
          simp only [not_or] at hgood
          exact ⟨[], q, rest, d, rfl, hd, hdk, by simpa using hgood.1, by simpa using hgood.2⟩
    · exact Or.inr ⟨q :: pre, q', post, d, by rw [hs]; rfl, hd, hdk, hv, hh⟩

/-! ## Children -/

/-- **Adding a child is refused exactly when** it would be entitled to nothing, to
resources the CA does not hold, or the name is taken. -/
theorem child_add_iff (all : ResSet) (s : Children) (h : String) (id : Nat) (res : ResSet) :
    (∃ e, processChildAdd all s h id res = .error e) ↔
      (res.isEmpty = true ∨ all.contains res = false ∨ s.has h = true) := by
  unfold processChildAdd
  by_cases h1 : res.isEmpty = true
  · simp [h1]
  · by_cases h2 : all.contains res = true
    · by_cases h3 : s.has h = true <;> simp [h1, h2, h3]
    · simp [h1, h2]

/-- **Changing a child's resources is refused exactly when** the new resources are not held
by the CA or the child does not exist. -/
theorem child_update_iff (all : ResSet) (s : Children) (h : String) (res : ResSet) :
    (∃ e, processChildUpdateResources all s h res = .error e) ↔
      (all.contains res = false ∨ s.has h = false) := by
  unfold processChildUpdateResources
  by_cases h2 : all.contains res = true
  · simp only [h2, Bool.not_true, Bool.false_eq_true, if_false, false_or, reduceCtorEq]
    cases hg : s.get? h with
    | none => simp [(children_get_none s h).mp hg]
    | some c =>
      have : s.has h = true := by
        apply Classical.byContradiction
        intro hn
        have : s.has h = false := by simpa using hn
        rw [(children_get_none s h).mpr this] at hg; cases hg
      simp only [this, reduceCtorEq, iff_false]
      rintro ⟨e, he⟩
      split at he <;> cases he
  · simp [h2]

/-- Shrinking a child to nothing is a legitimate update (C02 quantifies over histories that
do so); the clause "child entitled to nothing" of the property is about *adding* a child
(`child_add_iff`).  `process_child_update_resources` accepts the empty set. -/
theorem child_update_accepts_empty :
    ∃ (all : ResSet) (s : Children) (evs : List ChildEv),
      processChildUpdateResources all s "a" {} = .ok evs ∧
      ((applyChildEvs s evs).get? "a").map (·.resources.isEmpty) = some true := by
  refine ⟨{ v4 := [(0, 100)] }, [("a", ⟨0, { v4 := [(0, 10)] }⟩)], _, rfl, by decide⟩

/-- **One API request, several commands** (`CaManager::ca_child_update`): a request that
carries a new ID certificate *and* new resources is executed as two commands; when the
second is refused the first stays applied.  The full statement "a refused child update
request leaves the configuration untouched" fails at the level of the request; it holds per
command (`refused_leaves_untouched`).  (Finding F-C05-1; replayed on the real `CaManager` by
the `system` stream, oracle `refused_leaves_untouched` of the `sysreq` driver.) -/
theorem child_request_not_atomic :
    ∃ (all : ResSet) (s : Children) (req : ChildUpdateReq) (e : ChildErr),
      (caChildUpdate all s "a" req).2 = some e ∧ (caChildUpdate all s "a" req).1 ≠ s := by
  refine ⟨{ v4 := [(0, 100)] }, [("a", ⟨0, { v4 := [(0, 10)] }⟩)],
    ⟨some 1, some { v4 := [(0, 200)] }⟩, .extraResources, by decide, by decide⟩

/-! ## A refused change leaves the configuration untouched -/

/-- Every configuration command of this file: when the validation refuses, the command has
no event and the configuration is what it was.  (That a command without events writes
nothing but its audit record is C07's store theorem.) -/
theorem refused_leaves_untouched :
    (∀ (r : Routes) (held : Roa → Bool) (u : RoaUpdates) (E : DeltaError),
      processRouteUpdate r held u = .error E → routeCommand r held u = r) ∧
    (∀ (s : AspaDefs) (holdsAsn : Nat → Bool) (u : AspaUpdates) (e : AspaErr),
      aspaProcessUpdates s holdsAsn u = .error e → aspaCommand s holdsAsn u = s) ∧
    (∀ (s : AspaDefs) (holdsAsn : Nat → Bool) (c : Nat) (u : ProvUpdate) (e : AspaErr),
      updatedAllowedAndNeeded s holdsAsn c u = .error e →
        aspaUpdateExisting s holdsAsn c u = .error e) ∧
    (∀ (s : BgpsecDefs) (holdsAsn : Nat → Bool) (now : Nat) (u : BgpsecUpdates) (e : BgpsecErr),
      bgpsecProcessUpdates s holdsAsn now u = .error e → bgpsecCommand s holdsAsn now u = s) := by
  refine ⟨?_, ?_, ?_, ?_⟩
  · intro r held u E h; unfold routeCommand; rw [h]
  · intro s ha u e h; unfold aspaCommand; rw [h]
  · intro s ha c u e h; unfold aspaUpdateExisting; rw [h]
  · intro s ha now u e h; unfold bgpsecCommand; rw [h]

/-! ## Non-vacuity -/

/-- A delta with one entry of every bad class and a good one: refused, all four lists
non-empty. -/
example :
    let p1 : Roa := ⟨64496, ⟨.v4, 167772160, 8⟩, some 8⟩
    let p2 : Roa := ⟨64496, ⟨.v4, 184549376, 8⟩, some 8⟩
    let p3 : Roa := ⟨64496, ⟨.v4, 167772160, 16⟩, some 40⟩
    let p4 : Roa := ⟨64496, ⟨.v4, 167837696, 16⟩, some 16⟩
    let held : Roa → Bool := fun r => r.pfx.addr / 2 ^ 24 == 10
    ∃ E, processUpdates [(p1, some "c")] held ⟨[⟨p1, some "c"⟩, ⟨p2, none⟩, ⟨p3, none⟩, ⟨p4, none⟩], [p4]⟩ = .error E ∧
      E.duplicates ≠ [] ∧ E.notheld ≠ [] ∧ E.invalidLength ≠ [] ∧ E.unknowns ≠ [] := by
  refine ⟨_, rfl, ?_, ?_, ?_, ?_⟩ <;> decide

/-- An accepted delta with a removal, a fresh addition with comment and a comment change. -/
example :
    let p1 : Roa := ⟨64496, ⟨.v4, 167772160, 8⟩, some 8⟩
    let p4 : Roa := ⟨64496, ⟨.v4, 167837696, 16⟩, some 16⟩
    let p5 : Roa := ⟨64497, ⟨.v4, 167837696, 16⟩, some 16⟩
    ∃ r' evs, processUpdates [(p1, some "c"), (p4, none)] (fun _ => true)
        ⟨[⟨p1, some "d"⟩, ⟨p5, some "x"⟩], [p4]⟩ = .ok (r', evs) ∧ evs.length = 4 := by
  exact ⟨_, _, rfl, by decide⟩

/-- `aspa_update_applied` covers an update that removes one customer and lists it again,
lists another twice and adds a third. -/
example :
    let s : AspaDefs := [⟨64496, [1, 2]⟩, ⟨64497, [3]⟩]
    let u : AspaUpdates := ⟨[⟨64496, [2]⟩, ⟨64497, [4, 3]⟩, ⟨64497, [4]⟩, ⟨64498, [5]⟩], [64496]⟩
    ∃ all evs, aspaProcessUpdates s (fun _ => true) u = .ok (all, evs) ∧ evs.length = 5 := by
  refine ⟨_, _, rfl, by decide⟩

/-- A history in which the entitlement shrinks between two requests: the authorisation
accepted while `10.0.0.0/8` was held stays configured, a later request for the same prefix
is refused, and the view is the fold of the accepted delta alone. -/
example :
    let p : Roa := ⟨64496, ⟨.v4, 167772160, 8⟩, some 8⟩
    let p2 : Roa := ⟨64497, ⟨.v4, 167772160, 8⟩, some 8⟩
    let h : List RouteReq := [⟨fun _ => true, ⟨[⟨p, none⟩], []⟩⟩, ⟨fun _ => false, ⟨[⟨p2, none⟩], []⟩⟩]
    (runRoutes [] h).has p = true ∧ (runRoutes [] h).has p2 = false ∧
      Spec.accepted [] h[0] = true ∧ Spec.accepted (runRoutes [] [h[0]]) h[1] = false := by
  decide

end KM.Props.C05
