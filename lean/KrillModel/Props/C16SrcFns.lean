/-
C16 / C05 (source tie, function bodies) — krill's own arithmetic on the client-controlled maximum
length of a ROA payload, as the translator `pure_fns` regenerates it from `/repo/src/api/roa.rs` on
every run, equals the checked model the C16 theorems (`validated_arith_total`, `analyse_total`) and
the C05 theorems (`roa_delta_iff`: the "invalid max length" class) are about.

| Rust (`RoaPayload`) | generated | model |
|---|---|---|
| `effective_max_length` | `KM.Gen.C16.RoaPayload.effective_max_length` | `Roa.effMax` |
| `max_length_valid` | `KM.Gen.C16.RoaPayload.max_length_valid` | `Input.maxLengthValid` |
| `nr_of_specific_prefixes` | `KM.Gen.C16.RoaPayload.nr_of_specific_prefixes` | `Input.nrOfSpecificPrefixes` (never `none`: no panic) |

An edit of one of the three bodies – `>=` to `>`, 32 and 128 swapped, the family ignored, the
saturating subtraction replaced by a plain one (then the translator refuses the unsigned `-`), the
shift expression changed (it is compared verbatim), an explicit length clamped – changes the
generated definition and this file stops checking.  `u8`/`u128` are `Nat` here: that the values stay
in range is `nr_fits_u128` below and `validated_arith_total` (Props/C16.lean).
-/
import KrillModel.Generated.PureFnsC16
import KrillModel.Input.Checked
namespace KM.Props.C16SrcFns
open KM.Bgp KM.Input

/-- `TypedPrefix::V4/V6` of the payload's prefix. -/
def kindOf : Family → KM.Gen.C16.TypedPrefix
  | .v4 => .V4
  | .v6 => .V6

/-- `1u128.checked_shl(n).unwrap_or(u128::MAX)`. -/
def shlSat (n : Nat) : Nat := (checkedShl 128 1 n).getD (2 ^ 128 - 1)

theorem gen_effective_max_length_eq_model (r : Roa) :
    KM.Gen.C16.RoaPayload.effective_max_length r.maxLen r.pfx.len = r.effMax := by
  unfold KM.Gen.C16.RoaPayload.effective_max_length Roa.effMax
  cases r.maxLen <;> rfl

theorem gen_max_length_valid_eq_model (r : Roa) :
    KM.Gen.C16.RoaPayload.max_length_valid r.maxLen (kindOf r.pfx.fam) r.pfx.len = maxLengthValid r := by
  unfold KM.Gen.C16.RoaPayload.max_length_valid maxLengthValid
  cases r.maxLen with
  | none => rfl
  | some m => cases hf : r.pfx.fam <;> simp [kindOf, Family.bits] <;> rfl

theorem gen_nr_of_specific_prefixes_eq_model (r : Roa) :
    some (KM.Gen.C16.RoaPayload.nr_of_specific_prefixes shlSat r.pfx.len
      (KM.Gen.C16.RoaPayload.effective_max_length r.maxLen r.pfx.len)) = nrOfSpecificPrefixes r := by
  rw [gen_effective_max_length_eq_model]
  rfl

/-- The saturating shift stays inside `u128`, whatever the two lengths are. -/
theorem nr_fits_u128 (n : Nat) : shlSat n < 2 ^ 128 := by
  unfold shlSat checkedShl
  split
  · simp only [Option.getD_some]; exact Nat.mod_lt _ (Nat.two_pow_pos 128)
  · simp

/-- … and is the number of more specifics where that number fits. -/
theorem shlSat_exact (n : Nat) (h : n < 128) : shlSat n = 2 ^ n := by
  unfold shlSat checkedShl
  simp only [h, if_true, Option.getD_some, Nat.one_mul]
  exact Nat.mod_eq_of_lt (Nat.pow_lt_pow_right (by omega) h)

/-! non-vacuity: the three bodies on the boundary payloads -/
example : KM.Gen.C16.RoaPayload.max_length_valid (some 24) .V4 24 = true := by decide
example : KM.Gen.C16.RoaPayload.max_length_valid (some 23) .V4 24 = false := by decide
example : KM.Gen.C16.RoaPayload.max_length_valid (some 33) .V4 24 = false := by decide
example : KM.Gen.C16.RoaPayload.max_length_valid (some 33) .V6 24 = true := by decide
example : KM.Gen.C16.RoaPayload.max_length_valid (some 129) .V6 24 = false := by decide
example : KM.Gen.C16.RoaPayload.nr_of_specific_prefixes shlSat 0 128 = 2 ^ 128 - 1 := by decide
example : KM.Gen.C16.RoaPayload.nr_of_specific_prefixes shlSat 24 20 = 1 := by decide
example : KM.Gen.C16.RoaPayload.nr_of_specific_prefixes shlSat 8 11 = 8 := by decide

end KM.Props.C16SrcFns
