/-
C13 (source tie) — the hand-written model of `Role::is_allowed` (`KM.Http.Role.isAllowed`,
Http/Role.lean) equals the definition that the translator `pure_fns` regenerates from
`/repo/src/daemon/http/auth/roles.rs` on every run (`Generated/PureFnsC13.lean`,
`KM.Gen.C13.Role.is_allowed`).

`role_semantics`, `served_iff` and `listing_filtered` (Props/C13.lean) are about `Role.isAllowed`:
a request for a specific CA is judged by that CA's own entry when the role has one (whether it
grants more or less than the blanket set), otherwise by the blanket set `any`; a request without a
resource by `none`.  With `gen_is_allowed_eq_model` that precedence is tied to the Rust `match`
arm by arm: swapping `any` and `none`, consulting `any` before the entry, or-ing the entry with the
blanket set, ignoring the resource – each such edit changes the generated definition and this file
stops checking.  (The `permissions` translator records only the *shape* of the function; this is
its body.)

Abstracted in the generated definition and instantiated here: `PermissionSet::has` ↦ `KM.Http.has`,
`self.resources.get` ↦ `Role.entry` (first entry of the handle in the association list).
-/
import KrillModel.Generated.PureFnsC13
import KrillModel.Http.Role
namespace KM.Props.C13Src
open KM.Http KM.Generated

/-- The generated body with the model's permission sets plugged in. -/
abbrev genIsAllowed (r : Role) (p : Permission) (res : Option Handle) : Bool :=
  KM.Gen.C13.Role.is_allowed (H := Handle) (P := Permission) (S := PermSet) has r.entry r.any r.none p res

/-- `Role::is_allowed` as translated from the source = the model the C13 theorems are about, for
every role, permission and resource. -/
theorem gen_is_allowed_eq_model (r : Role) (p : Permission) (res : Option Handle) :
    genIsAllowed r p res = r.isAllowed p res := by
  cases res with
  | none => rfl
  | some h =>
    simp only [genIsAllowed, KM.Gen.C13.Role.is_allowed, Role.isAllowed]
    cases r.entry h <;> rfl

/-- Hence the generated body consults exactly `Role.perms`. -/
theorem gen_is_allowed_eq_perms (r : Role) (p : Permission) (res : Option Handle) :
    genIsAllowed r p res = has (r.perms res) p := by
  rw [gen_is_allowed_eq_model]
  cases res with
  | none => rfl
  | some h =>
    simp only [Role.isAllowed, Role.perms]
    cases r.entry h <;> rfl

/-- Non-vacuity: a role whose own entry for `ca1` grants LESS than its blanket set – the generated
body refuses on `ca1` what it allows on `ca2`, and judges a request without resource by `none`. -/
example :
    let r : Role := ⟨[], Permission.all, [("ca1", [])]⟩
    ∀ p ∈ Permission.all,
      genIsAllowed r p (some "ca1") = false ∧ genIsAllowed r p (some "ca2") = true ∧
        genIsAllowed r p none = false := by
  decide

end KM.Props.C13Src
