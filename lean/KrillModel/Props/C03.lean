/-
C03 — Whatever is revoked, removed or replaced is withdrawn and stays on the CRL.

Theorems over `Ca/Objects.lean`.  `KeyObjectSet` carries a ghost history (`ever`, `maxNow`);
helper lemmas are in `Ca/ObjLemmasC03.lean`, `Ca/ObjLemmas.lean`, `Ca/ObjLemmasSync.lean`.
-/
import KrillModel.Ca.ObjLemmasC03
import KrillModel.Ca.ObjLemmasSync
import KrillModel.Ca.LemmasReach
namespace KM.Props.C03
open KM.Ca.Pub

/-! ### Superseded objects are revoked -/

/-- Along every history of a key set (object updates of every kind, certificate updates as the
0.16 code produces them, re-issues at arbitrary instants, retirement) every `(serial, notAfter)`
that was ever published is still published, or is on the revocation list, or had expired at an
instant at which expired entries were dropped.  (Manifests are not in `published`/`ever`: the code
never revokes a superseded manifest's EE certificate – the property excludes manifests.) -/
theorem superseded_revoked (t : Timing) (s : KeyObjectSet) (ops : List SetOp) (hops : ∀ op ∈ ops, op.ok)
    (h : RevInv s) :
    ∀ x ∈ (s.run t ops).ever,
      (∃ e ∈ (s.run t ops).published, (e.2.serial, e.2.expires) = x) ∨
      (⟨x.1, x.2⟩ : Revocation) ∈ (s.run t ops).revocations ∨ x.2 ≤ (s.run t ops).maxNow :=
  (revInv_run t ops s hops h).2

/-- Non-vacuity: a freshly created set satisfies the invariant. -/
example (k : NewKey) (t : Timing) : RevInv (k.create t) := revInv_create k t

/-- The same for every key set (current, staging, old) of every class along every history of a CA's
object store: commands with arbitrary events, republish runs, key rolls. -/
theorem superseded_revoked_ca (t : Timing) (o : CaObjects) (ops : List CaOp) (hops : ∀ op ∈ ops, op.ok)
    (h : ∀ s ∈ allSets o, RevInv s) : ∀ s ∈ allSets (caRun t o ops), RevInv s :=
  caRun_preserves t RevInv (revInv_closed t) ops o hops h

example : ∀ s ∈ allSets ([] : CaObjects), RevInv s := by simp [allSets]

/-- Why the hypothesis on certificate updates: the `unsuspended` arm of `update_certs` (only
produced by pre-0.16 histories) inserts without revoking what it replaces. -/
theorem unsuspended_arm_forgets :
    ∃ (s : KeyObjectSet) (c : CertUpdates), RevInv s ∧ ¬ Superseded (s.updateCerts c) := by
  refine ⟨{ (default : KeyObjectSet) with published := [(1, ⟨10, 1000, 0⟩)], ever := [(10, 1000)] },
    { unsuspended := [(1, ⟨11, 1000, 0⟩)] }, ⟨by decide, ?_⟩, ?_⟩
  · intro x hx
    simp at hx; subst hx
    exact Or.inl ⟨(1, ⟨10, 1000, 0⟩), by simp, rfl⟩
  · intro h
    have := h (10, 1000) (by decide)
    revert this
    decide

/-! ### The CRL -/

/-- The CRL built at a re-issue lists exactly the revocations (after dropping expired ones). -/
theorem crl_lists_revocations (s : KeyObjectSet) (t : Timing) (i : IssueIn) :
    (s.reissue t i).crl.revoked = (s.reissue t i).revocations.map (·.serial) ∧
    (s.reissue t i).revocations = removeExpired i.now s.revocations :=
  ⟨rfl, rfl⟩

/-- Every change of a key set's objects or revocations forces a re-issue in the same command:
after every command and every republish run the CRL of every key set lists exactly that set's
revocations (and the manifest lists the CRL and the published objects). -/
theorem crl_lists_revocations_always (t : Timing) (o : CaObjects) (ops : List CaOp)
    (h : ∀ s ∈ allSets o, GoodSet s) : ∀ s ∈ allSets (caRun t o ops), CrlOk s :=
  fun s hs => (good_caRun t ops o h s hs).1

/-- A revocation stays on the list until the revoked object has expired. -/
theorem revocation_stays_until_expiry (s : KeyObjectSet) (t : Timing) (i : IssueIn) (r : Revocation)
    (hr : r ∈ s.revocations) (hexp : r.expires > i.now) : r ∈ (s.reissue t i).revocations :=
  List.mem_filter.mpr ⟨hr, by simpa using hexp⟩

/-! ### Retirement -/

/-- `retire` (key roll): nothing stays published and everything that was is revoked (or expired). -/
theorem retire_revokes_all (s : KeyObjectSet) (now : Nat) :
    (s.retire now).published = [] ∧
    ∀ e ∈ s.published, e.2.revoke ∈ (s.retire now).revocations ∨ e.2.expires ≤ now := by
  refine ⟨rfl, ?_⟩
  intro e he
  have : e.2.revoke ∈ s.revocations ++ s.published.map (·.2.revoke) :=
    List.mem_append.mpr (Or.inr (List.mem_map.mpr ⟨e, he, rfl⟩))
  rcases mem_removeExpired (now := now) this with h | h
  · exact Or.inl h
  · exact Or.inr h

/-! ### Withdrawal -/

/-- After a repository synchronisation the server holds, for this publisher, exactly the element
map of the CA's objects – for *any* previous content.  In particular a URI that is not an element
any more is gone. -/
theorem withdrawn_after_sync (server : List (Uri × Nat)) (hn : (keys server).Nodup) (o : CaObjects) (u : Uri)
    (hu : u ∉ keys (elementMap (allPublishElements o))) : get? (syncRepo server o) u = none := by
  have := (syncRepo_exact server (allPublishElements o) hn).2 u
  simp only [syncRepo]
  rw [this]
  exact get?_none_iff.mpr hu

example : (keys ([((1, 2), 3)] : List (Uri × Nat))).Nodup := by decide

/-- A removed object is not among the published objects any more (so its URI leaves the elements). -/
theorem removed_not_published (s : KeyObjectSet) (n : Nat) (_h : (keys s.published).Nodup) :
    n ∉ keys (s.remove n).published := by
  unfold KeyObjectSet.remove
  cases hg : get? s.published n with
  | none => exact get?_none_iff.mp hg
  | some old =>
    simp only [erase]
    rw [keys_filter s.published (fun k => decide (k ≠ n)), List.mem_filter]
    simp

/-! ### The trust anchor's own certificates (`TrustAnchorObjects::add_issued` / `revoke_issued`) -/

theorem ta_replace_revokes_previous (o : TaObjects) (now key : Nat) (c prev : PubObj)
    (h : get? o.issued key = some prev) (hexp : prev.expires > now) :
    prev.revoke ∈ (o.addIssued now key c).revocations ∧ get? (o.addIssued now key c).issued key = some c := by
  simp only [TaObjects.addIssued, h]
  refine ⟨?_, ?_⟩
  · exact List.mem_filter.mpr ⟨List.mem_append.mpr (Or.inr (by simp)), by simpa [PubObj.revoke] using hexp⟩
  · rw [get?_put]; simp

theorem ta_revoke_effective (o : TaObjects) (now key : Nat) (prev : PubObj)
    (h : get? o.issued key = some prev) (hexp : prev.expires > now) :
    (o.revokeIssued now key).2 = true ∧ prev.revoke ∈ (o.revokeIssued now key).1.revocations ∧
    get? (o.revokeIssued now key).1.issued key = none := by
  simp only [TaObjects.revokeIssued, h]
  refine ⟨trivial, ?_, ?_⟩
  · exact List.mem_filter.mpr ⟨List.mem_append.mpr (Or.inr (by simp)), by simpa [PubObj.revoke] using hexp⟩
  · rw [get?_erase]; simp

/-! ### Revocation requests -/

/-- `update_certs` with `removed = [name]` (what `ChildCertificatesUpdated { removed }` does to the
current key set of the class): the certificate is not published any more and its serial is on the
set's revocation list (it stays there until it has expired: `revocation_stays_until_expiry`, and
the CRL lists it: `crl_lists_revocations_always`). -/
theorem removed_certificate_withdrawn_and_revoked (s : KeyObjectSet) (name : Nat) (old : PubObj)
    (hnd : (keys s.published).Nodup) (h : get? s.published name = some old) :
    name ∉ keys (s.updateCerts { removed := [name] }).published ∧
    old.revoke ∈ (s.updateCerts { removed := [name] }).revocations := by
  have hu : s.updateCerts { removed := [name] } = s.remove name := rfl
  rw [hu]
  refine ⟨removed_not_published s name hnd, ?_⟩
  simp [KeyObjectSet.remove, h]

/-- FULL STATEMENT (since fix 239f0a59, F-C03-3): a revocation request that is answered
positively (`rfc6492_revoke` replies unless the command fails) is, whatever class name the child
was told and whatever it names,
* executed in the class the key's certificate was issued in (`used_keys` records it; the events
  `ChildKeyRevoked` + `ChildCertificatesUpdated { removed: [key] }` are emitted for exactly that
  class; by `removed_certificate_withdrawn_and_revoked` the certificate leaves the published set
  and its serial is on the CRL), or
* for a class the parent does not have: nothing to remove (`ignored`), or
* for a key this CA marked `Revoked` itself (`alreadyRevoked`): the certificate was removed by the
  command that set the mark (see `revoke_request_for_revoked_key_confirmed` for what is proved
  and what is missing for the state-level statement). -/
theorem revoke_request_effective (res : List Nat) (c : ChildM) (rcn key : Nat)
    (hpos : (processChildRevokeKey res c rcn key).positive = true) :
    (∃ r, get? c.usedKeys key = some (some r) ∧ r = c.parentNameForRcn rcn ∧ r ∈ res ∧
      processChildRevokeKey res c rcn key = .revoked r key) ∨
    (c.parentNameForRcn rcn ∉ res ∧ processChildRevokeKey res c rcn key = .ignored) ∨
    (c.isRevoked key = true ∧ processChildRevokeKey res c rcn key = .alreadyRevoked) := by
  unfold processChildRevokeKey at hpos ⊢
  by_cases hcl : c.parentNameForRcn rcn ∈ res
  · simp only [hcl, not_true_eq_false, if_false] at hpos ⊢
    cases hu : get? c.usedKeys key with
    | none => rw [hu] at hpos; simp [RevokeOut.positive] at hpos
    | some v =>
      cases v with
      | none =>
        right; right
        exact ⟨by simp [ChildM.isRevoked, hu], rfl⟩
      | some r =>
        rw [hu] at hpos
        simp only at hpos ⊢
        by_cases hr : r = c.parentNameForRcn rcn
        · left
          exact ⟨r, rfl, hr, hr ▸ hcl, by simp [hr]⟩
        · simp [hr, RevokeOut.positive] at hpos
  · right; left
    exact ⟨hcl, by simp [hcl]⟩

/-- The converse for the executing arm: a key in use in the class the request names (under
whichever name the child was told), in a class the parent has, is revoked there and the answer
is positive. -/
theorem revoke_request_executed (res : List Nat) (c : ChildM) (rcn key : Nat)
    (hiss : get? c.usedKeys key = some (some (c.parentNameForRcn rcn))) (hclass : c.parentNameForRcn rcn ∈ res) :
    (processChildRevokeKey res c rcn key).positive = true ∧
    processChildRevokeKey res c rcn key = .revoked (c.parentNameForRcn rcn) key := by
  simp [processChildRevokeKey, hclass, hiss, RevokeOut.positive]

/-- Counter-model of the PINNED tree (before 239f0a59; F-C03-3, replayed:
corpus/proto-cms/revoke-names-another-class.ops shows the fixed behaviour): the key is in use in
class 0, the request names class 1 (which the parent has): answered positively, "revoked" in
class 1 – where the certificate is not.  On the current tree the request is refused. -/
theorem pinned_revoke_in_wrong_class :
    ∃ (res : List Nat) (c : ChildM) (rcn key : Nat),
      get? c.usedKeys key = some (some 0) ∧
      (pinnedRevokeAnyClass res c rcn key).positive = true ∧
      pinnedRevokeAnyClass res c rcn key = .revoked 1 key ∧
      (processChildRevokeKey res c rcn key).positive = false :=
  ⟨[0, 1], { usedKeys := [(5, some 0)], rcnMap := [] }, 1, 5, by decide, by decide, by decide, by decide⟩

/-- Non-vacuity, with a mapped class name. -/
example : ∃ (res : List Nat) (c : ChildM) (rcn key : Nat),
    get? c.usedKeys key = some (some (c.parentNameForRcn rcn)) ∧ c.parentNameForRcn rcn ∈ res ∧
    c.parentNameForRcn rcn ≠ rcn ∧ (processChildRevokeKey res c rcn key).positive = true :=
  ⟨[0], { usedKeys := [(5, some 0)], rcnMap := [(0, 7)] }, 7, 5, by decide, by decide, by decide, by decide⟩

/-- A request for a key the child never presented is refused (not answered positively). -/
theorem revoke_request_unknown_key_refused (res : List Nat) (c : ChildM) (rcn key : Nat)
    (hiss : c.isIssued key = false) (hrev : c.isRevoked key = false) (hclass : c.parentNameForRcn rcn ∈ res) :
    (processChildRevokeKey res c rcn key).positive = false := by
  unfold ChildM.isIssued at hiss; unfold ChildM.isRevoked at hrev
  cases hu : get? c.usedKeys key with
  | none => simp [processChildRevokeKey, hclass, hu, RevokeOut.positive]
  | some v =>
    cases v with
    | none => rw [hu] at hrev; cases hrev
    | some r => rw [hu] at hiss; cases hiss

/-- A request for a key that is in use in ANOTHER class than the one it names is refused (fix
239f0a59): never answered positively without effect. -/
theorem revoke_request_other_class_refused (res : List Nat) (c : ChildM) (rcn key r : Nat)
    (hu : get? c.usedKeys key = some (some r)) (hne : r ≠ c.parentNameForRcn rcn)
    (hclass : c.parentNameForRcn rcn ∈ res) :
    (processChildRevokeKey res c rcn key).positive = false := by
  simp [processChildRevokeKey, hclass, hu, hne, RevokeOut.positive]

/-- Since fix 7be8c4c6 (F-C02-2): a request for a key that this CA marked `Revoked` itself is
answered positively and changes nothing.  The decision table is complete: every request is
ignored (class unknown), confirmed-as-done (key revoked here), refused (key never used) or
executed (`revoke_request_effective`).

Full statement wanted for this arm: "the positive answer is truthful - the certificate that was
issued for the key is no longer published and its serial is on the CRL until it expires".  What is
proved: (i) whatever leaves the published set of a key set is on that set's revocation list until
it expires, for every history (`superseded_revoked_ca`, no hypothesis on keys); (ii) each command
that sets `Revoked` removes the certificate of the key in the same command
(`C04.revoke_removes_certificate` for the request, the `removed` list of
`ChildCertificatesUpdated` for `shrink_overclaiming` / unsuspend, applied by
`CertAuth::apply` together with the `Revoked` marks - `KM.CaK.revokeEverywhere`).  What is MISSING
for the state-level statement "`Revoked` for this child ⇒ no issued or suspended certificate for
the key in any class": it is not part of `Inv` (`UsedInv` speaks about `InUse` only) and it is
false when two children present the same key - the second child can have the key certified again
while the first child's entry stays `Revoked` (`revoked_entry_beside_live_certificate` below); it
needs the input assumption "no two children present the same key" that C02's
`ActiveChildHasCert` needs as well; and it is false when ONE child has the same key certified in
two classes (`revoked_entry_beside_certificate_in_other_class`): `used_keys` has one entry per
key, and nothing refuses the second certificate – `ChildDetails::verify_key_allowed`
(child.rs:152-167, `KeyUseAttemptReuse`) is never called.  Both need a non-krill child (krill
creates a new key per class and per roll). -/
theorem revoke_request_for_revoked_key_confirmed (res : List Nat) (c : ChildM) (rcn key : Nat)
    (hrev : c.isRevoked key = true) (hclass : c.parentNameForRcn rcn ∈ res) :
    processChildRevokeKey res c rcn key = .alreadyRevoked ∧
    (processChildRevokeKey res c rcn key).positive = true ∧
    pinnedRevokedKeyRefused res c rcn key = .error := by
  have hiss : c.isIssued key = false := by
    unfold ChildM.isRevoked at hrev; unfold ChildM.isIssued
    cases h : get? c.usedKeys key with
    | none => rfl
    | some v => cases v with
      | none => rfl
      | some _ => rw [h] at hrev; cases hrev
  have hu : get? c.usedKeys key = some none := by
    unfold ChildM.isRevoked at hrev
    cases h : get? c.usedKeys key with
    | none => rw [h] at hrev; cases hrev
    | some v => cases v with
      | none => rfl
      | some _ => rw [h] at hrev; cases hrev
  simp [processChildRevokeKey, pinnedRevokedKeyRefused, hclass, hiss, hu, RevokeOut.positive]

/-- Non-vacuity. -/
example : ∃ (res : List Nat) (c : ChildM) (rcn key : Nat), c.isRevoked key = true ∧ c.parentNameForRcn rcn ∈ res :=
  ⟨[0], { usedKeys := [(5, none)], rcnMap := [] }, 0, 5, by decide, by decide⟩

/-- The corner named above, on the aggregate model: child 7 and child 8 present the same key 6;
the key is revoked on 7's request (both entries become `Revoked`, the certificate is removed), 8
has it certified again - 7's entry is still `Revoked` while a certificate for key 6 is issued. -/
theorem revoked_entry_beside_live_certificate :
    let s := KM.CaK.Sys.run {} [ .repoUpdate [], .addParent 9,
      .updateEntitlements 9 [⟨0, [1, 2], 100, []⟩] 0 [4],
      .updateRcvdCert 0 4 { res := [1, 2], na := 100 } 50 [],
      .childAdd 7 [1], .childAdd 8 [1], .childCertify 7 0 6 none 60, .childCertify 8 0 6 none 60,
      .childRevokeKey 7 0 6, .childCertify 8 0 6 none 60 ]
    KM.CaK.Reachable s ∧
    ((KM.AMap.get s.ca.children 7).bind fun c => KM.AMap.get c.usedKeys 6) = some .revoked ∧
    ((KM.AMap.get s.ca.classes 0).map fun rc => (KM.AMap.get rc.certs.issued 6).isSome) = some true ∧
    s.exec (.childRevokeKey 7 0 6) = .stored [] s :=
  ⟨KM.CaK.reachable_run .init _, by decide, by decide, by decide⟩

/-- The second corner: one child has key 6 certified in class 0 and then in class 1 (nothing
refuses the re-use); its revocation request for class 1 is executed there – the certificate in
class 0 stays issued while the child's only entry for the key says `Revoked`. -/
theorem revoked_entry_beside_certificate_in_other_class :
    let s := KM.CaK.Sys.run {} [ .repoUpdate [], .addParent 98, .addParent 99,
      .updateEntitlements 98 [⟨0, [1, 2], 1000, []⟩] 0 [4],
      .updateEntitlements 99 [⟨0, [5, 6], 1000, []⟩] 0 [5],
      .updateRcvdCert 0 4 { res := [1, 2], na := 1000 } 500 [],
      .updateRcvdCert 1 5 { res := [5, 6], na := 1000 } 500 [],
      .childAdd 7 [1, 5], .childCertify 7 0 6 none 60, .childCertify 7 1 6 none 60,
      .childRevokeKey 7 1 6 ]
    KM.CaK.Reachable s ∧
    ((KM.AMap.get s.ca.children 7).bind fun c => KM.AMap.get c.usedKeys 6) = some .revoked ∧
    ((KM.AMap.get s.ca.classes 1).map fun rc => (KM.AMap.get rc.certs.issued 6).isSome) = some false ∧
    ((KM.AMap.get s.ca.classes 0).map fun rc => (KM.AMap.get rc.certs.issued 6).isSome) = some true :=
  ⟨KM.CaK.reachable_run .init _, by decide, by decide, by decide⟩

/-- What remains open (finding F-C03-2): the hypothesis "the class exists" cannot be dropped.  A
class-name mapping whose parent-side class does not exist (accepted with a warning by
`process_child_resource_class_name_mapping`) shadows the name the child uses for a real class; the
request is then translated to the missing class, ignored – and still answered positively.
Full statement (false): `∀ res c rcn key, positive → c.isIssued key → ∃ my, … = .revoked my key`. -/
theorem revoke_request_ignored_for_missing_class :
    ∃ (res : List Nat) (c : ChildM) (rcn key : Nat),
      (processChildRevokeKey res c rcn key).positive = true ∧ c.isIssued key = true ∧ rcn ∈ res ∧
      processChildRevokeKey res c rcn key = .ignored :=
  ⟨[0], { usedKeys := [(5, some 0)], rcnMap := [(7, 0)] }, 0, 5, by decide, by decide, by decide, by decide⟩

/-- The behaviour before fix 43d7eca0 (finding F-C03-1, replayed on the code at the time): the class
was looked up under the *child's* name before translating it, so a request under a mapped class
name was ignored and still answered positively. -/
theorem pinned_revoke_request_effective_fails :
    ∃ (res : List Nat) (c : ChildM) (rcn key : Nat),
      (pinnedProcessChildRevokeKey res c rcn key).positive = true ∧ c.isIssued key = true ∧
      c.parentNameForRcn rcn ∈ res ∧ pinnedProcessChildRevokeKey res c rcn key = .ignored :=
  ⟨[0], { usedKeys := [(5, some 0)], rcnMap := [(0, 7)] }, 7, 5, by decide, by decide, by decide, by decide⟩

end KM.Props.C03
