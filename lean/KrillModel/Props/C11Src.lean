/-
C11 (source tie) — the hand-written model of `RrdpServer::find_deltas_truncate_age`
(`KM.Pubd.findTruncateAge` / `truncLoop`, Pubd/Rrdp.lean) equals the definition that the translator
`pure_fns` regenerates from `/repo/src/server/pubd/rrdp.rs` on every run
(`Generated/PureFnsC11.lean`, `KM.Gen.C11.RrdpServer.find_deltas_truncate_age`).

`deltas_le_max_partial` (Props/C11.lean) and the manager model (`Pubd/Manager.lean`) are about
`findTruncateAge`.  With `gen_find_deltas_truncate_age_eq_model` that function is tied to the Rust
loop statement by statement: `<` vs `<=`, `min_nr` vs `max_nr`, `saturating_sub(1)`, which of the
two age limits goes to which age test, `break` vs keep – each such edit changes the generated
definition and this file stops checking.

Differences that do not matter, bridged here: the model takes the list of pairs
`(younger than min_secs, older than max_secs)` per delta (that is what the harness observes);
the generated definition takes abstract deltas `Δ`, the two wall-clock tests as parameter
functions and all four configuration numbers.  The statement maps each delta to its pair.
-/
import KrillModel.Generated.PureFnsC11
import KrillModel.Pubd.Rrdp
namespace KM.Props.C11Src
open KM.Pubd

/-- The loop: for every carried `keep` and every remaining list. -/
theorem gen_loop_eq_model {Δ : Type} (younger older : Δ → Nat → Bool) (all : List Δ)
    (minNr minSecs maxNr maxSecs : Nat) (l : List Δ) :
    ∀ keep : Nat,
      KM.Gen.C11.RrdpServer.find_deltas_truncate_age.loop younger older all minNr minSecs maxNr maxSecs keep l =
        truncLoop minNr maxNr keep (l.map fun d => (younger d minSecs, older d maxSecs)) := by
  induction l with
  | nil =>
    intro keep
    simp [KM.Gen.C11.RrdpServer.find_deltas_truncate_age.loop, KM.Gen.C11.RrdpServer.find_deltas_truncate_age.after,
      truncLoop]
  | cons d tl ih =>
    intro keep
    simp only [KM.Gen.C11.RrdpServer.find_deltas_truncate_age.loop, KM.Gen.C11.RrdpServer.find_deltas_truncate_age.after,
      List.map_cons, truncLoop, ih]
    simp only [Bool.or_eq_true, decide_eq_true_eq, beq_iff_eq]

/-- The definition generated from the body of `find_deltas_truncate_age` is the model function
applied to the per-delta age pairs – for every list of deltas, every pair of age tests and all
four configuration numbers. -/
theorem gen_find_deltas_truncate_age_eq_model {Δ : Type} (younger older : Δ → Nat → Bool)
    (deltas : List Δ) (minNr minSecs maxNr maxSecs : Nat) :
    KM.Gen.C11.RrdpServer.find_deltas_truncate_age younger older deltas minNr minSecs maxNr maxSecs =
      findTruncateAge minNr maxNr (deltas.map fun d => (younger d minSecs, older d maxSecs)) := by
  simp only [KM.Gen.C11.RrdpServer.find_deltas_truncate_age, findTruncateAge]
  exact gen_loop_eq_model younger older deltas minNr minSecs maxNr maxSecs deltas 0

/-- Non-vacuity: with `Δ = Bool × Bool` and the projections as age tests the generated function is
the model function itself; it reaches the three arms (keep by number, stop at `max_nr - 1`, stop
by age, keep the remainder). -/
example :
    KM.Gen.C11.RrdpServer.find_deltas_truncate_age (fun d _ => d.1) (fun d _ => d.2)
        [(false, false), (false, false), (false, false)] 1 0 3 0 = 2 ∧
    KM.Gen.C11.RrdpServer.find_deltas_truncate_age (fun d _ => d.1) (fun d _ => d.2)
        [(true, false), (false, false), (false, true), (false, false)] 0 0 9 0 = 2 ∧
    KM.Gen.C11.RrdpServer.find_deltas_truncate_age (fun d _ => d.1) (fun d _ => d.2)
        [(false, false), (false, false)] 0 0 0 0 = 0 := by
  decide

end KM.Props.C11Src
