/-
C11 (source tie) — the hand-written model of `RrdpServer::find_deltas_truncate_age`
(`KM.Pubd.findTruncateAge` / `truncLoop`, Pubd/Rrdp.lean) equals the definition that the translator
`pure_fns` regenerates from `/repo/src/server/pubd/rrdp.rs` on every run
(`Generated/PureFnsC11.lean`, `KM.Gen.C11.RrdpServer.find_deltas_truncate_age`).

`deltas_le_max_partial` (Props/C11.lean) and the manager model (`Pubd/Manager.lean`) are about
`findTruncateAge`.  With `gen_find_deltas_truncate_age_eq_model` that function is tied to the Rust
loop statement by statement: `<` vs `<=`, `min_nr` vs `max_nr`, `saturating_sub(1)`, which of the
two age limits goes to which age test, `break` vs keep – each such edit changes the generated
definition and this file stops checking.

Differences that do not matter, bridged here: the model takes the list of pairs
`(younger than min_secs, older than max_secs)` per delta (that is what the harness observes);
the generated definition takes abstract deltas `Δ`, the two wall-clock tests as parameter
functions and all four configuration numbers.  The statement maps each delta to its pair.
-/
import KrillModel.Generated.PureFnsC11
import KrillModel.Pubd.Rrdp
namespace KM.Props.C11Src
open KM.Pubd

/-- The loop: for every carried `keep` and every remaining list. -/
theorem gen_loop_eq_model {Δ : Type} (younger older : Δ → Nat → Bool) (all : List Δ)
    (minNr minSecs maxNr maxSecs : Nat) (l : List Δ) :
    ∀ keep : Nat,
      KM.Gen.C11.RrdpServer.find_deltas_truncate_age.loop younger older all minNr minSecs maxNr maxSecs keep l =
        truncLoop minNr maxNr keep (l.map fun d => (younger d minSecs, older d maxSecs)) := by
  induction l with
  | nil =>
    intro keep
    simp [KM.Gen.C11.RrdpServer.find_deltas_truncate_age.loop, KM.Gen.C11.RrdpServer.find_deltas_truncate_age.after,
      truncLoop]
  | cons d tl ih =>
    intro keep
    simp only [KM.Gen.C11.RrdpServer.find_deltas_truncate_age.loop, KM.Gen.C11.RrdpServer.find_deltas_truncate_age.after,
      List.map_cons, truncLoop, ih]
    simp only [Bool.or_eq_true, decide_eq_true_eq, beq_iff_eq]

/-- The definition generated from the body of `find_deltas_truncate_age` is the model function
applied to the per-delta age pairs – for every list of deltas, every pair of age tests and all
four configuration numbers. -/
theorem gen_find_deltas_truncate_age_eq_model {Δ : Type} (younger older : Δ → Nat → Bool)
    (deltas : List Δ) (minNr minSecs maxNr maxSecs : Nat) :
    KM.Gen.C11.RrdpServer.find_deltas_truncate_age younger older deltas minNr minSecs maxNr maxSecs =
      findTruncateAge minNr maxNr (deltas.map fun d => (younger d minSecs, older d maxSecs)) := by
  simp only [KM.Gen.C11.RrdpServer.find_deltas_truncate_age, findTruncateAge]
  exact gen_loop_eq_model younger older deltas minNr minSecs maxNr maxSecs deltas 0

/-- Non-vacuity: with `Δ = Bool × Bool` and the projections as age tests the generated function is
the model function itself; it reaches the three arms (keep by number, stop at `max_nr - 1`, stop
by age, keep the remainder). -/
example :
    KM.Gen.C11.RrdpServer.find_deltas_truncate_age (fun d _ => d.1) (fun d _ => d.2)
        [(false, false), (false, false), (false, false)] 1 0 3 0 = 2 ∧
    KM.Gen.C11.RrdpServer.find_deltas_truncate_age (fun d _ => d.1) (fun d _ => d.2)
        [(true, false), (false, false), (false, true), (false, false)] 0 0 9 0 = 2 ∧
    KM.Gen.C11.RrdpServer.find_deltas_truncate_age (fun d _ => d.1) (fun d _ => d.2)
        [(false, false), (false, false)] 0 0 0 0 = 0 := by
  decide

/-! ## `RrdpServer::deltas_truncate_size` and `RrdpServer::update_rrdp_needed` -/

/-- The loop of `deltas_truncate_size`: for every carried total and count. -/
theorem size_loop_eq {Δ : Type} (size_of : Δ → Nat) (limit : Nat) (all : List Δ) (l : List Δ) :
    ∀ (d0 : List Δ) (total keep : Nat),
    KM.Gen.C11.RrdpServer.deltas_truncate_size.loop size_of limit d0 all total keep l =
      all.take (keep + (l.foldr (fun d (k : Nat → Nat) => fun t => if t + size_of d > limit then 0 else 1 + k (t + size_of d))
                          (fun _ => 0)) total) := by
  induction l with
  | nil =>
      intro d0 total keep
      simp [KM.Gen.C11.RrdpServer.deltas_truncate_size.loop, KM.Gen.C11.RrdpServer.deltas_truncate_size.after]
  | cons d tl ih =>
      intro d0 total keep
      simp only [KM.Gen.C11.RrdpServer.deltas_truncate_size.loop, List.foldr_cons]
      by_cases h : total + size_of d > limit
      · simp [h, KM.Gen.C11.RrdpServer.deltas_truncate_size.after]
      · simp only [h, if_false, ih]
        congr 1
        omega

theorem keepBySize_eq_foldr (limit : Nat) (l : List DeltaRec) :
    ∀ total, keepBySize limit total l =
      (l.foldr (fun d (k : Nat → Nat) => fun t => if t + d.size > limit then 0 else 1 + k (t + d.size)) (fun _ => 0)) total := by
  induction l with
  | nil => intro total; simp [keepBySize]
  | cons d tl ih => intro total; simp [keepBySize, ih]

/-- `deltas_truncate_size`: generated definition = the model's `take (keepBySize …)` – the newest deltas
whose summed size does not exceed the size of the snapshot are kept (`deltas_le_max_partial`,
`client_catches_up` use `keepBySize` through `Rrdp.applyUpdated`). -/
theorem gen_deltas_truncate_size_eq_model (limit : Nat) (deltas : List DeltaRec) :
    KM.Gen.C11.RrdpServer.deltas_truncate_size DeltaRec.size limit deltas =
      deltas.take (keepBySize limit 0 deltas) := by
  unfold KM.Gen.C11.RrdpServer.deltas_truncate_size
  simp only [size_loop_eq, keepBySize_eq_foldr, Nat.zero_add]

/-- `update_rrdp_needed` is characterised outright: an update is due NOW exactly when something is staged
and the minimal interval since the last update has passed; it is postponed to exactly `last_update +
interval` when something is staged and the interval has not passed; nothing staged: no update.  So a
staged change is never answered with `No` (the task that would publish it is re-scheduled, never dropped),
and with an interval of zero (what `Rrdp.hasStaged` models) staged content is always due. -/
theorem gen_update_rrdp_needed_iff (has_staged : Bool) (last_update interval now : Int) :
    (KM.Gen.C11.RrdpServer.update_rrdp_needed has_staged last_update interval now = .Yes ↔
        has_staged = true ∧ last_update + interval ≤ now) ∧
    (∀ t, KM.Gen.C11.RrdpServer.update_rrdp_needed has_staged last_update interval now = .Later t ↔
        has_staged = true ∧ now < last_update + interval ∧ t = last_update + interval) ∧
    (KM.Gen.C11.RrdpServer.update_rrdp_needed has_staged last_update interval now = .No ↔ has_staged = false) := by
  unfold KM.Gen.C11.RrdpServer.update_rrdp_needed
  cases has_staged
  · simp
  · by_cases h : last_update + interval > now
    · simp [h]
      intro t
      exact eq_comm
    · simp [h]
      omega

/-- With no minimal interval (and a clock that does not run backwards past the last update) the generated
decision is the model's `Rrdp.hasStaged`. -/
theorem gen_update_rrdp_needed_eq_model (r : Rrdp) (last_update now : Int) (h : last_update ≤ now) :
    KM.Gen.C11.RrdpServer.update_rrdp_needed r.hasStaged last_update 0 now =
      if r.hasStaged then .Yes else .No := by
  unfold KM.Gen.C11.RrdpServer.update_rrdp_needed
  cases r.hasStaged <;> simp
  omega

/-- A staged change is published at the latest when the minimal interval has passed: whatever was answered before
(`Later t` re-schedules the task for `t`), from `t = last_update + interval` on the answer is `Yes` for as long as the
change is still staged and no other update intervened (`last_update` unchanged). -/
theorem staged_update_due_after_interval (last_update interval now : Int) (t : Int)
    (h : KM.Gen.C11.RrdpServer.update_rrdp_needed true last_update interval now = .Later t) :
    ∀ now' ≥ t, KM.Gen.C11.RrdpServer.update_rrdp_needed true last_update interval now' = .Yes := by
  intro now' hn
  have ht := ((gen_update_rrdp_needed_iff true last_update interval now).2.1 t).mp h
  exact (gen_update_rrdp_needed_iff true last_update interval now').1.mpr ⟨rfl, by omega⟩

end KM.Props.C11Src
