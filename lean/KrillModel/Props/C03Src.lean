/-
C03 / C12 (source tie) — the hand-written model of the decision `CertAuth::process_child_revoke_key`
takes on a child's RFC 6492 revocation request (`KM.Ca.processChildRevokeKey`, Ca/Objects.lean) equals
the definition that the translator `pure_fns` regenerates from `/repo/src/server/ca/certauth.rs` on every
run (`Generated/PureFnsC03.lean`, `KM.Gen.C03.CertAuth.process_child_revoke_key`).

`revoke_request_effective` (Props/C03.lean) and the revocation arm of `scope_of_accepted` (Props/C12.lean)
are about this decision: the class name the child uses is translated to the parent's FIRST, then the
class is looked up (a class this CA does not have: confirmed without work); the key must be in use by
this child IN THE CLASS THE REQUEST NAMES for the revocation to be executed; a key in use in another
class, or never used, is refused; a key this CA revoked itself is confirmed without work.  Three
genuine defects were repaired in exactly these lines (F-C03-1/43d7eca0, F-C02-2/7be8c4c6,
F-C03-3/239f0a59) and two seeded changes edited them; with `gen_process_child_revoke_key_eq_model` the
order of the tests, the guard `rcn == &my_rcn` and the outcome of every arm are tied to the Rust
statements, and the three pinned counter-models (`pinned…` in Ca/Objects.lean) are shown to differ from
the generated body.

Instantiation: children ↦ `ChildM`, class names and keys ↦ `Nat`, `self.get_child` ↦ `.ok c` (an unknown
child is refused before: C12), `child.used_keys.get(&key)` ↦ the model's association list
(`some rcn` = `InUse(rcn)`, `none` = `Revoked`), `Ok(vec![])` ↦ `.ok none`, the two revocation events for
`my_rcn` ↦ `.ok (some my_rcn)`.
-/
import KrillModel.Generated.PureFnsC03
import KrillModel.Ca.Objects
import KrillModel.Ca.Keys
namespace KM.Props.C03Src
open KM.Ca.Pub

/-- `UsedKeyState` of the model's `used_keys` entry. -/
def toUsed : Option Nat → KM.Gen.C03.UsedKeyState Nat
  | some r => .InUse r
  | none => .Revoked

/-- What the manager sees of the outcome: refused, confirmed without work, or revoked in a class. -/
def toOut : RevokeOut → Except Unit (Option Nat)
  | .ignored => .ok none
  | .alreadyRevoked => .ok none
  | .error => .error ()
  | .revoked r _ => .ok (some r)

/-- The generated body with the model's child record plugged in. -/
abbrev genRevoke (resources : List Nat) (c : ChildM) (childRcn key : Nat) : Except Unit (Option Nat) :=
  KM.Gen.C03.CertAuth.process_child_revoke_key (C := ChildM) (R := Nat) (ε := Unit) (α := Option Nat)
    (.ok c) (fun c => c.parentNameForRcn childRcn) (fun r => decide (r ∈ resources))
    (fun c => (get? c.usedKeys key).map toUsed) none () some

/-- `CertAuth::process_child_revoke_key` as translated from the source = the model, for every set of
classes, child record, class name and key. -/
theorem gen_process_child_revoke_key_eq_model (resources : List Nat) (c : ChildM) (childRcn key : Nat) :
    genRevoke resources c childRcn key = toOut (processChildRevokeKey resources c childRcn key) := by
  unfold genRevoke KM.Gen.C03.CertAuth.process_child_revoke_key processChildRevokeKey
  by_cases hm : c.parentNameForRcn childRcn ∈ resources
  · simp only [hm, decide_true, not_true_eq_false, if_false]
    cases hk : get? c.usedKeys key with
    | none => simp [toOut]
    | some st =>
      cases st with
      | none => simp [toOut, toUsed]
      | some r =>
        by_cases hr : r = c.parentNameForRcn childRcn
        · simp [toOut, toUsed, hr]
        · simp [toOut, toUsed, hr]
  · simp [hm, toOut]

/-- The three earlier behaviours (each a repaired defect) are NOT what the source says now: on these
inputs the generated body differs from the pinned counter-models. -/
example :   -- before 43d7eca0: class test before the translation (mapped class name: request ignored)
    genRevoke [0] { usedKeys := [(7, some 0)], rcnMap := [(0, 5)] } 5 7 = .ok (some 0) ∧
      toOut (pinnedProcessChildRevokeKey [0] { usedKeys := [(7, some 0)], rcnMap := [(0, 5)] } 5 7) = .ok none :=
  ⟨rfl, rfl⟩
example :   -- before 7be8c4c6: a key this CA revoked itself was refused for ever
    genRevoke [0] { usedKeys := [(7, none)] } 0 7 = .ok none ∧
      toOut (pinnedRevokedKeyRefused [0] { usedKeys := [(7, none)] } 0 7) = .error () :=
  ⟨rfl, rfl⟩
example :   -- before 239f0a59: a key in use in another class was "revoked" in the named class
    genRevoke [0, 1] { usedKeys := [(7, some 1)] } 0 7 = .error () ∧
      toOut (pinnedRevokeAnyClass [0, 1] { usedKeys := [(7, some 1)] } 0 7) = .ok (some 0) :=
  ⟨rfl, rfl⟩

/-! ## `KeyState::revoke` – which keys are revoked when a resource class goes away

When a CA loses a class (the parent de-lists or removes it, the parent is removed, the CA is deleted, the class is
dropped) it asks the parent to revoke the keys `KeyState::revoke` returns.  The generated definition
(`KM.Gen.C03.KeyState.revoke`) makes requests for exactly the model's `KeyState.revokeKeys`, and those are exactly the
keys that hold a certificate of the parent (`certifiedIds`) – the CURRENT key and the NEW or OLD key of a roll in
progress.  The seeded change C03-r6 folds the `RollNew` arm into the `Active` arm (the certificate of the staged key
stays published by the parent and off its CRL): the generated definition changes and `gen_revoke_eq_model` stops
checking; the harness side is the oracle `ClassGoneKeysRevoked` (corpus `system/c03-parent-removed-during-rollnew`). -/

section Revoke
open KM.CaK

def kvariantOf : KeyState → KM.Gen.C03.KeyState
  | .pending _ => .Pending
  | .active _ => .Active
  | .rollPending .. => .RollPending
  | .rollNew .. => .RollNew
  | .rollOld .. => .RollOld

def kcurrent (d : KeyId) : KeyState → KeyId
  | .active c => c.id | .rollPending _ c => c.id | .rollNew _ c => c.id | .rollOld c _ => c.id | _ => d
def knew (d : KeyId) : KeyState → KeyId
  | .rollNew n _ => n.id | _ => d
def kold (d : KeyId) : KeyState → KeyId
  | .rollOld _ o => o.id | _ => d

/-- `KeyState::revoke` with a signer that knows every key: one request per key of `revokeKeys`, in that order (the old
key's stored request is the request for the old key). -/
theorem gen_revoke_eq_model (ks : KeyState) (d : KeyId) :
    KM.Gen.C03.KeyState.revoke (ε := Unit) (fun k : KeyId => Except.ok k) (kvariantOf ks) (kcurrent d ks) (knew d ks) (kold d ks) =
      Except.ok ks.revokeKeys := by
  cases ks <;> rfl

/-- A signer error for any of the keys is returned (nothing is requested). -/
theorem gen_revoke_error (ks : KeyState) (d : KeyId) (bad : KeyId) (hb : bad ∈ ks.revokeKeys) (hold : ∀ c o, ks = .rollOld c o → bad ≠ o.id) :
    KM.Gen.C03.KeyState.revoke (fun k : KeyId => if k = bad then Except.error () else Except.ok k)
        (kvariantOf ks) (kcurrent d ks) (knew d ks) (kold d ks) = Except.error () := by
  cases ks with
  | pending p => simp [KeyState.revokeKeys] at hb
  | active c => simp [KeyState.revokeKeys] at hb; simp [KM.Gen.C03.KeyState.revoke, kvariantOf, kcurrent, hb]
  | rollPending p c => simp [KeyState.revokeKeys] at hb; simp [KM.Gen.C03.KeyState.revoke, kvariantOf, kcurrent, hb]
  | rollNew n c =>
      simp [KeyState.revokeKeys] at hb
      simp only [KM.Gen.C03.KeyState.revoke, kvariantOf, kcurrent, knew]
      rcases hb with hb | hb
      · simp [hb]
      · subst hb
        by_cases hn : n.id = c.id <;> simp [hn]
  | rollOld c o =>
      simp [KeyState.revokeKeys] at hb
      have := hold c o rfl
      rcases hb with hb | hb
      · simp [KM.Gen.C03.KeyState.revoke, kvariantOf, kcurrent, hb]
      · exact absurd hb this

/-- **revoke_covers_certified.**  The keys revoked when the class goes away are exactly the keys that hold a
certificate of the parent – in every phase of a key roll. -/
theorem revoke_covers_certified (ks : KeyState) : ks.revokeKeys = ks.certifiedIds := by
  cases ks <;> rfl

/-- … and every one of them is a key of the state; a pending key (no certificate) is never among them. -/
theorem revokeKeys_subset_keyIds (ks : KeyState) : ∀ k ∈ ks.revokeKeys, k ∈ ks.keyIds := by
  cases ks <;> simp [KeyState.revokeKeys, KeyState.keyIds]

/-- The seeded behaviour (C03-r6: `RollNew` treated like `Active`) is not what the generated body does. -/
example (n c : CertKey) (d : KeyId) :
    KM.Gen.C03.KeyState.revoke (ε := Unit) (fun k : KeyId => Except.ok k) (kvariantOf (.rollNew n c)) (kcurrent d (.rollNew n c))
        (knew d (.rollNew n c)) (kold d (.rollNew n c)) ≠ Except.ok [c.id] := by
  simp [KM.Gen.C03.KeyState.revoke, kvariantOf, kcurrent, knew]

end Revoke

end KM.Props.C03Src
