/-
C03 / C12 (source tie) — the hand-written model of the decision `CertAuth::process_child_revoke_key`
takes on a child's RFC 6492 revocation request (`KM.Ca.processChildRevokeKey`, Ca/Objects.lean) equals
the definition that the translator `pure_fns` regenerates from `/repo/src/server/ca/certauth.rs` on every
run (`Generated/PureFnsC03.lean`, `KM.Gen.C03.CertAuth.process_child_revoke_key`).

`revoke_request_effective` (Props/C03.lean) and the revocation arm of `scope_of_accepted` (Props/C12.lean)
are about this decision: the class name the child uses is translated to the parent's FIRST, then the
class is looked up (a class this CA does not have: confirmed without work); the key must be in use by
this child IN THE CLASS THE REQUEST NAMES for the revocation to be executed; a key in use in another
class, or never used, is refused; a key this CA revoked itself is confirmed without work.  Three
genuine defects were repaired in exactly these lines (F-C03-1/43d7eca0, F-C02-2/7be8c4c6,
F-C03-3/239f0a59) and two seeded changes edited them; with `gen_process_child_revoke_key_eq_model` the
order of the tests, the guard `rcn == &my_rcn` and the outcome of every arm are tied to the Rust
statements, and the three pinned counter-models (`pinned…` in Ca/Objects.lean) are shown to differ from
the generated body.

Instantiation: children ↦ `ChildM`, class names and keys ↦ `Nat`, `self.get_child` ↦ `.ok c` (an unknown
child is refused before: C12), `child.used_keys.get(&key)` ↦ the model's association list
(`some rcn` = `InUse(rcn)`, `none` = `Revoked`), `Ok(vec![])` ↦ `.ok none`, the two revocation events for
`my_rcn` ↦ `.ok (some my_rcn)`.
-/
import KrillModel.Generated.PureFnsC03
import KrillModel.Ca.Objects
namespace KM.Props.C03Src
open KM.Ca.Pub

/-- `UsedKeyState` of the model's `used_keys` entry. -/
def toUsed : Option Nat → KM.Gen.C03.UsedKeyState Nat
  | some r => .InUse r
  | none => .Revoked

/-- What the manager sees of the outcome: refused, confirmed without work, or revoked in a class. -/
def toOut : RevokeOut → Except Unit (Option Nat)
  | .ignored => .ok none
  | .alreadyRevoked => .ok none
  | .error => .error ()
  | .revoked r _ => .ok (some r)

/-- The generated body with the model's child record plugged in. -/
abbrev genRevoke (resources : List Nat) (c : ChildM) (childRcn key : Nat) : Except Unit (Option Nat) :=
  KM.Gen.C03.CertAuth.process_child_revoke_key (C := ChildM) (R := Nat) (ε := Unit) (α := Option Nat)
    (.ok c) (fun c => c.parentNameForRcn childRcn) (fun r => decide (r ∈ resources))
    (fun c => (get? c.usedKeys key).map toUsed) none () some

/-- `CertAuth::process_child_revoke_key` as translated from the source = the model, for every set of
classes, child record, class name and key. -/
theorem gen_process_child_revoke_key_eq_model (resources : List Nat) (c : ChildM) (childRcn key : Nat) :
    genRevoke resources c childRcn key = toOut (processChildRevokeKey resources c childRcn key) := by
  unfold genRevoke KM.Gen.C03.CertAuth.process_child_revoke_key processChildRevokeKey
  by_cases hm : c.parentNameForRcn childRcn ∈ resources
  · simp only [hm, decide_true, not_true_eq_false, if_false]
    cases hk : get? c.usedKeys key with
    | none => simp [toOut]
    | some st =>
      cases st with
      | none => simp [toOut, toUsed]
      | some r =>
        by_cases hr : r = c.parentNameForRcn childRcn
        · simp [toOut, toUsed, hr]
        · simp [toOut, toUsed, hr]
  · simp [hm, toOut]

/-- The three earlier behaviours (each a repaired defect) are NOT what the source says now: on these
inputs the generated body differs from the pinned counter-models. -/
example :   -- before 43d7eca0: class test before the translation (mapped class name: request ignored)
    genRevoke [0] { usedKeys := [(7, some 0)], rcnMap := [(0, 5)] } 5 7 = .ok (some 0) ∧
      toOut (pinnedProcessChildRevokeKey [0] { usedKeys := [(7, some 0)], rcnMap := [(0, 5)] } 5 7) = .ok none :=
  ⟨rfl, rfl⟩
example :   -- before 7be8c4c6: a key this CA revoked itself was refused for ever
    genRevoke [0] { usedKeys := [(7, none)] } 0 7 = .ok none ∧
      toOut (pinnedRevokedKeyRefused [0] { usedKeys := [(7, none)] } 0 7) = .error () :=
  ⟨rfl, rfl⟩
example :   -- before 239f0a59: a key in use in another class was "revoked" in the named class
    genRevoke [0, 1] { usedKeys := [(7, some 1)] } 0 7 = .error () ∧
      toOut (pinnedRevokeAnyClass [0, 1] { usedKeys := [(7, some 1)] } 0 7) = .ok (some 0) :=
  ⟨rfl, rfl⟩

end KM.Props.C03Src
