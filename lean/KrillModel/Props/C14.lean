/-
C14 — Manifests, CRLs and signed objects are refreshed in time with rising numbers.

Theorems over `Ca/Objects.lean` (key object sets, `re_issue`, `republish_all`) and the renewal part
of `Ca/RoaObjects.lean`.  All statements are for every state, every timing configuration, every
instant and every history; helper lemmas live in `Ca/ObjLemmas.lean`.
-/
import KrillModel.Ca.ObjLemmas
import KrillModel.Ca.RoaLemmas
namespace KM.Props.C14
open KM.Ca.Pub

/-! ### One re-issue -/

/-- A re-issue bumps the number by exactly one. -/
theorem number_plus_one (s : KeyObjectSet) (t : Timing) (i : IssueIn) :
    (s.reissue t i).revision.number = s.revision.number + 1 := rfl

/-- Manifest and CRL are built from the same revision: numbers and validity windows agree with each
other and with the stored revision – after creation and after every re-issue. -/
theorem mft_crl_numbers_agree (s : KeyObjectSet) (t : Timing) (i : IssueIn) :
    NumbersAgree (s.reissue t i) ∧ NumbersAgree (KeyObjectSet.create s.base s.crlName s.mftName t i) :=
  ⟨numbersAgree_reissue s t i, numbersAgree_create _ _ _ t i⟩

/-- … and they keep agreeing along every history of a CA's object store (commands with arbitrary
events, republish runs), for every key set in every key state. -/
theorem mft_crl_numbers_agree_always (t : Timing) (o : CaObjects) (ops : List CaOp)
    (h : ∀ s ∈ allSets o, GoodSet s) : ∀ s ∈ allSets (caRun t o ops), NumbersAgree s :=
  fun s hs => (good_caRun t ops o h s hs).2.2

example : ∀ s ∈ allSets ([] : CaObjects), GoodSet s := by simp [allSets]

/-- The window of a freshly issued manifest/CRL contains the instant of issue
(`next_hours ≥ 1`; krill's configuration check demands `≥ 2`). -/
theorem window_contains_now (s : KeyObjectSet) (t : Timing) (i : IssueIn) (h : t.nextHours ≥ 1) :
    let s' := s.reissue t i
    s'.revision.thisUpdate ≤ i.now ∧ i.now < s'.revision.nextUpdate ∧
    s'.manifest.thisUpdate ≤ i.now ∧ i.now < s'.manifest.nextUpdate ∧
    s'.crl.thisUpdate ≤ i.now ∧ i.now < s'.crl.nextUpdate := by
  have h1 : fiveMinutesAgo i.now ≤ i.now := Nat.sub_le _ _
  have h2 : i.now < publishNext t i := by
    unfold publishNext
    have : 0 < (t.nextHours * 60 + i.jitterMin) * 60 := by omega
    omega
  simp only [KeyObjectSet.reissue, Revision.next, buildCrl, buildMft]
  exact ⟨h1, h2, h1, h2, h1, h2⟩

example : (1 : Nat) ≤ ({} : Timing).nextHours := by decide

/-- Without the hypothesis the window can be empty: `next_hours = 0`, no jitter. -/
theorem window_needs_next_hours :
    ∃ (s : KeyObjectSet) (i : IssueIn),
      ¬ (i.now < (s.reissue { nextHours := 0, jitterHours := 0, hoursBefore := 0 } i).revision.nextUpdate) :=
  ⟨default, { now := 1000 }, by decide⟩

/-- A re-issue changes no payload: the published objects are the same. -/
theorem reissue_keeps_payloads (s : KeyObjectSet) (t : Timing) (i : IssueIn) :
    (s.reissue t i).published = s.published := rfl

/-- … for a whole republish run over every class and key state. -/
theorem republish_keeps_payloads (o : CaObjects) (force : Bool) (now : Nat) (t : Timing) (ins : IssueInputs) :
    (allSets (reissueIfNeeded o force now t ins).1).map (·.published) = (allSets o).map (·.published) :=
  reIssue_published o force now t ins

/-! ### A maintenance run -/

/-- Every class in which some key set (current, staging or old) is within the margin is re-issued
– all of its sets – and the run reports the CA, so that the scheduler queues the repository sync
(scheduler.rs:476-492 schedules `SyncRepo` for every reported CA).

The trust anchor's own manifest and CRL are *not* covered: `republish_all` walks the CA store
only; the TA is refreshed by a proxy↔signer exchange (task `RenewTestbedTa` in testbed mode). -/
theorem due_is_reissued (o : CaObjects) (now : Nat) (t : Timing) (ins : IssueInputs)
    (rcn : Nat) (c : ClassObjects) (hc : (rcn, c) ∈ o) (s : KeyObjectSet) (hs : s ∈ c.sets)
    (hdue : s.requiresReissuance now t.hoursBefore = true) :
    (rcn, c.reissue t (ins rcn).1 (ins rcn).2) ∈ (reissueIfNeeded o false now t ins).1 ∧
    (reissueIfNeeded o false now t ins).2 = true ∧
    (∀ s' ∈ (c.reissue t (ins rcn).1 (ins rcn).2).sets, ∃ s₀ ∈ c.sets, ∃ i,
        s' = s₀.reissue t i ∧ s'.revision.number = s₀.revision.number + 1) :=
  due_reissued o now t ins rcn c hc s hs hdue

example : ∃ (s : KeyObjectSet), s.requiresReissuance 100 8 = true := ⟨default, by decide⟩

/-- A run that finds nothing due changes nothing and reports nothing. -/
theorem nothing_due_nothing_changes (o : CaObjects) (now : Nat) (t : Timing) (ins : IssueInputs)
    (h : ∀ e ∈ o, ∀ s ∈ e.2.sets, s.requiresReissuance now t.hoursBefore = false) :
    reissueIfNeeded o false now t ins = (o, false) :=
  notDue_unchanged o now t ins h

example : ∃ (s : KeyObjectSet), s.requiresReissuance 100 8 = false :=
  ⟨{ (default : KeyObjectSet) with revision := ⟨1, 0, 1000000⟩ }, by decide⟩

/-! ### Histories -/

/-- Over every history of a key set the number is the initial number plus the number of
re-issues: it never decreases, every re-issue adds exactly one, nothing else touches it. -/
theorem numbers_strictly_increase (t : Timing) (s : KeyObjectSet) (ops : List SetOp) :
    (s.run t ops).revision.number = s.revision.number + (ops.filter SetOp.isReissue).length :=
  run_number t ops s

/-- The manifest only changes in a re-issue: a different manifest means a higher number. -/
theorem manifest_changes_only_with_number (t : Timing) (s : KeyObjectSet) (op : SetOp) :
    (s.step t op).manifest ≠ s.manifest → (s.step t op).revision.number = s.revision.number + 1 := by
  cases op <;> simp [KeyObjectSet.step, update_manifest, updateCerts_manifest, KeyObjectSet.retire,
    KeyObjectSet.reissue, Revision.next]

/-! ### The trust anchor's manifest number

The daemon always passes `None` for the override; `krillta`'s `--ta-mft-number-override` is an explicit
operator input, and is exactly what can break monotonicity. -/

theorem ta_number_plus_one (o : TaObjects) (a b : Nat) :
    (o.republish a b none).revision.number = o.revision.number + 1 := rfl

theorem ta_override_breaks_monotonicity :
    ∃ (o : TaObjects) (n : Nat), (o.republish 0 0 (some n)).revision.number < o.revision.number :=
  ⟨{ revision := ⟨5, 0, 0⟩ }, 1, by decide⟩

/-! ### Renewal of signed objects -/

/-- `create_renewal`: exactly the objects that expire before the threshold (all, if forced) are
renewed; the set of payloads – object by object – is unchanged. -/
theorem renew_due_objects (r : Roas) (hr : r.WF) (force : Bool) (thr : Nat)
    (mintS : Payload → ObjMeta) (mintA : AggKey → ObjMeta) :
    let r' := r.apply (r.createRenewal force thr mintS mintA)
    (∀ p info, (p, info) ∈ r.simple →
      ((force = true ∨ info.obj.expires < thr) → (p, ⟨[p], mintS p⟩) ∈ r'.simple) ∧
      (¬ (force = true ∨ info.obj.expires < thr) → (p, info) ∈ r'.simple)) ∧
    (∀ k info, (k, info) ∈ r.agg →
      ((force = true ∨ info.obj.expires < thr) → (k, ⟨info.auths, mintA k⟩) ∈ r'.agg) ∧
      (¬ (force = true ∨ info.obj.expires < thr) → (k, info) ∈ r'.agg)) ∧
    (∀ p, p ∈ r'.payloads ↔ p ∈ r.payloads) ∧ r'.WF :=
  renewal_exact r hr force thr mintS mintA

example : (({} : Roas)).WF := wf_empty

/-! ### Every change of the object store queues a repository sync

`cert_auth_pre_save_events` ends with `re_issue(force_reissue)`: a set that is due is re-issued even
when none of the command's events changes objects.  Since the fix of finding F-C14-2 (/repo
9258d910) the listener reports that and `CertAuth::pre_save_events` queues `SyncRepo`. -/

/-- If a command queues no repository sync, it has not changed the object store at all (so: every
re-issue, forced or due, and every object change is followed by a sync). -/
theorem every_change_queues_sync (o : CaObjects) (evs : List ObjEvent) (now : Nat) (t : Timing)
    (ins : IssueInputs) (o' : CaObjects) (h : preSaveSync o evs now t ins = some (o', false)) : o' = o := by
  simp only [preSaveSync] at h
  cases hev : applyEvents t o evs with
  | none => simp [hev] at h
  | some r =>
    obtain ⟨o1, f⟩ := r
    simp only [hev, Option.map, Option.some.injEq, Prod.mk.injEq, Bool.or_eq_false_iff] at h
    obtain ⟨h1, h2, h3⟩ := h
    have e1 := applyEvents_nosync_id t evs o o1 f h2 hev
    rw [← h1, reIssue_false_id o1 f now t ins h3, e1]

example : preSaveSync [(0, .current default)] [.other] 100 {} (fun _ => (default, default)) =
    some ([(0, .current ((default : KeyObjectSet).reissue {} default))], true) := by decide

/-- The behaviour before the fix (replayed on the code at the time, finding F-C14-2): a command
whose events queue no sync re-issued a due manifest – the new manifest stayed unpublished. -/
theorem pinned_command_reissue_without_sync :
    ∃ (o : CaObjects) (evs : List ObjEvent) (now : Nat) (t : Timing) (ins : IssueInputs) (o' : CaObjects),
      pinnedPreSaveSync o evs now t ins = some (o', false) ∧ o' ≠ o :=
  ⟨[(0, .current default)], [.other], 100, {}, fun _ => (default, default),
    [(0, .current ((default : KeyObjectSet).reissue {} default))], by decide, by decide⟩

/-- Whenever nothing is due, only forcing events change the object store. -/
theorem not_due_only_forcing_events_change (o : CaObjects) (evs : List ObjEvent) (now : Nat) (t : Timing)
    (ins : IssueInputs) (o₁ : CaObjects)
    (hev : applyEvents t o evs = some (o₁, false))
    (h : ∀ e ∈ o₁, ∀ s ∈ e.2.sets, s.requiresReissuance now t.hoursBefore = false) :
    preSave o evs now t ins = some o₁ := by
  have := notDue_unchanged o₁ now t ins h
  simp only [reissueIfNeeded] at this
  simp [preSave, hev, this]

end KM.Props.C14
