/-
C19 (source tie) — the hand-written model of the status records (`Status/Status.lean`:
`RepoStatus.setFailure / setLastUpdated / updatePublished`, `ParentStatus.setFailure / setLastUpdated /
setEntitlements`, `ChildStatus.setSuccess / setFailure / setSuspended`) equals the definitions that the
translator `pure_fns` regenerates from `/repo/src/api/ca.rs` on every run
(`Generated/PureFnsC19.lean`, namespace `KM.Gen.C19`).

`status_is_last_exchange`, `published_list_*`, `child_last_request_partial`, `restart_invariant`
(Props/C19.lean) are about the model's setters.  With the theorems below these are tied to the Rust
bodies: which fields a setter assigns (a failure must NOT touch `last_success`; a child's request of
either outcome clears `suspended`), that `update_published` removes an entry of the same URI before it
pushes in BOTH the `Publish` and the `Update` arm (the defect fixed by 7b4aa6c7 was the missing `retain`
in the `Publish` arm: the pinned counter-model `applyElPinned` is shown to differ from the generated
body), that a withdraw only removes, that `set_entitlements` REBUILDS `all_resources` from the classes
of this reply (seed C19-r2 accumulated it) and replaces the class list.  Each such edit changes a
generated definition and this file stops checking.

Instantiation of the abstract parameters of the generated definitions (printed in the header of the
generated file): time stamps `T := Nat`, URIs `U := String`, exchange records `X := Exchange` /
`ChildExchange`, error labels `ε := String`, delta elements `E := DeltaEl`, published files
`F := File`, entitlement classes `C := String × List Nat`, resource sets `R := List Nat` with
`union := unionAtoms`, `empty := []`.
-/
import KrillModel.Generated.PureFnsC19
import KrillModel.Status.Status
namespace KM.Props.C19Src
open KM.Status

/-! ### instantiation -/

def exSuccess (t : Nat) (u : String) : Exchange := ⟨t, u, .success⟩
def exFailure (t : Nat) (u : String) (e : String) : Exchange := ⟨t, u, .failure e⟩
def chSuccess (t : Nat) (a : Option String) : ChildExchange := ⟨t, .success, a⟩
def chFailure (t : Nat) (a : Option String) (e : String) : ChildExchange := ⟨t, .failure e, a⟩

/-- Variant of a delta element (rpki-rs `PublishDeltaElement`). -/
def kind : DeltaEl → KM.Gen.C19.PublishDeltaElement
  | .publish _ _ => .Publish
  | .update _ _ => .Update
  | .withdraw _ => .Withdraw

/-- `PublishedFile { uri, base64 }` built from the unpacked fields of a publish / update element (never
evaluated for a withdraw: that arm does not push). -/
def fileOf : DeltaEl → File
  | .publish u c => (u, c)
  | .update u c => (u, c)
  | .withdraw u => (u, "")

/-- `el.uri == uri` for the unpacked `uri` of the element. -/
def sameUri (e : DeltaEl) (f : File) : Bool := f.1 == e.uri

/-! ### RepoStatus -/

theorem gen_repo_set_last_updated_eq_model (s : RepoStatus) (uri : String) (now : Nat) :
    KM.Gen.C19.RepoStatus.set_last_updated exSuccess s.lastExchange s.lastSuccess now uri =
      ((s.setLastUpdated uri now).lastExchange, (s.setLastUpdated uri now).lastSuccess) := rfl

/-- `set_last_updated` leaves the published list alone (it is not among the assigned fields). -/
theorem repo_set_last_updated_keeps_published (s : RepoStatus) (uri : String) (now : Nat) :
    (s.setLastUpdated uri now).published = s.published := rfl

theorem gen_repo_set_failure_eq_model (s : RepoStatus) (uri err : String) (now : Nat) :
    KM.Gen.C19.RepoStatus.set_failure exFailure s.lastExchange now uri err =
      (s.setFailure uri err now).lastExchange := rfl

/-- A failure keeps the last success and the published list: the generated body assigns
`last_exchange` only, and so does the model. -/
theorem repo_set_failure_keeps_rest (s : RepoStatus) (uri err : String) (now : Nat) :
    (s.setFailure uri err now).lastSuccess = s.lastSuccess ∧
    (s.setFailure uri err now).published = s.published := ⟨rfl, rfl⟩

/-- The generated loop = the model's fold of `applyEl` (the leading copies of the three fields are the
function's own binders, shadowed by the loop state: never read). -/
theorem loop_eq (x : Option Exchange) (t : Option Nat) (now : Nat) (uri : String)
    (els : List DeltaEl) (l : List DeltaEl) :
    ∀ (x0 : Option Exchange) (t0 : Option Nat) (p0 : List File) (p : List File),
    KM.Gen.C19.RepoStatus.update_published.loop exSuccess kind fileOf sameUri x0 t0 p0 now uri els x t p l =
      (x, some now, applyDelta p l) := by
  induction l with
  | nil =>
      intro x0 t0 p0 p
      simp [KM.Gen.C19.RepoStatus.update_published.loop, KM.Gen.C19.RepoStatus.update_published.after, applyDelta]
  | cons e tl ih =>
      intro x0 t0 p0 p
      cases e <;>
        simp [KM.Gen.C19.RepoStatus.update_published.loop, kind, fileOf, sameUri, ih, applyDelta, applyEl, DeltaEl.uri, bne]

/-- `RepoStatus::update_published`: generated definition = model, for every status, URI, delta and clock
value. -/
theorem gen_update_published_eq_model (s : RepoStatus) (uri : String) (d : List DeltaEl) (now : Nat) :
    KM.Gen.C19.RepoStatus.update_published exSuccess kind fileOf sameUri s.lastExchange s.lastSuccess s.published now uri d =
      ((s.updatePublished uri d now).lastExchange, (s.updatePublished uri d now).lastSuccess,
       (s.updatePublished uri d now).published) := by
  unfold KM.Gen.C19.RepoStatus.update_published
  simp only [loop_eq]
  rfl

/-- The behaviour before fix 7b4aa6c7 (no `retain` in the `Publish` arm) is NOT what the generated body
does: publishing an object that the list already shows yields one entry, the pinned code two. -/
theorem pinned_publish_differs :
    (KM.Gen.C19.RepoStatus.update_published exSuccess kind fileOf sameUri none none [("u", "a")] 1 "r"
        [.publish "u" "b"]).2.2 ≠
      [DeltaEl.publish "u" "b"].foldl applyElPinned [("u", "a")] := by decide

/-! ### ParentStatus -/

theorem gen_parent_set_last_updated_eq_model (s : ParentStatus) (uri : String) (now : Nat) :
    KM.Gen.C19.ParentStatus.set_last_updated exSuccess s.lastExchange s.lastSuccess now uri =
      ((s.setLastUpdated uri now).lastExchange, (s.setLastUpdated uri now).lastSuccess) := rfl

theorem gen_parent_set_failure_eq_model (s : ParentStatus) (uri err : String) (now : Nat) :
    KM.Gen.C19.ParentStatus.set_failure exFailure s.lastExchange now uri err =
      (s.setFailure uri err now).lastExchange := rfl

/-- A failure keeps the last success, the entitlements and the resources shown. -/
theorem parent_set_failure_keeps_rest (s : ParentStatus) (uri err : String) (now : Nat) :
    (s.setFailure uri err now).lastSuccess = s.lastSuccess ∧
    (s.setFailure uri err now).classes = s.classes ∧
    (s.setFailure uri err now).allResources = s.allResources := ⟨rfl, rfl, rfl⟩

theorem ent_loop_eq (x : Option Exchange) (t : Option Nat) (r0 : List Nat) (cl : List (String × List Nat))
    (now : Nat) (uri : String) (ent : List (String × List Nat)) (l : List (String × List Nat)) :
    ∀ (x0 : Option Exchange) (t0 : Option Nat) (a0 : List Nat) (c0 : List (String × List Nat)) (acc : List Nat),
    KM.Gen.C19.ParentStatus.set_entitlements.loop exSuccess (fun c : String × List Nat => c.2) unionAtoms []
        x0 t0 a0 c0 now uri ent x t r0 cl acc l =
      (x, t, l.foldl (fun acc c => unionAtoms acc c.2) acc, cl) := by
  induction l with
  | nil =>
      intro x0 t0 a0 c0 acc
      simp [KM.Gen.C19.ParentStatus.set_entitlements.loop, KM.Gen.C19.ParentStatus.set_entitlements.after]
  | cons c tl ih =>
      intro x0 t0 a0 c0 acc
      simp [KM.Gen.C19.ParentStatus.set_entitlements.loop, ih]

/-- `ParentStatus::set_entitlements`: generated definition = model – the class list is REPLACED by the
reply's, `all_resources` is rebuilt from exactly those classes starting from the empty set, the exchange
is recorded as a success. -/
theorem gen_set_entitlements_eq_model (s : ParentStatus) (uri : String) (ent : Entitlements) (now : Nat) :
    KM.Gen.C19.ParentStatus.set_entitlements exSuccess (fun c : String × List Nat => c.2) unionAtoms []
        s.lastExchange s.lastSuccess s.allResources s.classes now uri ent =
      ((s.setEntitlements uri ent now).lastExchange, (s.setEntitlements uri ent now).lastSuccess,
       (s.setEntitlements uri ent now).allResources, (s.setEntitlements uri ent now).classes) := by
  unfold KM.Gen.C19.ParentStatus.set_entitlements
  simp only [ent_loop_eq]
  rfl

/-- What is shown after `set_entitlements` does not depend on what was shown before (no accumulation:
the seeded change C19-r2). -/
theorem set_entitlements_forgets (s s' : ParentStatus) (uri : String) (ent : Entitlements) (now : Nat) :
    (s.setEntitlements uri ent now).allResources = (s'.setEntitlements uri ent now).allResources ∧
    (s.setEntitlements uri ent now).classes = (s'.setEntitlements uri ent now).classes := ⟨rfl, rfl⟩

/-! ### ChildStatus -/

theorem gen_child_set_success_eq_model (s : ChildStatus) (agent : Option String) (now : Nat) :
    KM.Gen.C19.ChildStatus.set_success chSuccess s.lastExchange s.lastSuccess s.suspended now agent =
      ((s.setSuccess agent now).lastExchange, (s.setSuccess agent now).lastSuccess,
       (s.setSuccess agent now).suspended) := rfl

theorem gen_child_set_failure_eq_model (s : ChildStatus) (agent : Option String) (err : String) (now : Nat) :
    KM.Gen.C19.ChildStatus.set_failure chFailure s.lastExchange s.suspended now agent err =
      ((s.setFailure agent err now).lastExchange, (s.setFailure agent err now).suspended) := rfl

/-- A refused request keeps the time of the last success. -/
theorem child_set_failure_keeps_success (s : ChildStatus) (agent : Option String) (err : String) (now : Nat) :
    (s.setFailure agent err now).lastSuccess = s.lastSuccess := rfl

theorem gen_child_set_suspended_eq_model (s : ChildStatus) (now : Nat) :
    KM.Gen.C19.ChildStatus.set_suspended s.suspended now = (s.setSuspended now).suspended := rfl

/-- Non-vacuity: a delta that publishes over an existing entry, updates and withdraws. -/
example :
    (KM.Gen.C19.RepoStatus.update_published exSuccess kind fileOf sameUri none none [("u", "a"), ("v", "b")] 7 "r"
        [.publish "u" "c", .update "v" "d", .withdraw "u", .publish "w" "e"]) =
      (some ⟨7, "r", .success⟩, some 7, [("v", "d"), ("w", "e")]) := by decide

/-! ### a success clears a recorded failure (seed C19-r6)

Whatever was recorded before - in particular a failure - a successful exchange is what the views show afterwards: the
setters assign `last_exchange` unconditionally (the seeded change C19-r6 recorded the success of a list query only when the
last exchange had not been a failure). -/

theorem repo_success_clears_failure (s : RepoStatus) (uri : String) (now : Nat) :
    (s.setLastUpdated uri now).optFailure = none ∧
    ∀ d, (s.updatePublished uri d now).optFailure = none := ⟨rfl, fun _ => rfl⟩

theorem parent_success_clears_failure (s : ParentStatus) (uri : String) (ent : Entitlements) (now : Nat) :
    (s.setLastUpdated uri now).optFailure = none ∧ (s.setEntitlements uri ent now).optFailure = none := ⟨rfl, rfl⟩

/-- … and a failure after a success is shown as that failure, with the time of the last success kept. -/
theorem repo_failure_after_success (s : RepoStatus) (uri uri' err : String) (t t' : Nat) :
    ((s.setLastUpdated uri t).setFailure uri' err t').optFailure = some err ∧
    ((s.setLastUpdated uri t).setFailure uri' err t').lastSuccess = some t := ⟨rfl, rfl⟩

end KM.Props.C19Src
