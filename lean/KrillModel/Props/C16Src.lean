/-
C16 — source tie for krill's *own* code: the **panic-site census**.

`Generated/PanicSites.lean` is regenerated from `/repo/src` on every run (translator
`panic_sites`): for every function outside tests / CLI / upgrades the number of potential panic
sites per kind (index or slice, `unwrap`, `expect`, panic-family macro, integer division, shift,
process exit).  `Input/PanicReview.lean` is the hand-written review of every such row.

| clause of C16 | theorem |
|---|---|
| no … input makes request processing panic or exit the process (krill's own code, systematically) | `all_panic_sites_reviewed`: every (function, kind, count) row of the census has a review row with **the same count** – a new site in a reviewed function, or a new function with a site, breaks the proof; the check then searches for a failing input with the `strfn` ops of the `pure` stream |
| (open defects are visible) | `no_open_findings_unlisted`: a row classified `finding` names an id of `knownFindings` |
| CSR SIA authorities (`seems_global_uri`, RFC 6492 issue + child import) | `seems_global_uri_total`, `seems_global_uri_slice_in_range`; compared with the code by `strfn seems_global_uri*` |

What this does **not** say: that the reasons in the review table are right – they are the audit
(read by hand, site by site); arithmetic overflow sites are not in the census (debug-only,
`Input/Checked.lean` covers the ones on client values); third-party crates are outside it.
-/
import KrillModel.Generated.PanicSites
import KrillModel.Input.PanicReview
import KrillModel.Input.Checked
namespace KM.Props.C16Src
open KM.Input KM.Input.PanicReview

abbrev Site := String × String × Nat
abbrev Row := String × String × Nat × Class × String

/-- The review row is about this census row: same function, same kind, **same count**. -/
def rowMatches (s : Site) (r : Row) : Bool :=
  r.1 == s.1 && r.2.1 == s.2.1 && r.2.2.1 == s.2.2

/-- The census row has a review. -/
def covered (s : Site) : Bool := reviewed.any (rowMatches s)

/-- One walk over both tables (both sorted by function, kind): review rows that match nothing
are skipped.  Linear, so that the kernel can evaluate it on string keys (string equality costs
the kernel about a millisecond per character: the quadratic `sites.all covered` takes minutes,
this walk about twenty seconds, and only when one of the two tables has changed). -/
def walk : List Site → List Row → Bool
  | [], _ => true
  | _ :: _, [] => false
  | s :: ss, r :: rs => if rowMatches s r then walk ss rs else walk (s :: ss) rs

theorem walk_sound : ∀ (rs : List Row) (ss : List Site), walk ss rs = true →
    ∀ s ∈ ss, rs.any (rowMatches s) = true := by
  intro rs
  induction rs with
  | nil =>
    intro ss h s hs
    cases ss with
    | nil => cases hs
    | cons a t => simp [walk] at h
  | cons r rs ih =>
    intro ss h s hs
    cases ss with
    | nil => cases hs
    | cons a t =>
      unfold walk at h
      by_cases hm : rowMatches a r = true
      · rw [if_pos hm] at h
        rcases List.mem_cons.mp hs with rfl | ht
        · simp [List.any_cons, hm]
        · simp [List.any_cons, ih t h s ht]
      · rw [if_neg hm] at h
        simp [List.any_cons, ih (a :: t) h s hs]

/-- The walk succeeds on the tables of this run (kernel evaluation). -/
theorem census_walk : walk KM.Gen.PanicSites.sites reviewed = true := by
  decide +kernel

/-- **Every potential panic site of krill's own code has been reviewed**, with the count it has
in the current source. -/
theorem all_panic_sites_reviewed : ∀ s ∈ KM.Gen.PanicSites.sites, covered s = true :=
  walk_sound reviewed KM.Gen.PanicSites.sites census_walk

def findingsListed : Bool :=
  reviewed.all fun r =>
    match r.2.2.2.1 with
    | .finding id => knownFindings.contains id
    | _ => true

/-- **Every row classified `finding` names a listed finding id.** -/
theorem no_open_findings_unlisted :
    ∀ r ∈ reviewed, ∀ id, r.2.2.2.1 = Class.finding id → id ∈ knownFindings := by
  have h : findingsListed = true := by decide +kernel
  intro r hr id hc
  have := List.all_eq_true.mp h r hr
  simp only [hc] at this
  exact List.contains_iff_mem.mp this

/-! ## `seems_global_uri` -/

/-- The slice `&auth[0..i]` with `i = auth.rfind(':')` never panics: the offset `rfind`
returns is in range and on a character boundary. -/
theorem seems_global_uri_slice_in_range (ch : Char) :
    ∀ (s : List Char) (i : Nat), rfindChar ch s = some i → (sliceTo s i).isSome = true := by
  intro s
  induction s with
  | nil => intro i h; simp [rfindChar] at h
  | cons c rest ih =>
    intro i h
    unfold rfindChar at h
    cases hr : rfindChar ch rest with
    | some j =>
      rw [hr] at h
      simp only [Option.some.injEq] at h
      subst h
      have hpos : 0 < utf8Size c := Char.utf8Size_pos c
      cases hk : utf8Size c + j with
      | zero => omega
      | succ k =>
        unfold sliceTo
        have hle : utf8Size c ≤ k + 1 := by omega
        rw [if_pos hle]
        have hj : k + 1 - utf8Size c = j := by omega
        rw [hj]
        have := ih j hr
        cases hs : sliceTo rest j with
        | none => rw [hs] at this; cases this
        | some v => rfl
    | none =>
      rw [hr] at h
      by_cases hc : (c == ch) = true
      · rw [if_pos hc] at h
        simp only [Option.some.injEq] at h
        subst h
        simp [sliceTo]
      · rw [if_neg hc] at h; cases h

/-- **`seems_global_uri` answers for every authority string.** -/
theorem seems_global_uri_total (auth : List Char) : seemsGlobalUri auth ≠ none := by
  unfold seemsGlobalUri
  split
  · simp
  · cases hr : rfindChar ':' auth with
    | none => simp
    | some i =>
      have h := seems_global_uri_slice_in_range ':' auth i hr
      cases hs : sliceTo auth i with
      | none => rw [hs] at h; cases h
      | some v => simp [hs]

/-! ## non-vacuity -/

example : KM.Gen.PanicSites.sites.length > 200 := by decide +kernel
example : covered ("commons/util/mod::seems_global_uri", "index", 1) = true := by decide +kernel
/-- A second index in the same function (what the round-3 seeded change does) is *not* covered. -/
example : covered ("commons/util/mod::seems_global_uri", "index", 2) = false := by decide +kernel
example : seemsGlobalUri "localhost".toList = some false := by decide
example : seemsGlobalUri "127.0.0.1:873".toList = some false := by decide
example : seemsGlobalUri "localhost:873".toList = some true := by decide
example : seemsGlobalUri "host:".toList = some true := by decide
example : seemsGlobalUri "::1".toList = some false := by decide
example : seemsGlobalUri "example.org".toList = some true := by decide
-- (F-C16-5/F-C16-6, the two rows this census classified `finding`, are repaired: fix 4d7887d3)
example : (reviewed.filter fun r => r.2.2.2.1 matches .finding _).length = 0 := by decide +kernel
example : seemsGlobalUri "é:".toList = some true := by decide
example : ipAddrOk "1:2:3:4:5:6:7.8.9.10".toList = true := by decide
example : ipAddrOk "1::7.8.9.10".toList = true := by decide
example : ipAddrOk "01.2.3.4".toList = false := by decide
example : sliceTo "é:".toList 1 = none := by decide

end KM.Props.C16Src
