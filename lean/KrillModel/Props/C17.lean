/-
C17 — ROA analysis agrees with RFC 6811 origin validation.
Property theorems only; helper lemmas live in `KrillModel.Bgp.Lemmas`.

The model (`Bgp/Validate.lean`, `Bgp/Analyse.lean`) follows
`src/server/bgp/analyser.rs`; the RISwhois prefix tree of `riswhois.rs` is specified as the
list filter `covers` and tied to it by the correspondence run only.

Clause → theorem (property text of C17 in properties.jsonl)
| clause | theorem(s) |
|---|---|
| valid exactly when some ROA covers with the same origin and a sufficient max length | `valid_iff`, `valid_names_first_match`, `validate_eq_rfc6811` |
| invalid (wrong origin / wrong length / disallowed by AS0) exactly when covering ROAs exist but none matches | `invalid_iff` (three kinds), `disallowed_by_exact`, `validate_eq_rfc6811` |
| not found exactly when no ROA covers | `notfound_iff` |
| each announcement within the CA's resources is reported (once, in one category) | `announcement_category_exact`, `report_entries_exact` |
| each ROA's authorised / disallowed set is exactly what validation attributes to it | `authorizes_exact`, `disallows_exact` (non-AS0, guard `as0_entry_guard`); AS0: `as0_disallows_partial` + negation `as0_disallows_not_exact` (F-C17-1, open) |
| suggestions never propose removing a ROA that (alone) validates an observed announcement | `suggest_safe` (every single proposal, any announcements/scope); whole suggestion: negation `suggest_combined_not_safe` (F-C17-2, open) |
| nested prefixes, max-length variations, AS0, duplicates; every held-resource and scope restriction | all theorems quantify over arbitrary lists; `covers_is_range_inclusion`, `covers_partial_order`; scope/held enter `analyse` as arbitrary predicates/lists |
| the prefix tree of riswhois.rs | specification only (list filter); tied by the `pure` stream (`msp`, `ana`) |
-/
import KrillModel.Bgp.Lemmas
namespace KM.Props.C17
open KM.Bgp

/-- All ROA prefixes are well formed (length within the family, host bits zero) – the
invariant of krill's prefix types. -/
def AllWF (roas : List Roa) : Prop := ∀ r ∈ roas, r.pfx.WF

/-! ## Validation of one announcement -/

/-- An announcement is reported valid exactly when some configured ROA covers its prefix
with the same origin and a sufficient maximum length. -/
theorem valid_iff (roas : List Roa) (a : Ann) :
    (∃ r, (validate roas a).validity = .valid r) ↔
      ∃ r ∈ roas, r.asn = a.asn ∧ r.pfx.covers a.pfx = true ∧ a.pfx.len ≤ r.effMax := by
  have key : (∃ r, (validate roas a).validity = .valid r) ↔ (validate roas a).validity.isValid = true := by
    constructor
    · rintro ⟨r, hr⟩; rw [hr]; rfl
    · intro h
      cases hv : (validate roas a).validity with
      | valid r => exact ⟨r, rfl⟩
      | _ => rw [hv] at h; cases h
  rw [key, isValid_iff]
  constructor
  · rintro ⟨r, hr, hm⟩; exact ⟨r, hr, (matches_iff r a).mp hm⟩
  · rintro ⟨r, hr, hm⟩; exact ⟨r, hr, (matches_iff r a).mpr hm⟩

/-- The ROA named in a "valid" verdict (`allowed_by`) is a configured ROA that matches, and
it is the first such ROA in configuration order. -/
theorem valid_names_first_match (roas : List Roa) (a : Ann) (r : Roa)
    (h : (validate roas a).validity = .valid r) :
    r ∈ roas ∧ r.matches a = true ∧
      (roas.filter (fun x => x.matches a)).head? = some r := by
  rw [validate_validity] at h
  cases hf : (covering roas a.pfx).find? (fun r => r.matches a) with
  | none =>
    rw [hf] at h
    simp only at h
    split at h <;> (try split at h) <;> (try split at h) <;> cases h
  | some r' =>
    rw [hf] at h
    simp only [Validity.valid.injEq] at h
    subst h
    have hmem := List.mem_of_find?_eq_some hf
    have hm : r'.matches a = true := by simpa using List.find?_some hf
    refine ⟨(mem_covering.mp hmem).1, hm, ?_⟩
    -- first match in `covering` is the first match in `roas`: matching implies covering
    have : (roas.filter (fun x => x.matches a)) = (covering roas a.pfx).filter (fun x => x.matches a) := by
      unfold covering
      rw [List.filter_filter]
      apply List.filter_congr
      intro x _
      by_cases hx : x.matches a = true
      · simp [hx, ((matches_iff x a).mp hx).2.1]
      · simp [hx]
    rw [this, List.head?_filter]
    exact hf

/-- Not found exactly when no configured ROA covers the prefix. -/
theorem notfound_iff (roas : List Roa) (a : Ann) :
    (validate roas a).validity = .notFound ↔ ∀ r ∈ roas, r.pfx.covers a.pfx = false := by
  rw [validate_validity]
  have hempty : (covering roas a.pfx).isEmpty = true ↔ ∀ r ∈ roas, r.pfx.covers a.pfx = false := by
    rw [List.isEmpty_iff]
    unfold covering
    rw [List.filter_eq_nil_iff]
    constructor
    · intro h r hr; simpa using h r hr
    · intro h r hr; simp [h r hr]
  cases hf : (covering roas a.pfx).find? (fun r => r.matches a) with
  | some r =>
    simp only [false_iff, reduceCtorEq]
    intro hall
    have hmem := (mem_covering.mp (List.mem_of_find?_eq_some hf))
    rw [hall r hmem.1] at hmem
    exact absurd hmem.2 (by simp)
  | none =>
    simp only
    by_cases he : (covering roas a.pfx).isEmpty = true
    · simp only [he, if_true, true_iff]; exact hempty.mp he
    · simp only [he, Bool.false_eq_true, if_false]
      constructor
      · intro h; split at h <;> (try split at h) <;> cases h
      · intro h; exact absurd (hempty.mpr h) he

/-- The three kinds of invalid.  In every case covering ROAs exist and none matches.
* *length*: some covering ROA has the announcement's origin;
* *ASN*: no covering ROA has that origin and some covering ROA is not for AS0;
* *disallowed*: every covering ROA is an AS0 ROA (and the origin is not AS0). -/
theorem invalid_iff (roas : List Roa) (a : Ann) :
    ((validate roas a).validity = .invalidLength ↔
        (∀ r ∈ roas, r.matches a = false) ∧
        ∃ r ∈ roas, r.pfx.covers a.pfx = true ∧ r.asn = a.asn) ∧
    ((validate roas a).validity = .invalidAsn ↔
        (∀ r ∈ roas, r.pfx.covers a.pfx = true → r.asn ≠ a.asn) ∧
        ∃ r ∈ roas, r.pfx.covers a.pfx = true ∧ r.asn ≠ 0) ∧
    ((validate roas a).validity = .disallowed ↔
        (∃ r ∈ roas, r.pfx.covers a.pfx = true) ∧
        ∀ r ∈ roas, r.pfx.covers a.pfx = true → r.asn = 0 ∧ r.asn ≠ a.asn) := by
  rw [validate_validity]
  have hany1 : (covering roas a.pfx).any (fun r => r.asn == a.asn) = true ↔
      ∃ r ∈ roas, r.pfx.covers a.pfx = true ∧ r.asn = a.asn := by
    simp only [List.any_eq_true, mem_covering, beq_iff_eq]
    constructor
    · rintro ⟨r, ⟨hr, hc⟩, he⟩; exact ⟨r, hr, hc, he⟩
    · rintro ⟨r, hr, hc, he⟩; exact ⟨r, ⟨hr, hc⟩, he⟩
  have hany2 : (covering roas a.pfx).any (fun r => r.asn != 0) = true ↔
      ∃ r ∈ roas, r.pfx.covers a.pfx = true ∧ r.asn ≠ 0 := by
    simp only [List.any_eq_true, mem_covering, bne_iff_ne]
    constructor
    · rintro ⟨r, ⟨hr, hc⟩, he⟩; exact ⟨r, hr, hc, he⟩
    · rintro ⟨r, hr, hc, he⟩; exact ⟨r, ⟨hr, hc⟩, he⟩
  have hempty : (covering roas a.pfx).isEmpty = true ↔ ¬ ∃ r ∈ roas, r.pfx.covers a.pfx = true := by
    rw [List.isEmpty_iff]
    unfold covering
    rw [List.filter_eq_nil_iff]
    constructor
    · rintro h ⟨r, hr, hc⟩; exact h r hr hc
    · intro h r hr hc; exact h ⟨r, hr, hc⟩
  cases hf : (covering roas a.pfx).find? (fun r => r.matches a) with
  | some r =>
    have hmem := mem_covering.mp (List.mem_of_find?_eq_some hf)
    have hm : r.matches a = true := by simpa using List.find?_some hf
    have hma := (matches_iff r a).mp hm
    refine ⟨?_, ?_, ?_⟩
    · simp only [false_iff, reduceCtorEq]
      rintro ⟨hall, _⟩; rw [hall r hmem.1] at hm; cases hm
    · simp only [false_iff, reduceCtorEq]
      rintro ⟨hall, _⟩; exact hall r hmem.1 hmem.2 hma.1
    · simp only [false_iff, reduceCtorEq]
      rintro ⟨_, hall⟩; exact (hall r hmem.1 hmem.2).2 hma.1
  | none =>
    have hnone := (find_none_iff roas a).mp hf
    simp only
    by_cases he : (covering roas a.pfx).isEmpty = true
    · have hno := hempty.mp he
      simp only [he, if_true, false_iff, reduceCtorEq]
      refine ⟨?_, ?_, ?_⟩
      · rintro ⟨_, r, hr, hc, _⟩; exact hno ⟨r, hr, hc⟩
      · rintro ⟨_, r, hr, hc, _⟩; exact hno ⟨r, hr, hc⟩
      · rintro ⟨h, _⟩; exact hno h
    · have hex : ∃ r ∈ roas, r.pfx.covers a.pfx = true := by
        apply Classical.byContradiction; intro h; exact he (hempty.mpr h)
      simp only [he, Bool.false_eq_true, if_false]
      by_cases h1 : (covering roas a.pfx).any (fun r => r.asn == a.asn) = true
      · have h1' := hany1.mp h1
        simp only [h1, if_true, true_iff, false_iff, reduceCtorEq]
        refine ⟨⟨hnone, h1'⟩, ?_, ?_⟩
        · rintro ⟨hall, _⟩
          obtain ⟨r, hr, hc, hasn⟩ := h1'
          exact hall r hr hc hasn
        · rintro ⟨_, hall⟩
          obtain ⟨r, hr, hc, hasn⟩ := h1'
          exact (hall r hr hc).2 hasn
      · have h1' : ¬ ∃ r ∈ roas, r.pfx.covers a.pfx = true ∧ r.asn = a.asn := fun h => h1 (hany1.mpr h)
        simp only [h1, Bool.false_eq_true, if_false]
        by_cases h2 : (covering roas a.pfx).any (fun r => r.asn != 0) = true
        · have h2' := hany2.mp h2
          simp only [h2, if_true, true_iff, false_iff, reduceCtorEq]
          refine ⟨?_, ⟨?_, h2'⟩, ?_⟩
          · rintro ⟨_, h⟩; exact h1' h
          · intro r hr hc hasn; exact h1' ⟨r, hr, hc, hasn⟩
          · rintro ⟨_, hall⟩
            obtain ⟨r, hr, hc, hne⟩ := h2'
            exact hne (hall r hr hc).1
        · have h2' : ¬ ∃ r ∈ roas, r.pfx.covers a.pfx = true ∧ r.asn ≠ 0 := fun h => h2 (hany2.mpr h)
          simp only [h2, Bool.false_eq_true, if_false, true_iff, false_iff, reduceCtorEq]
          refine ⟨?_, ?_, hex, ?_⟩
          · rintro ⟨_, h⟩; exact h1' h
          · rintro ⟨_, h⟩; exact h2' h
          · intro r hr hc
            refine ⟨?_, fun hasn => h1' ⟨r, hr, hc, hasn⟩⟩
            apply Classical.byContradiction
            intro hne; exact h2' ⟨r, hr, hc, hne⟩

/-- The ROAs listed as `disallowed_by` for an invalid announcement are exactly the
configured ROAs that cover it; a valid or not-found announcement lists none. -/
theorem disallowed_by_exact (roas : List Roa) (a : Ann) (r : Roa) :
    r ∈ (validate roas a).disallowing ↔
      (r ∈ roas ∧ r.pfx.covers a.pfx = true ∧ ∀ x ∈ roas, x.matches a = false) := by
  rw [validate_disallowing]
  cases hf : (covering roas a.pfx).find? (fun r => r.matches a) with
  | some r' =>
    have hmem := mem_covering.mp (List.mem_of_find?_eq_some hf)
    have hm : r'.matches a = true := by simpa using List.find?_some hf
    simp only [List.not_mem_nil, false_iff]
    rintro ⟨_, _, hall⟩
    rw [hall r' hmem.1] at hm; cases hm
  | none =>
    have hnone := (find_none_iff roas a).mp hf
    simp only [mem_covering]
    constructor
    · rintro ⟨h1, h2⟩; exact ⟨h1, h2, hnone⟩
    · rintro ⟨h1, h2, _⟩; exact ⟨h1, h2⟩

/-- **krill's first-match loop computes RFC 6811**: for every list of well-formed ROAs and
every announcement the verdict stands for the state the RFC defines. -/
theorem validate_eq_rfc6811 (roas : List Roa) (a : Ann) (hwf : AllWF roas) :
    (validate roas a).validity.toState = Spec.rfc6811 roas a := by
  unfold Spec.rfc6811
  have hM : roas.any (fun v => decide (Spec.Matched v a)) = roas.any (fun r => r.matches a) := by
    rw [Bool.eq_iff_iff]
    simp only [List.any_eq_true, decide_eq_true_eq]
    constructor
    · rintro ⟨r, hr, h⟩; exact ⟨r, hr, (matched_iff r a (hwf r hr)).mp h⟩
    · rintro ⟨r, hr, h⟩; exact ⟨r, hr, (matched_iff r a (hwf r hr)).mpr h⟩
  have hC : roas.any (fun v => decide (Spec.Covered v a)) = roas.any (fun r => r.pfx.covers a.pfx) := by
    rw [Bool.eq_iff_iff]
    simp only [List.any_eq_true, decide_eq_true_eq]
    constructor
    · rintro ⟨r, hr, h⟩; exact ⟨r, hr, (covered_iff r a (hwf r hr)).mp h⟩
    · rintro ⟨r, hr, h⟩; exact ⟨r, hr, (covered_iff r a (hwf r hr)).mpr h⟩
  rw [hM, hC]
  by_cases hv : (validate roas a).validity.isValid = true
  · have := (isValid_iff roas a).mp hv
    have hany : roas.any (fun r => r.matches a) = true := List.any_eq_true.mpr this
    rw [hany]
    cases hx : (validate roas a).validity with
    | valid r => rfl
    | _ => rw [hx] at hv; cases hv
  · have hno : ¬ ∃ r ∈ roas, r.matches a = true := fun h => hv ((isValid_iff roas a).mpr h)
    have hany : roas.any (fun r => r.matches a) = false := by
      rw [List.any_eq_false]; intro r hr hm; exact hno ⟨r, hr, hm⟩
    rw [hany]
    simp only [Bool.false_eq_true, if_false]
    by_cases hnf : (validate roas a).validity = .notFound
    · have := (notfound_iff roas a).mp hnf
      have hc : roas.any (fun r => r.pfx.covers a.pfx) = false := by
        rw [List.any_eq_false]; intro r hr; simp [this r hr]
      rw [hc, hnf]; rfl
    · have hc : roas.any (fun r => r.pfx.covers a.pfx) = true := by
        apply Classical.byContradiction
        intro h
        have h' : roas.any (fun r => r.pfx.covers a.pfx) = false := by simpa using h
        rw [List.any_eq_false] at h'
        exact hnf ((notfound_iff roas a).mpr (fun r hr => by simpa using h' r hr))
      rw [hc]
      cases hx : (validate roas a).validity with
      | valid r => rw [hx] at hv; exact absurd rfl hv
      | notFound => exact absurd hx hnf
      | _ => rfl

/-- **Each announcement is in exactly one category, and it is the right one**: the state of
its report entry is one of the five announcement states, *valid* exactly when RFC 6811 says
valid, *not found* exactly when RFC 6811 says not found, and one of the three invalid kinds
exactly when RFC 6811 says invalid – for every list of well-formed VRPs (host prefixes /32
and /128, max lengths at the family limit and AS0 included: nothing is assumed about them)
and every announcement. -/
theorem announcement_category_exact (roas : List Roa) (a : Ann) (hwf : AllWF roas) :
    let st := (validate roas a).toEntry.state
    (st = .annValid ↔ Spec.rfc6811 roas a = .valid) ∧
    (st = .annNotFound ↔ Spec.rfc6811 roas a = .notFound) ∧
    ((st = .annInvalidLength ∨ st = .annInvalidAsn ∨ st = .annDisallowed) ↔
      Spec.rfc6811 roas a = .invalid) ∧
    (st = .annValid ∨ st = .annNotFound ∨ st = .annInvalidLength ∨ st = .annInvalidAsn ∨
      st = .annDisallowed) := by
  have h := validate_eq_rfc6811 roas a hwf
  simp only
  unfold Validated.toEntry
  cases hv : (validate roas a).validity <;> rw [hv] at h <;> simp [← h, Validity.toState]

/-- **The report has exactly one entry per announcement in scope and per ROA within the
limit**: its announcement entries are the scoped announcements, its ROA entries the ROAs not
held followed by the held ones (with multiplicity, in order before the final sort). -/
theorem report_entries_exact (i : AnalyseInput) (s : List Ann) (entries : List Entry)
    (hseen : i.seen = some s) (h : analyse i = some entries) :
    entries.filterMap (·.ann?) = i.scoped ∧
    entries.filterMap (·.roaConf?) = i.roasNotHeld ++ i.roasHeld := by
  obtain ⟨roaEntries, hre, rfl⟩ := analyse_shape i s entries hseen h
  have hmap := allSome_eq_some hre
  have hs2 : roaEntries.map (·.subject) = i.roasHeld.map Sum.inl :=
    subjects_of_map_some _ Sum.inl (fun r e he => (categorise_facts r _ _ e he).1) _ _ hmap
  have hs1 : (i.roasNotHeld.map (fun r => ({ subject := .inl r, state := .roaNotHeld } : Entry))).map
      (·.subject) = i.roasNotHeld.map Sum.inl := by
    rw [List.map_map]; rfl
  have hs3 : (i.validated.map (·.toEntry)).map (·.subject) = i.scoped.map Sum.inr := by
    have : i.validated = i.scoped.map (validate (i.roasHeld.map (·.payload))) := rfl
    rw [this, List.map_map, List.map_map]
    apply List.map_congr_left
    intro a _
    simp only [Function.comp, toEntry_subject, validate_ann]
  obtain ⟨a1, a2⟩ := filterMap_of_subject_inl _ _ hs1
  obtain ⟨b1, b2⟩ := filterMap_of_subject_inl _ _ hs2
  obtain ⟨c1, c2⟩ := filterMap_of_subject_inr _ _ hs3
  simp only [List.filterMap_append]
  rw [a1, a2, b1, b2, c1, c2]
  simp

/-- **Guard for F-C17-1 made explicit**: an AS0 ROA never appears with an `authorizes`
list, its entry is one of the two AS0 kinds, and no other ROA gets those kinds; the sets of
a non-AS0 ROA are exact (`authorizes_exact`, `disallows_exact`), the `disallows` of an AS0
ROA is *all covered* (`as0_disallows_partial`) – that is the recorded exception. -/
theorem as0_entry_guard (rc : RoaConf) (validated : List Validated) (all : List RoaConf) (e : Entry)
    (h : categoriseRoa rc validated all = some e) :
    (rc.payload.asn = 0 ↔ (e.state = .roaAs0 ∨ e.state = .roaAs0Redundant)) ∧
    (rc.payload.asn = 0 → e.authorizes = []) := by
  unfold categoriseRoa at h
  simp only at h
  split at h
  · cases h
  · simp only [Option.some.injEq] at h
    by_cases h0 : (rc.payload.asn == 0) = true
    · have hz : rc.payload.asn = 0 := by simpa using h0
      rw [h0] at h
      simp only [if_true] at h
      split at h <;> subst h <;> simp [hz]
    · have h0' : (rc.payload.asn == 0) = false := by simpa using h0
      have hz : rc.payload.asn ≠ 0 := by simpa using h0
      rw [h0'] at h
      simp only [Bool.false_eq_true, if_false] at h
      split at h
      · subst h; simp [hz]
      · split at h
        · subst h; simp [hz]
        · split at h
          · subst h; simp [hz]
          · split at h <;> subst h <;> simp [hz]

/-- `covers` – the bit-mask test of riswhois.rs that decides which ROAs and announcements
meet – is inclusion of address ranges, for well-formed prefixes of one family.  It is also
what `TypedPrefix::matching_or_less_specific` (api/roa.rs) computes. -/
theorem covers_is_range_inclusion (p q : Prefix) (hp : p.WF) (hq : q.WF) (hf : p.fam = q.fam) :
    (p.covers q = true ↔ (p.lo ≤ q.lo ∧ q.hi ≤ p.hi)) ∧
    p.matchingOrLessSpecific q = p.covers q := by
  have h := covers_iff_range p q hp hq hf
  refine ⟨h, ?_⟩
  unfold Prefix.matchingOrLessSpecific
  rw [Bool.eq_iff_iff, h]
  simp [hf]

/-- `covers` is a partial order on well-formed prefixes. -/
theorem covers_partial_order :
    (∀ p : Prefix, p.WF → p.covers p = true) ∧
    (∀ p q r : Prefix, p.WF → q.WF → p.covers q = true → q.covers r = true → p.covers r = true) ∧
    (∀ p q : Prefix, p.WF → q.WF → p.covers q = true → q.covers p = true → p = q) :=
  ⟨covers_refl, covers_trans, covers_antisymm⟩

/-! ## The per-ROA sets of the report -/

/-- The announcements the report lists as authorised by a (non-AS0) ROA are exactly the
observed announcements that this ROA matches.  (`anns`: the announcements in scope;
`roas`: the held ROAs they were validated against.) -/
theorem authorizes_exact (rc : RoaConf) (all : List RoaConf) (roas : List Roa) (anns : List Ann)
    (e : Entry) (hmem : rc.payload ∈ roas) (hasn : rc.payload.asn ≠ 0)
    (h : categoriseRoa rc (anns.map (validate roas)) all = some e) :
    ∀ a, a ∈ e.authorizes ↔ (a ∈ anns ∧ rc.payload.matches a = true) := by
  intro a
  have hau := mem_authorizesOf rc.payload roas anns a hmem
  unfold categoriseRoa at h
  simp only at h
  split at h
  · cases h
  · rename_i excess _
    simp only [Option.some.injEq] at h
    have h0 : (rc.payload.asn == 0) = false := by simpa using hasn
    rw [h0] at h
    simp only [Bool.false_eq_true, if_false] at h
    split at h
    · subst h; exact hau
    · split at h
      · rename_i hempty
        subst h
        simp only [Bool.and_eq_true, List.isEmpty_iff] at hempty
        simp only [List.not_mem_nil, false_iff]
        intro hc
        have := hau.mpr hc
        rw [hempty.1] at this; cases this
      · split at h
        · subst h; exact hau
        · split at h
          · rename_i hempty
            subst h
            simp only [List.isEmpty_iff] at hempty
            simp only [List.not_mem_nil, false_iff]
            intro hc
            have := hau.mpr hc
            rw [hempty] at this; cases this
          · subst h; exact hau

/-- The announcements the report lists as disallowed by a (non-AS0) ROA are exactly the
observed announcements that it covers and that validation finds invalid. -/
theorem disallows_exact (rc : RoaConf) (all : List RoaConf) (roas : List Roa) (anns : List Ann)
    (e : Entry) (hmem : rc.payload ∈ roas) (hasn : rc.payload.asn ≠ 0) (hwf : AllWF roas)
    (h : categoriseRoa rc (anns.map (validate roas)) all = some e) :
    ∀ a, a ∈ e.disallows ↔
      (a ∈ anns ∧ rc.payload.pfx.covers a.pfx = true ∧ Spec.rfc6811 roas a = .invalid) := by
  intro a
  -- the model's set in terms of the RFC state
  have hdis : a ∈ disallowsOf rc.payload (anns.map (validate roas)) ↔
      (a ∈ anns ∧ rc.payload.pfx.covers a.pfx = true ∧ Spec.rfc6811 roas a = .invalid) := by
    rw [mem_disallowsOf, ← validate_eq_rfc6811 roas a hwf]
    constructor
    · rintro ⟨h1, h2, h3⟩
      refine ⟨h1, h2, ?_⟩
      rcases h3 with h3 | h3 <;> rw [h3] <;> rfl
    · rintro ⟨h1, h2, h3⟩
      refine ⟨h1, h2, ?_⟩
      -- a non-AS0 covering ROA rules out "not found" and "disallowed"
      cases hv : (validate roas a).validity with
      | valid r => rw [hv] at h3; cases h3
      | invalidLength => exact Or.inl rfl
      | invalidAsn => exact Or.inr rfl
      | notFound =>
        have := (notfound_iff roas a).mp hv rc.payload hmem
        rw [this] at h2; cases h2
      | disallowed =>
        have := ((invalid_iff roas a).2.2.mp hv).2 rc.payload hmem h2
        exact absurd this.1 hasn
  unfold categoriseRoa at h
  simp only at h
  split at h
  · cases h
  · simp only [Option.some.injEq] at h
    have h0 : (rc.payload.asn == 0) = false := by simpa using hasn
    rw [h0] at h
    simp only [Bool.false_eq_true, if_false] at h
    split at h
    · subst h; exact hdis
    · split at h
      · rename_i hempty
        subst h
        simp only [Bool.and_eq_true, List.isEmpty_iff] at hempty
        simp only [List.not_mem_nil, false_iff]
        intro hc
        have := hdis.mpr hc
        rw [hempty.2] at this; cases this
      · split at h
        · subst h; exact hdis
        · split at h
          · subst h; exact hdis
          · subst h; exact hdis

/-- An AS0 ROA that no other ROA covers lists *every* observed announcement under its
prefix as disallowed … -/
theorem as0_disallows_partial (rc : RoaConf) (all : List RoaConf) (roas : List Roa) (anns : List Ann)
    (e : Entry) (hasn : rc.payload.asn = 0)
    (h : categoriseRoa rc (anns.map (validate roas)) all = some e) (hs : e.state = .roaAs0) :
    ∀ a, a ∈ e.disallows ↔ (a ∈ anns ∧ rc.payload.pfx.covers a.pfx = true) := by
  intro a
  unfold categoriseRoa at h
  simp only at h
  split at h
  · cases h
  · simp only [Option.some.injEq] at h
    have h0 : (rc.payload.asn == 0) = true := by simpa using hasn
    rw [h0] at h
    simp only [if_true] at h
    split at h
    · subst h
      simp only [List.mem_map, mem_coveredBy]
      constructor
      · rintro ⟨v, ⟨⟨a', ha', rfl⟩, hc⟩, rfl⟩
        rw [validate_ann] at *
        exact ⟨ha', hc⟩
      · rintro ⟨ha, hc⟩
        exact ⟨validate roas a, ⟨⟨a, ha, rfl⟩, by rw [validate_ann]; exact hc⟩, validate_ann roas a⟩
    · subst h; cases hs

/-- … including announcements that validation finds *valid* through a more specific ROA.
The full statement "`a ∈ e.disallows ↔ a ∈ anns ∧ covers ∧ rfc6811 = invalid`" therefore
fails for AS0 ROAs (`as0_disallows_partial` is what holds).  Witness: AS0 ROA `10.0.0.0/8`,
ROA `10.1.0.0/16 => AS64496`, announcement `10.1.0.0/16` from AS64496. -/
theorem as0_disallows_not_exact :
    ∃ (rc : RoaConf) (all : List RoaConf) (roas : List Roa) (anns : List Ann) (e : Entry) (a : Ann),
      rc.payload ∈ roas ∧ AllWF roas ∧
      categoriseRoa rc (anns.map (validate roas)) all = some e ∧
      a ∈ e.disallows ∧ Spec.rfc6811 roas a = .valid := by
  let p8 : Prefix := ⟨.v4, 167772160, 8⟩
  let p16 : Prefix := ⟨.v4, 167837696, 16⟩
  let as0 : Roa := ⟨0, p8, some 8⟩
  let r16 : Roa := ⟨64496, p16, some 16⟩
  let a : Ann := ⟨64496, p16⟩
  refine ⟨⟨as0, none⟩, [⟨as0, none⟩, ⟨r16, none⟩], [as0, r16], [a],
    { subject := .inl ⟨as0, none⟩, state := .roaAs0, disallows := [a] }, a, ?_, ?_, ?_, ?_, ?_⟩
  · simp
  · intro r hr
    simp only [List.mem_cons, List.not_mem_nil, or_false] at hr
    rcases hr with rfl | rfl <;> decide
  · decide
  · simp
  · decide

/-! ## Suggestions -/

/-- The ROAs an analysis was made for: those held, with their payloads. -/
def heldPayloads (i : AnalyseInput) : List Roa := i.roasHeld.map (·.payload)

/-- Some ROA of the list matches the announcement (the right-hand side of `valid_iff`). -/
def ValidBy (roas : List Roa) (a : Ann) : Prop := ∃ r ∈ roas, r.matches a = true

theorem validBy_iff_rfc6811 (roas : List Roa) (a : Ann) (hwf : AllWF roas) :
    ValidBy roas a ↔ Spec.rfc6811 roas a = .valid := by
  rw [← validate_eq_rfc6811 roas a hwf]
  unfold ValidBy
  rw [← isValid_iff]
  cases (validate roas a).validity <;> simp [Validity.isValid, Validity.toState]

/-- **Every single suggestion is safe.**  With announcement data loaded, for every observed
announcement – any set of announcements, any scope – that is valid under the held ROAs:
removing a ROA listed as stale, as redundant or as redundant AS0 ROA leaves it valid, and so
does replacing a ROA listed as too permissive by the ROAs proposed for it.
(Guards, all explicit: prefixes well formed; the held payloads pairwise distinct – they are
the keys of a map in a CA; for the AS0 case the announcement's origin is not AS0, because
krill lets an AS0 ROA "validate" an AS0 origin.) -/
theorem suggest_safe (i : AnalyseInput) (s : List Ann) (entries : List Entry)
    (hseen : i.seen = some s) (h : analyse i = some entries)
    (hwf : AllWF (heldPayloads i)) (hwfa : ∀ a ∈ i.scoped, a.pfx.WF)
    (hnd : (heldPayloads i).Nodup) :
    ∀ a ∈ i.scoped, ValidBy (heldPayloads i) a →
      (∀ rc ∈ (suggestOf entries).stale,
        ValidBy ((heldPayloads i).filter (fun r => r != rc.payload)) a) ∧
      (∀ rc ∈ (suggestOf entries).redundant,
        ValidBy ((heldPayloads i).filter (fun r => r != rc.payload)) a) ∧
      (a.asn ≠ 0 → ∀ rc ∈ (suggestOf entries).as0Redundant,
        ValidBy ((heldPayloads i).filter (fun r => r != rc.payload)) a) ∧
      (∀ rep ∈ (suggestOf entries).tooPermissive,
        ValidBy ((heldPayloads i).filter (fun r => r != rep.current.payload) ++ rep.new_) a) := by
  intro a ha ⟨r, hr, hm⟩
  have hval : i.validated = i.scoped.map (validate (heldPayloads i)) := rfl
  -- keeping `r` suffices whenever `r` is not the removed payload
  have keep : ∀ p : Roa, r ≠ p → ValidBy ((heldPayloads i).filter (fun x => x != p)) a := by
    intro p hp
    exact ⟨r, List.mem_filter.mpr ⟨hr, by simpa using hp⟩, hm⟩
  -- facts about the entry of a ROA in one of the four lists
  have origin : ∀ (e : Entry) (rc : RoaConf), e ∈ entries → e.subject = .inl rc →
      e.state ≠ .roaNotHeld →
      rc ∈ i.roasHeld ∧ categoriseRoa rc i.validated i.roasHeld = some e := by
    intro e rc he hsub hst
    obtain ⟨rc', hrc', hcat⟩ := roa_entry_origin i s entries hseen h e he (Or.inl hst) ⟨rc, hsub⟩
    have := (categorise_facts rc' _ _ e hcat).1
    rw [hsub] at this
    cases this
    exact ⟨hrc', hcat⟩
  refine ⟨?_, ?_, ?_, ?_⟩
  · -- stale: the ROA authorises nothing that was observed
    intro rc hrc
    obtain ⟨e, he, hsub, hst⟩ := (mem_suggest_stale entries rc).mp hrc
    obtain ⟨hheld, hcat⟩ := origin e rc he hsub (by rw [hst]; simp)
    apply keep
    intro heq
    have hf := (categorise_facts rc _ _ e hcat).2.1 hst
    have hpm : rc.payload ∈ heldPayloads i := List.mem_map.mpr ⟨rc, hheld, rfl⟩
    have := (mem_authorizesOf rc.payload (heldPayloads i) i.scoped a hpm).mpr ⟨ha, heq ▸ hm⟩
    rw [← hval, hf.2] at this
    cases this
  · -- redundant: the including ROA stays and matches as well
    intro rc hrc
    obtain ⟨e, he, hsub, hst⟩ := (mem_suggest_redundant entries rc).mp hrc
    obtain ⟨hheld, hcat⟩ := origin e rc he hsub (by rw [hst]; simp)
    by_cases heq : r = rc.payload
    · have hf := (categorise_facts rc _ _ e hcat).2.2.1 hst
      obtain ⟨o, ho⟩ := List.exists_mem_of_ne_nil _ hf.2
      unfold othersIncluding othersCovering at ho
      simp only [List.mem_filter, List.mem_map, Bool.and_eq_true, beq_iff_eq, decide_eq_true_eq,
        bne_iff_ne, ne_eq] at ho
      obtain ⟨⟨oc, ⟨hoc, hcov, hne⟩, rfl⟩, ⟨hoasn, _⟩, hmax⟩ := ho
      have hom : oc.payload ∈ heldPayloads i := List.mem_map.mpr ⟨oc, hoc, rfl⟩
      have hpm : rc.payload ∈ heldPayloads i := List.mem_map.mpr ⟨rc, hheld, rfl⟩
      obtain ⟨m1, m2, m3⟩ := (matches_iff rc.payload a).mp (heq ▸ hm)
      refine ⟨oc.payload, List.mem_filter.mpr ⟨hom, by simpa using fun hc => hne hc.symm⟩, ?_⟩
      rw [matches_iff]
      refine ⟨hoasn.trans m1, covers_trans _ _ _ (hwf _ hom) (hwf _ hpm) hcov m2, Nat.le_trans m3 hmax⟩
    · exact keep _ heq
  · -- redundant AS0 ROA: it validates nothing with a non-zero origin
    intro hasn rc hrc
    obtain ⟨e, he, hsub, hst⟩ := (mem_suggest_as0Redundant entries rc).mp hrc
    obtain ⟨_, hcat⟩ := origin e rc he hsub (by rw [hst]; simp)
    apply keep
    intro heq
    have h0 := (categorise_facts rc _ _ e hcat).2.2.2.1 hst
    have := ((matches_iff r a).mp hm).1
    rw [heq, h0] at this
    exact hasn this.symm
  · -- too permissive: either another ROA authorises the announcement or it is in the proposal
    intro rep hrep
    obtain ⟨e, he, hsub, hst, hnew⟩ := (mem_suggest_tooPermissive entries rep).mp hrep
    obtain ⟨hheld, hcat⟩ := origin e rep.current he hsub (by rw [hst]; simp)
    by_cases heq : r = rep.current.payload
    · have hpm : rep.current.payload ∈ heldPayloads i := List.mem_map.mpr ⟨rep.current, hheld, rfl⟩
      have hf := categorise_facts rep.current _ _ e hcat
      have hnz := hf.2.2.2.2.1 hst
      -- the announcement is in this entry's `authorizes`
      have hauth : a ∈ e.authorizes := by
        rw [hval] at hcat
        exact (authorizes_exact rep.current i.roasHeld (heldPayloads i) i.scoped e hpm hnz hcat a).mpr
          ⟨ha, heq ▸ hm⟩
      by_cases hoth : entries.any (fun o => o != e && o.authorizes.contains a) = true
      · -- another entry authorises it: that ROA stays
        obtain ⟨o, ho, hcond⟩ := List.any_eq_true.mp hoth
        simp only [Bool.and_eq_true, bne_iff_ne, ne_eq, List.contains_iff_mem] at hcond
        obtain ⟨hoe, hoa⟩ := hcond
        have hoauth : o.authorizes ≠ [] := List.ne_nil_of_mem hoa
        -- `o` is the entry of a held ROA
        have hosub : ∃ rc, o.subject = .inl rc := by
          obtain ⟨roaEntries, _, rfl⟩ := analyse_shape i s entries hseen h
          simp only [List.mem_append, List.mem_map] at ho
          rcases ho with (⟨x, _, rfl⟩ | ho') | ⟨v, _, rfl⟩
          · exact ⟨x, rfl⟩
          · obtain ⟨rc', _, hcat'⟩ := roa_entry_origin i s _ hseen h o
              (by simp only [List.mem_append, List.mem_map]; exact Or.inl (Or.inr ho')) (Or.inr hoauth)
              (by
                -- subject of a categorised entry
                have := allSome_eq_some (by assumption : allSome _ = some roaEntries)
                have hm' : some o ∈ roaEntries.map some := List.mem_map.mpr ⟨o, ho', rfl⟩
                rw [← this] at hm'
                obtain ⟨rc'', _, heq''⟩ := List.mem_map.mp hm'
                exact ⟨rc'', (categorise_facts rc'' _ _ o heq'').1⟩)
            exact ⟨rc', (categorise_facts rc' _ _ o hcat').1⟩
          · rw [toEntry_authorizes] at hoauth; exact absurd rfl hoauth
        obtain ⟨rc', hrc', hcat'⟩ := roa_entry_origin i s entries hseen h o ho (Or.inr hoauth) hosub
        have hf' := categorise_facts rc' _ _ o hcat'
        have hnz' : rc'.payload.asn ≠ 0 := by
          rcases hf'.2.2.2.2.2 with h1 | h1
          · exact absurd h1 hoauth
          · exact h1.1
        have hpm' : rc'.payload ∈ heldPayloads i := List.mem_map.mpr ⟨rc', hrc', rfl⟩
        have hmatch' : rc'.payload.matches a = true := by
          rw [hval] at hcat'
          exact ((authorizes_exact rc' i.roasHeld (heldPayloads i) i.scoped o hpm' hnz' hcat' a).mp hoa).2
        -- different entries of held ROAs have different payloads
        have hdiff : rc'.payload ≠ rep.current.payload := by
          intro hc
          have : rc' = rep.current :=
            eq_of_nodup_map (fun x : RoaConf => x.payload) i.roasHeld hnd rc' rep.current hrc' hheld hc
          subst this
          rw [hcat] at hcat'
          exact hoe (Option.some.inj hcat').symm
        refine ⟨rc'.payload, ?_, hmatch'⟩
        exact List.mem_append_left _ (List.mem_filter.mpr ⟨hpm', by simpa using hdiff⟩)
      · -- nobody else does: the exact announcement is proposed
        refine ⟨a.toRoa, ?_, ?_⟩
        · apply List.mem_append_right
          rw [hnew]
          unfold replaceWith
          exact List.mem_map.mpr ⟨a, List.mem_filter.mpr ⟨hauth, by simpa using hoth⟩, rfl⟩
        · rw [matches_iff]
          exact ⟨rfl, covers_refl _ (hwfa a ha), Nat.le_refl _⟩
    · obtain ⟨r', hr', hm'⟩ := keep _ heq
      exact ⟨r', List.mem_append_left _ hr', hm'⟩

/-- The suggestion taken *as a whole* (`From<BgpAnalysisSuggestion> for
RoaConfigurationUpdates`, api/roa.rs:554-591) is **not** safe: the full statement "applying
all proposed removals and additions leaves every valid announcement valid" fails.  A too
permissive ROA and a ROA it makes redundant both authorise the same announcement; the
replacement list of the first omits the announcement *because* the second authorises it, and
the second is proposed for removal.  Witness: `10.0.0.0/22-24 => AS64496`,
`10.0.0.0/24-24 => AS64496`, announcement `10.0.0.0/24` from AS64496. -/
theorem suggest_combined_not_safe :
    ∃ (i : AnalyseInput) (s : List Ann) (entries : List Entry) (a : Ann),
      i.seen = some s ∧ analyse i = some entries ∧ AllWF (heldPayloads i) ∧
      (heldPayloads i).Nodup ∧ a ∈ i.scoped ∧ a.asn ≠ 0 ∧ ValidBy (heldPayloads i) a ∧
      ¬ ValidBy (((heldPayloads i).filter (fun r => !((suggestOf entries).toUpdates.2.contains r))) ++
          (suggestOf entries).toUpdates.1.map (·.payload)) a := by
  let p22 : Prefix := ⟨.v4, 167772160, 22⟩
  let p24 : Prefix := ⟨.v4, 167772160, 24⟩
  let r1 : Roa := ⟨64496, p22, some 24⟩
  let r2 : Roa := ⟨64496, p24, some 24⟩
  let a : Ann := ⟨64496, p24⟩
  let i : AnalyseInput :=
    { roas := [⟨r1, none⟩, ⟨r2, none⟩], held := fun _ => true, limit := none,
      scope := [⟨.v4, 167772160, 8⟩], seen := some [a] }
  have hentries : analyse i = some
      [ { subject := .inl ⟨r1, none⟩, state := .roaTooPermissive, authorizes := [a] },
        { subject := .inl ⟨r2, none⟩, state := .roaRedundant, authorizes := [a], madeRedundantBy := [r1] },
        { subject := .inr a, state := .annValid, allowedBy := some r1 } ] := by decide
  refine ⟨i, [a], _, a, rfl, hentries, ?_, ?_, ?_, ?_, ?_, ?_⟩
  · intro r hr
    have : r = r1 ∨ r = r2 := by simpa [heldPayloads, AnalyseInput.roasHeld, AnalyseInput.inLimit, i] using hr
    rcases this with rfl | rfl <;> decide
  · decide
  · decide
  · decide
  · exact ⟨r1, by decide, by decide⟩
  · rintro ⟨r, hr, hm⟩
    have : (((heldPayloads i).filter (fun r => !((suggestOf [
        ({ subject := .inl ⟨r1, none⟩, state := .roaTooPermissive, authorizes := [a] } : Entry),
        { subject := .inl ⟨r2, none⟩, state := .roaRedundant, authorizes := [a], madeRedundantBy := [r1] },
        { subject := .inr a, state := .annValid, allowedBy := some r1 } ]).toUpdates.2.contains r))) ++
          (suggestOf [
        ({ subject := .inl ⟨r1, none⟩, state := .roaTooPermissive, authorizes := [a] } : Entry),
        { subject := .inl ⟨r2, none⟩, state := .roaRedundant, authorizes := [a], madeRedundantBy := [r1] },
        { subject := .inr a, state := .annValid, allowedBy := some r1 } ]).toUpdates.1.map (·.payload)) = [] := by
      decide
    rw [this] at hr
    cases hr

/-! ## Non-vacuity -/

/-- Boundary instances covered by the universally quantified theorems: host prefixes /32 and
/128, a max length at the family limit, `/0`, AS0 – krill's verdict and RFC 6811 agree. -/
example :
    let host4 : Prefix := ⟨.v4, 167772161, 32⟩
    let host6 : Prefix := ⟨.v6, 1, 128⟩
    let roas : List Roa := [⟨64496, ⟨.v4, 167772160, 31⟩, some 32⟩, ⟨0, ⟨.v6, 0, 0⟩, none⟩,
      ⟨64497, host6, some 128⟩, ⟨64498, ⟨.v4, 0, 0⟩, some 0⟩]
    AllWF roas ∧
    (validate roas ⟨64496, host4⟩).validity.toState = .valid ∧ Spec.rfc6811 roas ⟨64496, host4⟩ = .valid ∧
    (validate roas ⟨64497, host6⟩).validity.toState = .valid ∧ Spec.rfc6811 roas ⟨64497, host6⟩ = .valid ∧
    (validate roas ⟨64496, host6⟩).validity = .invalidAsn ∧ Spec.rfc6811 roas ⟨64496, host6⟩ = .invalid ∧
    (validate roas ⟨64498, ⟨.v4, 0, 0⟩⟩).validity.toState = .valid ∧
    (validate roas ⟨64498, ⟨.v4, 0, 1⟩⟩).validity = .invalidLength ∧
    (validate roas ⟨64499, ⟨.v6, 2 ^ 127, 1⟩⟩).validity = .disallowed := by
  refine ⟨?_, by decide, by decide, by decide, by decide, by decide, by decide, by decide, by decide, by decide⟩
  intro r hr
  simp only [List.mem_cons, List.not_mem_nil, or_false] at hr
  rcases hr with rfl | rfl | rfl | rfl <;> decide


/-- A well-formed ROA list on which every verdict occurs. -/
example : AllWF [⟨0, ⟨.v4, 167772160, 8⟩, some 8⟩, ⟨64496, ⟨.v4, 167837696, 16⟩, some 24⟩] := by
  intro r hr
  simp only [List.mem_cons, List.not_mem_nil, or_false] at hr
  rcases hr with rfl | rfl <;> decide

example :
    let roas : List Roa := [⟨0, ⟨.v4, 167772160, 8⟩, some 8⟩, ⟨64496, ⟨.v4, 167837696, 16⟩, some 24⟩]
    (validate roas ⟨64496, ⟨.v4, 167837696, 24⟩⟩).validity = .valid ⟨64496, ⟨.v4, 167837696, 16⟩, some 24⟩ ∧
    (validate roas ⟨64496, ⟨.v4, 167837696, 25⟩⟩).validity = .invalidLength ∧
    (validate roas ⟨64497, ⟨.v4, 167837696, 24⟩⟩).validity = .invalidAsn ∧
    (validate roas ⟨64497, ⟨.v4, 167903232, 16⟩⟩).validity = .disallowed ∧
    (validate roas ⟨64497, ⟨.v4, 184549376, 8⟩⟩).validity = .notFound := by decide

/-- `authorizes_exact` / `disallows_exact` apply to a report entry that has both sets. -/
example :
    let r : Roa := ⟨64496, ⟨.v4, 167837696, 16⟩, some 24⟩
    let anns : List Ann := [⟨64496, ⟨.v4, 167837696, 24⟩⟩, ⟨64497, ⟨.v4, 167837696, 24⟩⟩]
    ∃ e, categoriseRoa ⟨r, none⟩ (anns.map (validate [r])) [⟨r, none⟩] = some e ∧
      e.state = .roaTooPermissive ∧ e.authorizes ≠ [] ∧ e.disallows ≠ [] := by
  refine ⟨_, rfl, ?_, ?_, ?_⟩ <;> decide

/-- The hypotheses of `suggest_safe` hold for an analysis with a stale, a redundant and a
too permissive ROA and valid announcements. -/
example :
    let r1 : Roa := ⟨64496, ⟨.v4, 167772160, 22⟩, some 24⟩
    let r2 : Roa := ⟨64496, ⟨.v4, 167772160, 24⟩, some 24⟩
    let r3 : Roa := ⟨64497, ⟨.v4, 167837696, 16⟩, some 16⟩
    let a : Ann := ⟨64496, ⟨.v4, 167772160, 24⟩⟩
    let i : AnalyseInput :=
      { roas := [⟨r1, none⟩, ⟨r2, none⟩, ⟨r3, none⟩], held := fun _ => true, limit := none,
        scope := [⟨.v4, 167772160, 8⟩], seen := some [a] }
    ∃ entries, analyse i = some entries ∧ (heldPayloads i).Nodup ∧
      (suggestOf entries).stale ≠ [] ∧ (suggestOf entries).redundant ≠ [] ∧
      (suggestOf entries).tooPermissive ≠ [] ∧ a ∈ i.scoped ∧ ValidBy (heldPayloads i) a := by
  refine ⟨_, rfl, ?_, ?_, ?_, ?_, ?_, ⟨⟨64496, ⟨.v4, 167772160, 22⟩, some 24⟩, ?_, ?_⟩⟩ <;> decide

end KM.Props.C17
