/-
C18 — Concurrent requests and background tasks never deadlock or lose work.

`ranked_no_deadlock`: any number of threads, any programs: if every thread only ever
requests locks ranked above all it holds (and holds nothing when done), no reachable state
is a deadlock.  The dynamic half of the check (stream `conc`) records every
`held → wanted` pair the real code produces and checks it against `KM.Locks.rankOf`.
"Each request answered as in some one-at-a-time execution / nothing lost" is C07's
`serialisable` per entity (the entity scope lock brackets each command); the `conc` stream
compares replies and final state with a one-at-a-time twin.
-/
import KrillModel.Locks.Model
import KrillModel.Generated.LockSites
namespace KM.Props.C18
open KM.Locks

/-- If a thread following the discipline is about to acquire `l`, everything it holds is
ranked below `l`. -/
theorem ok_next_acq {t : Thread} {l : Nat} {rest : List Act} (h : t.ok)
    (hp : t.prog = .acq l :: rest) : ∀ x ∈ t.held, x < l := by
  unfold Thread.ok at h
  rw [hp] at h
  exact h.1

/-- A finished thread that followed the discipline holds nothing. -/
theorem ok_finished_holds_nothing {t : Thread} (h : t.ok) (hf : t.finished) : t.held = [] := by
  unfold Thread.ok Thread.finished at *
  rw [hf] at h
  exact h

/-- The discipline is preserved by every step of a thread. -/
theorem ok_step {t t' : Thread} (h : t.ok) (hs : stepThread t = some t') : t'.ok := by
  unfold stepThread at hs
  unfold Thread.ok at *
  split at hs
  · cases hs
  · rename_i l rest hp; cases hs; rw [hp] at h; exact h.2
  · rename_i l rest hp; cases hs; rw [hp] at h; exact h.2
  · rename_i rest hp; cases hs; rw [hp] at h; exact h

/-- **No deadlock under the ranking discipline.**  For every state – any number of threads,
any programs – in which all threads follow the discipline, not every unfinished thread can
be blocked. -/
theorem ranked_no_deadlock (s : State) (hok : ∀ (i : Nat) (t : Thread), s[i]? = some t → t.ok) :
    ¬ Deadlock s := by
  rintro ⟨⟨i0, t0, hi0, hnf0⟩, hall⟩
  -- every unfinished thread waits for some lock; take the waiting thread whose awaited lock
  -- is the greatest (well-founded descent on the bound instead of picking a maximum)
  have key : ∀ (n : Nat) (i : Nat) (t : Thread) (l : Nat) (rest : List Act),
      s[i]? = some t → t.prog = .acq l :: rest → heldByOther s i l → n + l ≥ 0 →
      ∀ bound, (∀ (j : Nat) (tj : Thread) (lj : Nat) (rj : List Act), s[j]? = some tj →
        tj.prog = Act.acq lj :: rj → lj < bound) →
      bound ≤ l + n → False := by
    intro n
    induction n with
    | zero =>
      intro i t l rest hi hp hb _ bound hbd hle
      have := hbd i t l rest hi hp
      omega
    | succ n ih =>
      intro i t l rest hi hp hb _ bound hbd hle
      -- the holder of `l`
      obtain ⟨j, hji, tj, hj, hl⟩ := hb
      have hnfj : ¬ tj.finished := by
        intro hf
        have := ok_finished_holds_nothing (hok j tj hj) hf
        rw [this] at hl; cases hl
      obtain ⟨tj', lj, rj, hj', hpj, hbj⟩ := hall j tj hj hnfj
      have : tj' = tj := by rw [hj] at hj'; cases hj'; rfl
      subst this
      have hlt : l < lj := ok_next_acq (hok j tj' hj) hpj l hl
      -- descend: the new awaited lock is strictly greater
      exact ih j tj' lj rj hj hpj hbj (Nat.zero_le _) bound hbd (by omega)
  obtain ⟨t, l, rest, hi, hp, hb⟩ := hall i0 t0 hi0 hnf0
  -- a bound above every awaited lock: the sum of all awaited locks + 1 works; use the list
  let awaited : List Nat := s.filterMap fun t => match t.prog with | .acq l :: _ => some l | _ => none
  let bound := awaited.foldl (· + ·) 0 + 1
  have hbound : ∀ (j : Nat) (tj : Thread) (lj : Nat) (rj : List Act), s[j]? = some tj →
      tj.prog = Act.acq lj :: rj → lj < bound := by
    intro j tj lj rj hj hpj
    have hmem : lj ∈ awaited := by
      simp only [awaited, List.mem_filterMap]
      refine ⟨tj, ?_, by simp [hpj]⟩
      exact List.mem_of_getElem? hj
    have : ∀ (xs : List Nat) (x : Nat) (acc : Nat), x ∈ xs → x ≤ xs.foldl (· + ·) acc := by
      intro xs
      induction xs with
      | nil => intro x acc hx; cases hx
      | cons y ys ihy =>
        intro x acc hx
        simp only [List.foldl_cons]
        rcases List.mem_cons.mp hx with rfl | hx
        · have : ∀ (zs : List Nat) (a : Nat), a ≤ zs.foldl (· + ·) a := by
            intro zs
            induction zs with
            | nil => intro a; exact Nat.le_refl _
            | cons z zs ihz => intro a; simp only [List.foldl_cons]; exact Nat.le_trans (Nat.le_add_right _ _) (ihz _)
          exact Nat.le_trans (Nat.le_add_left _ _) (this ys (acc + x))
        · exact ihy x _ hx
    have := this awaited lj 0 hmem
    omega
  exact key bound i0 t l rest hi hp hb (Nat.zero_le _) bound hbound (by omega)

/-! ### Reader/writer locks: the real blocking rules imply the mutex formulation -/

theorem erase_getElem? (s : RW.State) (i : Nat) :
    (s.map RW.erase)[i]? = (s[i]?).map RW.erase := by
  simp

/-- A thread blocked under reader/writer semantics (either policy) that does not already
hold the lock it asks for is blocked in the mutex formulation. -/
theorem rw_blocked_erase (s : RW.State) (i : Nat) (h : RW.blocked s i)
    (hnot : ∀ (t : RW.Thread) (m : RW.Mode) (l : Nat) (rest : List RW.Act), s[i]? = some t →
      t.prog = .acq m l :: rest → ¬ RW.holds s i l) :
    blocked (s.map RW.erase) i := by
  obtain ⟨t, m, l, rest, hi, hp, hcase⟩ := h
  have hnoti := hnot t m l rest hi hp
  refine ⟨RW.erase t, l, rest.map RW.eraseAct, ?_, ?_, ?_⟩
  · rw [erase_getElem?, hi]; rfl
  · simp [RW.erase, hp, RW.eraseAct]
  · -- some other thread holds `l`
    have hold : ∃ k, k ≠ i ∧ RW.holds s k l := by
      rcases hcase with ⟨j, hji, hj, _⟩ | ⟨_, j, _, _, k, _, hk⟩
      · exact ⟨j, hji, hj⟩
      · refine ⟨k, ?_, hk⟩
        intro hki
        subst hki
        exact hnoti hk
    obtain ⟨k, hki, tk, mk, hk, hmem⟩ := hold
    refine ⟨k, hki, RW.erase tk, ?_, ?_⟩
    · rw [erase_getElem?, hk]; rfl
    · simp only [RW.erase, List.mem_map]
      exact ⟨(l, mk), hmem, rfl⟩

/-- **No deadlock with reader/writer locks** under the same ranking discipline (stated on the
erased programs: the rank of a lock does not depend on the mode it is taken in). -/
theorem rw_ranked_no_deadlock (s : RW.State)
    (hok : ∀ (i : Nat) (t : RW.Thread), s[i]? = some t → (RW.erase t).ok) :
    ¬ RW.Deadlock s := by
  intro hd
  apply ranked_no_deadlock (s.map RW.erase)
  · intro i t hi
    rw [erase_getElem?] at hi
    cases hsi : s[i]? with
    | none => rw [hsi] at hi; cases hi
    | some ti =>
      rw [hsi] at hi
      simp at hi
      subst hi
      exact hok i ti hsi
  · obtain ⟨⟨i0, t0, hi0, hne0⟩, hall⟩ := hd
    constructor
    · refine ⟨i0, RW.erase t0, ?_, ?_⟩
      · rw [erase_getElem?, hi0]; rfl
      · simp [Thread.finished, RW.erase, hne0]
    · intro i t hi hnf
      rw [erase_getElem?] at hi
      cases hsi : s[i]? with
      | none => rw [hsi] at hi; cases hi
      | some ti =>
        rw [hsi] at hi
        simp at hi
        subst hi
        have hne : ti.prog ≠ [] := by
          intro hnil
          apply hnf
          simp [Thread.finished, RW.erase, hnil]
        apply rw_blocked_erase s i (hall i ti hsi hne)
        -- a thread following the discipline never asks for a lock it holds
        intro t' m l rest ht' hp' hholds
        rw [hsi] at ht'
        cases ht'
        obtain ⟨t2, m2, ht2, hmem⟩ := hholds
        rw [hsi] at ht2
        cases ht2
        have hokt := hok i ti hsi
        have hacq : (RW.erase ti).prog = .acq l :: rest.map RW.eraseAct := by
          simp [RW.erase, hp', RW.eraseAct]
        have := ok_next_acq hokt hacq l (by
          simp only [RW.erase, List.mem_map]
          exact ⟨(l, m2), hmem, rfl⟩)
        omega

/-- Non-vacuity: two readers of the root lock and a store-wide writer, every program in rank
order; and the rules do block – a writer behind a reader. -/
example : (RW.erase ⟨[.acq .r 10, .acq .w 15, .rel 15, .rel 10], []⟩).ok ∧
    RW.blocked [⟨[.acq .w 10, .rel 10], []⟩, ⟨[.rel 10], [(10, .r)]⟩] 0 := by
  refine ⟨by simp [RW.erase, RW.eraseAct, Thread.ok, okProg], ?_⟩
  refine ⟨_, .w, 10, [.rel 10], rfl, rfl, Or.inl ⟨1, by decide, ⟨_, .r, rfl, by simp⟩, Or.inl rfl⟩⟩

/-- The discipline holds in every state reachable from one in which it holds: a step of any
thread keeps every thread's program in order. -/
theorem discipline_preserved (s : State) (i : Nat) (t t' : Thread)
    (hok : ∀ (j : Nat) (tj : Thread), s[j]? = some tj → tj.ok) (hi : s[i]? = some t)
    (hs : stepThread t = some t') :
    ∀ (j : Nat) (tj : Thread), (s.set i t')[j]? = some tj → tj.ok := by
  intro j tj hj
  by_cases hji : j = i
  · subst hji
    have hlt : j < s.length := by
      rcases List.getElem?_eq_some_iff.mp hi with ⟨h, _⟩; exact h
    rw [List.getElem?_set_self hlt] at hj
    cases hj
    exact ok_step (hok j t hi) hs
  · rw [List.getElem?_set_ne (Ne.symm hji)] at hj
    exact hok j tj hj

/-- Non-vacuity of the ranking: without the discipline two threads taking two locks in
opposite orders do deadlock. -/
theorem inversion_deadlocks :
    Deadlock [⟨[.acq 2, .rel 2, .rel 1], [1]⟩, ⟨[.acq 1, .rel 1, .rel 2], [2]⟩] := by
  refine ⟨⟨0, _, rfl, by simp [Thread.finished]⟩, ?_⟩
  intro i t hi hnf
  match i, hi with
  | 0, hi =>
    simp at hi; subst hi
    exact ⟨_, 2, _, rfl, rfl, 1, by decide, _, rfl, by simp⟩
  | 1, hi =>
    simp at hi; subst hi
    exact ⟨_, 1, _, rfl, rfl, 0, by decide, _, rfl, by simp⟩
  | n + 2, hi => simp at hi

/-- krill's own nesting, as recorded on the unchanged tree, follows the ranking: a command
of a CA holds `cas/<ca>` while the pre-save listeners take the published-object store, the
task queue and the signer stores; the repository writer holds its update lock while the
rsync writer takes its own.  And what it must never do is refused. -/
theorem krill_nesting_ranked :
    edgeOk (.root .cas) (.scope .cas) = true ∧ edgeOk (.scope .cas) (.root .caObjects) = true ∧
    edgeOk (.scope .cas) (.root .tasks) = true ∧ edgeOk (.root .caObjects) (.root .keys) = true ∧
    edgeOk (.scope .cas) (.root .signers) = true ∧ edgeOk (.root .signers) (.scope .signers) = true ∧
    edgeOk (.root .tasks) (.scope .tasks) = true ∧ edgeOk .pubdUpdate .rsync = true ∧
    edgeOk .pubdUpdate (.root .pubdObjects) = true ∧
    edgeOk (.scope .taProxy) (.root .tasks) = true ∧ edgeOk (.scope .taSigner) (.root .keys) = true ∧
    edgeOk (.scope .cas) (.scope .cas) = false ∧ edgeOk (.root .tasks) (.scope .cas) = false ∧
    edgeOk (.root .caObjects) (.scope .cas) = false ∧ edgeOk .rsync .pubdUpdate = false ∧
    edgeOk (.scope .status) (.scope .cas) = false ∧
    -- the history cache is taken first and held over every entity-store read; the status cache
    -- over the status write; neither may be requested by a thread inside a store transaction
    edgeOk .historyCache (.root .cas) = true ∧ edgeOk .historyCache (.scope .cas) = true ∧
    edgeOk .historyCache (.scope .pubd) = true ∧
    edgeOk .statusCache (.root .status) = true ∧ edgeOk .statusCache (.scope .status) = true ∧
    edgeOk (.scope .cas) .historyCache = false ∧ edgeOk (.root .cas) .historyCache = false ∧
    edgeOk (.scope .cas) .statusCache = false ∧ edgeOk (.scope .status) .statusCache = false ∧
    -- signing happens inside CA commands and the published-object store; binding a pending
    -- signer or recording a key takes the signer store from inside the router
    edgeOk (.scope .cas) .signerPending = true ∧ edgeOk (.root .caObjects) .signerPending = true ∧
    edgeOk .signerPending .signerHandle = true ∧ edgeOk .signerPending (.root .signers) = true ∧
    edgeOk .signerHandle (.scope .signers) = true ∧ edgeOk (.scope .signers) .signerPending = false := by
  decide

/-- The lock sites of the source as the translator found them on this run. -/
def sourceSites : List Site :=
  KM.Generated.lockSites.map fun s => ⟨s.lock, s.held, s.annotated, s.exempt⟩

/-- Tie to the source: every site of a lock that is somewhere held over later statements is
seen by the lock-order recorder (regenerated from `/repo/src` on every run). -/
theorem source_lock_sites_annotated : sitesOk sourceSites = true := by
  decide

/-- What the rule buys: a site of a non-leaf lock that passes is annotated or exempt. -/
theorem sitesOk_spec (sites : List Site) (h : sitesOk sites = true) (s : Site) (hs : s ∈ sites)
    (t : Site) (ht : t ∈ sites) (hl : t.lock = s.lock) (hh : t.held = true) :
    s.annotated = true ∨ s.exempt = true := by
  have h1 := List.all_eq_true.mp h s hs
  unfold siteOk at h1
  have hn : nonLeaf sites s.lock = true := by
    unfold nonLeaf
    exact List.any_eq_true.mpr ⟨t, ht, by simp [hl, hh]⟩
  simp [hn] at h1
  exact h1

/-- The rule is not vacuous: a history-cache-like lock with one unannotated temporary site
beside a held one is refused. -/
example : sitesOk [⟨5, true, true, false⟩, ⟨5, false, false, false⟩] = false := by decide
example : sitesOk [⟨5, true, true, false⟩, ⟨5, false, true, false⟩, ⟨4, false, false, false⟩] = true := by decide

/-- The ranking is a strict order on lock classes: an observed edge set that passes `edgeOk`
can be embedded in `okProg`'s premise (`∀ h ∈ held, h < l`). -/
theorem edgeOk_iff (a b : Lock) : edgeOk a b = true ↔ rank a < rank b := by
  simp [edgeOk]

/-- Example: a CA command's lock program follows the discipline. -/
example : Thread.ok ⟨[.acq 10, .acq 15, .acq 20, .rel 20, .acq 30, .rel 30, .rel 15, .rel 10], []⟩ := by
  simp [Thread.ok, okProg]

end KM.Props.C18
