/-
C07 — Commands are atomic, serialised per entity and completely audited.
Property theorems only; helper lemmas live in `KrillModel.ES.Lemmas` / `KrillModel.Sys.Lemmas`.

`Sys/Interleave.lean`: threads issue calls; each call is the list of phases of
`execute_opt_command` bracketed by acquiring / releasing the scope lock of its entity; the
scheduler (`sched`, any list of thread ids) picks who makes the next micro-step.
-/
import KrillModel.ES.Lemmas
import KrillModel.ES.ObsLemmas
import KrillModel.Sys.Lemmas
import KrillModel.Sys.AggSerial
import KrillModel.Sys.EffectsLemmas
import KrillModel.ES.HistLemmas
import KrillModel.ES.Reg
/-
Clause → theorem (text of C07 in /verif/properties.jsonl):
* "applied one at a time in a single total order" / "every interleaving … same and different
  entities": `serialisable`, `quiescent_equals_serial` (any machine), `agg_serialisable`,
  `serialisable_with_listeners` (listeners writing shared stores under the scope lock);
  necessity of the lock: `lock_necessary`; the dynamic assumption: `wellBracketed_exclusive`.
* "each state-changing or rejected command receives exactly one consecutive version number":
  `command_owns_one_version`, `accepted_owns_one_version`, `rejected_only_audit`,
  `view_wellFormed(_reachable)` (keys `command-0…n-1`, record `k` has version `k`).
* "none is lost or applied twice": `serialisable` item 4, `audit_log_in_lock_order`.
* "every reader sees a state that is a prefix of that order": `read_is_prefix_state`,
  `agg_serialisable` (results = serial results), `history_read_linearisable`.
* "A rejected command changes nothing observable except for one audit record carrying the
  error": `rejected_only_audit(_obs)`.
* "a command without effect leaves no trace": `noop_no_trace(_obs)`; also
  `presave_failure_no_trace(_obs)`, `failed_write_no_trace`.
* "the history API lists every recorded command in order with its actor": `history_lists_all`
  (with `drop_aggregate`), `history_lists_all_no_drop`, `history_lists_all_obs`,
  `history_read_linearisable`; counter-models: `history_stale_after_drop` (pinned tree),
  `history_needs_dropSafe`, `history_read_straddling_recreation`.
-/
namespace KM.Props.C07
open KM.ES KM.Sys

/-! ## Serialisability (any machine, any number of threads and entities, any schedule) -/

section Generic
variable {M : Machine}

/-- **serialisable.**  Whatever the schedule, the interleaved execution of lock-bracketed
calls is the serial execution of the same calls in lock-acquisition order (`sys.acq`):

1. two threads are never inside calls on the same entity (mutual exclusion);
2. every entity nobody is inside of is in exactly the state the serial execution leaves it in;
   an entity somebody is inside of gets there once that call is run to its end;
3. every thread has received exactly the results of the serial execution (its call in flight,
   if any, will receive the serial result);
4. no call is lost and none is executed twice: for every thread the calls it started (in
   `acq`) followed by the calls still to do are its program. -/
theorem serialisable (ents0 : Nat → M.S) (progs : List (List (Nat × M.Op))) (sched : List Nat) :
    let sys := run true (Sys.init ents0 progs) sched
    let ser := serial ents0 sys.acq
    (∀ (t t' : Nat) (th th' : Thread M) (r r' : Running M),
        sys.threads[t]? = some th → sys.threads[t']? = some th' →
        th.cur = some r → th'.cur = some r' → r.ent = r'.ent → t = t') ∧
    (∀ e, sys.locked e = false → sys.ents e = ser.ents e) ∧
    (∀ (t : Nat) (th : Thread M) (r : Running M), sys.threads[t]? = some th → th.cur = some r →
        (M.runFrom r.op r.pc (sys.ents r.ent, r.loc)).1 = ser.ents r.ent) ∧
    (∀ (t : Nat) (th : Thread M), sys.threads[t]? = some th →
        th.completeOuts sys.ents = ser.outsOf t ∧ (th.cur = none → th.outs = ser.outsOf t)) ∧
    (∀ (t : Nat) (th : Thread M), sys.threads[t]? = some th →
        sys.startedBy t ++ (if th.cur.isSome then th.todo.drop 1 else th.todo) = (progs[t]?).getD []) := by
  intro sys ser
  have h : SerInv ents0 progs sys := run_inv (serInv_init ents0 progs) sched
  refine ⟨h.excl, ?_, h.held, ?_, h.prog⟩
  · intro e hl
    apply h.free e
    intro t th r h1 h2 h3
    have : sys.locked e = true := (locked_iff sys e).mpr ⟨t, th, r, h1, h2, h3⟩
    rw [hl] at this; cases this
  · intro t th ht
    refine ⟨h.outs t th ht, ?_⟩
    intro hc
    have := h.outs t th ht
    simpa [Thread.completeOuts, hc] using this

/-- At quiescence (every thread finished) the whole system is in the serial state, every
thread holds the serial results, and the acquisition order is an interleaving of the
programs: each program is exactly the subsequence of `acq` of its thread. -/
theorem quiescent_equals_serial (ents0 : Nat → M.S) (progs : List (List (Nat × M.Op)))
    (sched : List Nat)
    (hq : ∀ (t : Nat) (th : Thread M), (run true (Sys.init ents0 progs) sched).threads[t]? = some th →
      th.cur = none ∧ th.todo = []) :
    let sys := run true (Sys.init ents0 progs) sched
    (∀ e, sys.ents e = (serial ents0 sys.acq).ents e) ∧
    (∀ (t : Nat) (th : Thread M), sys.threads[t]? = some th →
      th.outs = (serial ents0 sys.acq).outsOf t ∧ sys.startedBy t = (progs[t]?).getD []) := by
  intro sys
  obtain ⟨_, h2, _, h4, h5⟩ := serialisable ents0 progs sched
  constructor
  · intro e
    apply h2 e
    cases hl : (run true (Sys.init ents0 progs) sched).locked e with
    | false => rfl
    | true =>
      obtain ⟨t, th, r, h1, hc, _⟩ := (locked_iff _ e).mp hl
      rw [(hq t th h1).1] at hc; cases hc
  · intro t th ht
    obtain ⟨hc, htodo⟩ := hq t th ht
    refine ⟨(h4 t th ht).2 hc, ?_⟩
    have := h5 t th ht
    simpa [hc, htodo] using this

end Generic

/-! ## The aggregate store under concurrency -/

section AggStore
variable {A : Agg}

/-- **agg_serialisable.**  Threads sending commands, reads and snapshot requests to the same and
to different entities through any store objects, under any schedule: every entity nobody is
inside of stores exactly the audit log that the *serial* execution of the calls in
lock-acquisition order produces, one call after the other on the log alone (`specSerial`),
and every finished thread has received the results of that serial execution.

With `Inv` (`ES/Spec.lean`) this says: the command keys are `command-0 … command-(n-1)` with
record `k` carrying version `k` (consecutive versions, `Inv.cmds`/`Inv.vers`), and with
`specStep`/`specCommand`: every accepted or rejected command appended exactly one record under
the next key, carrying its actor (none lost, none twice), a command without effect or with a
failing pre-save listener appended nothing, and every read returned `finalOf` of the log at
its place in the order – a prefix of the final order (`read_is_prefix_state`). -/
theorem agg_serialisable (hiv : A.initVersion ≤ 1) (ents0 : Nat → Ent A) (L0 : Nat → Log A)
    (h0 : ∀ e, Inv (ents0 e) (L0 e)) (progs : List (List (Nat × AggCall A))) (sched : List Nat) :
    let sys := run true (Sys.init (M := aggMachine A) ents0 progs) sched
    let sp := specSerial L0 sys.acq
    (∀ e, sys.locked e = false → Inv (sys.ents e) (sp.1 e)) ∧
    (∀ (t : Nat) (th : Thread (aggMachine A)), sys.threads[t]? = some th → th.cur = none →
      th.outs = (sp.2.filter (·.1 == t)).map (·.2)) := by
  intro sys sp
  obtain ⟨_, h2, _, h4, _⟩ := serialisable (M := aggMachine A) ents0 progs sched
  obtain ⟨r1, r2⟩ := serial_refines hiv ents0 L0 h0 sys.acq
  constructor
  · intro e hl
    rw [h2 e hl]; exact r1 e
  · intro t th ht hc
    rw [(h4 t th ht).2 hc]
    unfold SerialSt.outsOf
    rw [r2]
    rfl

/-- **audit_log_in_lock_order.**  Under any schedule, for every entity nobody is inside of: the
stored audit log is the initial log followed by records `new` such that the `(actor, details)`
stamps of `new` are – in order – a sub-sequence of the commands sent to that entity *in
lock-acquisition order*.  So every stored record belongs to exactly one command call, no call
is recorded twice, and the records are in lock order (which calls are recorded – the accepted
and the rejected ones – is `command_owns_one_version`). -/
theorem audit_log_in_lock_order (hiv : A.initVersion ≤ 1) (ents0 : Nat → Ent A) (L0 : Nat → Log A)
    (h0 : ∀ e, Inv (ents0 e) (L0 e)) (progs : List (List (Nat × AggCall A))) (sched : List Nat) :
    let sys := run true (Sys.init (M := aggMachine A) ents0 progs) sched
    ∀ e, sys.locked e = false → ∃ new : List (Stored A),
      Inv (sys.ents e) (L0 e ++ new) ∧
      (new.map stampOf).Sublist (commandStamps (callsOn sys.acq e)) := by
  intro sys e hl
  have h1 := (agg_serialisable hiv ents0 L0 h0 progs sched).1 e hl
  rw [specSerial_ent] at h1
  obtain ⟨new, hn, hs⟩ := specRun_calls_sublist (callsOn sys.acq e) (L0 e)
  exact ⟨new, by rw [← hn]; exact h1, hs⟩

/-- A read returns the replay of the log as it is at the read's place in the order. -/
theorem read_is_prefix_state (L : Log A) (i : Nat) :
    (specStep L (.get i)).2 = some (match finalOf L with | some w => .ok w | none => .unknown) ∧
    (specStep L (.get i)).1 = L := by
  unfold specStep
  cases finalOf L <;> simp

/-- What one command does to the audit log (definition of `specCommand`, spelled out):
rejected → exactly one error record under the next version with the actor; accepted → exactly
one success record; no-op, vetoed or panicking → nothing. -/
theorem command_owns_one_version (L : Log A) (w : Ver A) (c : Sent A) :
    (∃ e, A.process w.st c.details = .error e ∧
        specCommand L w c = (L ++ [⟨c.actor, L.length, some c.details, .error e⟩], .err e)) ∨
    (∃ evs s', evs ≠ [] ∧ A.process w.st c.details = .ok evs ∧ applyEvents A w.st evs = some s' ∧
        A.preSave s' evs = none ∧
        specCommand L w c =
          (L ++ [⟨c.actor, L.length, some c.details, .success evs⟩], .ok ⟨w.version + 1, s'⟩)) ∨
    ((specCommand L w c).1 = L) := by
  unfold specCommand
  cases hp : A.process w.st c.details with
  | error e => exact Or.inl ⟨e, rfl, rfl⟩
  | ok evs =>
    cases evs with
    | nil => exact Or.inr (Or.inr rfl)
    | cons ev evs =>
      simp only []
      cases ha : applyEvents A w.st (ev :: evs) with
      | none => exact Or.inr (Or.inr rfl)
      | some s' =>
        simp only []
        cases hs : A.preSave s' (ev :: evs) with
        | some e => exact Or.inr (Or.inr rfl)
        | none => exact Or.inr (Or.inl ⟨ev :: evs, s', by simp, rfl, ha, hs, rfl⟩)

/-! ### listeners that write other stores while the scope lock is held -/

section Listeners
variable {E : EMachine}

/-- **serialisable_with_listeners.**  Calls on several entities whose phases also write to a store
shared by all entities while the entity's scope lock is held (krill: the pre-save listener
writes the CA's objects, the post-save listener the task queue).  The shared store receives the
writes of different entities interleaved in time, yet under any schedule, for every entity
nobody is inside of: (1) its state is the serial state in lock-acquisition order; (2) its
writes in the shared store (`writesOf`) are exactly the writes of the serial execution of its
calls, in lock order, each once – no write of an accepted command is missing, duplicated or
out of order; (3) every finished thread holds the serial results. -/
theorem serialisable_with_listeners (ents : Nat → E.S) (progs : List (List (Nat × E.Op)))
    (sched : List Nat) :
    let g := grun (GSys.init (E := E) ents progs) sched
    let ser := serial (M := E.toMachine) (fun e => (ents e, [])) g.sys.acq
    (∀ e, g.sys.locked e = false →
      g.sys.ents e = ser.ents e ∧ g.writesOf e = (ser.ents e).2) ∧
    (∀ (t : Nat) (th : Thread E.toMachine), g.sys.threads[t]? = some th → th.cur = none →
      th.outs = ser.outsOf t) := by
  intro g ser
  have hsys : g.sys = run true (Sys.init (M := E.toMachine) (fun e => (ents e, [])) progs) sched :=
    run_sys _ sched
  obtain ⟨_, h2, _, h4, _⟩ :=
    serialisable (M := E.toMachine) (fun e => (ents e, [])) progs sched
  have hw := grun_writes (GSys.init (E := E) ents progs) sched (by intro e; rfl)
  constructor
  · intro e hl
    have hfree := h2 e (by rw [← hsys]; exact hl)
    have h1 : g.sys.ents e = ser.ents e := by
      simp only [ser]; rw [hsys]; exact hfree
    exact ⟨h1, by rw [hw e, h1]⟩
  · intro t th ht hc
    simp only [ser]; rw [hsys]
    exact (h4 t th (by rw [← hsys]; exact ht)).2 hc

/-- Non-vacuity: two threads, two entities; every call adds to its entity and writes
`(old value, amount)` to the shared store.  In this schedule the writes of entity 0 and 1
interleave in the shared store and thread 1 has to wait for entity 0; per entity the writes are
in lock order and chain (`(0,1), (1,3), (4,5)`: each sees the value the previous one left). -/
@[reducible] def tickMachine : EMachine where
  S := Nat
  Op := Nat
  Loc := Unit
  Out := Nat
  Eff := Nat × Nat
  start := fun _ => ()
  phases := fun n => [fun p => ((p.1 + n, ()), [(p.1, n)])]
  finish := fun n _ => n

example :
    let g := grun (GSys.init (E := tickMachine) (fun _ => 0)
      [[(0, 1), (0, 3)], [(1, 10), (0, 5)]]) [0, 1, 0, 1, 0, 1, 0, 1, 1, 0, 1, 0, 1, 1, 1]
    g.shared = [(0, (0, 1)), (1, (0, 10)), (0, (1, 3)), (0, (4, 5))] ∧
    g.writesOf 0 = [(0, 1), (1, 3), (4, 5)] ∧ g.writesOf 1 = [(0, 10)] ∧
    (g.sys.ents 0).1 = 9 ∧ (g.sys.ents 1).1 = 10 ∧
    g.sys.threads.map (·.outs) = ([[1, 3], [10, 5]] : List (List Nat)) := by
  refine ⟨rfl, rfl, rfl, rfl, rfl, rfl⟩

end Listeners

/-! ### the lock is necessary -/

/-- Two threads, one command each, on the same existing entity. -/
def twoWriters : Sys (aggMachine (Reg.regAgg 1)) :=
  Sys.init
    (fun _ => (add (Ent.empty : Ent (Reg.regAgg 1)) 0 "init" "n0" false).1)
    [[(0, .cmd 0 ⟨"t0", .add 1⟩ false)], [(0, .cmd 0 ⟨"t1", .add 2⟩ false)]]

/-- The schedule that interleaves the two calls phase by phase. -/
def racy : List Nat := [0, 1, 0, 1, 0, 1, 0, 1, 0, 1, 0, 1, 0, 1, 0, 1, 0, 1]

def summary (sys : Sys (aggMachine (Reg.regAgg 1))) :
    List (List (Option (Nat × Nat))) × List (Nat × String) × Option (Nat × Nat) :=
  (sys.threads.map fun th => th.outs.map fun o =>
      match o with | .ok v => some (v.version, v.st.count) | _ => none,
   (sys.ents 0).kv.cmds.map fun p => (p.1, p.2.actor),
   match loadFresh (sys.ents 0) with | .ok v => some (v.version, v.st.count) | _ => none)

/-- **lock_necessary.**  Without the bracket (or with a lock that does not exclude: write
weakened to read, a fresh lock object per call) the schedule `racy` loses an update: both
threads are told their command was applied as version 2 (counts 1 and 2), but `command-1.json`
holds only `t1`'s command and the state rebuilt from the log has count 2 – `t0`'s acknowledged
command is gone.  With the lock the same schedule gives versions 2 and 3, two command keys and
count 3. -/
theorem lock_necessary :
    summary (run false twoWriters racy) =
      ([[some (2, 1)], [some (2, 2)]], [(1, "t1"), (0, "init")], some (2, 2)) ∧
    summary (run true twoWriters (racy ++ racy)) =
      ([[some (2, 1)], [some (3, 3)]], [(2, "t1"), (1, "t0"), (0, "init")], some (3, 3)) := by
  constructor <;> rfl

end AggStore

/-! ## Audit: rejected, no-op and vetoed commands; history -/

section Audit
variable {A : Agg}

/-- **rejected_only_audit.**  A rejected command returns its error, adds exactly one audit
record (next version, actor, the error) under the next key and changes nothing else in the
store; the state replayed afterwards is the old state with the version bumped. -/
theorem rejected_only_audit (hiv : A.initVersion ≤ 1) {e : Ent A} {L : Log A} (h : Inv e L)
    {w : Ver A} (hw : finalOf L = some w) (i : Nat) (c : Sent A) {err : A.Err}
    (hp : A.process w.st c.details = .error err) :
    let r := command e i c
    let rec_ : Stored A := ⟨c.actor, L.length, some c.details, .error err⟩
    r.2 = .err err ∧
    r.1.kv = e.kv.putCmd L.length rec_ ∧
    Inv r.1 (L ++ [rec_]) ∧
    loadFresh r.1 = .ok ⟨w.version + 1, w.st⟩ := by
  intro r rec_
  have hne : L ≠ [] := by intro h0; subst h0; simp [finalOf, baseOf] at hw
  obtain ⟨w', hw', h1, h2, _, h4⟩ := execOpt_cmd hiv h hne i c false
  rw [hw] at hw'; cases hw'
  have hs : specCommand L w c = (L ++ [rec_], .err err) := by simp [specCommand, hp, rec_]
  simp only [hs, Bool.false_and, Bool.false_eq_true, if_false] at h1 h2
  have hkv := h4 rec_ rfl (by rw [hs])
  refine ⟨h1, hkv, h2, ?_⟩
  have hfin : finalOf (L ++ [rec_]) = some ⟨w.version + 1, w.st⟩ := by
    rw [finalOf_append hiv hne hw]; exact applyStored_nonsuccess (by intro evs; simp [rec_])
  obtain ⟨w2, hw2, hr, _⟩ := execOpt_read hiv h2.clearCaches (by simp) 0 false false
  rw [hfin] at hw2; cases hw2
  exact hr

/-- **accepted_owns_one_version.**  An accepted command returns the updated aggregate with the
next version and adds exactly one record (that version's key, actor, the events); nothing else
in the store changes. -/
theorem accepted_owns_one_version (hiv : A.initVersion ≤ 1) {e : Ent A} {L : Log A} (h : Inv e L)
    {w : Ver A} (hw : finalOf L = some w) (i : Nat) (c : Sent A) {ev : A.Ev} {evs : List A.Ev}
    {s' : A.State} (hp : A.process w.st c.details = .ok (ev :: evs))
    (ha : applyEvents A w.st (ev :: evs) = some s') (hs : A.preSave s' (ev :: evs) = none) :
    let r := command e i c
    let rec_ : Stored A := ⟨c.actor, L.length, some c.details, .success (ev :: evs)⟩
    r.2 = .ok ⟨w.version + 1, s'⟩ ∧
    r.1.kv = e.kv.putCmd L.length rec_ ∧
    Inv r.1 (L ++ [rec_]) := by
  intro r rec_
  have hne : L ≠ [] := by intro h0; subst h0; simp [finalOf, baseOf] at hw
  obtain ⟨w', hw', h1, h2, _, h4⟩ := execOpt_cmd hiv h hne i c false
  rw [hw] at hw'; cases hw'
  have hsp : specCommand L w c = (L ++ [rec_], .ok ⟨w.version + 1, s'⟩) := by
    simp [specCommand, hp, ha, hs, rec_]
  simp only [hsp, Bool.false_and, Bool.false_eq_true, if_false] at h1 h2
  exact ⟨h1, h4 rec_ rfl (by rw [hsp]), h2⟩

/-- **noop_no_trace.**  A command without effect returns the current state and leaves the
key-value scope exactly as it was: no command key, no version. -/
theorem noop_no_trace (hiv : A.initVersion ≤ 1) {e : Ent A} {L : Log A} (h : Inv e L)
    {w : Ver A} (hw : finalOf L = some w) (i : Nat) (c : Sent A)
    (hp : A.process w.st c.details = .ok []) :
    let r := command e i c
    r.2 = .ok w ∧ r.1.kv = e.kv ∧ Inv r.1 L := by
  intro r
  have hne : L ≠ [] := by intro h0; subst h0; simp [finalOf, baseOf] at hw
  obtain ⟨w', hw', h1, h2, h3, _⟩ := execOpt_cmd hiv h hne i c false
  rw [hw] at hw'; cases hw'
  have hs : specCommand L w c = (L, .ok w) := by simp [specCommand, hp]
  simp only [hs, Bool.false_and, Bool.false_eq_true, if_false] at h1 h2
  exact ⟨h1, h3 (Or.inr (by rw [hs])), h2⟩

/-- **presave_failure_no_trace.**  If the pre-save listener fails, the caller gets that error
and the entity – key-value scope *and* caches – is exactly as before: nothing stored, the
cached state untouched. -/
theorem presave_failure_no_trace (hiv : A.initVersion ≤ 1) {e : Ent A} {L : Log A} (h : Inv e L)
    {w : Ver A} (hw : finalOf L = some w) (i : Nat) (c : Sent A) {ev : A.Ev} {evs : List A.Ev}
    {s' : A.State} {err : A.Err}
    (hp : A.process w.st c.details = .ok (ev :: evs))
    (ha : applyEvents A w.st (ev :: evs) = some s') (hs : A.preSave s' (ev :: evs) = some err) :
    command e i c = (e, .err err) := by
  have hne : L ≠ [] := by intro h0; subst h0; simp [finalOf, baseOf] at hw
  obtain ⟨w', ch, hw', hlc⟩ := load_catchUp hiv h hne i
  rw [hw] at hw'; cases hw'
  have hver := finalOf_version hiv hne hw
  have hhas : e.kv.hasCmd w.version = false := by simp [Scope.hasCmd, h.cmds, hver]
  have happ : applyStored w ⟨c.actor, w.version, some c.details, .success (ev :: evs)⟩
      = some ⟨w.version + 1, s'⟩ := by simp [applyStored, ha]
  simp only [command]
  rw [execOpt_eq, hlc]
  simp [phProcess, hhas, hp, happ, hs, phCache, phSnapshot, phFinish, Local.out]

/-- A failed write (I/O error) of the command record: error to the caller, nothing stored,
caches untouched – in particular the cache is *not* ahead of the store. -/
theorem failed_write_no_trace (hiv : A.initVersion ≤ 1) {e : Ent A} {L : Log A} (h : Inv e L)
    (hne : L ≠ []) (i : Nat) (c : Sent A) :
    (command e i c true).1.kv = e.kv ∧ Inv (command e i c true).1 L := by
  obtain ⟨w, hw, h1, h2, h3, _⟩ := execOpt_cmd hiv h hne i c true
  refine ⟨h3 (Or.inl rfl), ?_⟩
  show Inv (execOpt e i (some c) false true).1 L
  by_cases hl : (specCommand L w c).1.length != L.length
  · simpa [hl] using h2
  · have hl' : (specCommand L w c).1.length = L.length := by simpa using hl
    have : (specCommand L w c).1 = L := by
      rcases command_owns_one_version L w c with ⟨e', _, hs⟩ | ⟨evs, s', _, _, _, _, hs⟩ | hs
      · rw [hs] at hl'; simp at hl'
      · rw [hs] at hl'; simp at hl'
      · exact hs
    simpa [hl, this] using h2

/-- **history_read_linearisable.**  A history query that runs concurrently with commands:
`command_history` holds the history-cache mutex for the whole query but takes the scope lock anew
for every `command-N` it reads, so commands of other threads are serialised between its reads
(`between k`).  Whatever slips in between, the records the query collects (it stops at the first
missing key, read number `m`) are exactly the complete history of the log as it was at that last
read – a state inside the query's own time span, after every command that completed before the
query started: the query is linearisable with the commands, its linearisation point being its
last read.  (Commands only append, `specRun_prefix`; for `drop_aggregate` see below.) -/
theorem history_read_linearisable (L : Log A) (between : Nat → List (Op A)) (m : Nat)
    (hsome : ∀ k, k < m → (readAt L between k).isSome = true)
    (hnone : readAt L between m = none) :
    (List.range m).filterMap (fun k => (readAt L between k).map Stored.toRecord) =
      recordsUpTo (logAt L between m) (logAt L between m).length ∧
    L <+: logAt L between m :=
  ⟨history_read_spec L between m hsome hnone, logAt_prefix L between (Nat.zero_le m)⟩

/-- Non-vacuity: a query on a log with one command; a second command (by `"late"`) is serialised
between its first and second read and a third after its last read – the query returns the
two-command history that was current at its last read. -/
example :
    let L : Log (Reg.regAgg 1) := specRun [] [.add 0 "a" "n0" false, .cmd 0 ⟨"first", .add 1⟩ false]
    let between : Nat → List (Op (Reg.regAgg 1)) := fun k =>
      if k = 0 then [.cmd 0 ⟨"late", .add 2⟩ false] else if k = 2 then [.cmd 0 ⟨"after", .add 1⟩ false] else []
    (readAt L between 0).isSome = true ∧ (readAt L between 1).isSome = true ∧
    readAt L between 2 = none ∧
    ((List.range 2).filterMap fun k => (readAt L between k).map (·.actor)) = ["first", "late"] := by
  decide

/-- `drop_aggregate` and history queries: the scope is deleted under the scope lock, the
history-cache entry is removed afterwards under the history-cache mutex (lock order history
cache → scope, never the reverse: `Locks/Model.lean`, C18).  Because a query holds that mutex
from its first to its last read, the removal happens entirely before or entirely after a query:
no query ever runs on a half-cleared cache, and after the removal every query starts from
`command-1` again – sequentially that is `history_lists_all` below (`DropSafe` histories).
What the mutex does *not* give: a query whose reads straddle a deletion **and** re-creation of
the handle sees keys of two different entities.  Model-level witness (not replayed on the code:
it needs delete + create + two commands inside one history query; the mixed list is handed to
that one caller only, the cache entry it leaves is removed by the pending `drop_aggregate`). -/
theorem history_read_straddling_recreation :
    let old : Log (Reg.regAgg 1) := specRunH []
      [.op (.add 0 "a" "n0" false), .op (.cmd 0 ⟨"old1", .add 1⟩ false), .op (.cmd 0 ⟨"old2", .add 1⟩ false)]
    let new : Log (Reg.regAgg 1) := specRunH old
      [.drop 0, .op (.add 0 "a" "n0" false), .op (.cmd 0 ⟨"new1", .add 1⟩ false),
       .op (.cmd 0 ⟨"new2", .add 1⟩ false), .op (.cmd 0 ⟨"new3", .add 1⟩ false)]
    -- read 0 on the old entity, reads 1.. on the new one
    ([old[1]?, new[2]?, new[3]?].filterMap fun r => r.map (·.actor)) = ["old1", "new2", "new3"] ∧
    new[4]? = none := by
  decide

/-- **history_lists_all.**  After every history – creation, accepted / rejected / no-op / vetoed
commands, failed writes, snapshots, store objects re-created, history queries at any earlier
point, *and* `drop_aggregate` followed by re-creation of the same handle (delete a CA, create
a CA of that name) – `command_history` through any store object, with or without history cache,
lists exactly the commands stored for the *current* entity from version 1 on, in order, each
with its version, actor, details and result.  (`DropSafe`: a drop happens while no other store
object remembers the entity – `drop_aggregate` can only clear the caches of the store object it
is called on; see `history_needs_dropSafe`.) -/
theorem history_lists_all (hiv : A.initVersion ≤ 1) (ops : List (HOp A))
    (hs : DropSafe (Ent.empty : Ent A) ops) (i : Nat) (cached : Bool) :
    (commandHistory (runH (Ent.empty : Ent A) ops) i cached {}).2.commands =
      ((specRunH ([] : Log A) ops).drop 1).map Stored.toRecord := by
  have hI : Inv (runH (Ent.empty : Ent A) ops) (specRunH [] ops) := runH_refines hiv inv_empty ops hs
  rw [(commandHistory_spec hI i cached).1]
  simp [recordsUpTo]

/-- The same for histories without `drop_aggregate` (no side condition). -/
theorem history_lists_all_no_drop (hiv : A.initVersion ≤ 1) (ops : List (Op A)) (i : Nat) (cached : Bool) :
    (commandHistory (run (Ent.empty : Ent A) ops) i cached {}).2.commands =
      ((specRun ([] : Log A) ops).drop 1).map Stored.toRecord := by
  have hI : Inv (run (Ent.empty : Ent A) ops) (specRun [] ops) := run_refines hiv inv_empty ops
  rw [(commandHistory_spec hI i cached).1]
  simp [recordsUpTo]

/-! ### non-vacuity of the hypotheses of the audit theorems -/

/-- A reachable entity of the register aggregate (created, one accepted command, count 2, a
snapshot, a second store object) together with its log and replayed state; on it a rejected
command (`fail`), a command without effect (`add 0`) and a vetoed one (`guarded 1`: the
updated count 3 is a multiple of 3) all exist – the hypotheses of `rejected_only_audit`,
`noop_no_trace`, `presave_failure_no_trace` and `accepted_owns_one_version` are satisfiable. -/
example :
    let ops : List (Op (Reg.regAgg 1)) :=
      [.add 0 "u" "n0" false, .cmd 0 ⟨"u", .add 2⟩ false, .snap 1 false]
    let e := run (Ent.empty : Ent (Reg.regAgg 1)) ops
    let L := specRun ([] : Log (Reg.regAgg 1)) ops
    Inv e L ∧
    (∃ w, finalOf L = some w ∧ w.version = 2 ∧
      (Reg.regAgg 1).process w.st Reg.Cmd.fail = .error Reg.Err.rejected ∧
      (Reg.regAgg 1).process w.st (Reg.Cmd.add 0) = .ok [] ∧
      (Reg.regAgg 1).process w.st (Reg.Cmd.guarded 1) = .ok [Reg.Ev.guardedAdd 1] ∧
      (∃ s', applyEvents (Reg.regAgg 1) w.st [Reg.Ev.guardedAdd 1] = some s' ∧
        (Reg.regAgg 1).preSave s' [Reg.Ev.guardedAdd 1] = some Reg.Err.veto) ∧
      (Reg.regAgg 1).process w.st (Reg.Cmd.add 3) = .ok [Reg.Ev.added 3] ∧
      (∃ s', applyEvents (Reg.regAgg 1) w.st [Reg.Ev.added 3] = some s' ∧
        (Reg.regAgg 1).preSave s' [Reg.Ev.added 3] = none)) := by
  refine ⟨run_refines (by decide) inv_empty _, ⟨⟨2, ⟨2, "n0"⟩⟩, rfl, rfl, rfl, rfl, rfl, ⟨_, rfl, rfl⟩, rfl, ⟨_, rfl, rfl⟩⟩⟩

/-- The initial entities of `twoWriters` satisfy the hypothesis of `agg_serialisable`. -/
example : ∀ e : Nat, Inv (twoWriters.ents e)
    (specRun ([] : Log (Reg.regAgg 1)) [.add 0 "init" "n0" false]) := by
  intro e
  exact run_refines (A := Reg.regAgg 1) (by decide) inv_empty [.add 0 "init" "n0" false]

/-- Non-vacuity of `DropSafe` and the delete / re-create scenario itself: the history through
the store object with history cache shows the new entity's command only. -/
example :
    let ops : List (HOp (Reg.regAgg 1)) :=
      [.op (.add 0 "a" "n0" false), .op (.cmd 0 ⟨"old", .add 1⟩ false), .op (.hist 0 true),
       .drop 0, .op (.add 0 "a" "n0" false), .op (.cmd 0 ⟨"new", .add 2⟩ false)]
    DropSafe (Ent.empty : Ent (Reg.regAgg 1)) ops ∧
    ((commandHistory (runH (Ent.empty : Ent (Reg.regAgg 1)) ops) 0 true {}).2.commands.map (·.actor))
      = ["new"] := by
  refine ⟨⟨trivial, trivial, trivial, ?_, trivial, trivial, trivial⟩, rfl⟩
  intro j hj
  constructor
  · show alookup ([(0, ⟨1, ⟨0, "n0"⟩⟩)] : List (Nat × Ver (Reg.regAgg 1))) j = none
    simp [alookup_cons, Ne.symm hj]
  · show alookup ((0, _) :: ([] : List (Nat × List (Record (Reg.regAgg 1))))) j = none
    simp [alookup_cons, Ne.symm hj]

/-- Counter-model (what the pinned tree did before fix 04272ff6, finding F-C07-1, replayed on the
implementation by `corpus/aggstore/history-after-drop.ops`): with a `drop_aggregate` that leaves
the history-cache entry alone, the cached history after delete + re-create shows the deleted
entity's command by `"old"` and misses the new entity's command by `"new"`, which an uncached
store object lists. -/
theorem history_stale_after_drop :
    let e1 := run (Ent.empty : Ent (Reg.regAgg 1))
      [.add 0 "a" "n0" false, .cmd 0 ⟨"old", .add 1⟩ false, .hist 0 true]
    let e2 := run (dropAggregatePinned e1 0) [.add 0 "a" "n0" false, .cmd 0 ⟨"new", .add 2⟩ false]
    ((commandHistory e2 0 true {}).2.commands.map (·.actor)) = ["old"] ∧
    ((commandHistory e2 1 false {}).2.commands.map (·.actor)) = ["new"] := by
  decide

/-- `DropSafe` is needed: a *second* store object with a history cache is out of reach of
`drop_aggregate` (modelled quirk; krill has one long-lived store object per namespace). -/
theorem history_needs_dropSafe :
    let ops : List (HOp (Reg.regAgg 1)) :=
      [.op (.add 0 "a" "n0" false), .op (.cmd 0 ⟨"old", .add 1⟩ false), .op (.hist 2 true),
       .drop 0, .op (.add 0 "a" "n0" false), .op (.cmd 0 ⟨"new", .add 2⟩ false)]
    ((commandHistory (runH (Ent.empty : Ent (Reg.regAgg 1)) ops) 2 true {}).2.commands.map (·.actor))
      = ["old"] := by
  decide

end Audit

/-! ## The oracle's predicates hold of the model

The driver evaluates the Boolean predicates of `ES/Obs.lean` on what the *implementation* shows
(stored keys, stored records, snapshot, results).  The theorems below prove the same predicates
of the model's observation `oView` / `oRet`, for every renderer `R`: a `FAIL oracle …` verdict is
therefore something no run of the model can produce. -/

section Observed
open KM.ES.Obs
variable {A : Agg}

/-- `versions_contiguous` / `one_key_per_command`: in every reachable state the stored keys are
`command-0 … command-(n-1)` (+ `snapshot.json`), record `k` carries version `k`, the first and
only the first is the init command. -/
theorem view_wellFormed {e : Ent A} {L : Log A} (h : Inv e L) (R : Render A) :
    (oView R e.kv).wellFormed = true := by
  unfold OView.wellFormed
  rw [Bool.and_eq_true]
  constructor
  · rw [oView_cmds h R]
    apply wfFrom_render R L 0
    intro j c hc
    refine ⟨by simpa using h.vers j c hc, ?_⟩
    cases j with
    | zero => simpa using h.head c hc
    | succ j => simpa using h.tail (j + 1) c (by omega) hc
  · have hk : (oView R e.kv).keys = expectedKeys L.length e.kv.snapshot.isSome := oKeys_eq h
    have hl : (oView R e.kv).cmds.length = L.length := by rw [oView_cmds h R, length_renderFrom]
    have hs : (oView R e.kv).snap.isSome = e.kv.snapshot.isSome := by
      simp [oView, oSnap]
    rw [hk, hl, hs]; simp

theorem view_wellFormed_reachable (hiv : A.initVersion ≤ 1) (ops : List (Op A)) (R : Render A) :
    (oView R (run (Ent.empty : Ent A) ops).kv).wellFormed = true :=
  view_wellFormed (run_refines hiv inv_empty ops) R

/-- `rejected_only_audit` on observations. -/
theorem rejected_only_audit_obs (hiv : A.initVersion ≤ 1) {e : Ent A} {L : Log A} (h : Inv e L)
    {w : Ver A} (hw : finalOf L = some w) (i : Nat) (c : Sent A) {err : A.Err}
    (hp : A.process w.st c.details = .error err) (R : Render A) :
    rejectedOnlyAudit (oView R e.kv) (oView R (command e i c).1.kv) c.actor
      (oRet R (command e i c).2) = true := by
  obtain ⟨h1, h2, h3, _⟩ := rejected_only_audit hiv h hw i c hp
  rw [h1]
  simp only [oRet, rejectedOnlyAudit]
  exact appendedOne_of_append (sc := ⟨c.actor, L.length, some c.details, .error err⟩) h h3 R
    (by rw [h2]; rfl) rfl true (R.err err) (by simp [oCmd])

/-- `versions_consecutive` / `one_key_per_command` for an accepted command, on observations. -/
theorem accepted_owns_one_version_obs (hiv : A.initVersion ≤ 1) {e : Ent A} {L : Log A}
    (h : Inv e L) {w : Ver A} (hw : finalOf L = some w) (i : Nat) (c : Sent A) {ev : A.Ev}
    {evs : List A.Ev} {s' : A.State} (hp : A.process w.st c.details = .ok (ev :: evs))
    (ha : applyEvents A w.st (ev :: evs) = some s') (hs : A.preSave s' (ev :: evs) = none)
    (R : Render A) :
    acceptedOrNoop (oView R e.kv) (oView R (command e i c).1.kv) c.actor (w.version + 1) = true := by
  obtain ⟨_, h2, h3⟩ := accepted_owns_one_version hiv h hw i c hp ha hs
  have hne : L ≠ [] := by intro h0; subst h0; simp [finalOf, baseOf] at hw
  have hv := finalOf_version hiv hne hw
  have hl : (oView R e.kv).cmds.length = L.length := by rw [oView_cmds h R, length_renderFrom]
  have hl' : (oView R (command e i c).1.kv).cmds.length = L.length + 1 := by
    rw [oView_cmds h3 R, length_renderFrom]; simp
  have happ := appendedOne_of_append (sc := ⟨c.actor, L.length, some c.details, .success (ev :: evs)⟩)
    h h3 R (by rw [h2]; rfl) rfl false "" (by simp [oCmd])
  unfold acceptedOrNoop
  rw [hl, hl']
  have : ¬ (L.length + 1 = L.length) := by omega
  simp [this, hv]
  exact happ

/-- `noop_no_trace` on observations. -/
theorem noop_no_trace_obs (hiv : A.initVersion ≤ 1) {e : Ent A} {L : Log A} (h : Inv e L)
    {w : Ver A} (hw : finalOf L = some w) (i : Nat) (c : Sent A)
    (hp : A.process w.st c.details = .ok []) (R : Render A) :
    acceptedOrNoop (oView R e.kv) (oView R (command e i c).1.kv) c.actor w.version = true := by
  obtain ⟨_, h2, _⟩ := noop_no_trace hiv h hw i c hp
  have hne : L ≠ [] := by intro h0; subst h0; simp [finalOf, baseOf] at hw
  have hv := finalOf_version hiv hne hw
  have hl : (oView R e.kv).cmds.length = L.length := by rw [oView_cmds h R, length_renderFrom]
  unfold acceptedOrNoop
  rw [h2]
  simp [noTrace, hl, hv]

/-- `presave_failure_no_trace` on observations. -/
theorem presave_failure_no_trace_obs (hiv : A.initVersion ≤ 1) {e : Ent A} {L : Log A}
    (h : Inv e L) {w : Ver A} (hw : finalOf L = some w) (i : Nat) (c : Sent A) {ev : A.Ev}
    {evs : List A.Ev} {s' : A.State} {err : A.Err}
    (hp : A.process w.st c.details = .ok (ev :: evs))
    (ha : applyEvents A w.st (ev :: evs) = some s') (hs : A.preSave s' (ev :: evs) = some err)
    (R : Render A) :
    noTrace (oView R e.kv) (oView R (command e i c).1.kv) = true := by
  rw [presave_failure_no_trace hiv h hw i c hp ha hs]
  simp [noTrace]

/-- `history_lists_all` on observations (unpaged query). -/
theorem history_lists_all_obs {e : Ent A} {L : Log A} (h : Inv e L) (i : Nat) (cached : Bool)
    (R : Render A) :
    let hist := (commandHistory e i cached {}).2
    historyListsAll (oView R e.kv) 0 none none hist.total (hist.commands.map (oRec R)) = true := by
  intro hist
  have hc := (commandHistory_spec h i cached).1
  have hcmds : hist.commands = (L.drop 1).map Stored.toRecord := by
    simp only [hist]; rw [hc]; simp [recordsUpTo]
  have htot : hist.total = hist.commands.length := by
    simp only [hist, commandHistory]
    cases cached <;> simp [(historyFor_all _).1, (historyFor_all _).2]
  -- rendering commutes with dropping the init command
  have hren : ∀ (l : List (Stored A)) (k : Nat),
      (renderFrom (oCmd R) k l).map oRecOfCmd = l.map (fun c => oRec R c.toRecord) := by
    intro l
    induction l with
    | nil => intro k; rfl
    | cons c t ih =>
      intro k
      simp only [renderFrom, List.map_cons, ih]
      congr 1
      unfold oRecOfCmd oRec oCmd Stored.toRecord oResult
      cases c.effect <;> rfl
  have hdrop : ∀ (l : List (Stored A)) (k : Nat),
      (renderFrom (oCmd R) k l).drop 1 = renderFrom (oCmd R) (k + 1) (l.drop 1) := by
    intro l k; cases l <;> rfl
  have hfilter : ∀ l : List ORec, l.filter (fun _ => true) = l := by
    intro l; induction l with
    | nil => rfl
    | cons a t ih => simp [List.filter, ih]
  unfold historyListsAll
  rw [oView_cmds h R, hdrop, hren, htot, hcmds]
  simp only [hfilter, List.drop_zero, List.length_map, List.map_map, beq_self_eq_true, Bool.true_and]
  rw [List.take_of_length_le (by simp)]
  simp [Function.comp_def]

end Observed

/-! ## The lock log of the implementation -/

/-- The dynamic assumption behind `serialisable`, checked on the implementation's event log:
a well-bracketed log has no event of another thread between an acquisition and its
release (mutual exclusion, item 1 of `serialisable`). -/
theorem wellBracketed_exclusive (pre : List (Nat × LockEv)) (t u : Nat) (ev : LockEv)
    (mid post : List (Nat × LockEv))
    (h : wellBracketed (pre ++ (t, .acq) :: mid ++ (u, ev) :: post) = true)
    (hmid : ∀ x ∈ mid, x.2 ≠ .rel) : u = t := by
  unfold wellBracketed at h
  -- walk through `pre`
  have walk : ∀ (l rest : List (Nat × LockEv)) (o : Option Nat),
      wellBracketedFrom o (l ++ rest) = true → ∃ o', wellBracketedFrom o' rest = true := by
    intro l
    induction l with
    | nil => intro rest o h; exact ⟨o, h⟩
    | cons x xs ih =>
      intro rest o h
      obtain ⟨a, b⟩ := x
      cases o <;> cases b <;> simp [wellBracketedFrom] at h
      · exact ih rest _ h
      · exact ih rest _ h.2
      · exact ih rest _ h.2
  obtain ⟨o, ho⟩ := walk pre _ none (by simpa [List.append_assoc] using h)
  cases o with
  | some _ => simp [wellBracketedFrom] at ho
  | none =>
    simp only [wellBracketedFrom, List.cons_append] at ho
    -- walk through `mid` holding `t`
    have walk2 : ∀ (l : List (Nat × LockEv)), (∀ x ∈ l, x.2 ≠ .rel) →
        wellBracketedFrom (some t) (l ++ (u, ev) :: post) = true → u = t := by
      intro l
      induction l with
      | nil =>
        intro _ h
        cases ev <;> simp [wellBracketedFrom] at h
        · exact h.1.symm
        · exact h.1.symm
      | cons x xs ih =>
        intro hx h
        obtain ⟨a, b⟩ := x
        cases b with
        | acq => simp [wellBracketedFrom] at h
        | op => simp [wellBracketedFrom] at h; exact ih (fun y hy => hx y (List.mem_cons_of_mem _ hy)) h.2
        | rel => exact absurd rfl (hx (a, .rel) (List.mem_cons_self))
    exact walk2 mid hmid ho

example : wellBracketed [(1, .acq), (1, .op), (1, .rel), (2, .acq), (2, .op), (2, .op), (2, .rel)] = true := by
  decide
example : wellBracketed [(1, .acq), (2, .acq), (1, .op), (1, .rel), (2, .rel)] = false := by decide

end KM.Props.C07
