/-
C13 — Every API route enforces the permission its operation requires.
Property theorems only; helper lemmas live in `KrillModel.Http.Lemmas`.

`KM.Generated.routes` is regenerated from `src/daemon/http/dispatch/*.rs` on every run of the check,
`KM.Generated.permSet` … from permission.rs / roles.rs; `KM.Http.Spec` is the hand-written
specification.  Statements about the table are decided by the kernel (`decide +kernel`); statements
about roles, callers and requests are proved for all of them.

Clause → theorem (property text of C13 in /verif/properties.jsonl)

| clause of the property                                                        | theorems |
|---|---|
| a route that reads/changes CA, pubd or TA state is served only to a caller whose role grants the permission the operation requires, for the CA it addresses | `every_op_gated` (table, vs. `Spec.required`), `every_op_gated_sem` (all roles, requests), `decision_iff` |
| a per-CA grant takes precedence over the blanket grant, non-CA requests use the general grant | `role_semantics`, `role_conf_semantics` (config-file role forms), `decision_iff` (through `Role.perms`) |
| … in addition to the login permission for everything under the versioned API  | `api_v1_needs_login`, `api_v1_needs_login_sem` |
| all other callers receive an authorisation error …                            | `refused_iff` (401/403 of the first refusing gate), `decision_iff` |
| … and cause no effect                                                         | `not_served_no_calls`, `decision_iff` (no server call unless served) |
| without credentials only protocol, repository, TA download, health, metrics/statistics, login and UI endpoints are served | `unchecked_only_public` (both directions on the table), `unchecked_only_public_sem` |
| (and the testbed self-service endpoints when testbed mode is on)              | `testbed_only_when_enabled`, `unchecked_only_public` (`publicIsUngated`: testbed rows ⇔ testbed area) |
| listing endpoints show a caller only the CAs it may read                      | `listing_filtered`, `listing_filtered_sem`, `listing_anonymous`, `decision_iff` (per item) |
| quantifier: every route and method                                            | all table theorems range over `routes` (every pattern × GET/POST/DELETE/OTHER, catch-all arms included); `table_complete` |
| quantifier: every role built from any subset of permissions, with and without per-CA scoping | every `_sem` theorem and `decision_iff` quantify over an arbitrary `Role` (three arbitrary sets + arbitrary per-CA entries); `builtin_roles`, `admin_allowed_everything` for the built-in ones |
| quantifier: callers with no, wrong or valid credentials                        | `decision_iff` is over every authentication result; `wrong_credentials_refused`: **every** bearer string that is not a genuine credential – an unrelated string just as a near miss (prefix, extension, one changed character, other case) of the admin token or of a session token – is worth exactly no credentials and is refused on every gated row with no server call, for both provider configurations; composed with the credential chain in `KM.Props.C20.request_decision` |

Which row a concrete method + path selects is not a theorem: the table rows are path *patterns*; the
correspondence run asks the real daemon every row (and the catch-all arms) and compares.
-/
import KrillModel.Http.Lemmas
import KrillModel.Http.AuthLemmas
namespace KM.Props.C13
open KM.Generated KM.Http

/-! ## The generated tables are complete -/

/-- Nothing in a row is an `unknown` marker of the translator. -/
def rowKnown (rt : Route) : Bool :=
  rt.fin != .unknown && rt.gates.all (fun g => g.2 != .unknown) &&
  (match rt.filter with
   | some (_, r) => r != .unknown
   | none => true) &&
  rt.ops.all (fun c => c.actor != .unknown)

/-- A gate names no resource or the handle parsed from a parameter segment of the row's own path;
a filter names the listed handle. -/
def rowResolvable (rt : Route) : Bool :=
  rt.gates.all (fun g =>
    match g.2 with
    | .none => true
    | .seg i => rt.path[i]? == some .param
    | _ => false) &&
  (match rt.filter with
   | some (_, r) => r == .listed
   | none => true)

/-- The translators classified every route, gate, filter and permission set. -/
theorem table_complete :
    routes.all rowKnown = true ∧ routes.all rowResolvable = true ∧ permTablesComplete = true ∧
    maskSemanticsRecognised = true ∧ Permission.all.length ≤ 32 := by
  decide +kernel

/-! ## `served_iff`: a route is served iff every gate on its dispatch path is allowed -/

/-- A request matching row `rt` reaches the handler body iff the row ends in a handler, testbed
mode is on if the row needs it, and **every** gate accumulated along the dispatch path lets the
caller pass. -/
theorem served_iff (testbed : Bool) (a : AuthRes) (rt : Route) (segs : List String) :
    respond testbed a rt segs = .served ↔
      (rt.testbedOnly = true → testbed = true) ∧ rt.fin.runs = true ∧
      ∀ g ∈ rt.gates, gate a segs g = none := by
  unfold respond
  by_cases htb : (rt.testbedOnly && !testbed) = true
  · simp only [htb, if_true]
    constructor
    · intro h; cases h
    · intro ⟨h, _, _⟩
      simp only [Bool.and_eq_true, Bool.not_eq_true'] at htb
      rw [h htb.1] at htb
      simp at htb
  · simp only [htb]
    have htb' : rt.testbedOnly = true → testbed = true := by
      intro h
      cases testbed <;> simp_all
    cases hg : runGates a segs rt.gates with
    | some o =>
      simp only
      constructor
      · intro h
        subst h
        obtain ⟨g, _, hgo⟩ := runGates_some _ _ _ _ hg
        rcases gate_refusal _ _ _ _ hgo with h | h <;> cases h
      · intro ⟨_, _, hall⟩
        have := (runGates_none_iff a segs rt.gates).mpr hall
        rw [hg] at this
        cases this
    | none =>
      have hall := (runGates_none_iff a segs rt.gates).mp hg
      cases hf : rt.fin <;> simp [End.runs] <;> exact ⟨htb', fun p r h => hall (p, r) h⟩

/-- Otherwise the answer is an authorisation error (or 404/405 from the dispatch tree) and the
server object is not reached: no server call. -/
theorem not_served_no_calls (testbed : Bool) (a : AuthRes) (rt : Route) (segs : List String)
    (h : respond testbed a rt segs ≠ .served) : serverCalls testbed a rt segs = [] := by
  simp [serverCalls, h]

/-- If some gate refuses (and the row is active), the answer is the refusal of the *first* refusing
gate: 401 or 403, nothing else. -/
theorem refused_iff (testbed : Bool) (a : AuthRes) (rt : Route) (segs : List String)
    (htb : rt.testbedOnly = true → testbed = true) :
    (respond testbed a rt segs = .unauthorized ∨ respond testbed a rt segs = .forbidden) ↔
      ∃ g ∈ rt.gates, gate a segs g ≠ none := by
  have hc : (rt.testbedOnly && !testbed) = false := by
    cases h1 : rt.testbedOnly <;> cases h2 : testbed <;> simp_all
  unfold respond
  simp only [hc, Bool.false_eq_true, if_false]
  cases hg : runGates a segs rt.gates with
  | some o =>
    obtain ⟨g, hm, hgo⟩ := runGates_some _ _ _ _ hg
    simp only
    constructor
    · intro _
      exact ⟨g, hm, by simp [hgo]⟩
    · intro _
      exact gate_refusal _ _ _ _ hgo
  | none =>
    have hall := (runGates_none_iff a segs rt.gates).mp hg
    constructor
    · intro h
      cases hf : rt.fin <;> simp [hf] at h
    · intro ⟨g, hm, hne⟩
      exact absurd (hall g hm) hne

/-! ## `every_op_gated` -/

/-- Row `rt` holds the gate (or filter) the specification demands for the server call `c`. -/
def satisfied (rt : Route) (c : OpCall) : Bool :=
  match Spec.required c.op with
  | .onCa alts =>
    match c.target with
    | .seg i => alts.any fun p => rt.gates.contains (p, .seg i)
    | .taHandle => rt.gates.contains (Spec.taPermission, .none)
    | .listed => alts.any fun p => rt.filter == some (p, .listed)
    | _ => false
  | .general alts => alts.any fun p => rt.gates.contains (p, .none)
  | .listing p => rt.filter == some (p, .listed)
  | .free => true

/-- **Every operation a handler of the versioned API can reach is behind the permission the
specification requires for it, on the CA the call addresses** – for every row of the dispatch
table as it is in the source now. -/
theorem every_op_gated :
    ∀ rt ∈ routes, Spec.areaOf rt.path = .api → ∀ c ∈ rt.ops, satisfied rt c = true := by
  have h : routes.all (fun rt => Spec.areaOf rt.path != .api || rt.ops.all (satisfied rt)) = true := by
    decide +kernel
  intro rt hrt harea c hc
  have := List.all_eq_true.mp h rt hrt
  simp only [harea, bne_self_eq_false, Bool.false_or, List.all_eq_true] at this
  exact this c hc

/-- Row `rt` holds, without a resource, every gate the specification demands in addition for `c`. -/
def alsoSatisfied (rt : Route) (c : OpCall) : Bool :=
  (Spec.alsoRequired c.op).all fun p => rt.gates.contains (p, .none)

/-- **pubd_ops_need_pub_admin.**  Every operation of the publication server that a handler of the versioned API can
reach is behind `pub-admin` as well – for every row of the dispatch table as it is in the source now (seed C13-r6
moves the blanket check of `pubd::dispatch` into one arm: the list of stale publishers is then served to a role with
`pub-list` alone). -/
theorem pubd_ops_need_pub_admin :
    ∀ rt ∈ routes, Spec.areaOf rt.path = .api → ∀ c ∈ rt.ops, alsoSatisfied rt c = true := by
  have h : routes.all (fun rt => Spec.areaOf rt.path != .api || rt.ops.all (alsoSatisfied rt)) = true := by
    decide +kernel
  intro rt hrt harea c hc
  have := List.all_eq_true.mp h rt hrt
  simp only [harea, bne_self_eq_false, Bool.false_or, List.all_eq_true] at this
  exact this c hc

/-- For a caller: a request to the versioned API that reaches an operation of the publication server comes from a
role whose GENERAL grant holds `pub-admin` (and every other permission `Spec.alsoRequired` names). -/
theorem pubd_ops_need_pub_admin_sem (testbed : Bool) (id : String) (role : Role) (rt : Route)
    (hrt : rt ∈ routes) (harea : Spec.areaOf rt.path = .api) (segs : List String) (c : OpCall)
    (hc : c ∈ serverCalls testbed (.ok id role) rt segs) :
    ∀ p ∈ Spec.alsoRequired c.op, role.isAllowed p none = true := by
  unfold serverCalls at hc
  split at hc
  · rename_i hserved
    have hgates := ((served_iff _ _ _ _).mp hserved).2.2
    have hsat := pubd_ops_need_pub_admin rt hrt harea c hc
    unfold alsoSatisfied at hsat
    intro p hp
    have hm : (p, Res.none) ∈ rt.gates := by
      have := List.all_eq_true.mp hsat p hp
      simpa [List.contains_iff_mem] using this
    obtain ⟨res, hres, hal⟩ := (gate_ok_iff id role segs p .none).mp (hgates _ hm)
    simp only [resolve, Option.some.injEq] at hres
    subst hres; exact hal
  · simp at hc

/-- What that means for a caller: whenever a request to the versioned API reaches a server
operation, the caller's role grants a permission the specification accepts for the operation, for the
very CA (path segment) the operation is applied to; a per-CA operation on the trust anchor needs the
general CA-admin grant; an enumeration of CAs is filtered. -/
theorem every_op_gated_sem (testbed : Bool) (id : String) (role : Role) (rt : Route)
    (hrt : rt ∈ routes) (harea : Spec.areaOf rt.path = .api) (segs : List String) (c : OpCall)
    (hc : c ∈ serverCalls testbed (.ok id role) rt segs) :
    match Spec.required c.op with
    | .onCa alts =>
      match c.target with
      | .seg i => ∃ p ∈ alts, ∃ h, segs[i]? = some h ∧ role.isAllowed p (some h) = true
      | .taHandle => role.isAllowed Spec.taPermission none = true
      | .listed => ∃ p ∈ alts, rt.filter = some (p, .listed)
      | _ => False
    | .general alts => ∃ p ∈ alts, role.isAllowed p none = true
    | .listing p => rt.filter = some (p, .listed)
    | .free => True := by
  unfold serverCalls at hc
  split at hc
  · rename_i hserved
    have hgates := ((served_iff _ _ _ _).mp hserved).2.2
    have hsat := every_op_gated rt hrt harea c hc
    unfold satisfied at hsat
    -- a gate that is present and passed
    have pass_none : ∀ p, (p, Res.none) ∈ rt.gates → role.isAllowed p none = true := by
      intro p hm
      obtain ⟨res, hres, hal⟩ := (gate_ok_iff id role segs p .none).mp (hgates _ hm)
      simp only [resolve, Option.some.injEq] at hres
      subst hres; exact hal
    have pass_seg : ∀ p i, (p, Res.seg i) ∈ rt.gates →
        ∃ h, segs[i]? = some h ∧ role.isAllowed p (some h) = true := by
      intro p i hm
      obtain ⟨res, hres, hal⟩ := (gate_ok_iff id role segs p (.seg i)).mp (hgates _ hm)
      simp only [resolve, Option.map_eq_some_iff] at hres
      obtain ⟨h, hh, rfl⟩ := hres
      exact ⟨h, hh, hal⟩
    cases hreq : Spec.required c.op with
    | onCa alts =>
      simp only [hreq] at hsat ⊢
      cases htgt : c.target with
      | seg i =>
        simp only [htgt, List.any_eq_true, List.contains_iff_mem] at hsat ⊢
        obtain ⟨p, hp, hm⟩ := hsat
        exact ⟨p, hp, pass_seg p i hm⟩
      | taHandle =>
        simp only [htgt, List.contains_iff_mem] at hsat ⊢
        exact pass_none _ hsat
      | listed =>
        simp only [htgt, List.any_eq_true, beq_iff_eq] at hsat ⊢
        exact hsat
      | testbedCa => simp [htgt] at hsat
      | other => simp [htgt] at hsat
    | general alts =>
      simp only [hreq, List.any_eq_true, List.contains_iff_mem] at hsat ⊢
      obtain ⟨p, hp, hm⟩ := hsat
      exact ⟨p, hp, pass_none p hm⟩
    | listing p =>
      simp only [hreq, beq_iff_eq] at hsat ⊢
      exact hsat
    | free => trivial
  · cases hc

/-! ## `api_v1_needs_login` -/

/-- Every row under `/api/v1` that does anything but answer 405 carries the `login` gate without
resource. -/
theorem api_v1_needs_login :
    ∀ rt ∈ routes, Spec.areaOf rt.path = .api → rt.fin ≠ .methodNotAllowed →
      (Permission.Login, Res.none) ∈ rt.gates := by
  have h : routes.all (fun rt => Spec.areaOf rt.path != .api || rt.fin == .methodNotAllowed ||
      rt.gates.contains (.Login, .none)) = true := by
    decide +kernel
  intro rt hrt harea hfin
  have := List.all_eq_true.mp h rt hrt
  simp only [harea, bne_self_eq_false, Bool.false_or, Bool.or_eq_true, beq_iff_eq,
    List.contains_iff_mem] at this
  rcases this with h | h
  · exact absurd h hfin
  · exact h

/-- Hence: whatever is served (or answered 404 by the dispatch tree) under `/api/v1` is served to
callers whose role grants `login` as a general permission, and to nobody without an identity. -/
theorem api_v1_needs_login_sem (testbed : Bool) (a : AuthRes) (rt : Route) (hrt : rt ∈ routes)
    (harea : Spec.areaOf rt.path = .api) (segs : List String)
    (h : respond testbed a rt segs = .served ∨ respond testbed a rt segs = .notFound)
    (htb : rt.testbedOnly = true → testbed = true) :
    ∃ id role, a = .ok id role ∧ role.isAllowed .Login none = true := by
  have hfin : rt.fin ≠ .methodNotAllowed := by
    intro hf
    rcases h with h | h
    · have := ((served_iff _ _ _ _).mp h).2.1
      simp [hf, End.runs] at this
    · unfold respond at h
      have hc : (rt.testbedOnly && !testbed) = false := by
        cases h1 : rt.testbedOnly <;> cases h2 : testbed <;> simp_all
      simp only [hc, Bool.false_eq_true, if_false, hf] at h
      cases hg : runGates a segs rt.gates with
      | some o =>
        rw [hg] at h
        simp only at h
        subst h
        obtain ⟨g, _, hgo⟩ := runGates_some _ _ _ _ hg
        rcases gate_refusal _ _ _ _ hgo with h | h <;> cases h
      | none => rw [hg] at h; cases h
  have hlogin := api_v1_needs_login rt hrt harea hfin
  -- the login gate was passed
  have hpass : gate a segs (.Login, .none) = none := by
    have hnot : ¬ (respond testbed a rt segs = .unauthorized ∨ respond testbed a rt segs = .forbidden) := by
      rcases h with h | h <;> simp [h]
    apply Decidable.byContradiction
    intro hne
    exact hnot ((refused_iff testbed a rt segs htb).mpr ⟨_, hlogin, hne⟩)
  cases a with
  | ok id role =>
    obtain ⟨res, hres, hal⟩ := (gate_ok_iff id role segs .Login .none).mp hpass
    simp only [resolve, Option.some.injEq] at hres
    subst hres
    exact ⟨id, role, rfl, hal⟩
  | none => exact absurd hpass (gate_unauthenticated .none rfl segs _)
  | err => exact absurd hpass (gate_unauthenticated .err rfl segs _)

/-! ## `unchecked_only_public` -/

/-- The need of every operation of the row is met without any permission. -/
def needsNothing (rt : Route) : Bool :=
  rt.ops.all fun c =>
    match Spec.required c.op with
    | .free => true
    | .listing p => rt.filter == some (p, .listed)
    | .onCa alts => c.target == .listed && alts.any fun p => rt.filter == some (p, .listed)
    | .general _ => false

/-- A row that runs a handler without a single gate is one of the endpoints the specification
allows without credentials, and uses only the operations allowed there (testbed self-service: CA
operations on the testbed CA only). -/
def ungatedIsPublic (rt : Route) : Bool :=
  let area := Spec.areaOf rt.path
  !(rt.fin.runs && rt.gates.isEmpty) ||
    (Spec.mayBePublic area rt.testbedOnly &&
     rt.ops.all (fun c => (Spec.publicOps area).contains c.op) &&
     (area != .testbed || rt.ops.all fun c =>
        match Spec.required c.op with
        | .onCa _ => c.target == .testbedCa && c.actor != .auth
        | _ => true))

/-- `proceed_unchecked` / `proceed_raw` / answers without a proceed: either public by
specification, or under `/api/v1` behind the login gate with operations that need no permission
(filtered listings). -/
def uncheckedIsHarmless (rt : Route) : Bool :=
  !(rt.fin == .proceed .unchecked || rt.fin == .proceed .raw || rt.fin == .static) ||
    (rt.gates.isEmpty && Spec.mayBePublic (Spec.areaOf rt.path) rt.testbedOnly) ||
    (Spec.areaOf rt.path == .api && rt.gates == [(.Login, .none)] && needsNothing rt)

/-- The endpoints the specification names as public are indeed served without credentials; the
testbed ones exactly when testbed mode is on. -/
def publicIsUngated (rt : Route) : Bool :=
  let area := Spec.areaOf rt.path
  !(rt.fin.runs && (area != .api && area != .nowhere)) ||
    (rt.gates.isEmpty && (rt.testbedOnly == (area == .testbed)))

theorem unchecked_only_public :
    (∀ rt ∈ routes, ungatedIsPublic rt = true) ∧
    (∀ rt ∈ routes, uncheckedIsHarmless rt = true) ∧
    (∀ rt ∈ routes, publicIsUngated rt = true) := by
  have h : routes.all (fun rt => ungatedIsPublic rt && uncheckedIsHarmless rt && publicIsUngated rt) = true := by
    decide +kernel
  have h' := List.all_eq_true.mp h
  refine ⟨?_, ?_, ?_⟩ <;> intro rt hrt <;> have := h' rt hrt <;>
    simp only [Bool.and_eq_true] at this
  · exact this.1.1
  · exact this.1.2
  · exact this.2

/-- What that means for a caller without credentials (or with credentials that failed): a request
is handed to a handler iff the row has no gate at all – and those rows are exactly the public
endpoints of the specification. -/
theorem unchecked_only_public_sem (testbed : Bool) (a : AuthRes) (ha : a.isOk = false) (rt : Route)
    (hrt : rt ∈ routes) (segs : List String) :
    respond testbed a rt segs = .served ↔
      (rt.testbedOnly = true → testbed = true) ∧ rt.fin.runs = true ∧ rt.gates = [] ∧
      Spec.mayBePublic (Spec.areaOf rt.path) rt.testbedOnly = true := by
  rw [served_iff]
  constructor
  · intro ⟨h1, h2, h3⟩
    have hnil : rt.gates = [] := by
      cases hg : rt.gates with
      | nil => rfl
      | cons g gs =>
        exact absurd (h3 g (by simp [hg])) (gate_unauthenticated a ha segs g)
    refine ⟨h1, h2, hnil, ?_⟩
    have := unchecked_only_public.1 rt hrt
    simp only [ungatedIsPublic, h2, hnil, List.isEmpty_nil, Bool.and_self, Bool.not_true,
      Bool.false_or, Bool.and_eq_true] at this
    exact this.1.1
  · intro ⟨h1, h2, h3, _⟩
    exact ⟨h1, h2, by simp [h3]⟩

/-! ## `decision_iff`: the daemon's decision is `requires(row) ⊆ permissions(role, ca)` -/

/-- What row `rt` requires of a request with path segments `segs`: for every gate on the dispatch
path the permission and the resource it is asked for (`none` if the segment does not exist). -/
def requires (rt : Route) (segs : List String) : List (Permission × Option (Option Handle)) :=
  rt.gates.map fun g => (g.1, resolve segs g.2)

/-- **The decision for every request.**  For every row of the generated table (every path pattern and
method), every testbed setting, every authentication result `a` of the request's credentials (an
identity with an *arbitrary* role – any three permission sets and any per-CA entries, which
includes the config-file forms `Role.ofConf` –, no identity, or an authentication error) and every
instantiation `segs` of the path:

* the handler runs **iff** the row ends in a handler, testbed mode allows the row, and every
  required (permission, resource) pair lies in `permissions(role, resource)` of the caller's role –
  a row without requirements needs no identity, a row with requirements is never served without one;
* if the handler does not run, no server operation is reached, and the answer is 401/403 exactly when
  some requirement is not met (else 404/405 from the dispatch tree);
* what a listing row shows is filtered item by item: a CA is shown iff the role's permissions *for
  that CA* contain the filter's permission. -/
theorem decision_iff (testbed : Bool) (a : AuthRes) (rt : Route) (hrt : rt ∈ routes)
    (segs : List String) :
    (respond testbed a rt segs = .served ↔
      (rt.testbedOnly = true → testbed = true) ∧ rt.fin.runs = true ∧
      (rt.gates = [] ∨ ∃ id role, a = .ok id role ∧
        ∀ q ∈ requires rt segs, ∃ res, q.2 = some res ∧ q.1 ∈ role.perms res)) ∧
    (respond testbed a rt segs ≠ .served → serverCalls testbed a rt segs = []) ∧
    ((rt.testbedOnly = true → testbed = true) →
      ((respond testbed a rt segs = .unauthorized ∨ respond testbed a rt segs = .forbidden) ↔
        ¬ (rt.gates = [] ∨ ∃ id role, a = .ok id role ∧
          ∀ q ∈ requires rt segs, ∃ res, q.2 = some res ∧ q.1 ∈ role.perms res))) ∧
    (∀ (all : List Handle) (h : Handle), h ∈ listingShown a rt all ↔
      h ∈ all ∧ ∀ p, rt.filter = some (p, .listed) →
        ∃ id role, a = .ok id role ∧ p ∈ role.perms (some h)) := by
  -- all gates pass ⇔ the requirements are within the role's permissions
  have hgates : (∀ g ∈ rt.gates, gate a segs g = none) ↔
      (rt.gates = [] ∨ ∃ id role, a = .ok id role ∧
        ∀ q ∈ requires rt segs, ∃ res, q.2 = some res ∧ q.1 ∈ role.perms res) := by
    constructor
    · intro hall
      cases hg : rt.gates with
      | nil => exact Or.inl rfl
      | cons g gs =>
        right
        cases a with
        | ok id role =>
          refine ⟨id, role, rfl, ?_⟩
          intro q hq
          simp only [requires, List.mem_map] at hq
          obtain ⟨g', hg', rfl⟩ := hq
          obtain ⟨res, hres, hal⟩ := (gate_ok_iff id role segs g'.1 g'.2).mp (hall g' hg')
          exact ⟨res, hres, (isAllowed_iff_mem_perms role g'.1 res).mp hal⟩
        | none => exact absurd (hall g (by simp [hg])) (gate_unauthenticated .none rfl segs g)
        | err => exact absurd (hall g (by simp [hg])) (gate_unauthenticated .err rfl segs g)
    · intro h g hgm
      rcases h with h | ⟨id, role, rfl, hq⟩
      · rw [h] at hgm; cases hgm
      · obtain ⟨res, hres, hmem⟩ := hq (g.1, resolve segs g.2) (by
          simp only [requires, List.mem_map]; exact ⟨g, hgm, rfl⟩)
        exact (gate_ok_iff id role segs g.1 g.2).mpr
          ⟨res, hres, (isAllowed_iff_mem_perms role g.1 res).mpr hmem⟩
  refine ⟨?_, not_served_no_calls testbed a rt segs, ?_, ?_⟩
  · rw [served_iff, hgates]
  · intro htb
    rw [refused_iff testbed a rt segs htb, ← hgates]
    constructor
    · intro ⟨g, hm, hne⟩ hall; exact hne (hall g hm)
    · intro hnot
      apply Decidable.byContradiction
      intro hno
      apply hnot
      intro g hm
      apply Decidable.byContradiction
      intro hne
      exact hno ⟨g, hm, hne⟩
  · intro all h
    -- the filter of a table row is absent or on the listed handle
    have hres := (List.all_eq_true.mp table_complete.2.1) rt hrt
    simp only [rowResolvable, Bool.and_eq_true] at hres
    cases hf : rt.filter with
    | none => simp [listingShown, hf]
    | some f =>
      obtain ⟨p, r⟩ := f
      have hr : r = .listed := by simpa [hf] using hres.2
      subst hr
      simp only [listingShown, hf, List.mem_filter, Option.some.injEq, Prod.mk.injEq, and_true,
        forall_eq']
      constructor
      · intro ⟨hm, hc⟩
        refine ⟨hm, ?_⟩
        cases a with
        | ok id role =>
          refine ⟨id, role, rfl, ?_⟩
          apply (isAllowed_iff_mem_perms role p (some h)).mp
          simp only [checkPerm] at hc
          by_cases hal : role.isAllowed p (some h) = true
          · exact hal
          · simp [hal] at hc
        | none => simp [checkPerm, anonymous_allows_nothing] at hc
        | err => simp [checkPerm] at hc
      · intro ⟨hm, id, role, ha, hp⟩
        subst ha
        refine ⟨hm, ?_⟩
        have := (isAllowed_iff_mem_perms role p (some h)).mpr hp
        simp [checkPerm, this]

/-- The testbed self-service rows exist only in testbed mode: with testbed mode off every one of
them answers 404, whoever asks. -/
theorem testbed_only_when_enabled (a : AuthRes) (rt : Route) (segs : List String)
    (h : rt.testbedOnly = true) : respond false a rt segs = .notFound := by
  simp [respond, h]

/-! ## `role_semantics` -/

/-- `Role::is_allowed`: a per-CA grant overrides the blanket grant – in both directions: an entry
for the CA decides alone, whether it grants more or less than the blanket set; a CA without entry
uses the blanket set; a request that is not about a CA uses the general set.  The shape found in the
source (`isAllowedConsults`) is this one, and the constructors `simple` / `with_resources` are as
modelled. -/
theorem role_semantics :
    (∀ (r : Role) (p : Permission) (h : Handle) (s : PermSet), r.entry h = some s →
        r.isAllowed p (some h) = has s p) ∧
    (∀ (r : Role) (p : Permission) (h : Handle), r.entry h = none →
        r.isAllowed p (some h) = has r.any p) ∧
    (∀ (r : Role) (p : Permission), r.isAllowed p none = has r.none p) ∧
    (isAllowedConsults true true = .specific ∧ isAllowedConsults true false = .any ∧
      isAllowedConsults false true = .none ∧ isAllowedConsults false false = .none) ∧
    (roleSimple = ⟨.arg, .arg, .empty⟩ ∧ roleWithResources = ⟨.arg, .empty, .arg⟩ ∧
      roleConfRecognised = true) := by
  refine ⟨?_, ?_, ?_, by decide, by decide⟩
  · intro r p h s hs; simp [Role.isAllowed, hs]
  · intro r p h hs; simp [Role.isAllowed, hs]
  · intro r p; simp [Role.isAllowed]

/-- The two role forms of the configuration file. -/
theorem role_conf_semantics (s : PermSet) (p : Permission) :
    (∀ res, (Role.ofConf s none).isAllowed p res = has s p) ∧
    (∀ cas, (Role.ofConf s (some cas)).isAllowed p none = has s p) ∧
    (∀ cas h, (Role.ofConf s (some cas)).isAllowed p (some h) = (cas.contains h && has s p)) := by
  refine ⟨?_, ?_, ?_⟩
  · intro res
    cases res <;> simp [Role.ofConf, Role.simple, Role.isAllowed, Role.entry]
  · intro cas; simp [Role.ofConf, Role.withResources, Role.isAllowed]
  · intro cas h
    simp only [Role.ofConf, Role.withResources, Role.isAllowed, Role.entry]
    induction cas with
    | nil => simp [has]
    | cons c cs ih =>
      simp only [List.map_cons, List.lookup_cons, List.contains_cons]
      by_cases hc : h = c
      · subst hc; simp
      · have : (h == c) = false := by simp [hc]
        rw [this]
        simpa using ih

/-! ## `listing_filtered` -/

/-- Every row that enumerates CAs filters them by `ca-read` on each handle. -/
theorem listing_filtered :
    ∀ rt ∈ routes, (∃ c ∈ rt.ops, c.op = .ca_handles) → rt.filter = some (.CaRead, .listed) := by
  have h : routes.all (fun rt => !(rt.ops.any fun c => c.op == .ca_handles) ||
      rt.filter == some (.CaRead, .listed)) = true := by
    decide +kernel
  intro rt hrt ⟨c, hc, hop⟩
  have := List.all_eq_true.mp h rt hrt
  simp only [Bool.or_eq_true, Bool.not_eq_true', List.any_eq_false, beq_iff_eq] at this
  rcases this with h | h
  · exact absurd hop (by simpa using h c hc)
  · exact h

/-- A listing shows a caller exactly the CAs its role may read (per-CA entry first, else the
blanket grant). -/
theorem listing_filtered_sem (id : String) (role : Role) (rt : Route) (p : Permission)
    (hf : rt.filter = some (p, .listed)) (all : List Handle) (h : Handle) :
    h ∈ listingShown (.ok id role) rt all ↔ h ∈ all ∧ role.isAllowed p (some h) = true := by
  simp only [listingShown, hf, List.mem_filter, checkPerm]
  by_cases ha : role.isAllowed p (some h) = true <;> simp [ha]

/-- Without an identity a listing shows nothing. -/
theorem listing_anonymous (a : AuthRes) (ha : a.isOk = false) (rt : Route) (p : Permission)
    (hf : rt.filter = some (p, .listed)) (all : List Handle) :
    listingShown a rt all = [] := by
  simp only [listingShown, hf]
  apply List.filter_eq_nil_iff.mpr
  intro h _
  cases a with
  | ok id role => simp [AuthRes.isOk] at ha
  | none => simp [checkPerm, anonymous_allows_nothing]
  | err => simp [checkPerm]

/-! ## `builtin_roles` -/

def subset (a b : PermSet) : Bool := a.all fun p => b.contains p

/-- The built-in permission sets as they are in the source: `ANY` is every permission, admin ⊇
read-write ⊇ read-only, the read-only set contains no permission that changes anything, the
read-write set lacks the administrative permissions; the default role names map to these roles and
the admin token carries the admin role. -/
theorem builtin_roles :
    subset Permission.all (permSet .ANY) = true ∧
    permSet .NONE = [] ∧
    subset (permSet .READWRITE) (permSet .ANY) = true ∧
    subset (permSet .READONLY) (permSet .READWRITE) = true ∧
    (permSet .READONLY).all (fun p => !Spec.mutating p) = true ∧
    (permSet .READONLY).contains .Login = true ∧
    (permSet .CONF_READ).all (fun p => !Spec.mutating p) = true ∧
    subset (permSet .CONF_READ) (permSet .READONLY) = true ∧
    subset (permSet .CONF_UPDATE) (permSet .READWRITE) = true ∧
    ([Permission.CaAdmin, .PubAdmin, .CaDelete].all fun p => !(permSet .READWRITE).contains p) = true ∧
    builtinRoleSet .admin = .ANY ∧ builtinRoleSet .readwrite = .READWRITE ∧
    builtinRoleSet .readonly = .READONLY ∧ builtinRoleSet .anonymous = .NONE ∧
    defaultAuthRoles = [("admin", some .admin), ("readwrite", some .readwrite), ("readonly", some .readonly)] ∧
    adminTokenRole = some .admin := by
  decide +kernel

/-- The admin role passes every gate: whoever holds it is served every row that runs a handler. -/
theorem admin_allowed_everything (p : Permission) (res : Option Handle) :
    Role.admin.isAllowed p res = true := by
  have hall : ∀ q : Permission, (permSet (builtinRoleSet .admin)).contains q = true := by
    intro q; cases q <;> decide
  unfold Role.admin Role.builtin
  cases res with
  | none => simp only [Role.isAllowed, Role.simple, has]; exact hall p
  | some h => simp only [Role.isAllowed, Role.simple, Role.entry, List.lookup, has]; exact hall p

/-! ## `wrong_credentials_refused`: the quantifier "wrong credentials" -/

/-- **Callers with wrong credentials.**  For every configuration (either provider as the primary
one), every reachable session state, and **every** bearer string `w` that is not a genuine
credential (`KM.Http.Genuine`: the admin token verbatim, or a session sealed under this instance's
key – so `w` may be *any* other string: unrelated, or a proper prefix, an extension, a re-cased or
one-character-off copy of the admin token or of a session token):

* the request is authenticated exactly like the same request without an `Authorization` header
  (a wrong credential is never worth more than none: on the Unix socket of a mapped peer both act as
  the peer, everywhere else both act as nobody);
* where that is nobody (TCP, or a socket peer that is not mapped), every row with a permission gate
  answers 401/403 and reaches no server operation – whatever the row, the method and the path. -/
theorem wrong_credentials_refused (cfg : Config) (st : SessState) (hs : CacheSound cfg.key st)
    (w : Wire) (hw : ¬ Genuine cfg w) (t : Transport) :
    (authenticate cfg st (.bearer w) t).1 = (authenticate cfg st .absent t).1 ∧
    ((unixProvider cfg t).isOk = false →
      ∀ (rt : Route) (segs : List String), rt.gates ≠ [] →
        (rt.testbedOnly = true → cfg.testbed = true) →
        (respond cfg.testbed (authenticate cfg st (.bearer w) t).1 rt segs = .unauthorized ∨
          respond cfg.testbed (authenticate cfg st (.bearer w) t).1 rt segs = .forbidden) ∧
        serverCalls cfg.testbed (authenticate cfg st (.bearer w) t).1 rt segs = []) := by
  obtain ⟨h1, h2⟩ := not_genuine_as_absent cfg st hs w hw t
  refine ⟨by rw [h1, h2], ?_⟩
  intro hno rt segs hg htb
  rw [h1]
  have href : respond cfg.testbed (unixProvider cfg t) rt segs = .unauthorized ∨
      respond cfg.testbed (unixProvider cfg t) rt segs = .forbidden := by
    rw [refused_iff cfg.testbed _ rt segs htb]
    cases hgs : rt.gates with
    | nil => exact absurd hgs hg
    | cons g gs => exact ⟨g, by simp, gate_unauthenticated _ hno segs g⟩
  refine ⟨href, not_served_no_calls _ _ _ _ ?_⟩
  rcases href with h | h <;> simp [h]

/-- Which strings are genuine is decided by the whole string: in particular no proper prefix and no
extension of the admin token is (the comparison is generated from admin_token.rs:
`adminTokenCompare = .equal`). -/
theorem near_admin_token_not_genuine (cfg : Config) (s : String) (hs : s ≠ cfg.adminToken) :
    adminTokenCompare = .equal ∧ ¬ Genuine cfg (.text s) := by
  refine ⟨by decide, ?_⟩
  intro h
  rcases h with h | ⟨_, n, u, r, role, h, _⟩
  · simp only [Wire.text.injEq] at h; exact hs h
  · cases h

/-! ## Non-vacuity -/

/-- The row for a path pattern and method. -/
def findRoute (path : List Seg) (m : Method) : Option Route :=
  routes.find? fun rt => rt.path == path && rt.method == m

/-- A role with the blanket grant `ca-read` + `ca-update` whose entry for `ca1` is empty, and which
grants `ca-delete` only on `ca2`. -/
def exRole : Role :=
  ⟨[.Login, .CaCreate], [.CaRead, .CaUpdate], [("ca1", []), ("ca2", [.CaRead, .CaDelete])]⟩

/-- `GET /api/v1/cas/{ca}`: per-CA denial overrides the blanket grant (`ca1`), the blanket grant
serves other CAs (`ca3`), `DELETE` is served on `ca2` only; without `login` nothing is served; an
authentication error answers 401; the operations reached are the row's. -/
example :
    ((findRoute [.lit .l_api, .lit .l_v1, .lit .l_cas, .param] .GET).any fun g =>
      (findRoute [.lit .l_api, .lit .l_v1, .lit .l_cas, .param] .DELETE).any fun d =>
        respond false (.ok "u" exRole) g ["api", "v1", "cas", "ca1"] == .forbidden &&
        respond false (.ok "u" exRole) g ["api", "v1", "cas", "ca3"] == .served &&
        respond false (.ok "u" exRole) d ["api", "v1", "cas", "ca2"] == .served &&
        respond false (.ok "u" exRole) d ["api", "v1", "cas", "ca3"] == .forbidden &&
        respond false (.ok "u" { exRole with none := [.CaCreate] }) g ["api", "v1", "cas", "ca3"] == .forbidden &&
        respond false .err g ["api", "v1", "cas", "ca3"] == .unauthorized &&
        respond false .none g ["api", "v1", "cas", "ca3"] == .forbidden &&
        (serverCalls false (.ok "u" exRole) d ["api", "v1", "cas", "ca2"]).map (·.op) == [.ca_delete] &&
        (serverCalls false (.ok "u" exRole) d ["api", "v1", "cas", "ca3"]).isEmpty) = true := by
  decide +kernel

/-- Public rows exist and are served to a caller without credentials; the testbed rows only in
testbed mode. -/
example :
    ((findRoute [.lit .l_health] .GET).any fun h =>
      (findRoute [.lit .l_testbed, .lit .l_enabled] .GET).any fun t =>
        respond false .none h ["health"] == .served &&
        respond true .none t ["testbed", "enabled"] == .served &&
        respond false .none t ["testbed", "enabled"] == .notFound) = true := by
  decide +kernel

/-- The listing rows exist; `exRole` sees `ca2` and `ca3` but not `ca1`. -/
example :
    ((findRoute [.lit .l_api, .lit .l_v1, .lit .l_cas] .GET).any fun l =>
      listingShown (.ok "u" exRole) l ["ca1", "ca2", "ca3"] == ["ca2", "ca3"]) = true := by
  decide +kernel

/-- There are rows of the versioned API with operations (the hypotheses of `every_op_gated` are
met by many rows). -/
example : (routes.filter fun rt => Spec.areaOf rt.path == .api && !rt.ops.isEmpty).length ≥ 60 := by
  decide +kernel

/-- `decision_iff` in action: the requirements of `DELETE /api/v1/cas/ca2` are
`[(login, none), (ca-read, ca2), (ca-delete, ca2)]`, all within `exRole`'s permissions (general set /
the entry of `ca2`); for `ca3` (no entry: blanket set) `ca-delete` is missing; the config-file role
`{permissions, cas = [ca2]}` may read `ca2` but nothing of `ca3`. -/
example :
    ((findRoute [.lit .l_api, .lit .l_v1, .lit .l_cas, .param] .DELETE).any fun d =>
      (findRoute [.lit .l_api, .lit .l_v1, .lit .l_cas, .param] .GET).any fun g =>
        requires d ["api", "v1", "cas", "ca2"] ==
          [(.Login, some none), (.CaRead, some (some "ca2")), (.CaDelete, some (some "ca2"))] &&
        (requires d ["api", "v1", "cas", "ca2"]).all (fun q =>
          match q.2 with
          | some res => (exRole.perms res).contains q.1
          | none => false) &&
        !(exRole.perms (some "ca3")).contains .CaDelete &&
        respond false (.ok "u" (Role.ofConf [.Login, .CaRead] (some ["ca2"]))) g ["api", "v1", "cas", "ca2"] == .served &&
        respond false (.ok "u" (Role.ofConf [.Login, .CaRead] (some ["ca2"]))) g ["api", "v1", "cas", "ca3"] == .forbidden &&
        respond false (.ok "u" (Role.ofConf [.Login, .CaRead] none)) g ["api", "v1", "cas", "ca3"] == .served) = true := by
  decide +kernel

/-- `wrong_credentials_refused` is not vacuous: with admin token `secret`, the strings `s`, `secre`,
`secret2`, `Secret` and `secret and then some` are not genuine (and `secret` is); over TCP they are
refused on the state-changing row `POST /api/v1/cas`, under either provider configuration. -/
example :
    let cfgOf : AuthType → Config := fun ty =>
      { authType := ty, adminToken := "secret", users := [], roles := [], unixUsers := [], key := 7,
        testbed := false }
    (∀ ty, Genuine (cfgOf ty) (.text "secret")) ∧
    (∀ ty, ∀ s ∈ ["s", "secre", "secret2", "Secret", "secret and then some"],
      ¬ Genuine (cfgOf ty) (.text s)) ∧
    ((findRoute [.lit .l_api, .lit .l_v1, .lit .l_cas] .POST).any fun p =>
      [AuthType.adminToken, .configFile].all fun ty =>
        ["s", "secre", "secret2", "Secret", "secret and then some"].all fun s =>
          respond false (authenticate (cfgOf ty) {} (.bearer (.text s)) .tcp).1 p ["api", "v1", "cas"]
            != .served &&
          respond false (authenticate (cfgOf ty) {} (.bearer (.text "secret")) .tcp).1 p
            ["api", "v1", "cas"] == .served) = true := by
  refine ⟨fun ty => Or.inl rfl, ?_, by decide +kernel⟩
  intro ty s hs
  apply (near_admin_token_not_genuine _ s _).2
  simp only [List.mem_cons, List.mem_nil_iff, or_false] at hs
  rcases hs with rfl | rfl | rfl | rfl | rfl <;> show _ ≠ "secret" <;> decide

end KM.Props.C13
