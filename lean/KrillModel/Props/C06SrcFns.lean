/-
C06 (source tie, function body) — `Aggregate::apply_command`, the provided method of `trait Aggregate` every
event-sourced entity is replayed with ("apply_command bumps version then applies events in order",
src/commons/eventsourcing/agg.rs), is regenerated from the source on every run
(`Generated/PureFnsC06.lean`, `KM.Gen.C06.Aggregate.apply_command`) and proved equal to the model's `applyStored`
(ES/AggStore.lean) that `replay_eq_live`, `snapshot_any_point` and `replay_total` (Props/C06.lean) are about.

The model's `apply` is PARTIAL (`none` = the Rust `apply` panics on that event in that state); the generated
definition is over a total `apply`.  The statement instantiates the aggregate value with `Option (Ver A)` (`none` = a panic
happened, and stays): `increment_version` bumps the version of a value that is there, `apply` is the model's partial
`A.apply` on the state component.  What is tied: the version is bumped exactly once and FIRST (also for a stored refusal and
for an init command, which carry no events), the events are applied in stored order, nothing else happens - an edit that
skips the bump for a command without events, applies the events in reverse, or bumps once per event changes the generated
definition and this file stops checking.
-/
import KrillModel.Generated.PureFnsC06
import KrillModel.ES.AggStore
namespace KM.Props.C06SrcFns
open KM.ES

variable {A : Agg}

/-- `increment_version` on a value that is there. -/
def incr (o : Option (Ver A)) : Option (Ver A) := o.map fun v => ⟨v.version + 1, v.st⟩

/-- The model's partial `apply` on the state component; a panic stays a panic. -/
def applyO (o : Option (Ver A)) (ev : A.Ev) : Option (Ver A) :=
  o.bind fun v => (A.apply v.st ev).map fun s => ⟨v.version, s⟩

/-- `StoredCommand::into_events`: the events of a stored success, nothing for an init command or a stored refusal. -/
def intoEvents (c : Stored A) : Option (List A.Ev) :=
  match c.effect with
  | .success evs => some evs
  | _ => none

theorem loop_none (io : Option (List A.Ev)) (o0 : Option (Ver A)) (l : List A.Ev) :
    KM.Gen.C06.Aggregate.apply_command.loop incr applyO io o0 (none : Option (Ver A)) l = none := by
  induction l generalizing o0 with
  | nil => rfl
  | cons e tl ih => simp [KM.Gen.C06.Aggregate.apply_command.loop, applyO, ih]

theorem loop_eq (io : Option (List A.Ev)) (l : List A.Ev) :
    ∀ (o0 : Option (Ver A)) (v : Ver A),
    KM.Gen.C06.Aggregate.apply_command.loop incr applyO io o0 (some v) l =
      (applyEvents A v.st l).map fun s => ⟨v.version, s⟩ := by
  induction l with
  | nil => intro o0 v; simp [KM.Gen.C06.Aggregate.apply_command.loop, KM.Gen.C06.Aggregate.apply_command.after, applyEvents]
  | cons e tl ih =>
    intro o0 v
    simp only [KM.Gen.C06.Aggregate.apply_command.loop, applyO, applyEvents, Option.bind_some]
    cases h : A.apply v.st e with
    | none => simp [loop_none]
    | some s => simp [ih]

/-- **gen_apply_command_eq_model.**  `Aggregate::apply_command` as translated from the source = the model's
`applyStored`, for every aggregate, every value and every stored command (success, refusal, init). -/
theorem gen_apply_command_eq_model (v : Ver A) (c : Stored A) :
    KM.Gen.C06.Aggregate.apply_command incr applyO (intoEvents c) (some v) = applyStored v c := by
  unfold KM.Gen.C06.Aggregate.apply_command applyStored intoEvents
  cases c.effect with
  | init ev => rfl
  | error e => rfl
  | success evs => simp [incr, loop_eq]

/-- The version after a replayed command is the version before plus one, whatever the command carried. -/
theorem apply_command_bumps_once (v v' : Ver A) (c : Stored A)
    (h : KM.Gen.C06.Aggregate.apply_command incr applyO (intoEvents c) (some v) = some v') :
    v'.version = v.version + 1 := by
  rw [gen_apply_command_eq_model] at h
  unfold applyStored at h
  cases hc : c.effect with
  | init ev => simp [hc] at h; rw [← h]
  | error e => simp [hc] at h; rw [← h]
  | success evs =>
    simp only [hc, Option.map_eq_some_iff] at h
    obtain ⟨s, _, rfl⟩ := h
    rfl

end KM.Props.C06SrcFns
