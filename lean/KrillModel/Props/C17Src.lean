/-
C17 (source tie) — the hand-written model of `ValidatedRouteOrigin::validate`
(`KM.Bgp.validateCovering` / `validateLoop`, Bgp/Validate.lean) equals the definition that the
translator `pure_fns` regenerates from `/repo/src/server/bgp/analyser.rs` on every run
(`Generated/PureFnsC17.lean`, `KM.Gen.C17.ValidatedRouteOrigin.validate`).

`valid_iff`, `invalid_iff`, `validate_eq_rfc6811` (Props/C17.lean) are about `KM.Bgp.validate`, which is
the covering filter followed by `validateCovering`.  With `gen_validate_eq_model` the latter is tied to
the Rust loop statement by statement: the early return, the two flags and where they are set, the
order of the three verdicts after the loop, `>=` vs `>` on the maximum length, the AS0 test, what is
pushed to `invalidating` – each such edit changes the generated definition and this file stops
checking.

Differences that do not matter, bridged here: the generated definition is over abstract ROAs, route
origins and payloads with the accessors as parameters; the statement instantiates them with the
model's `Roa` (payload = the ROA itself), `Ann`, and the model's accessors.  `toModel` renames the
generated record and variants to the model's.  The model writes the flags as
`same || r.asn == a.asn` / `nonAs0 || r.asn != 0`; the code assigns `true` under the same tests.
-/
import KrillModel.Generated.PureFnsC17
import KrillModel.Bgp.Validate
namespace KM.Props.C17Src
open KM.Bgp

/-- Rust verdict ↦ model verdict. -/
def toValidity : KM.Gen.C17.RouteOriginValidity Roa → Validity
  | .Valid r => .valid r
  | .InvalidLength => .invalidLength
  | .InvalidAsn => .invalidAsn
  | .Disallowed => .disallowed
  | .NotFound => .notFound

/-- Rust `ValidatedRouteOrigin` ↦ model `Validated`. -/
def toModel (v : KM.Gen.C17.ValidatedRouteOrigin Ann Roa) : Validated :=
  ⟨v.route_origin, toValidity v.validity, v.disallowing⟩

/-- `toModel` loses nothing. -/
theorem toModel_injective (v w : KM.Gen.C17.ValidatedRouteOrigin Ann Roa) (h : toModel v = toModel w) :
    v = w := by
  cases v with | mk vo vv vd =>
  cases w with | mk wo wv wd =>
  simp only [toModel, Validated.mk.injEq] at h
  obtain ⟨h1, h2, h3⟩ := h
  subst h1 h3
  cases vv <;> cases wv <;> simp_all [toValidity]

/-- The generated definition with the model's accessors plugged in. -/
abbrev genLoop (a : Ann) (all : List Roa) :=
  KM.Gen.C17.ValidatedRouteOrigin.validate.loop (ω := Ann) (π := Roa) (fun r : Roa => r.asn)
    (fun r => r.pfx.covers a.pfx) Roa.effMax id a a.asn a.pfx.len all

/-- What the model does with the result of its loop (`validateCovering`). -/
def finish (a : Ann) : Sum Roa (Bool × Bool × List Roa) → Validated
  | .inl r => ⟨a, .valid r, []⟩
  | .inr (same, nonAs0, inv) =>
    ⟨a, if same then .invalidLength else if nonAs0 then .invalidAsn else .disallowed, inv⟩

/-- The loop: for every carried `invalidating`, `same_asn_found`, `none_as0_found` and every
remaining list. -/
theorem gen_loop_eq_model (a : Ann) (all l : List Roa) :
    ∀ (inv : List Roa) (same nonAs0 : Bool),
      toModel (genLoop a all inv same nonAs0 l) = finish a (validateLoop a l same nonAs0 inv) := by
  induction l with
  | nil =>
    intro inv same nonAs0
    simp only [genLoop, KM.Gen.C17.ValidatedRouteOrigin.validate.loop, KM.Gen.C17.ValidatedRouteOrigin.validate.after,
      validateLoop, finish, toModel]
    cases same <;> cases nonAs0 <;> simp [toValidity]
  | cons r tl ih =>
    intro inv same nonAs0
    simp only [genLoop] at ih
    simp only [genLoop, KM.Gen.C17.ValidatedRouteOrigin.validate.loop, validateLoop, id]
    cases hb1 : (r.asn == a.asn) <;> cases hb4 : (r.asn != 0)
    · -- other AS, AS0
      have p1 : ¬ r.asn = a.asn := by simpa using hb1
      have p4 : ¬ r.asn ≠ 0 := by simpa using hb4
      simp only [if_neg p1, if_neg p4, Bool.false_and, Bool.or_false, Bool.false_eq_true, ↓reduceIte]
      exact ih _ _ _
    · -- other AS, not AS0
      have p1 : ¬ r.asn = a.asn := by simpa using hb1
      have p4 : r.asn ≠ 0 := by simpa using hb4
      simp only [if_neg p1, if_pos p4, Bool.false_and, Bool.or_false, Bool.or_true, Bool.false_eq_true, ↓reduceIte]
      exact ih _ _ _
    · -- same AS, AS0
      have p1 : r.asn = a.asn := by simpa using hb1
      have p4 : ¬ r.asn ≠ 0 := by simpa using hb4
      by_cases h23 : r.pfx.covers a.pfx = true ∧ r.effMax ≥ a.pfx.len
      · have e23 : (r.pfx.covers a.pfx && decide (r.effMax ≥ a.pfx.len)) = true := by simp [h23.1, h23.2]
        simp only [if_pos p1, if_pos h23, e23, Bool.and_self, ↓reduceIte]
        rfl
      · have e23 : (r.pfx.covers a.pfx && decide (r.effMax ≥ a.pfx.len)) = false := by
          cases hc : r.pfx.covers a.pfx <;> simp_all
        simp only [if_pos p1, if_neg h23, if_neg p4, e23, Bool.and_false, Bool.or_false, Bool.or_true,
          Bool.false_eq_true, ↓reduceIte]
        exact ih _ _ _
    · -- same AS, not AS0
      have p1 : r.asn = a.asn := by simpa using hb1
      have p4 : r.asn ≠ 0 := by simpa using hb4
      by_cases h23 : r.pfx.covers a.pfx = true ∧ r.effMax ≥ a.pfx.len
      · have e23 : (r.pfx.covers a.pfx && decide (r.effMax ≥ a.pfx.len)) = true := by simp [h23.1, h23.2]
        simp only [if_pos p1, if_pos h23, e23, Bool.and_self, ↓reduceIte]
        rfl
      · have e23 : (r.pfx.covers a.pfx && decide (r.effMax ≥ a.pfx.len)) = false := by
          cases hc : r.pfx.covers a.pfx <;> simp_all
        simp only [if_pos p1, if_neg h23, if_pos p4, e23, Bool.and_false, Bool.or_true,
          Bool.false_eq_true, ↓reduceIte]
        exact ih _ _ _

/-- The definition generated from the body of `validate` is the model's `validateCovering` – for
every announcement and every list of covering ROAs. -/
theorem gen_validate_eq_model (a : Ann) (covering : List Roa) :
    toModel (KM.Gen.C17.ValidatedRouteOrigin.validate (fun r : Roa => r.asn) (fun r => r.pfx.covers a.pfx)
        Roa.effMax id a a.asn a.pfx.len covering) = validateCovering a covering := by
  have h := gen_loop_eq_model a covering covering [] false false
  simp only [genLoop] at h
  simp only [KM.Gen.C17.ValidatedRouteOrigin.validate, h, validateCovering, finish]
  cases validateLoop a covering false false [] with
  | inl r => rfl
  | inr t => obtain ⟨s, n, i⟩ := t; rfl

/-- Non-vacuity: the generated definition reaches all four verdicts. -/
example :
    let r1 : Roa := ⟨1, ⟨.v4, 0, 8⟩, some 16⟩
    let r0 : Roa := ⟨0, ⟨.v4, 0, 8⟩, none⟩
    let g (a : Ann) (cov : List Roa) :=
      toModel (KM.Gen.C17.ValidatedRouteOrigin.validate (fun r : Roa => r.asn) (fun r => r.pfx.covers a.pfx)
        Roa.effMax id a a.asn a.pfx.len cov)
    g ⟨1, ⟨.v4, 0, 16⟩⟩ [r0, r1] = ⟨⟨1, ⟨.v4, 0, 16⟩⟩, .valid r1, []⟩ ∧
    g ⟨1, ⟨.v4, 0, 24⟩⟩ [r0, r1] = ⟨⟨1, ⟨.v4, 0, 24⟩⟩, .invalidLength, [r0, r1]⟩ ∧
    g ⟨2, ⟨.v4, 0, 16⟩⟩ [r0, r1] = ⟨⟨2, ⟨.v4, 0, 16⟩⟩, .invalidAsn, [r0, r1]⟩ ∧
    g ⟨2, ⟨.v4, 0, 16⟩⟩ [r0] = ⟨⟨2, ⟨.v4, 0, 16⟩⟩, .disallowed, [r0]⟩ := by
  decide

end KM.Props.C17Src
