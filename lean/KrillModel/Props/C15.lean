/-
C15 — Trust-anchor proxy and signer only accept each other's fresh messages; each child request
forwarded to the signer yields exactly one response delivered once; the trust anchor's manifest
and CRL numbers only increase.

Property theorems only; helper lemmas live in `KrillModel.Ta.{Lemmas,Invariant,Numbers}`.
Model: `KrillModel.Ta.{Proxy,Signer,System}`.
-/
import KrillModel.Ta.Numbers
import KrillModel.Ta.Pinned
namespace KM.Props.C15
open KM.Ta

/-! ## The proxy accepts a response iff it is the answer to the open request, from its signer -/

/-- `process_signer_response` accepts a message **iff** a signer request is open, the message
carries exactly that nonce, and it is validly signed (signature, validity, clear text equal to
the signed text) by the signer the proxy is associated with.  For every state and message. -/
theorem response_accepted_iff (p : Proxy) (m : Signed RespBody) :
    (∃ evs, process p (.processSignerResponse m) = .ok evs) ↔
      ∃ n i, p.openNonce = some n ∧ m.clear.nonce = n ∧ p.signer = some i ∧
        m.signer = i.idKey ∧ m.fresh = true ∧ m.body = m.clear := by
  constructor
  · rintro ⟨evs, h⟩
    obtain ⟨n, i, h1, h2, h3, h4, _⟩ := processSignerResponse_ok p m evs h
    obtain ⟨a, b, c⟩ := (validFor_iff m i.idKey).mp h4
    exact ⟨n, i, h1, h2, h3, a, b, c⟩
  · rintro ⟨n, i, h1, h2, h3, a, b, c⟩
    have hv : m.validFor i.idKey = true := (validFor_iff m i.idKey).mpr ⟨a, b, c⟩
    refine ⟨[.signerResponseReceived m.clear], ?_⟩
    simp [process, processSignerResponse, h1, h2, h3, hv]

/-- A refused command – any command, in particular a refused signer response – leaves the proxy
exactly as it was. -/
theorem refused_no_change (p : Proxy) (c : Cmd) (e : Err) (h : process p c = .error e) :
    (exec p c).1 = p := by
  rw [exec_error p c e h]

/-- Which refusal: no open request, then wrong nonce, then no signer, then a bad signature – and
none of them changes anything (previous theorem). -/
theorem response_refusal_reason (p : Proxy) (m : Signed RespBody) :
    process p (.processSignerResponse m) =
      match p.openNonce, p.signer with
      | none, _ => .error .hasNoRequest
      | some n, none => if m.clear.nonce ≠ n then .error .nonceMismatch else .error .noSigner
      | some n, some i =>
        if m.clear.nonce ≠ n then .error .nonceMismatch
        else if m.validFor i.idKey then .ok [.signerResponseReceived m.clear]
        else .error .invalidSignature := by
  simp only [process, processSignerResponse]
  cases p.openNonce <;> cases p.signer <;> rfl

/-- Accepting closes the request and takes over the signer's objects: the same message (or any
other with that nonce) is refused from then on. -/
theorem accepted_closes (p : Proxy) (m : Signed RespBody) (evs : List Ev)
    (h : process p (.processSignerResponse m) = .ok evs) :
    (applyAll p evs).openNonce = none ∧
    (applyAll p evs).number = some m.clear.objects.number ∧
    ∀ m', process (applyAll p evs) (.processSignerResponse m') = .error .hasNoRequest := by
  obtain ⟨n, i, h1, h2, h3, h4, rfl⟩ := processSignerResponse_ok p m evs h
  obtain ⟨m1, m2, m3, m4⟩ := fold_misc m.clear.entries p
  refine ⟨rfl, ?_, ?_⟩
  · simp [applyAll, apply, Proxy.number, m2, h3]
  · intro m'
    simp [applyAll, apply, process, processSignerResponse]

example : ∃ p m, (∃ evs, process p (.processSignerResponse m) = .ok evs) :=
  ⟨{ idKey := 1, signer := some ⟨2, 3, ⟨5, [], []⟩⟩, openNonce := some 7 },
   { signer := 2, body := ⟨7, ⟨6, [], []⟩, []⟩, clear := ⟨7, ⟨6, [], []⟩, []⟩ }, _, rfl⟩

/-- Replayed (nonce of an earlier request), cross-wired (other signer's key), stale (expired) and
modified (clear text differs) messages, concretely. -/
example :
    let p : Proxy := { idKey := 1, signer := some ⟨2, 3, ⟨5, [], []⟩⟩, openNonce := some 7 }
    let body : RespBody := ⟨7, ⟨6, [], []⟩, []⟩
    process p (.processSignerResponse { signer := 2, body := { body with nonce := 4 }, clear := { body with nonce := 4 } })
      = .error .nonceMismatch ∧
    process p (.processSignerResponse { signer := 9, body := body, clear := body }) = .error .invalidSignature ∧
    process p (.processSignerResponse { signer := 2, body := body, clear := body, fresh := false })
      = .error .invalidSignature ∧
    process p (.processSignerResponse { signer := 2, body := body, clear := { body with objects := ⟨1, [], []⟩ } })
      = .error .invalidSignature ∧
    process { p with openNonce := none } (.processSignerResponse { signer := 2, body := body, clear := body })
      = .error .hasNoRequest := by decide

/-! ## The signer processes a request iff it is validly signed by its associated proxy -/

/-- `process_signer_request` goes through **iff** the message is validly signed by the proxy the
signer was initialised for, a forced manifest number (if any) exceeds the current one, and every
child request in it can be honoured; otherwise the signer is unchanged (`Signer.exec`).  For every
signer state, message and number override. -/
theorem request_processed_iff_signed_by_proxy (s : Signer) (m : Signed ReqBody) (ovr : Option Nat) :
    (∃ r, processSignerRequest s m ovr = .ok r) ↔
      (m.signer = s.proxyKey ∧ m.fresh = true ∧ m.body = m.clear) ∧
      (∀ v, ovr = some v → s.objects.number < v) ∧
      ∃ a, signAll m.clear.resources { objects := s.objects, serial := s.nextSerial }
              m.clear.entries = .ok a := by
  constructor
  · rintro ⟨⟨s', r⟩, h⟩
    obtain ⟨hv, _, _, _, _, _, _, _, _, _, hnum, hgt⟩ := processSignerRequest_ok s s' m ovr r h
    refine ⟨(validFor_iff m s.proxyKey).mp hv, ?_, ?_⟩
    · intro v hov
      rw [hnum, hov] at hgt
      simpa using hgt
    · unfold processSignerRequest at h
      simp only [hv, Bool.not_true, Bool.false_eq_true, if_false] at h
      cases ho : ovr.all fun v => decide (s.objects.number < v) with
      | false => simp [ho] at h
      | true =>
        simp only [ho, Bool.not_true, Bool.false_eq_true, if_false] at h
        cases ha : signAll m.clear.resources { objects := s.objects, serial := s.nextSerial } m.clear.entries with
        | error x => simp [ha] at h
        | ok a => exact ⟨a, rfl⟩
  · rintro ⟨hv, hov, a, ha⟩
    have hv' := (validFor_iff m s.proxyKey).mpr hv
    have ho : (ovr.all fun v => decide (s.objects.number < v)) = true := by
      cases ovr with
      | none => rfl
      | some v => simpa using hov v rfl
    unfold processSignerRequest
    simp [hv', ho, ha]

/-- Not signed by the associated proxy (another proxy's key, expired, clear text altered):
refused whatever the content, signer unchanged. -/
theorem request_refused_unless_signed_by_proxy (s : Signer) (m : Signed ReqBody) (ovr : Option Nat)
    (h : ¬ (m.signer = s.proxyKey ∧ m.fresh = true ∧ m.body = m.clear)) :
    s.exec m ovr = (s, .error .invalidSignature) := by
  have : m.validFor s.proxyKey = false := by
    cases hv : m.validFor s.proxyKey with
    | false => rfl
    | true => exact absurd ((validFor_iff m s.proxyKey).mp hv) h
  simp [Signer.exec, processSignerRequest_error_of_invalid s m ovr this]

/-- Any refusal leaves the signer as it was. -/
theorem signer_refused_no_change (s : Signer) (m : Signed ReqBody) (ovr : Option Nat) (e : SErr)
    (h : processSignerRequest s m ovr = .error e) : (s.exec m ovr).1 = s := by
  simp [Signer.exec, h]

/-- A processed request is answered under its own nonce, entry for entry, signed with the
signer's ID key. -/
theorem processed_answers_request (s s' : Signer) (m : Signed ReqBody) (ovr : Option Nat)
    (r : Signed RespBody) (h : processSignerRequest s m ovr = .ok (s', r)) :
    r.signer = s.idKey ∧ r.body = r.clear ∧ r.body.nonce = m.clear.nonce ∧
    keysOf r.body.entries = keysOf m.clear.entries := by
  obtain ⟨_, a, b, _, c, d, _⟩ := processSignerRequest_ok s s' m ovr r h
  exact ⟨a, b, c, d⟩

/-- Every request forwarded to the signer gets exactly one answer (previous theorem: the answers'
children and keys are the requests', in order) and the answer is of the request's kind – a
certificate for an issuance request, a revocation confirmation for a revocation request – never
the `Error` placeholder; if any request cannot be honoured the whole signer request is refused
(`request_processed_iff_signed_by_proxy`). -/
theorem signer_answers_in_kind (s s' : Signer) (m : Signed ReqBody) (ovr : Option Nat)
    (r : Signed RespBody) (h : processSignerRequest s m ovr = .ok (s', r)) :
    ∀ o ∈ r.body.entries, ∃ e ∈ m.clear.entries,
      e.1 = o.1 ∧ e.2.matchesResponse o.2 = true ∧ o.2 ≠ .error := by
  unfold processSignerRequest at h
  by_cases hv : m.validFor s.proxyKey = true
  · simp only [hv, Bool.not_true, Bool.false_eq_true, if_false] at h
    cases ho : ovr.all fun v => decide (s.objects.number < v) with
    | false => simp [ho] at h
    | true =>
      simp only [ho, Bool.not_true, Bool.false_eq_true, if_false] at h
      cases ha : signAll m.clear.resources { objects := s.objects, serial := s.nextSerial } m.clear.entries with
      | error x => simp [ha] at h
      | ok a =>
        simp only [ha, Except.ok.injEq, Prod.mk.injEq] at h
        obtain ⟨_, h2⟩ := h
        subst h2
        intro o ho'
        rcases signAll_kinds _ _ _ _ ha o ho' with h3 | h3
        · cases h3
        · exact h3
  · simp [hv] at h

example :
    let s : Signer := Signer.init 2 1 3 none
    let b : ReqBody := { nonce := 7, entries := [(("a", 10), { kind := .issue, key := 10 })],
                         resources := [("a", [1, 2])] }
    (∃ r, processSignerRequest s { signer := 1, body := b, clear := b } none = .ok r) ∧
    s.exec { signer := 5, body := b, clear := b } none = (s, .error .invalidSignature) ∧
    s.exec { signer := 1, body := b, clear := { b with nonce := 8 } } none = (s, .error .invalidSignature) := by
  intro s b
  refine ⟨⟨_, rfl⟩, ?_, ?_⟩ <;> decide

/-! ## One signer request at a time -/

theorem exec_openN (p : Proxy) (c : Cmd) :
    openN (exec p c).1 + (match (exec p c).2, c with
        | .ok _, .processSignerResponse _ => 1 | _, _ => 0) =
    openN p + (match (exec p c).2, c with
        | .ok _, .makeSignerRequest _ => 1 | _, _ => 0) := by
  cases hp : process p c with
  | error e => rw [exec_error _ _ _ hp]
  | ok evs =>
    rw [exec_ok _ _ _ hp]
    cases c with
    | makeSignerRequest n =>
      simp only [process] at hp
      split at hp
      · cases hp
      · rename_i hno
        cases hp
        have : p.openNonce = none := by simpa using hno
        simp [applyAll, apply, openN, this]
    | processSignerResponse m =>
      obtain ⟨n, i, h1, _, _, _, rfl⟩ := processSignerResponse_ok p m evs hp
      simp [applyAll, apply, openN, h1]
    | addRepository =>
      simp only [process] at hp
      split at hp
      · cases hp
      · cases hp; rfl
    | addSigner i =>
      simp only [process] at hp
      split at hp
      · cases hp
      · cases hp; rfl
    | updateSigner i =>
      simp only [process] at hp
      split at hp
      · cases hp
      · split at hp
        · split at hp
          · cases hp; rfl
          · cases hp
        · cases hp
    | addChild c res =>
      simp only [process] at hp
      split at hp
      · cases hp
      · cases hp; rfl
    | addChildRequest c r =>
      simp only [process, processAddChildRequest] at hp
      split at hp
      · cases hp
      · split at hp
        · split at hp; · cases hp
          split at hp; · cases hp
          split at hp; · cases hp
          cases hp; rfl
        · split at hp; · cases hp
          split at hp; · cases hp
          cases hp; rfl
    | giveChildResponse c k =>
      simp only [process] at hp
      split at hp
      · cases hp
      · split at hp
        · cases hp; rfl
        · cases hp

/-- `MakeSignerRequest` is refused **iff** a request is open. -/
theorem make_refused_iff_open (p : Proxy) (n : Nonce) :
    process p (.makeSignerRequest n) = .error .hasRequest ↔ p.openNonce.isSome = true := by
  simp only [process]
  cases p.openNonce <;> simp

/-- Over every history of commands (any commands, any messages): the number of signer requests
made so far exceeds the number of responses accepted by exactly the number of open requests,
which is 0 or 1.  So there is never more than one request open, every accepted response closes
one, and two requests are never made without an accepted response in between. -/
theorem one_open_request (p : Proxy) (cs : List Cmd) :
    (execAll p cs).made + openN p = (execAll p cs).accepted + openN (execAll p cs).proxy ∧
    openN (execAll p cs).proxy ≤ 1 := by
  have key : ∀ (cs : List Cmd) (t : Tally),
      (cs.foldl execTally t).made + openN t.proxy + t.accepted =
      (cs.foldl execTally t).accepted + openN (cs.foldl execTally t).proxy + t.made := by
    intro cs
    induction cs with
    | nil => intro t; simp only [List.foldl]; omega
    | cons c rest ih =>
      intro t
      simp only [List.foldl]
      have h1 := ih (execTally t c)
      have h2 := exec_openN t.proxy c
      have h3 : (execTally t c).made + openN t.proxy + t.accepted =
          (execTally t c).accepted + openN (execTally t c).proxy + t.made := by
        unfold execTally
        cases hx : exec t.proxy c with
        | mk p' res =>
          rw [hx] at h2
          cases res with
          | error e => cases c <;> simp_all <;> omega
          | ok evs => cases c <;> simp_all <;> omega
      omega
  refine ⟨?_, ?_⟩
  · have := key cs { proxy := p }
    simp only [execAll] at this ⊢
    omega
  · unfold openN; split <;> omega

example :
    let p : Proxy := { idKey := 1, signer := some ⟨2, 3, ⟨5, [], []⟩⟩ }
    let ok : Signed RespBody := { signer := 2, body := ⟨7, ⟨6, [], []⟩, []⟩, clear := ⟨7, ⟨6, [], []⟩, []⟩ }
    let t := execAll p [.makeSignerRequest 7, .makeSignerRequest 8, .processSignerResponse ok,
                        .processSignerResponse ok, .makeSignerRequest 9]
    t.made = 2 ∧ t.accepted = 1 ∧ t.proxy.openNonce = some 9 := by decide

/-! ## Exactly one response per forwarded request, delivered once, to that child -/

/-- Over all histories of the whole system – children's requests arriving through the manager
(including while a signer request is open), signer requests made and fetched any number of
times, any number of honest signers (re-initialised ones, other proxies' signers), and a network
that replays, re-orders, cross-wires and forges whatever it can (`admissible`: only signatures
of honest keys on contents those keys never signed are out of reach) – for every child and key:

* every response the proxy accepted for it has either been handed to that child, once, or is
  still waiting for it: `#answered = #given + #waiting-responses` – none is lost, none is handed
  over twice, and handing over removes it;
* every accepted response used up one stored request of that child for that key:
  `#answered + #waiting-requests ≤ #requests stored` (a repeated request for the same key
  replaces the stored one; nothing is answered that was not asked).
-/
theorem exactly_once (k : Key) (ops : List Op) (s : Sys) (h : run (Sys.init k) ops = some s)
    (ck : CK) :
    cntK s.answered ck = cntK s.given ck + openRespN s.proxy ck ∧
    cntK s.answered ck + openReqN s.proxy ck ≤ cnt s.added ck :=
  (inv_run _ _ ops (inv_init k) h).acct ck

/-- The same in the executable form the driver evaluates on observed traces. -/
theorem exactly_once_exec (k : Key) (ops : List Op) (s : Sys) (h : run (Sys.init k) ops = some s)
    (ck : CK) : exactlyOnceAt s ck = true := by
  obtain ⟨a, b⟩ := exactly_once k ops s h ck
  simp only [exactlyOnceAt, Bool.and_eq_true, beq_iff_eq, decide_eq_true_eq]
  exact ⟨a, b⟩

/-- A response is handed to the child named as sender of the request, it is the stored one for
that child and key, and it is gone afterwards (a second identical request is a new request). -/
theorem delivered_to_that_child_and_removed (p p' : Proxy) (c : Child) (r : Req) (x : Resp)
    (h : taSlowRequest p c r = (p', .response x)) :
    aget p.openResp (c, r.key) = some x ∧ ahas p'.openResp (c, r.key) = false ∧
    (∀ ck, ck ≠ (c, r.key) → aget p'.openResp ck = aget p.openResp ck) ∧
    p'.openReq = p.openReq := by
  have hc := taSlow_cases p c r
  rw [h] at hc
  cases hc with
  | unchanged rep h1 h2 => exact absurd rfl (h1 x)
  | given x' hx hk hm =>
    refine ⟨hx, ?_, ?_, rfl⟩
    · simp [ahas_adel]
    · intro ck hne
      simp only [aget_adel, hne, if_false]

/-- Never a request and a response waiting for the same child and key; no request signed under
the open nonce that is not waiting. -/
theorem no_request_and_response (k : Key) (ops : List Op) (s : Sys)
    (h : run (Sys.init k) ops = some s) (ck : CK) (hr : ahas s.proxy.openReq ck = true) :
    ahas s.proxy.openResp ck = false :=
  (inv_run _ _ ops (inv_init k) h).disj ck hr

/-- Several children, several outstanding requests folded into one signer request: when the proxy
accepts the response – at any point of any admissible history – the response answers pairwise
different (child, key) pairs, each of which had a request waiting and no response waiting; after
it each entry is *the* waiting response of its child and key, with the signer's value; the
answered requests are gone; all other children's and keys' requests and responses are untouched
(in particular requests that arrived while the signer request was open keep waiting). -/
theorem exactly_once_batch (k : Key) (ops : List Op) (s : Sys) (m : Signed RespBody) (evs : List Ev)
    (h : run (Sys.init k) ops = some s) (ha : admissible s (.respond m) = true)
    (hp : process s.proxy (.processSignerResponse m) = .ok evs) :
    (keysOf m.clear.entries).Nodup ∧
    (∀ ck ∈ keysOf m.clear.entries, ahas s.proxy.openReq ck = true ∧
        ahas s.proxy.openResp ck = false ∧ s.proxy.known ck.1 = true) ∧
    (∀ e ∈ m.clear.entries, aget (step s (.respond m)).proxy.openResp e.1 = some e.2) ∧
    (∀ ck, ahas (step s (.respond m)).proxy.openReq ck = true ↔
        ahas s.proxy.openReq ck = true ∧ ck ∉ keysOf m.clear.entries) ∧
    (∀ ck, ck ∉ keysOf m.clear.entries →
        aget (step s (.respond m)).proxy.openResp ck = aget s.proxy.openResp ck) :=
  respond_batch s m evs (inv_run _ _ ops (inv_init k) h) ha hp

/-- Non-vacuity of the batch theorem: children `a` and `b`; `a` has two requests outstanding (a new
key and a revocation of its old one), `b` one; all three are folded into one signer request and
answered by one response; `c`'s request arrives while the signer request is open and keeps
waiting; every child then collects exactly its own answers, once. -/
example :
    let issue (k : Key) : Req := { kind := .issue, key := k }
    let revoke (k : Key) : Req := { kind := .revoke, key := k }
    let sg (b : ReqBody) : Signed ReqBody := { signer := 1, body := b, clear := b }
    let r0 : ReqBody := { nonce := 5, entries := [(("a", 10), issue 10)],
                          resources := [("c", [3]), ("b", [2]), ("a", [1])] }
    let p0 : RespBody := { nonce := 5, objects := { number := 2, issued := [(10, 1)] },
                           entries := [(("a", 10), .issued 1)] }
    let r1 : ReqBody := { nonce := 7, resources := [("c", [3]), ("b", [2]), ("a", [1])],
                          entries := [(("b", 20), issue 20), (("a", 10), revoke 10), (("a", 11), issue 11)] }
    let p1 : RespBody := { nonce := 7, objects := { number := 3, issued := [(11, 3), (20, 2)], revoked := [1] },
                           entries := [(("b", 20), .issued 2), (("a", 10), .revoked), (("a", 11), .issued 3)] }
    let ops : List Op := [
      .signerInit 2 1 3 none, .addSigner 2, .addChild "a" [1], .addChild "b" [2], .addChild "c" [3],
      .childRequest "a" (issue 10), .makeRequest 5, .getRequest, .sign 2 (sg r0) none,
      .respond { signer := 2, body := p0, clear := p0 }, .childRequest "a" (issue 10),
      -- three outstanding requests of two children
      .childRequest "a" (issue 11), .childRequest "a" (revoke 10), .childRequest "b" (issue 20),
      .makeRequest 7, .getRequest,
      .childRequest "c" (issue 30),                -- arrives while the signer request is open
      .sign 2 (sg r1) none,
      .respond { signer := 2, body := p1, clear := p1 },
      .childRequest "b" (issue 20), .childRequest "a" (revoke 10), .childRequest "a" (issue 11),
      .childRequest "b" (issue 20)]                -- asked again: a new request
    (run (Sys.init 1) ops).map (fun s =>
      (s.given.map (·.1), keysOf s.proxy.openResp, keysOf s.proxy.openReq, s.proxy.number)) =
    some ([("a", 11), ("a", 10), ("b", 20), ("a", 10)], [], [("b", 20), ("c", 30)], some 3) := by
  intro issue revoke sg r0 p0 r1 p1 ops
  decide

/-- Non-vacuity: two children, a request added while the signer request is open, the request
fetched twice, both signed, responses delivered out of order, replays, a forged response.  The
run is admissible; `a`'s request is answered once and handed over once, its repetition is a new
request, `b`'s request (added while the signer request was open, not in the accepted response)
is still waiting. -/
example :
    let issue (k : Key) : Req := { kind := .issue, key := k }
    let r1 : ReqBody := { nonce := 7, entries := [(("a", 10), issue 10)],
                          resources := [("b", [2]), ("a", [1])] }
    let r2 : ReqBody := { nonce := 7, entries := [(("b", 20), issue 20), (("a", 10), issue 10)],
                          resources := [("b", [2]), ("a", [1])] }
    let sg (b : ReqBody) : Signed ReqBody := { signer := 1, body := b, clear := b }
    let pb : RespBody := { nonce := 7, objects := { number := 2, issued := [(10, 1)] },
                           entries := [(("a", 10), .issued 1)] }
    let p1 : Signed RespBody := { signer := 2, body := pb, clear := pb }
    let ops : List Op := [
      .signerInit 2 1 3 none, .addSigner 2, .addChild "a" [1], .addChild "b" [2],
      .childRequest "a" (issue 10),            -- stored, 1104
      .makeRequest 7, .getRequest,
      .childRequest "b" (issue 20),            -- stored while the signer request is open
      .childRequest "a" (issue 10),            -- same again: 1101
      .getRequest,
      .sign 2 (sg r1) none, .sign 2 (sg r2) none, .sign 2 (sg r1) none,
      .respond { p1 with signer := 9 },        -- forged: refused
      .respond p1,                             -- accepted
      .respond p1,                             -- replay: refused
      .childRequest "a" (issue 10),            -- handed over
      .childRequest "a" (issue 10),            -- a new request
      .childRequest "b" (issue 20)]            -- still waiting: 1101
    (run (Sys.init 1) ops).map (fun s' =>
      (s'.reqs, [cntK s'.answered ("a", 10), cntK s'.given ("a", 10), cnt s'.added ("a", 10),
       openReqN s'.proxy ("a", 10), cntK s'.answered ("b", 20), openReqN s'.proxy ("b", 20)],
       s'.proxy.openNonce, s'.proxy.number)) =
    some ([r2, r1], [1, 1, 2, 1, 0, 1], none, some 2) := by
  intro issue r1 r2 sg pb p1 ops
  decide

/-! ## Manifest and CRL numbers -/

/-- A processed request without a forced number raises the signer's number by exactly one. -/
theorem signer_number_next (s s' : Signer) (m : Signed ReqBody) (r : Signed RespBody)
    (h : processSignerRequest s m none = .ok (s', r)) :
    s'.objects.number = s.objects.number + 1 ∧ r.body.objects.number = s.objects.number + 1 := by
  obtain ⟨_, _, _, _, _, _, _, _, _, a, b, _⟩ := processSignerRequest_ok s s' m none r h
  rw [a]; exact ⟨b, b⟩

theorem inv_runWith (ok : Sys → Op → Bool) (s s' : Sys) (ops : List Op) (hi : Inv s)
    (hr : runWith ok s ops = some s') : Inv s' := by
  induction ops generalizing s with
  | nil => simp only [runWith, Option.some.injEq] at hr; subst hr; exact hi
  | cons o t ih =>
    simp only [runWith] at hr
    split at hr
    · rename_i hab
      simp only [Bool.and_eq_true] at hab
      exact ih (step s o) (inv_step s o hi hab.1) hr
    · cases hr

theorem numInv_runWith (s s' : Sys) (ops : List Op) (hi : Inv s) (hn : NumInv s)
    (hr : runWith benign s ops = some s') :
    NumInv s' ∧ numLe s.proxy.number s'.proxy.number = true := by
  induction ops generalizing s with
  | nil =>
    simp only [runWith, Option.some.injEq] at hr; subst hr
    refine ⟨hn, ?_⟩
    cases s.proxy.number <;> simp [numLe]
  | cons o t ih =>
    simp only [runWith] at hr
    split at hr
    · rename_i hab
      simp only [Bool.and_eq_true] at hab
      obtain ⟨a, b⟩ := ih (step s o) (inv_step s o hi hab.1) (numInv_step s o hi hn hab.1 (benign_regular s o hab.2)) hr
      refine ⟨a, ?_⟩
      have c := number_step s o hi hn hab.1 hab.2
      revert b c
      cases s.proxy.number <;> cases (step s o).proxy.number <;> cases s'.proxy.number <;>
        simp [numLe] <;> omega
    · cases hr

/- Full statement (false of the code, see `ta_numbers_decrease_by_reinit` below, open finding
   F-C15-2):
     for every admissible run, the number the proxy publishes never decreases.
   What is proved: the same for all runs in which the proxy is not re-associated (`UpdateSigner`)
   with a signer whose manifest number is behind the one the proxy publishes – a signer initialised
   again with the same TA key and a too low initial number; refusing that in the code would stand
   in the way of disaster recovery, so it is left to the maintainers – and in which the first
   association happens while no request is open (`benign`).  Forced manifest numbers, signer
   updates at any time, all replays, re-orderings, cross-wirings, forgeries, concurrent children,
   additional and re-initialised signers are inside the statement. -/
/-- Over every such history the number of the TA's manifest and CRL, as published by the proxy,
never decreases between any two instants … -/
theorem ta_numbers_increase_partial (k : Key) (ops1 ops2 : List Op) (s1 s2 : Sys)
    (h1 : runWith benign (Sys.init k) ops1 = some s1) (h2 : runWith benign s1 ops2 = some s2) :
    numLe s1.proxy.number s2.proxy.number = true := by
  have hi := inv_runWith benign _ _ ops1 (inv_init k) h1
  have hn := (numInv_runWith _ _ ops1 (inv_init k) (numInv_init k) h1).1
  exact (numInv_runWith _ _ ops2 hi hn h2).2

/-- … and every accepted signer response raises it strictly. -/
theorem ta_numbers_increase_on_accept (k : Key) (ops : List Op) (s : Sys) (m : Signed RespBody)
    (evs : List Ev) (h : runWith benign (Sys.init k) ops = some s)
    (ha : admissible s (.respond m) = true)
    (hp : process s.proxy (.processSignerResponse m) = .ok evs) :
    numLt s.proxy.number (step s (.respond m)).proxy.number = true := by
  have hi := inv_runWith benign _ _ ops (inv_init k) h
  have hn := (numInv_runWith _ _ ops (inv_init k) (numInv_init k) h).1
  exact number_accept s m evs hi hn ha hp

/-- **Arbitrary histories.**  Take any history of the proxy, any number of signers (initialised,
re-initialised, belonging to other proxies), the children and the network adversary (replay,
re-order, stale, cross-wired, forged, altered) – `regular` only fixes that the proxy's first
association happens while no signer request is open.  Then at every step the published number
stays or rises, **or** the step is the recorded exception F-C15-2 (`lowReassociation`: the
operator re-associates the proxy with a signer whose manifest number is behind).  The guard is
explicit, nothing else is excluded. -/
theorem ta_numbers_decrease_only_by_reinit (k : Key) (ops : List Op) (s : Sys) (o : Op)
    (h : runWith regular (Sys.init k) ops = some s)
    (ha : admissible s o = true) (hr : regular s o = true) :
    numLe s.proxy.number (step s o).proxy.number = true ∨ lowReassociation s o = true := by
  have hi := inv_runWith' regular _ _ ops (inv_init k) h
  have hn := numInv_regular _ _ ops (inv_init k) (numInv_init k) h
  exact number_step_or s o hi hn ha hr

/-- Outside the guard the statement is false: whenever the exception is taken and the update is
accepted (same TA key, no request open), the published number drops strictly – in every state. -/
theorem reinit_behind_decreases (s : Sys) (id : Key) (t : Signer) (evs : List Ev)
    (ht : aget s.signers id = some t) (hl : lowReassociation s (.updateSigner id) = true)
    (hp : process s.proxy (.updateSigner t.info) = .ok evs) :
    numLt (step s (.updateSigner id)).proxy.number s.proxy.number = true :=
  low_reassociation_decreases s id t evs ht hl hp

/-- Non-vacuity: a regular history with a cross-wired signer (6, initialised for proxy 9: refuses
proxy 1's request), a replayed request, a stale response, and a signer initialised again with the
same TA key and the default number; in the state reached the guard is true for `updateSigner 4`
(the exception, admissible and regular), false for every other step shown. -/
example :
    let b (n : Nat) : ReqBody := { nonce := n }
    let sg (n : Nat) : Signed ReqBody := { signer := 1, body := b n, clear := b n }
    let rs (id n num : Nat) : Signed RespBody :=
      { signer := id, body := { nonce := n, objects := { number := num } },
        clear := { nonce := n, objects := { number := num } } }
    (runWith regular (Sys.init 1) [
        .signerInit 2 1 3 (some 5), .addSigner 2, .signerInit 6 9 8 none,
        .makeRequest 7, .getRequest, .sign 6 (sg 7) none, .sign 2 (sg 7) none, .sign 2 (sg 7) none,
        .respond (rs 2 7 7), .respond (rs 2 7 6),
        .signerInit 4 1 3 none]).map
      (fun s => (s.proxy.number, s.resps.length,
        [lowReassociation s (.updateSigner 4), admissible s (.updateSigner 4), regular s (.updateSigner 4),
         lowReassociation s (.updateSigner 2), lowReassociation s (.makeRequest 8)],
        (step s (.updateSigner 4)).proxy.number)) =
    some (some 7, 2, [true, true, true, false, false], some 1) := by decide

/-- `benign` is exactly: regular, and not the recorded exception. -/
theorem benign_iff (s : Sys) (o : Op) :
    benign s o = true ↔ regular s o = true ∧ lowReassociation s o = false := by
  simp [benign]

/-- The signer's own number rises with every processed request, forced number or not. -/
theorem signer_number_increases (s s' : Signer) (m : Signed ReqBody) (ovr : Option Nat)
    (r : Signed RespBody) (h : processSignerRequest s m ovr = .ok (s', r)) :
    s.objects.number < s'.objects.number := by
  obtain ⟨_, _, _, _, _, _, _, _, _, a, _, b⟩ := processSignerRequest_ok s s' m ovr r h
  rw [a]; exact b

/-- `UpdateSigner` is refused while a signer request is open, nothing changes. -/
theorem update_signer_refused_while_open (p : Proxy) (i : SignerInfo) (n : Nonce)
    (h : p.openNonce = some n) : exec p (.updateSigner i) = (p, .error .hasRequest) := by
  simp [exec, process, h]

/-- Counter-example (open finding F-C15-2, signer re-initialisation): a signer initialised again
with the same TA key starts at number 1 unless told otherwise, `UpdateSigner` checks the TA key
only and takes over the new signer's objects: 5 → 1. -/
theorem ta_numbers_decrease_by_reinit :
    ∃ ops s1 s2 o, run (Sys.init 1) ops = some s1 ∧ admissible s1 o = true ∧ step s1 o = s2 ∧
      s1.proxy.number = some 5 ∧ s2.proxy.number = some 1 := by
  refine ⟨[.signerInit 2 1 3 (some 5), .addSigner 2, .signerInit 4 1 3 none], _, _,
      .updateSigner 4, rfl, by decide, rfl, by decide, by decide⟩

/-! ### The pinned tree (e4e0506a), for the record: fixed findings F-C15-1 and F-C15-3 -/

/-- Pinned tree, F-C15-1 (fixed by 109701d8): `krillta signer process --ta-mft-number-override N`
with `N` below the current number was taken as is, the proxy accepted the response, the published
number went from 5 to 3. -/
theorem pinned_numbers_decrease_by_override :
    ∃ ops s1 s2 o, Pinned.run (Sys.init 1) ops = some s1 ∧ admissible s1 o = true ∧
      Pinned.step s1 o = s2 ∧ s1.proxy.number = some 5 ∧ s2.proxy.number = some 3 := by
  let b : ReqBody := { nonce := 7 }
  let rb : RespBody := { nonce := 7, objects := { number := 3 } }
  refine ⟨[.signerInit 2 1 3 (some 5), .addSigner 2, .makeRequest 7, .getRequest,
      .sign 2 { signer := 1, body := b, clear := b } (some 3)], _, _,
      .respond { signer := 2, body := rb, clear := rb }, rfl, by decide, rfl, by decide, by decide⟩

/-- The same history on the current code: the signer refuses, the response does not exist (it is
not admissible), the number stays. -/
example :
    let b : ReqBody := { nonce := 7 }
    let rb : RespBody := { nonce := 7, objects := { number := 3 } }
    (run (Sys.init 1) [.signerInit 2 1 3 (some 5), .addSigner 2, .makeRequest 7, .getRequest,
        .sign 2 { signer := 1, body := b, clear := b } (some 3)]).map
      (fun s => (s.proxy.number, s.resps.length, admissible s (.respond { signer := 2, body := rb, clear := rb })))
      = some (some 5, 0, false) := by decide

/-- Pinned tree, F-C15-3 (fixed by 764cd480): the signer answers the same request twice (numbers
6 and 7), the proxy is updated with the signer's current info (7) while the request is still open,
then the older response (6) – right nonce, right signer – is accepted: 7 → 6. -/
theorem pinned_numbers_decrease_by_stale_response_after_update :
    ∃ ops s1 s2 o, Pinned.run (Sys.init 1) ops = some s1 ∧ admissible s1 o = true ∧
      Pinned.step s1 o = s2 ∧ s1.proxy.number = some 7 ∧ s2.proxy.number = some 6 := by
  let b : ReqBody := { nonce := 7 }
  let sg : Signed ReqBody := { signer := 1, body := b, clear := b }
  let rb : RespBody := { nonce := 7, objects := { number := 6 } }
  refine ⟨[.signerInit 2 1 3 (some 5), .addSigner 2, .makeRequest 7, .getRequest,
      .sign 2 sg none, .sign 2 sg none, .updateSigner 2], _, _,
      .respond { signer := 2, body := rb, clear := rb }, rfl, by decide, rfl, by decide, by decide⟩

/-- The same history on the current code: the update is refused, the older response raises the
number from 5 to 6, the newer one is then refused (no open request). -/
example :
    let b : ReqBody := { nonce := 7 }
    let sg : Signed ReqBody := { signer := 1, body := b, clear := b }
    let rs (num : Nat) : Signed RespBody :=
      { signer := 2, body := { nonce := 7, objects := { number := num } },
        clear := { nonce := 7, objects := { number := num } } }
    (run (Sys.init 1) [.signerInit 2 1 3 (some 5), .addSigner 2, .makeRequest 7, .getRequest,
        .sign 2 sg none, .sign 2 sg none, .updateSigner 2, .respond (rs 6), .respond (rs 7)]).map
      (·.proxy.number) = some (some 6) := by decide

/-- Non-vacuity of the partial theorem: a benign run with two exchanges, a forced number, a replay
at the signer, a signer update between exchanges and a re-initialised signer taken into use with
an adequate initial number: 5, 6, 10, 20, 21. -/
example :
    let b (n : Nat) : ReqBody := { nonce := n }
    let sg (n : Nat) : Signed ReqBody := { signer := 1, body := b n, clear := b n }
    let rs (id n num : Nat) : Signed RespBody :=
      { signer := id, body := { nonce := n, objects := { number := num } },
        clear := { nonce := n, objects := { number := num } } }
    (runWith benign (Sys.init 1) [
        .signerInit 2 1 3 (some 5), .addSigner 2,
        .makeRequest 7, .getRequest, .sign 2 (sg 7) none, .respond (rs 2 7 6),
        .updateSigner 2,
        .makeRequest 8, .getRequest, .sign 2 (sg 8) (some 10), .sign 2 (sg 8) (some 3),
        .sign 2 (sg 8) none, .respond (rs 2 8 10), .respond (rs 2 8 11),
        .signerInit 4 1 3 (some 20), .updateSigner 4,
        .makeRequest 9, .getRequest, .sign 4 (sg 9) none, .respond (rs 4 9 21)]).map
      (·.proxy.number) = some (some 21) := by decide

end KM.Props.C15
