/-
C15 (source tie) — the hand-written model of the trust-anchor proxy's two gate-keeping commands
(`KM.Ta.processSignerResponse`, the `makeSignerRequest` arm of `KM.Ta.process`, Ta/Proxy.lean) equals
the definitions that the translator `pure_fns` regenerates from `/repo/src/server/taproxy.rs` on every
run (`Generated/PureFnsC15.lean`: `KM.Gen.C15.TrustAnchorProxy.process_signer_response`,
`…process_make_signer_request`).

`response_accepted_iff` (a response is accepted iff a request is open ∧ its nonce is that request's ∧
it is validly signed by the associated signer; otherwise nothing changes) and `one_open_request`
(Props/C15.lean) are about these two functions.  With the theorems below the order and the content of
the guards are tied to the Rust statements: accepting without an open request, comparing the nonce
after the signature (or not at all), validating against another key than the associated signer's,
accepting when validation fails, allowing a second open request – each such edit changes the generated
definition and this file stops checking.

Instantiation: nonces ↦ `Nat`, the associated signer ↦ `SignerInfo`, `response.validate(&signer.id)` ↦
`Signed.validFor m s.idKey` (as `Except`), the three errors ↦ the model's `Err`, the accepted event
list ↦ `[.signerResponseReceived m.clear]`.
-/
import KrillModel.Generated.PureFnsC15
import KrillModel.Ta.Proxy
import KrillModel.Ta.Signer
namespace KM.Props.C15Src
open KM.Ta

/-- `response.validate(&signer.id)?` with the model's validity predicate. -/
def validateAs (m : Signed RespBody) (s : SignerInfo) : Except Err Unit :=
  if m.validFor s.idKey then .ok () else .error .invalidSignature

/-- The generated body with the model's proxy state and message plugged in. -/
abbrev genSignerResponse (p : Proxy) (m : Signed RespBody) : Except Err (List Ev) :=
  KM.Gen.C15.TrustAnchorProxy.process_signer_response (ν := Nonce) (σ := SignerInfo) (ε := Err) (α := List Ev)
    p.openNonce p.signer m.clear.nonce (validateAs m) .hasNoRequest .nonceMismatch .noSigner
    [.signerResponseReceived m.clear]

/-- `TrustAnchorProxy::process_signer_response` as translated from the source = the model, for every
proxy state and every (honest, replayed, stale, cross-wired, modified) message. -/
theorem gen_process_signer_response_eq_model (p : Proxy) (m : Signed RespBody) :
    genSignerResponse p m = processSignerResponse p m := by
  unfold genSignerResponse KM.Gen.C15.TrustAnchorProxy.process_signer_response processSignerResponse
  cases p.openNonce with
  | none => rfl
  | some n =>
    by_cases hn : m.clear.nonce = n
    · simp only [hn, ne_eq, not_true_eq_false, if_false]
      cases p.signer with
      | none => rfl
      | some s =>
        simp only [validateAs]
        cases m.validFor s.idKey <;> rfl
    · simp only [ne_eq, hn, not_false_eq_true, if_true]

/-- `TrustAnchorProxy::process_make_signer_request` as translated = the `makeSignerRequest` arm. -/
theorem gen_process_make_signer_request_eq_model (p : Proxy) (n : Nonce) :
    KM.Gen.C15.TrustAnchorProxy.process_make_signer_request (ν := Nonce) (ε := Err) (α := List Ev)
      p.openNonce .hasRequest [.signerRequestMade n] = process p (.makeSignerRequest n) := by
  unfold KM.Gen.C15.TrustAnchorProxy.process_make_signer_request process
  cases p.openNonce <;> rfl

/-- `TrustAnchorProxy::process_give_child_response` as translated = the `giveChildResponse` arm: a response is
handed over only while the proxy holds one for that child and key – otherwise the command is REFUSED, which is what
makes a second, overlapping delivery fail ("delivered to that child exactly once", `exactly_once`). -/
theorem gen_process_give_child_response_eq_model (p : Proxy) (c : Child) (k : Key) :
    KM.Gen.C15.TrustAnchorProxy.process_give_child_response (C := Unit) (ε := Err) (α := List Ev)
      (if p.known c then .ok () else .error .childUnknown) (fun _ => ahas p.openResp (c, k))
      [.childResponseGiven c k] .noResponse = process p (.giveChildResponse c k) := by
  unfold KM.Gen.C15.TrustAnchorProxy.process_give_child_response process
  cases hk : p.known c
  · simp [hk]
  · cases ho : ahas p.openResp (c, k) <;> simp [hk, ho]

/-- Hence the generated body accepts exactly under the three conditions of the property. -/
theorem gen_accepts_iff (p : Proxy) (m : Signed RespBody) :
    (∃ evs, genSignerResponse p m = .ok evs) ↔
      ∃ s, p.openNonce = some m.clear.nonce ∧ p.signer = some s ∧ m.validFor s.idKey = true := by
  rw [gen_process_signer_response_eq_model]
  unfold processSignerResponse
  cases ho : p.openNonce with
  | none => simp
  | some n =>
    by_cases hn : m.clear.nonce = n
    · cases hs : p.signer with
      | none => simp [hn]
      | some s => cases hv : m.validFor s.idKey <;> simp [hn, hv]
    · have : ¬ n = m.clear.nonce := fun h => hn h.symm
      simp [hn, this]

/-! non-vacuity: an honest response is accepted; a replay after completion, a stale nonce and a
foreign signature are refused with the three different errors -/
def sig0 : SignerInfo := ⟨7, 1, ⟨1, [], []⟩⟩
def honest : Signed RespBody := ⟨7, ⟨42, ⟨2, [], []⟩, []⟩, ⟨42, ⟨2, [], []⟩, []⟩, true⟩
example : genSignerResponse { idKey := 3, signer := some sig0, openNonce := some 42 } honest
    = .ok [.signerResponseReceived honest.clear] := by decide
example : genSignerResponse { idKey := 3, signer := some sig0, openNonce := none } honest
    = .error .hasNoRequest := by decide
example : genSignerResponse { idKey := 3, signer := some sig0, openNonce := some 43 } honest
    = .error .nonceMismatch := by decide
example : genSignerResponse { idKey := 3, signer := some sig0, openNonce := some 42 } { honest with signer := 8 }
    = .error .invalidSignature := by decide

/-! ## The signer's two guards (`TrustAnchorSigner::process_signer_request`)

The statements in front of the signing - the request validates under the associated proxy's identity; a manifest-number
override must EXCEED the signer's current manifest / CRL number - are regenerated as
`KM.Gen.C15.TrustAnchorSigner.process_signer_request` (everything from `let mut objects = self.objects.clone();` on is the
parameter `rest`).  With the model's parts plugged in this is the model's `processSignerRequest` (`ta_numbers_increase_partial`
and `request_processed_iff_signed_by_proxy` in Props/C15.lean are about it): `<` instead of `<=`, a comparison with another
number than the signer's own current one (seed C15-r6: the number of the last exchange, 1 when there has been none), the
override check before the validation - each such edit changes the generated definition or its name map and this file stops
checking. -/

/-- The signing itself, as the model has it (the continuation after the two guards). -/
def signerRest (s : Signer) (m : Signed ReqBody) (override : Option Nat) : Except SErr (Signer × Signed RespBody) :=
  match signAll m.clear.resources { objects := s.objects, serial := s.nextSerial } m.clear.entries with
  | .error e => .error e
  | .ok a =>
    let objects := a.objects.republish override
    let rb : RespBody := { nonce := m.clear.nonce, objects := objects, entries := a.out }
    .ok ({ s with objects := objects, exchanges := s.exchanges ++ [(m.clear, rb)],
                  nextSerial := a.serial },
         { signer := s.idKey, body := rb, clear := rb, fresh := true })

theorem gen_process_signer_request_eq_model (s : Signer) (m : Signed ReqBody) (override : Option Nat) :
    KM.Gen.C15.TrustAnchorSigner.process_signer_request
        (if m.validFor s.proxyKey then Except.ok () else Except.error SErr.invalidSignature)
        s.objects.number (fun _ _ => SErr.overrideTooLow) (signerRest s m override) override =
      processSignerRequest s m override := by
  unfold KM.Gen.C15.TrustAnchorSigner.process_signer_request processSignerRequest signerRest
  by_cases hv : m.validFor s.proxyKey = true
  · simp only [hv, if_true]
    cases override with
    | none =>
      simp only [Option.all_none, Bool.not_true, Bool.false_eq_true, if_false]
      cases signAll m.clear.resources { objects := s.objects, serial := s.nextSerial } m.clear.entries <;> rfl
    | some f =>
      by_cases hf : f ≤ s.objects.number
      · have : ¬ s.objects.number < f := by omega
        simp [hf, this]
      · have : s.objects.number < f := by omega
        simp only [hf, if_false, Option.all_some, this, decide_true, Bool.not_true, Bool.false_eq_true]
        cases signAll m.clear.resources { objects := s.objects, serial := s.nextSerial } m.clear.entries <;> rfl
  · simp [hv]

/-- An accepted override is strictly above the signer's current number, whatever that number came from (an earlier
exchange, an override, or the number the signer was INITIALISED with). -/
theorem accepted_override_exceeds_current (s : Signer) (m : Signed ReqBody) (f : Nat)
    (r : Signer × Signed RespBody) (h : processSignerRequest s m (some f) = .ok r) : s.objects.number < f := by
  rw [← gen_process_signer_request_eq_model] at h
  unfold KM.Gen.C15.TrustAnchorSigner.process_signer_request at h
  by_cases hv : m.validFor s.proxyKey = true
  · simp only [hv, if_true] at h
    by_cases hf : f ≤ s.objects.number
    · simp [hf] at h
    · omega
  · simp [hv] at h

/-- Non-vacuity: a signer initialised at manifest number 42 whose FIRST request (no exchange yet) carries an override -
7 and 42 are refused, 43 is accepted and becomes the number (the scenario of corpus `proto-ta/first-override-after-init-number`;
seed C15-r6 accepted 7). -/
example :
    let s : Signer := { idKey := 4, proxyKey := 2, taKey := 1, objects := { number := 42 } }
    let m : Signed ReqBody := { signer := 2, body := { nonce := 3 }, clear := { nonce := 3 } }
    processSignerRequest s m (some 7) = .error .overrideTooLow ∧
    processSignerRequest s m (some 42) = .error .overrideTooLow ∧
    (processSignerRequest s m (some 43)).toOption.map (·.1.objects.number) = some 43 ∧
    s.exchanges = [] := by decide

end KM.Props.C15Src
