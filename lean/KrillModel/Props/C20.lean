/-
C20 — Only genuine credentials authenticate, and only as the configured identity.
Property theorems only; helper lemmas live in `KrillModel.Http.AuthLemmas` / `Http.Lemmas`.

The model is the provider chain of authorizer.rs as written (`KM.Http.authenticate`), the config-file
provider's `login`/`authenticate`, and the session cache with symbolic AEAD (`KM.Http.Session`).
Cryptographic strength (ChaCha20-Poly1305, scrypt) is assumed: a token verifies under a key iff it
was sealed under that key (term equality), hashes are equal iff their inputs are.

Clause → theorem (property text of C20 in /verif/properties.jsonl)

| clause of the property                                                        | theorems |
|---|---|
| a request acts as a user only if it carries the configured admin token verbatim (admin role) | `authenticates_iff` (first disjunct of `BearerAccepts`), `admin_token_verbatim` |
| … or a bearer token that this instance's login issued for a configured user name and password (the role configured for that user) | `authenticates_iff`, `issued_genuine`, `session_identity_is_configured` (under the AEAD assumption `Unforgeable`), `issued_token_authenticates` |
| … or arrives over the Unix socket from a system user mapped in the configuration (that role) | `authenticates_iff` (`PeerAccepts`, with the fall-through explicit), `authenticates_tcp`, `unix_identity_ignores_gid`, `unix_identity_is_mapped_user` |
| login succeeds exactly for a configured user with the matching password whose role permits login | `login_iff`, `login_identity` (full strength), `login_denied_iff`, `login_trichotomy` |
| every other credential – unknown user, wrong password                         | `login_unknown_user`, `login_wrong_password`, `junk_hash_never_logs_in` (an entry whose stored `password_hash` is not the hex text of a hash – locked `"!"`, empty, truncated, one character too long, upper-case hex, non-hex – admits **no** password) |
| the admin token *verbatim*; what "the bearer token of a request" is            | `get_bearer_token_spec` (header parsing of httpclient.rs), `near_miss_same_iff` (of the neighbourhood of a credential – prefixes, extensions, one changed character, other case, white space around it, nothing – exactly the members that only add white space are the same credential), `near_miss_admin_token`, `near_miss_rejected` |
| "the role configured for that user" / "that role": which role map                | `role_map_is_configured` (the `[auth_roles]` of the file if present, else the built-in roles – never a union), `identity_role_is_configured`, `login_role_is_configured`, `undefined_role_never_logs_in`, `start_refused_iff` (which configurations the daemon accepts at all) |
| both provider configurations                                                   | `authenticates_iff` (config-file provider primary, admin token as the legacy arm), `authenticates_iff_admin_token` (admin-token provider primary), `genuine_iff` |
| … truncated, bit-flipped or re-encoded token, token issued under another instance's key – authenticates nobody | `mutated_token_rejected`, `mutations_rejected`, `not_issued_rejected`, `cache_key_is_whole_token`, `injective_key_sound` / `noninjective_key_unsound` (a cache keyed by less than the whole token) |
| … and is refused on every route that requires a permission                    | `refused_everywhere`, `mutated_token_refused_everywhere`, `request_decision` |
| only as the configured identity (title)                                       | `actor_is_identity`, `login_identity`, `session_identity_is_configured` |
| quantifier: every bearer string derived by mutation, arbitrary strings        | the theorems above range over every `Wire` |
| quantifier: every name/password pair incl. case, white space, normalisation   | `login_iff`, `login_identity` for an arbitrary normalisation function |
| quantifier: every user/role configuration, both transports                    | every theorem is for an arbitrary `Config` – the stored `password_hash` of an entry is an arbitrary string (`StoredHash`: the text of a hash term, or `junk`); `Transport` is a parameter |

Session lifetime (not demanded by the property text; stated as the code is):
| expiry      | `session_status_spec`; the config-file provider issues sessions without expiry and never asks: `config_file_sessions_do_not_expire`, `issued_token_authenticates` (after every later history) |
| logout      | `logout_changes_no_decision`, `logout_drops_entry_of_invalid_token` |
| the cache   | part of the model (`SessState.cache`); `cache_sound_invariant`, `authenticate_state_irrelevant`: a cached session is only ever what the token itself decodes to, so it cannot outlive the token's own validity, whatever is swept, logged out or restarted |
-/
import KrillModel.Http.AuthLemmas
import KrillModel.Http.BearerLemmas
import KrillModel.Http.AuthPinned
import KrillModel.Http.ConfigModel
import KrillModel.Http.Lemmas
import KrillModel.Props.C13
namespace KM.Props.C20
open KM.Generated KM.Http

/-! ## Who a bearer string / a socket peer is accepted as -/

/-- The bearer string `w` is a credential of identity `id` with `role`: the configured admin token
verbatim (admin user, admin role), or the canonical encoding of a session sealed under this
instance's key (the session's user, the role its role name is configured as). -/
def BearerAccepts (cfg : Config) (w : Wire) (id : String) (role : Role) : Prop :=
  (w = .text cfg.adminToken ∧ id = adminTokenUser ∧ role = adminRole) ∨
  (w ≠ .text cfg.adminToken ∧
    ∃ n u r, w = .sealed true cfg.key n (.session u r) ∧ id = u ∧ cfg.roles.lookup r = some role)

/-- The request arrives over the Unix socket from a system user mapped in the configuration. -/
def PeerAccepts (cfg : Config) (t : Transport) (id : String) (role : Role) : Prop :=
  ∃ peer rn, t = .unix peer ∧ cfg.unixUsers.lookup peer = some rn ∧
    cfg.roles.lookup rn = some role ∧ id = peer

/-- The outcome of the first two arms of the chain (legacy admin token, then primary provider). -/
def bearerStage (cfg : Config) (st : SessState) (h : Header) : AuthRes :=
  if (legacyProvider cfg h).isOk then legacyProvider cfg h else (primaryProvider cfg st h).1

theorem authenticate_fst (cfg : Config) (st : SessState) (h : Header) (t : Transport) :
    (authenticate cfg st h t).1 =
      if (bearerStage cfg st h).isOk then bearerStage cfg st h else unixProvider cfg t := by
  unfold authenticate bearerStage
  by_cases hl : (legacyProvider cfg h).isOk = true <;> simp [hl]

theorem unixProvider_ok_iff (cfg : Config) (t : Transport) (id : String) (role : Role) :
    unixProvider cfg t = .ok id role ↔ PeerAccepts cfg t id role := by
  unfold unixProvider PeerAccepts
  cases t with
  | tcp => simp
  | unix peer =>
    simp only [Transport.unix.injEq]
    cases h1 : cfg.unixUsers.lookup peer with
    | none =>
      simp only [reduceCtorEq, false_iff, not_exists, not_and]
      intro p rn hp hrn
      subst hp
      rw [h1] at hrn
      cases hrn
    | some rn =>
      simp only
      cases h2 : cfg.roles.lookup rn with
      | none =>
        simp only [reduceCtorEq, false_iff, not_exists, not_and]
        intro p rn' hp hrn
        subst hp
        rw [h1] at hrn
        simp only [Option.some.injEq] at hrn
        subst hrn
        simp [h2]
      | some r =>
        simp only [AuthRes.ok.injEq]
        constructor
        · intro ⟨h3, h4⟩
          subst h3 h4
          exact ⟨peer, rn, rfl, h1, h2, rfl⟩
        · intro ⟨p, rn', hp, hrn, hr, hid⟩
          subst hp
          rw [h1] at hrn
          simp only [Option.some.injEq] at hrn
          subst hrn
          rw [h2] at hr
          simp only [Option.some.injEq] at hr
          exact ⟨hid.symm, hr⟩

theorem bearerStage_ok_iff (cfg : Config) (hcf : cfg.authType = .configFile) (st : SessState)
    (hs : CacheSound cfg.key st) (h : Header) (id : String) (role : Role) :
    bearerStage cfg st h = .ok id role ↔ ∃ w, h = .bearer w ∧ BearerAccepts cfg w id role := by
  unfold bearerStage legacyProvider primaryProvider
  simp only [hcf]
  cases h with
  | absent => simp [adminProvider, AuthRes.isOk, configFileProvider]
  | bearer w =>
    simp only [Header.bearer.injEq, exists_eq_left']
    by_cases hw : w = .text cfg.adminToken
    · subst hw
      simp only [adminProvider, if_true, AuthRes.isOk, AuthRes.ok.injEq, BearerAccepts, true_and,
        ne_eq, not_true_eq_false, false_and, or_false]
      exact ⟨fun ⟨a, b⟩ => ⟨a.symm, b.symm⟩, fun ⟨a, b⟩ => ⟨a.symm, b.symm⟩⟩
    · simp only [adminProvider, hw, if_false, AuthRes.isOk, Bool.false_eq_true, BearerAccepts,
        false_and, false_or, ne_eq, not_false_eq_true, true_and]
      rw [configFileProvider_fst cfg st _ hs]
      simp only
      cases hd : decodeFresh cfg.key w with
      | none =>
        simp only [reduceCtorEq, false_iff, not_exists, not_and]
        intro n u r hwe
        have : decodeFresh cfg.key w = some ⟨u, r⟩ := (decodeFresh_some_iff _ _ _).mpr ⟨n, hwe⟩
        rw [hd] at this
        cases this
      | some s =>
        obtain ⟨n, hn⟩ := (decodeFresh_some_iff _ _ _).mp hd
        simp only [authFromSession]
        cases hr : cfg.roles.lookup s.role with
        | none =>
          simp only [reduceCtorEq, false_iff, not_exists, not_and]
          intro n' u r hwe _
          rw [hn] at hwe
          simp only [Wire.sealed.injEq, true_and, Plain.session.injEq] at hwe
          obtain ⟨_, _, hr'⟩ := hwe
          rw [← hr', hr]
          simp
        | some ro =>
          simp only [AuthRes.ok.injEq]
          constructor
          · intro ⟨h1, h2⟩
            subst h1 h2
            exact ⟨n, s.user, s.role, hn, rfl, hr⟩
          · intro ⟨n', u, r, hwe, hid, hro⟩
            rw [hn] at hwe
            simp only [Wire.sealed.injEq, true_and, Plain.session.injEq] at hwe
            obtain ⟨_, hu, hr'⟩ := hwe
            subst hid
            rw [← hr', hr] at hro
            simp only [Option.some.injEq] at hro
            exact ⟨hu, hro⟩

/-! ## `authenticates_iff` -/

/-- **A request authenticates as `(id, role)` iff** its bearer string is the admin token verbatim
(admin) or a token sealed under this instance's key (the session's user with the configured role) –
**or no bearer string of the request is accepted, the transport is the Unix socket and the peer is
mapped**.  The fall-through is explicit: a request whose bearer string *failed* (or that has none)
is still promoted to the mapped peer's identity on the Unix socket – and to nobody else's, and never
on TCP. -/
theorem authenticates_iff (cfg : Config) (hcf : cfg.authType = .configFile) (st : SessState)
    (hs : CacheSound cfg.key st) (h : Header) (t : Transport) (id : String) (role : Role) :
    (authenticate cfg st h t).1 = .ok id role ↔
      (∃ w, h = .bearer w ∧ BearerAccepts cfg w id role) ∨
      ((∀ w, h = .bearer w → ∀ id' role', ¬ BearerAccepts cfg w id' role') ∧
        PeerAccepts cfg t id role) := by
  rw [authenticate_fst]
  have hstage := bearerStage_ok_iff cfg hcf st hs h
  cases hb : bearerStage cfg st h with
  | ok id' role' =>
    have hacc := (hstage id' role').mp hb
    simp only [AuthRes.isOk, if_true]
    rw [← hb, hstage]
    constructor
    · intro h'; exact Or.inl h'
    · intro h'
      rcases h' with h' | ⟨hno, _⟩
      · exact h'
      · obtain ⟨w, hw, ha⟩ := hacc
        exact absurd ha (hno w hw id' role')
  | none =>
    have hno : ∀ w, h = .bearer w → ∀ id' role', ¬ BearerAccepts cfg w id' role' := by
      intro w hw id' role' ha
      have := (hstage id' role').mpr ⟨w, hw, ha⟩
      rw [hb] at this
      cases this
    simp only [AuthRes.isOk, Bool.false_eq_true, if_false, unixProvider_ok_iff]
    constructor
    · intro hp; exact Or.inr ⟨hno, hp⟩
    · intro h'
      rcases h' with ⟨w, hw, ha⟩ | ⟨_, hp⟩
      · exact absurd ha (hno w hw id role)
      · exact hp
  | err =>
    have hno : ∀ w, h = .bearer w → ∀ id' role', ¬ BearerAccepts cfg w id' role' := by
      intro w hw id' role' ha
      have := (hstage id' role').mpr ⟨w, hw, ha⟩
      rw [hb] at this
      cases this
    simp only [AuthRes.isOk, Bool.false_eq_true, if_false, unixProvider_ok_iff]
    constructor
    · intro hp; exact Or.inr ⟨hno, hp⟩
    · intro h'
      rcases h' with ⟨w, hw, ha⟩ | ⟨_, hp⟩
      · exact absurd ha (hno w hw id role)
      · exact hp

/-- The identity of a Unix-socket peer is the system user of its **effective uid** alone: the peer's
gid (an input of the step, `PeerCred.gid`) never matters – two peers with the same user and different
gids get the same answer, in every state, for every header. -/
theorem unix_identity_ignores_gid (cfg : Config) (st : SessState) (h : Header) (user : String)
    (g1 g2 : Nat) :
    authenticate cfg st h (transportOf ⟨user, g1⟩) = authenticate cfg st h (transportOf ⟨user, g2⟩) :=
  rfl

/-- … and it is that user's mapping that decides: a peer authenticates (without an accepted bearer
string) iff its user is mapped, as the role mapped for *that* user. -/
theorem unix_identity_is_mapped_user (cfg : Config) (hcf : cfg.authType = .configFile)
    (st : SessState) (hs : CacheSound cfg.key st) (c : PeerCred) (id : String) (role : Role) :
    (authenticate cfg st .absent (transportOf c)).1 = .ok id role ↔
      id = c.user ∧ ∃ rn, cfg.unixUsers.lookup c.user = some rn ∧ cfg.roles.lookup rn = some role := by
  rw [authenticates_iff cfg hcf st hs]
  constructor
  · intro h
    rcases h with ⟨w, hw, _⟩ | ⟨_, p, rn, hp, h1, h2, h3⟩
    · cases hw
    · simp only [transportOf, Transport.unix.injEq] at hp
      subst hp
      exact ⟨h3, rn, h1, h2⟩
  · intro ⟨hid, rn, h1, h2⟩
    exact Or.inr ⟨(fun w hw => by cases hw), c.user, rn, rfl, h1, h2, hid⟩

/-- On TCP (no peer) only a bearer string authenticates. -/
theorem authenticates_tcp (cfg : Config) (hcf : cfg.authType = .configFile) (st : SessState)
    (hs : CacheSound cfg.key st) (h : Header) (id : String) (role : Role) :
    (authenticate cfg st h .tcp).1 = .ok id role ↔
      ∃ w, h = .bearer w ∧ BearerAccepts cfg w id role := by
  rw [authenticates_iff cfg hcf st hs]
  constructor
  · intro h'
    rcases h' with h' | ⟨_, p, _, hp, _⟩
    · exact h'
    · cases hp
  · intro h'; exact Or.inl h'

/-! ## Histories: the cache never matters, issued tokens are genuine -/

/-- After every history of requests, logins, logouts and sweeps the cache is sound, so
`authenticates_iff` applies to every reachable state. -/
theorem cache_sound_invariant (norm : String → String) (cfg : Config) (ops : List Op) :
    CacheSound cfg.key (run norm cfg ops) :=
  foldl_sound norm cfg ops {} (by intro e he; cases he)

/-- Every token `login` has handed out is a session sealed under this instance's key, under a
nonce already used, for a *configured* user, carrying that user's configured role, which allows
`login`. -/
def IssuedGenuine (cfg : Config) (st : SessState) : Prop :=
  ∀ w ∈ st.issued, ∃ n u e r, n < st.nonce ∧ w = .sealed true cfg.key n (.session u e.role) ∧
    cfg.users.lookup u = some e ∧ cfg.roles.lookup e.role = some r ∧
    r.isAllowed .Login none = true

theorem issued_genuine_step (norm : String → String) (cfg : Config) (st : SessState) (op : Op)
    (hi : IssuedGenuine cfg st) : IssuedGenuine cfg (step norm cfg st op) := by
  have same : ∀ st' : SessState, st'.issued = st.issued ∧ st'.nonce = st.nonce →
      IssuedGenuine cfg st' := by
    intro st' ⟨h1, h2⟩ w hw
    rw [h1] at hw
    rw [h2]
    exact hi w hw
  cases op with
  | auth h t => exact same _ (authenticate_ghost cfg st h t)
  | sweep k => exact same _ ⟨rfl, rfl⟩
  | logout h =>
    cases h with
    | absent => exact hi
    | bearer w => exact same _ (configFileProvider_ghost cfg (st.remove w) (.bearer w))
  | login b =>
    simp only [step]
    rcases login_state norm cfg st b with ⟨id, role, tok, hok, hst, _⟩ | ⟨_, hst⟩
    · rw [hst]
      obtain ⟨raw, pw, u, r, _, hid, hu, _, hrole, hr, hal, _⟩ :=
        (login_ok_iff norm cfg st b id role tok).mp hok
      intro w hw
      simp only [encode, List.mem_cons] at hw ⊢
      rcases hw with rfl | hw
      · subst hrole
        exact ⟨st.nonce, id, u, r, Nat.lt_succ_self _, rfl, hu, hr, hal⟩
      · obtain ⟨n, u', e', r', hn, rest⟩ := hi w hw
        exact ⟨n, u', e', r', Nat.lt_succ_of_lt hn, rest⟩
    · rw [hst]; exact hi

theorem issued_genuine (norm : String → String) (cfg : Config) (ops : List Op) :
    IssuedGenuine cfg (run norm cfg ops) := by
  unfold run
  suffices h : ∀ st, IssuedGenuine cfg st → IssuedGenuine cfg (ops.foldl (step norm cfg) st) from
    h {} (by intro w hw; cases hw)
  induction ops with
  | nil => intro st h; exact h
  | cons op ops ih => intro st h; exact ih _ (issued_genuine_step norm cfg st op h)

/-- The AEAD assumption for a bearer string `w` in state `st`: if `w` verifies under this
instance's key, this instance produced it – i.e. `login` issued it. -/
def Unforgeable (cfg : Config) (st : SessState) (w : Wire) : Prop :=
  ∀ n pt, w = .sealed true cfg.key n pt → w ∈ st.issued

/-- Under that assumption, in every reachable state: a session token that authenticates was issued
by this instance's `login` for a configured user, and the request acts as exactly that user with
the role configured for that user. -/
theorem session_identity_is_configured (norm : String → String) (cfg : Config) (ops : List Op)
    (w : Wire) (id : String) (role : Role) (hna : w ≠ .text cfg.adminToken)
    (hunf : Unforgeable cfg (run norm cfg ops) w) (hacc : BearerAccepts cfg w id role) :
    w ∈ (run norm cfg ops).issued ∧
    ∃ e, cfg.users.lookup id = some e ∧ cfg.roles.lookup e.role = some role := by
  rcases hacc with ⟨h, _⟩ | ⟨_, n, u, r, hw, hid, hr⟩
  · exact absurd h hna
  · have hiss := hunf n _ hw
    refine ⟨hiss, ?_⟩
    obtain ⟨n', u', e, r', _, hw', hu, _, _⟩ := issued_genuine norm cfg ops w hiss
    rw [hw] at hw'
    simp only [Wire.sealed.injEq, true_and, Plain.session.injEq] at hw'
    obtain ⟨_, hu', hr'⟩ := hw'
    subst hid
    rw [hu']
    rw [hr'] at hr
    exact ⟨e, hu, hr⟩

/-! ## Session lifetime: expiry, logout, and the cache -/

/-- With a sound cache, what a request authenticates as does not depend on the session state at
all: not on what is cached, not on what was swept, logged out or issued. -/
theorem authenticate_state_irrelevant (cfg : Config) (st1 st2 : SessState)
    (h1 : CacheSound cfg.key st1) (h2 : CacheSound cfg.key st2) (h : Header) (t : Transport) :
    (authenticate cfg st1 h t).1 = (authenticate cfg st2 h t).1 := by
  have hb : bearerStage cfg st1 h = bearerStage cfg st2 h := by
    unfold bearerStage primaryProvider
    cases cfg.authType with
    | adminToken => rfl
    | configFile =>
      simp only [configFileProvider_fst cfg st1 h h1, configFileProvider_fst cfg st2 h h2]
  rw [authenticate_fst, authenticate_fst, hb]

/-- **A cached session never outlives its token.**  After every history of requests, logins,
logouts and sweeps, every cache entry is exactly what its token decodes to without the cache;
consequently emptying the cache (restart, sweep, logout) changes no decision, and keeping an entry
never extends one. -/
theorem cache_never_outlives (norm : String → String) (cfg : Config) (ops : List Op) :
    (∀ e ∈ (run norm cfg ops).cache, decodeFresh cfg.key e.1 = some e.2) ∧
    ∀ h t, (authenticate cfg (run norm cfg ops) h t).1 = (authenticate cfg {} h t).1 :=
  ⟨cache_sound_invariant norm cfg ops, fun h t =>
    authenticate_state_irrelevant cfg _ _ (cache_sound_invariant norm cfg ops)
      (by intro e he; cases he) h t⟩

/-- Logout (of any bearer string) changes no later decision: the config-file provider's tokens are
self-contained, logging out only drops the cache entry (and a valid token is put straight back by
the authentication the logout handler performs for its log line). -/
theorem logout_changes_no_decision (cfg : Config) (st : SessState) (hs : CacheSound cfg.key st)
    (hl h : Header) (t : Transport) :
    (authenticate cfg (logoutConfigFile cfg st hl) h t).1 = (authenticate cfg st h t).1 :=
  authenticate_state_irrelevant cfg _ _ (logout_sound cfg st hl hs) hs h t

/-- After logging out with a string that is not a valid token of this instance, no cache entry is
keyed by that string. -/
theorem logout_drops_entry_of_invalid_token (cfg : Config) (st : SessState) (w : Wire)
    (hw : decodeFresh cfg.key w = none) :
    ∀ e ∈ (logoutConfigFile cfg st (.bearer w)).cache, e.1 ≠ w := by
  have hrem : ∀ e ∈ (st.remove w).cache, e.1 ≠ w := by
    intro e he
    simp only [SessState.remove, List.mem_filter, bne_iff_ne, ne_eq] at he
    exact he.2
  have hlook : (st.remove w).cache.lookup w = none := by
    cases hl : (st.remove w).cache.lookup w with
    | none => rfl
    | some s => exact absurd rfl (hrem _ (lookup_mem _ _ _ hl))
  simp only [logoutConfigFile, configFileProvider, decode, hlook, hw]
  exact hrem

/-- `ClientSession::status`, for all start times, maximum ages and instants: without expiry always
active; otherwise (from the start time on) expired iff older than the maximum age, and never
"active" beyond half of it. -/
theorem session_status_spec (start now : Nat) :
    sessionStatus start none now = some .active ∧
    ∀ maxAge, start ≤ now →
      (sessionStatus start (some maxAge) now = some .expired ↔ now - start > maxAge) ∧
      (sessionStatus start (some maxAge) now = some .active ↔ now - start ≤ maxAge / 2) ∧
      (sessionStatus start (some maxAge) now = some .needsRefresh ↔
        maxAge / 2 < now - start ∧ now - start ≤ maxAge) := by
  refine ⟨rfl, ?_⟩
  intro maxAge hle
  have hnl : ¬ now < start := Nat.not_lt.mpr hle
  have hhalf : maxAge / 2 ≤ maxAge := Nat.div_le_self _ _
  simp only [sessionStatus, hnl, if_false]
  by_cases h1 : now - start > maxAge
  · have h2 : now - start > maxAge / 2 := Nat.lt_of_le_of_lt hhalf h1
    have h3 : ¬ now - start ≤ maxAge / 2 := Nat.not_le.mpr h2
    have h4 : ¬ now - start ≤ maxAge := Nat.not_le.mpr h1
    simp [h1, h2, h3, h4]
  · have h4 : now - start ≤ maxAge := Nat.le_of_not_gt h1
    by_cases h2 : now - start > maxAge / 2
    · have h3 : ¬ now - start ≤ maxAge / 2 := Nat.not_le.mpr h2
      simp [h1, h2, h3, h4]
    · have h3 : now - start ≤ maxAge / 2 := Nat.le_of_not_gt h2
      simp [h1, h2, h3]

/-- The config-file provider's sessions carry no expiry: at every instant their status is
"active". -/
theorem config_file_sessions_do_not_expire (start now : Nat) :
    sessionStatus start configFileExpiresIn now = some .active := rfl

/-- **A token issued by `login` authenticates as the logged-in user with that user's configured role
after every later history** – any number of requests, other logins, sweeps and logouts, including
the logout of this very token – on both transports.  (Sessions of the config-file provider end only
with the instance key.) -/
theorem issued_token_authenticates (norm : String → String) (cfg : Config)
    (hcf : cfg.authType = .configFile) (ops1 ops2 : List Op) (basic : Option (String × String))
    (id role : String) (tok : Wire)
    (hlogin : (loginConfigFile norm cfg (run norm cfg ops1) basic).1 = .ok id role tok)
    (t : Transport) :
    ∃ r, cfg.roles.lookup role = some r ∧
      (authenticate cfg (run norm cfg (ops1 ++ [.login basic] ++ ops2)) (.bearer tok) t).1 = .ok id r := by
  obtain ⟨raw, pw, u, r, _, _, _, _, hrole, hr, _, htok⟩ :=
    (login_ok_iff norm cfg _ basic id role tok).mp hlogin
  refine ⟨r, by rw [hrole]; exact hr, ?_⟩
  rw [authenticates_iff cfg hcf _ (cache_sound_invariant norm cfg _)]
  left
  refine ⟨tok, rfl, Or.inr ⟨by rw [htok]; simp, (run norm cfg ops1).nonce, id, role, htok, rfl, ?_⟩⟩
  rw [hrole]; exact hr

/-! ## The cache key is the whole token -/

/-- A cache hit is a hit on exactly the presented string: the model's (and the code's
`HashMap<Token, _>`) look-up compares whole tokens. -/
theorem cache_key_is_whole_token (st : SessState) (w : Wire) (s : Session)
    (h : st.cache.lookup w = some s) : (w, s) ∈ st.cache :=
  lookup_mem _ _ _ h

/-- With a cache keyed by an injective function of the token (the identity in the code) the cache
is invisible, for every cache content that earlier decodes can have produced. -/
theorem injective_key_sound {κ : Type} [DecidableEq κ] (k : Wire → κ)
    (hinj : ∀ a b, k a = k b → a = b) (key : Nat) (cache : List (κ × Session))
    (hs : ∀ e ∈ cache, ∃ w, k w = e.1 ∧ decodeFresh key w = some e.2) (w : Wire) :
    (decodeK k key cache w).1 = decodeFresh key w ∧
    ∀ e ∈ (decodeK k key cache w).2, ∃ w', k w' = e.1 ∧ decodeFresh key w' = some e.2 := by
  unfold decodeK
  cases hl : cache.lookup (k w) with
  | some s =>
    obtain ⟨w', hk, hd⟩ := hs _ (lookup_mem _ _ _ hl)
    have : w' = w := hinj _ _ hk
    subst this
    exact ⟨hd.symm, hs⟩
  | none =>
    cases hd : decodeFresh key w with
    | none => exact ⟨rfl, hs⟩
    | some s =>
      refine ⟨rfl, ?_⟩
      intro e he
      simp only [List.mem_cons] at he
      rcases he with rfl | he
      · exact ⟨w, rfl, hd⟩
      · exact hs e he

/-- With a key that is **not** injective – a prefix of the token, as in the seeded change of round 1 –
the cache is unsound: once a genuine token has been decoded, any string with the same key (the same
first characters, the rest damaged) is accepted as the same session. -/
theorem noninjective_key_unsound {κ : Type} [DecidableEq κ] (k : Wire → κ) (key : Nat)
    (w1 w2 : Wire) (s : Session) (hk : k w1 = k w2) (h1 : decodeFresh key w1 = some s)
    (_h2 : decodeFresh key w2 = none) :
    (decodeK k key (decodeK k key [] w1).2 w2).1 = some s := by
  simp [decodeK, h1, hk]

/-! ## `mutated_token_rejected` -/

/-- A bearer string that is neither the admin token nor the canonical encoding of a payload sealed
under this instance's key yields no identity of its own: the chain answers what the Unix-socket
arm answers (the mapped peer, an error for an unmapped peer, nothing on TCP). -/
theorem mutated_token_rejected (cfg : Config) (hcf : cfg.authType = .configFile) (st : SessState)
    (hs : CacheSound cfg.key st) (w : Wire) (hadm : w ≠ .text cfg.adminToken)
    (hnot : ∀ n pt, w ≠ .sealed true cfg.key n pt) (t : Transport) :
    (authenticate cfg st (.bearer w) t).1 = unixProvider cfg t ∧
    ∀ id role, ¬ BearerAccepts cfg w id role := by
  have hno : ∀ id role, ¬ BearerAccepts cfg w id role := by
    intro id role ha
    rcases ha with ⟨h, _⟩ | ⟨_, n, u, r, hw, _⟩
    · exact hadm h
    · exact hnot n _ hw
  refine ⟨?_, hno⟩
  rw [authenticate_fst]
  have hstage := bearerStage_ok_iff cfg hcf st hs (.bearer w)
  cases hb : bearerStage cfg st (.bearer w) with
  | ok id role =>
    obtain ⟨w', hw', ha⟩ := (hstage id role).mp hb
    simp only [Header.bearer.injEq] at hw'
    subst hw'
    exact absurd ha (hno id role)
  | none => simp [AuthRes.isOk]
  | err => simp [AuthRes.isOk]

/-- The mutation classes of the property, as terms: a re-encoding that changes the text
(non-canonical base64), a token sealed under another instance's key, and any other text (a truncated
or bit-flipped copy, an arbitrary string) different from the admin token. -/
theorem mutations_rejected (cfg : Config) (hcf : cfg.authType = .configFile) (st : SessState)
    (hs : CacheSound cfg.key st) (n : Nat) (pt : Plain) (k' : Nat) (hk : k' ≠ cfg.key)
    (s : String) (hsa : s ≠ cfg.adminToken) (c : Bool) (t : Transport) :
    (authenticate cfg st (.bearer (.sealed false cfg.key n pt)) t).1 = unixProvider cfg t ∧
    (authenticate cfg st (.bearer (.sealed c k' n pt)) t).1 = unixProvider cfg t ∧
    (authenticate cfg st (.bearer (.text s)) t).1 = unixProvider cfg t := by
  refine ⟨?_, ?_, ?_⟩
  · exact (mutated_token_rejected cfg hcf st hs _ (by simp) (by simp) t).1
  · exact (mutated_token_rejected cfg hcf st hs _ (by simp)
      (by intro n' pt' h; simp only [Wire.sealed.injEq] at h; exact hk h.2.1) t).1
  · exact (mutated_token_rejected cfg hcf st hs _ (by simpa using hsa) (by simp) t).1

/-- Under the AEAD assumption: any bearer string that `login` did not issue and that is not the
admin token is rejected – in every reachable state. -/
theorem not_issued_rejected (norm : String → String) (cfg : Config) (hcf : cfg.authType = .configFile)
    (ops : List Op) (w : Wire) (hadm : w ≠ .text cfg.adminToken)
    (hunf : Unforgeable cfg (run norm cfg ops) w) (hni : w ∉ (run norm cfg ops).issued)
    (t : Transport) :
    (authenticate cfg (run norm cfg ops) (.bearer w) t).1 = unixProvider cfg t :=
  (mutated_token_rejected cfg hcf _ (cache_sound_invariant norm cfg ops) w hadm
    (fun n pt h => hni (hunf n pt h)) t).1

/-- The admin token is compared for equality with the whole bearer string (generated from
admin_token.rs): a prefix, an extension or a re-cased copy is not the token. -/
theorem admin_token_verbatim (cfg : Config) (s : String) :
    adminTokenCompare = .equal ∧
    (adminProvider cfg (.bearer (.text s)) = .ok adminTokenUser adminRole ↔ s = cfg.adminToken) := by
  refine ⟨by decide, ?_⟩
  unfold adminProvider
  by_cases h : s = cfg.adminToken
  · simp [h]
  · simp [h]

/-! ## `refused_everywhere` -/

/-- A request that authenticates nobody is refused (401 or 403) on every route that has a
permission gate, whatever the route, and reaches no server operation. -/
theorem refused_everywhere (testbed : Bool) (a : AuthRes) (ha : a.isOk = false) (rt : Route)
    (segs : List String) (hg : rt.gates ≠ []) (htb : rt.testbedOnly = true → testbed = true) :
    (respond testbed a rt segs = .unauthorized ∨ respond testbed a rt segs = .forbidden) ∧
    serverCalls testbed a rt segs = [] := by
  have href : respond testbed a rt segs = .unauthorized ∨ respond testbed a rt segs = .forbidden := by
    rw [C13.refused_iff testbed a rt segs htb]
    cases hgs : rt.gates with
    | nil => exact absurd hgs hg
    | cons g gs => exact ⟨g, by simp, gate_unauthenticated a ha segs g⟩
  refine ⟨href, C13.not_served_no_calls _ _ _ _ ?_⟩
  rcases href with h | h <;> simp [h]

/-- Together: a forged, damaged, re-encoded or foreign token presented over TCP, or over the Unix
socket by an unmapped peer, is refused on every gated route. -/
theorem mutated_token_refused_everywhere (cfg : Config) (hcf : cfg.authType = .configFile)
    (st : SessState) (hs : CacheSound cfg.key st) (w : Wire) (hadm : w ≠ .text cfg.adminToken)
    (hnot : ∀ n pt, w ≠ .sealed true cfg.key n pt) (t : Transport)
    (hpeer : ∀ id role, ¬ PeerAccepts cfg t id role)
    (rt : Route) (segs : List String) (hg : rt.gates ≠ [])
    (htb : rt.testbedOnly = true → cfg.testbed = true) :
    let a := (authenticate cfg st (.bearer w) t).1
    (respond cfg.testbed a rt segs = .unauthorized ∨ respond cfg.testbed a rt segs = .forbidden) ∧
    serverCalls cfg.testbed a rt segs = [] := by
  intro a
  have ha : a.isOk = false := by
    have h1 := (mutated_token_rejected cfg hcf st hs w hadm hnot t).1
    show (authenticate cfg st (.bearer w) t).1.isOk = false
    rw [h1]
    cases hu : unixProvider cfg t with
    | ok id role => exact absurd ((unixProvider_ok_iff cfg t id role).mp hu) (hpeer id role)
    | none => rfl
    | err => rfl
  exact refused_everywhere cfg.testbed a ha rt segs hg htb

/-! ## `login_iff` -/

/-- **Login succeeds exactly when** the trimmed and normalised name is a configured user, the stored
hash of that user is the hash of the (trimmed, normalised) password under that name and that user's
salt, and that user's role allows `login`; the identity logged in is that user with the role
configured for it, and the token is a fresh session sealed under this instance's key. -/
theorem login_iff (norm : String → String) (cfg : Config) (st : SessState)
    (basic : Option (String × String)) (id role : String) (tok : Wire) :
    (loginConfigFile norm cfg st basic).1 = .ok id role tok ↔
      ∃ raw pw u r, basic = some (raw, pw) ∧ id = norm raw ∧
        cfg.users.lookup id = some u ∧ u.hash = .term ⟨norm pw, id, u.salt⟩ ∧ role = u.role ∧
        cfg.roles.lookup u.role = some r ∧ r.isAllowed .Login none = true ∧
        tok = .sealed true cfg.key st.nonce (.session id role) :=
  login_ok_iff norm cfg st basic id role tok

/-- **Login identity, full strength** (no hypothesis on the configuration): whoever logs in is a
configured user whose *own* stored hash matches the password sent, and gets that user's role.  In
particular the password of one configured user never logs in as another one, however their names
are related by case, white space or Unicode normalisation. -/
theorem login_identity (norm : String → String) (cfg : Config) (st : SessState)
    (raw pw id role : String) (tok : Wire)
    (h : (loginConfigFile norm cfg st (some (raw, pw))).1 = .ok id role tok) :
    ∃ e, cfg.users.lookup id = some e ∧ e.hash = .term ⟨norm pw, id, e.salt⟩ ∧ role = e.role := by
  obtain ⟨raw', pw', u, r, hb, _, hu, hh, hrole, _, _, _⟩ :=
    (login_iff norm cfg st _ id role tok).mp h
  simp only [Option.some.injEq, Prod.mk.injEq] at hb
  obtain ⟨rfl, rfl⟩ := hb
  exact ⟨u, hu, hh, hrole⟩

/-- What the pinned tree did (finding F-C20-1, fixed by 2ee45739) – a statement about the
counter-model `Pinned.loginTwoLookups`, **not** about the model of the current code: with two
configured users whose names are equal after normalisation (`"Ａlice"`, full-width A, and `"Alice"`)
the password of the first logged in as the second, with the second's role – `login_identity` was
false.  The current model refuses the same login. -/
theorem login_confuses_equivalent_names :
    let norm : String → String := fun s => if s = "Ａlice" then "Alice" else s
    let ro : Role := Role.simple [.Login]
    let adm : Role := Role.simple Permission.all
    let cfg : Config :=
      { authType := .configFile, adminToken := "secret",
        users := [("Ａlice", ⟨.term ⟨"pw-of-wide-alice", "Alice", 1⟩, 1, "ro"⟩),
                  ("Alice", ⟨.term ⟨"pw-of-alice", "Alice", 2⟩, 2, "adm"⟩)],
        roles := [("ro", ro), ("adm", adm)], unixUsers := [], key := 7, testbed := false }
    (Pinned.loginTwoLookups norm cfg {} (some ("Ａlice", "pw-of-wide-alice"))).1 =
      .ok "Alice" "adm" (.sealed true 7 0 (.session "Alice" "adm")) ∧
    (¬ ∃ e, cfg.users.lookup "Alice" = some e ∧ e.hash = .term ⟨"pw-of-wide-alice", "Alice", e.salt⟩) ∧
    (loginConfigFile norm cfg {} (some ("Ａlice", "pw-of-wide-alice"))).1 = .invalid ∧
    (loginConfigFile norm cfg {} (some ("Ａlice", "pw-of-alice"))).1 =
      .ok "Alice" "adm" (.sealed true 7 0 (.session "Alice" "adm")) := by
  decide

/-- Login is refused with 403 exactly when everything matches but the role lacks `login`; with 401
in every other case. -/
theorem login_denied_iff (norm : String → String) (cfg : Config) (st : SessState)
    (basic : Option (String × String)) :
    (loginConfigFile norm cfg st basic).1 = .denied ↔
      ∃ raw pw u r, basic = some (raw, pw) ∧ cfg.users.lookup (norm raw) = some u ∧
        u.hash = .term ⟨norm pw, norm raw, u.salt⟩ ∧
        cfg.roles.lookup u.role = some r ∧ r.isAllowed .Login none = false := by
  constructor
  · intro h
    unfold loginConfigFile at h
    split at h
    · cases h
    · rename_i raw pw
      dsimp only at h
      split at h
      · cases h
      · rename_i u hu
        split at h
        · cases h
        · rename_i hh
          split at h
          · cases h
          · rename_i r hr
            split at h
            · rename_i hal
              refine ⟨raw, pw, u, r, rfl, hu, ?_, hr, by simpa using hal⟩
              simpa [eq_comm] using hh
            · simp [encode] at h
  · intro ⟨raw, pw, u, r, hb, hu, hh, hr, hal⟩
    subst hb
    simp [loginConfigFile, hu, ← hh, hr, hal]

/-- An unknown (normalised) user name, or a password whose hash is not the stored one, is answered
401 – whatever else the configuration contains. -/
theorem login_unknown_user (norm : String → String) (cfg : Config) (st : SessState)
    (raw pw : String) (h : cfg.users.lookup (norm raw) = none) :
    loginConfigFile norm cfg st (some (raw, pw)) = (.invalid, st) := by
  simp [loginConfigFile, h]

theorem login_wrong_password (norm : String → String) (cfg : Config) (st : SessState)
    (raw pw : String) (u : UserEntry) (h : cfg.users.lookup (norm raw) = some u)
    (hw : u.hash ≠ .term ⟨norm pw, norm raw, u.salt⟩) :
    loginConfigFile norm cfg st (some (raw, pw)) = (.invalid, st) := by
  have : StoredHash.term ⟨norm pw, norm raw, u.salt⟩ ≠ u.hash := fun e => hw e.symm
  simp [loginConfigFile, h, this]

/-- **A stored `password_hash` that is not the text of a hash admits no password.**  For every
configuration, every state, every name and password: if the entry found under the trimmed and
normalised name holds a `junk` string – a locked account (`"!"`), an empty string, a hash that lost or
gained a character, upper-case hex, anything that is not the lower-case hex of a 32-byte scrypt
output – the login is answered 401 and nothing changes, whatever the password (the one whose hash
was mangled, another one, the empty one). -/
theorem junk_hash_never_logs_in (norm : String → String) (cfg : Config) (st : SessState)
    (raw pw : String) (u : UserEntry) (s : String) (h : cfg.users.lookup (norm raw) = some u)
    (hj : u.hash = .junk s) :
    loginConfigFile norm cfg st (some (raw, pw)) = (.invalid, st) :=
  login_wrong_password norm cfg st raw pw u h (by rw [hj]; exact fun e => by cases e)

/-- … equivalently: whoever logs in has a stored hash that is the text of a hash term – the term of
the password sent. -/
theorem login_needs_wellformed_hash (norm : String → String) (cfg : Config) (st : SessState)
    (raw pw id role : String) (tok : Wire)
    (h : (loginConfigFile norm cfg st (some (raw, pw))).1 = .ok id role tok) :
    ∃ e, cfg.users.lookup (norm raw) = some e ∧ ∀ s, e.hash ≠ .junk s := by
  obtain ⟨raw', pw', u, r, hb, hid, hu, hh, _⟩ := (login_iff norm cfg st _ id role tok).mp h
  simp only [Option.some.injEq, Prod.mk.injEq] at hb
  obtain ⟨rfl, rfl⟩ := hb
  subst hid
  exact ⟨u, hu, fun s hs => by rw [hs] at hh; cases hh⟩

/-- Login answers 200 with a token, 403, or 401 – and 401 exactly when neither of the two
characterisations (`login_iff`, `login_denied_iff`) applies. -/
theorem login_trichotomy (norm : String → String) (cfg : Config) (st : SessState)
    (basic : Option (String × String)) :
    (∃ id role tok, (loginConfigFile norm cfg st basic).1 = .ok id role tok) ∨
    (loginConfigFile norm cfg st basic).1 = .denied ∨
    (loginConfigFile norm cfg st basic).1 = .invalid := by
  cases h : (loginConfigFile norm cfg st basic).1 with
  | ok id role tok => exact Or.inl ⟨id, role, tok, rfl⟩
  | denied => exact Or.inr (Or.inl rfl)
  | invalid => exact Or.inr (Or.inr rfl)

/-! ## Both provider configurations; what "the bearer token of a request" is -/

/-- With the **admin-token provider as the primary one** (no legacy arm, no sessions): a request
authenticates iff its bearer string is the admin token verbatim (admin) – or no bearer string of the
request is accepted, the transport is the Unix socket and the peer is mapped. -/
theorem authenticates_iff_admin_token (cfg : Config) (hat : cfg.authType = .adminToken)
    (st : SessState) (h : Header) (t : Transport) (id : String) (role : Role) :
    (authenticate cfg st h t).1 = .ok id role ↔
      (h = .bearer (.text cfg.adminToken) ∧ id = adminTokenUser ∧ role = adminRole) ∨
      (h ≠ .bearer (.text cfg.adminToken) ∧ PeerAccepts cfg t id role) := by
  rw [authenticate_fst]
  unfold bearerStage legacyProvider primaryProvider
  simp only [hat, AuthRes.isOk, Bool.false_eq_true, if_false]
  cases h with
  | absent =>
    simp only [adminProvider, Bool.false_eq_true, if_false, unixProvider_ok_iff,
      reduceCtorEq, false_and, false_or, ne_eq, not_false_eq_true, true_and]
  | bearer w =>
    by_cases hw : w = .text cfg.adminToken
    · subst hw
      simp only [adminProvider, if_true, AuthRes.ok.injEq, true_and, ne_eq,
        not_true_eq_false, false_and, or_false]
      exact ⟨fun ⟨a, b⟩ => ⟨a.symm, b.symm⟩, fun ⟨a, b⟩ => ⟨a.symm, b.symm⟩⟩
    · simp only [adminProvider, hw, if_false, Bool.false_eq_true, unixProvider_ok_iff,
        Header.bearer.injEq, false_and, false_or, ne_eq, not_false_eq_true, true_and]

/-- The genuine bearer strings of `KM.Http.Genuine` (used by `KM.Props.C13.wrong_credentials_refused`)
are exactly the strings that are a credential of somebody: under the config-file provider those of
`BearerAccepts`, under the admin-token provider the admin token alone. -/
theorem genuine_iff (cfg : Config) (w : Wire) :
    Genuine cfg w ↔
      match cfg.authType with
      | .configFile => ∃ id role, BearerAccepts cfg w id role
      | .adminToken => w = .text cfg.adminToken := by
  unfold Genuine BearerAccepts
  cases cfg.authType with
  | adminToken => simp
  | configFile =>
    simp only [true_and]
    constructor
    · intro h
      rcases h with h | ⟨n, u, r, role, hw, hr⟩
      · exact ⟨_, _, Or.inl ⟨h, rfl, rfl⟩⟩
      · exact ⟨u, role, Or.inr ⟨by rw [hw]; simp, n, u, r, hw, rfl, hr⟩⟩
    · intro ⟨id, role, h⟩
      rcases h with ⟨h, _⟩ | ⟨_, n, u, r, hw, _, hr⟩
      · exact Or.inl h
      · exact Or.inr ⟨n, u, r, role, hw, hr⟩

/-- **`get_bearer_token`** (httpclient.rs), for every text that can follow `Authorization: Bearer `
on the wire: the credential presented is that text with the white space (blanks, tabs) around it
removed – and none at all when nothing else is left (the HTTP parser strips the trailing blank of
`Bearer `, the prefix no longer matches).  Nothing but surrounding white space is ever removed. -/
theorem get_bearer_token_spec (x : List Char) (hx : x.all isHeaderChar = true) :
    getBearerToken (some (bearerPrefix ++ x)) = (if trim x = [] then none else some (trim x)) ∧
    (∀ a m b, x = a ++ m ++ b → a.all isWs = true → b.all isWs = true → Core m → trim x = m) ∧
    getBearerToken none = none :=
  ⟨getBearerToken_bearer x hx, fun a m b hxe ha hb hm => by rw [hxe]; exact trim_decomp a m b ha hb hm,
    rfl⟩

/-- **The neighbourhood of a credential.**  For every credential text `t` (not empty, no white space
at its ends) and every near miss of it – a proper non-empty prefix, `t` followed by more text, `t`
with one character replaced, `t` in the other letter case, `t` with white space in front of and
behind it, nothing at all – the credential krill reads from the header `Bearer <near miss>` is `t`
**iff** the near miss only added white space around `t` (`NearMiss.same`: padding, or an extension
that is all blanks).  Every other member is a *different* credential (or none). -/
theorem near_miss_same_iff (t : List Char) (ht : IsToken t) (v : NearMiss)
    (hv : v.applies t = true) :
    getBearerToken (some (bearerPrefix ++ v.apply t)) = some t ↔ v.same = true := by
  rw [getBearerToken_bearer _ (nearMiss_all_headerChar t ht v hv), ← nearMiss_trim_eq_iff t ht v hv]
  by_cases h0 : trim (v.apply t) = []
  · simp only [h0, if_true, reduceCtorEq, false_iff]
    exact fun h => ht.1 h.symm
  · simp [h0]

/-- For the admin token: the admin-token provider accepts the header of a near miss iff it is the
same credential. -/
theorem near_miss_admin_token (cfg : Config) (ht : IsToken cfg.adminToken.toList) (v : NearMiss)
    (hv : v.applies cfg.adminToken.toList = true) :
    adminProvider cfg (v.header cfg.adminToken.toList) = .ok adminTokenUser adminRole ↔
      v.same = true := by
  rw [← near_miss_same_iff _ ht v hv]
  unfold NearMiss.header headerOfText
  cases hg : getBearerToken (some (bearerPrefix ++ v.apply cfg.adminToken.toList)) with
  | none => simp [adminProvider]
  | some t' =>
    simp only [adminProvider, Option.some.injEq]
    by_cases h : t' = cfg.adminToken.toList
    · simp [h, String.ofList_toList]
    · have : String.ofList t' ≠ cfg.adminToken := by
        intro e; apply h; rw [← e, String.toList_ofList]
      simp [h, this]

/-- **A near miss of the admin token authenticates nobody** – under either provider configuration,
in every state, on both transports: the chain answers what the Unix-socket arm answers (the mapped
peer – who could have sent no token –, an error for an unmapped peer, nothing on TCP), exactly as
for a request without credentials.  Members that are the same credential are the admin. -/
theorem near_miss_rejected (cfg : Config) (st : SessState) (hs : CacheSound cfg.key st)
    (ht : IsToken cfg.adminToken.toList) (v : NearMiss)
    (hv : v.applies cfg.adminToken.toList = true) (tr : Transport) :
    (v.same = false →
      (authenticate cfg st (v.header cfg.adminToken.toList) tr).1 = unixProvider cfg tr) ∧
    (v.same = true → v.header cfg.adminToken.toList = .bearer (.text cfg.adminToken)) := by
  have hiff := near_miss_same_iff _ ht v hv
  unfold NearMiss.header headerOfText
  cases hg : getBearerToken (some (bearerPrefix ++ v.apply cfg.adminToken.toList)) with
  | none =>
    rw [hg] at hiff
    refine ⟨fun _ => ?_, fun h => ?_⟩
    · rw [authenticate_fst_arms, tokenArms_absent]; rfl
    · exact absurd (hiff.mpr h) (by simp)
  | some t' =>
    rw [hg] at hiff
    simp only [Option.some.injEq] at hiff
    refine ⟨fun hns => ?_, fun h => ?_⟩
    · have hne : t' ≠ cfg.adminToken.toList := fun e => by
        rw [hiff.mp e] at hns; cases hns
      have hng : ¬ Genuine cfg (.text (String.ofList t')) := by
        intro hgen
        rcases hgen with hgen | ⟨_, n, u, r, role, hgen, _⟩
        · simp only [Wire.text.injEq] at hgen
          apply hne; rw [← hgen, String.toList_ofList]
        · cases hgen
      exact (not_genuine_as_absent cfg st hs _ hng tr).1
    · rw [hiff.mpr h]; simp only [String.ofList_toList]

/-! ## From the configuration file to the identities: which role map -/

/-- The role map every provider reads is the `[auth_roles]` section of the configuration file if
there is one, and the built-in roles (`ConfigDefaults::auth_roles()`) otherwise – **not a union**:
with an own `[auth_roles]` a built-in name that the section does not define is not a role. -/
theorem role_map_is_configured (cf : ConfigFile) :
    (∀ m, cf.authRoles = some m → cf.roleMap = m) ∧
    (cf.authRoles = none → cf.roleMap = builtinRoleMap) ∧
    cf.effective.roles = cf.roleMap ∧
    (∀ m n, cf.authRoles = some m → m.lookup n = none → cf.effective.roles.lookup n = none) := by
  refine ⟨?_, ?_, rfl, ?_⟩
  · intro m h; simp [ConfigFile.roleMap, h]
  · intro h; simp [ConfigFile.roleMap, h]
  · intro m n h hn
    show cf.roleMap.lookup n = none
    simp [ConfigFile.roleMap, h, hn]

/-- **Which configurations the daemon accepts** (as far as authentication is concerned:
`Authorizer::new`): it refuses to start iff the config-file provider is selected without an
`[auth_users]` section, or some entry of `unix_users` (the default `root = "admin"` when the file has
none) names a role that is not in the role map. -/
theorem start_refused_iff (cf : ConfigFile) :
    startOk cf = false ↔
      (cf.authType = .configFile ∧ cf.authUsers = none) ∨
      ∃ u rn, (u, rn) ∈ cf.unixMap ∧ cf.roleMap.lookup rn = none := by
  unfold startOk configFileProviderStarts unixProviderStarts
  rw [Bool.and_eq_false_iff]
  constructor
  · intro h
    rcases h with h | h
    · left
      cases hty : cf.authType with
      | adminToken => simp [hty] at h
      | configFile =>
        simp only [hty, Option.isSome_eq_false_iff, Option.isNone_iff_eq_none] at h
        exact ⟨rfl, h⟩
    · right
      rw [List.all_eq_false] at h
      obtain ⟨e, he, hl⟩ := h
      refine ⟨e.1, e.2, he, ?_⟩
      cases hlk : cf.roleMap.lookup e.2 with
      | none => rfl
      | some r => simp [hlk] at hl
  · intro h
    rcases h with ⟨hty, hu⟩ | ⟨u, rn, hm, hl⟩
    · left; simp [hty, hu]
    · right
      rw [List.all_eq_false]
      exact ⟨(u, rn), hm, by simp [hl]⟩

/-- **The role of an authenticated identity is a role of the configuration.**  For every
configuration file, every state, header and transport: whoever a request authenticates as, its role is
either the admin role of the admin-token identity (the request carries the admin token verbatim), or
`roles.get(name)` of *the configured* role map for some name – in particular, with an own
`[auth_roles]` section it is an entry of that section, never a built-in role the configuration does
not define. -/
theorem identity_role_is_configured (cf : ConfigFile) (st : SessState) (hs : CacheSound cf.key st)
    (h : Header) (t : Transport) (id : String) (role : Role)
    (ha : (authenticate cf.effective st h t).1 = .ok id role) :
    (h = .bearer (.text cf.adminToken) ∧ id = adminTokenUser ∧ role = adminRole) ∨
    ∃ rn, cf.roleMap.lookup rn = some role ∧ ∀ m, cf.authRoles = some m → (rn, role) ∈ m := by
  have conf : ∀ rn, cf.effective.roles.lookup rn = some role →
      ∃ rn, cf.roleMap.lookup rn = some role ∧ ∀ m, cf.authRoles = some m → (rn, role) ∈ m := by
    intro rn hl
    refine ⟨rn, hl, ?_⟩
    intro m hm
    have : cf.roleMap = m := (role_map_is_configured cf).1 m hm
    rw [← this]
    exact lookup_mem _ _ _ hl
  have peer : PeerAccepts cf.effective t id role →
      ∃ rn, cf.roleMap.lookup rn = some role ∧ ∀ m, cf.authRoles = some m → (rn, role) ∈ m := by
    intro ⟨_, rn, _, _, hr, _⟩
    exact conf rn hr
  cases hty : cf.authType with
  | configFile =>
    have hcf : cf.effective.authType = .configFile := hty
    rcases (authenticates_iff cf.effective hcf st hs h t id role).mp ha with
      ⟨w, hw, hacc⟩ | ⟨_, hp⟩
    · rcases hacc with ⟨h1, h2, h3⟩ | ⟨_, n, u, r, _, _, hr⟩
      · left; exact ⟨by rw [hw, h1]; rfl, h2, h3⟩
      · right; exact conf r hr
    · right; exact peer hp
  | adminToken =>
    have hat : cf.effective.authType = .adminToken := hty
    rcases (authenticates_iff_admin_token cf.effective hat st h t id role).mp ha with
      ⟨h1, h2, h3⟩ | ⟨_, hp⟩
    · left; exact ⟨h1, h2, h3⟩
    · right; exact peer hp

/-- … and so is the role a login hands out: the role name of the user's own entry, which the
configured role map defines. -/
theorem login_role_is_configured (norm : String → String) (cf : ConfigFile) (st : SessState)
    (basic : Option (String × String)) (id rn : String) (tok : Wire)
    (h : (loginConfigFile norm cf.effective st basic).1 = .ok id rn tok) :
    ∃ e role, (cf.authUsers.getD []).lookup id = some e ∧ e.role = rn ∧
      cf.roleMap.lookup rn = some role ∧ role.isAllowed .Login none = true ∧
      ∀ m, cf.authRoles = some m → (rn, role) ∈ m := by
  obtain ⟨raw, pw, u, r, _, _, hu, _, hrole, hr, hal, _⟩ :=
    (login_iff norm cf.effective st basic id rn tok).mp h
  subst hrole
  refine ⟨u, r, hu, rfl, hr, hal, ?_⟩
  intro m hm
  have : cf.roleMap = m := (role_map_is_configured cf).1 m hm
  rw [← this]
  exact lookup_mem _ _ _ hr

/-- A configured user whose role name the role map does not define cannot log in, whatever the
password (401, nothing changes) – e.g. an entry with `role = "admin"` under an own `[auth_roles]`
section without a role of that name. -/
theorem undefined_role_never_logs_in (norm : String → String) (cf : ConfigFile) (st : SessState)
    (raw pw : String) (u : UserEntry) (hu : (cf.authUsers.getD []).lookup (norm raw) = some u)
    (hr : cf.roleMap.lookup u.role = none) :
    loginConfigFile norm cf.effective st (some (raw, pw)) = (.invalid, st) := by
  have hu' : cf.effective.users.lookup (norm raw) = some u := hu
  have hr' : cf.effective.roles.lookup u.role = none := hr
  unfold loginConfigFile
  simp only [hu']
  split
  · rfl
  · simp only [hr']

/-! ## `request_decision`: credentials to decision -/

/-- **End to end.**  For every configuration (arbitrary users, arbitrary role definitions, arbitrary
socket mapping), every reachable session state, every `Authorization` header and transport, every
row of the route table and every path instantiation: the handler runs iff the row allows it and
either requires nothing, or the credentials are genuine for some identity (`authenticates_iff`) whose
role's permissions contain every required (permission, resource) pair. -/
theorem request_decision (cfg : Config) (hcf : cfg.authType = .configFile) (st : SessState)
    (hs : CacheSound cfg.key st) (h : Header) (t : Transport) (rt : Route) (hrt : rt ∈ routes)
    (segs : List String) :
    respond cfg.testbed (authenticate cfg st h t).1 rt segs = .served ↔
      (rt.testbedOnly = true → cfg.testbed = true) ∧ rt.fin.runs = true ∧
      (rt.gates = [] ∨ ∃ id role,
        ((∃ w, h = .bearer w ∧ BearerAccepts cfg w id role) ∨
         ((∀ w, h = .bearer w → ∀ id' role', ¬ BearerAccepts cfg w id' role') ∧
           PeerAccepts cfg t id role)) ∧
        ∀ q ∈ C13.requires rt segs, ∃ res, q.2 = some res ∧ q.1 ∈ role.perms res) := by
  rw [(C13.decision_iff cfg.testbed _ rt hrt segs).1]
  constructor
  · intro ⟨h1, h2, h3⟩
    refine ⟨h1, h2, ?_⟩
    rcases h3 with h3 | ⟨id, role, ha, hq⟩
    · exact Or.inl h3
    · exact Or.inr ⟨id, role, (authenticates_iff cfg hcf st hs h t id role).mp ha, hq⟩
  · intro ⟨h1, h2, h3⟩
    refine ⟨h1, h2, ?_⟩
    rcases h3 with h3 | ⟨id, role, ha, hq⟩
    · exact Or.inl h3
    · exact Or.inr ⟨id, role, (authenticates_iff cfg hcf st hs h t id role).mpr ha, hq⟩

/-! ## `actor_is_identity` -/

/-- The actor handed to the server operations (and recorded in the audit log of an accepted
command) is the authenticated identity: the handlers of the versioned API pass `auth.into_actor()`
– never the anonymous constant – and `AuthInfo.actor` is the id the chain returned. -/
theorem actor_is_identity :
    (∀ (cfg : Config) (st : SessState) (h : Header) (t : Transport) (id : String) (role : Role),
      (authenticate cfg st h t).1 = .ok id role →
        (authenticate cfg st h t).1.actor = id ∧
        (authenticate cfg st h t).1.auditName = "user:" ++ id) ∧
    (∀ a : AuthRes, a.isOk = false → a.actor = "anonymous" ∧ a.auditName = "anonymous") ∧
    (∀ rt ∈ routes, Spec.areaOf rt.path = .api → ∀ c ∈ rt.ops,
      c.actor = .auth ∨ c.actor = .none) := by
  refine ⟨?_, ?_, ?_⟩
  · intro cfg st h t id role hok; rw [hok]; exact ⟨rfl, rfl⟩
  · intro a ha; cases a <;> simp_all [AuthRes.isOk, AuthRes.actor, AuthRes.auditName]
  · have h : routes.all (fun rt => Spec.areaOf rt.path != .api ||
        rt.ops.all fun c => c.actor == .auth || c.actor == .none) = true := by
      decide +kernel
    intro rt hrt harea c hc
    have := List.all_eq_true.mp h rt hrt
    simp only [harea, bne_self_eq_false, Bool.false_or, List.all_eq_true, Bool.or_eq_true,
      beq_iff_eq] at this
    exact this c hc

/-! ## Non-vacuity -/

def exRole : Role := Role.simple [.Login, .CaRead]

def exCfg : Config :=
  { authType := .configFile, adminToken := "secret",
    users := [("alice", ⟨.term ⟨"pw", "alice", 1⟩, 1, "r1"⟩), ("bob", ⟨.term ⟨"pw2", "bob", 2⟩, 2, "nologin"⟩),
      -- a locked account, a hash that lost its last character, the upper-case hex of carol's real hash,
      -- and an entry holding alice's hash (and salt)
      ("locked", ⟨.junk "!", 3, "r1"⟩), ("cut", ⟨.junk "trunc", 4, "r1"⟩),
      ("carol-upper", ⟨.junk "upper", 5, "r1"⟩), ("mallory", ⟨.term ⟨"pw", "alice", 1⟩, 1, "r1"⟩)],
    roles := [("r1", exRole), ("nologin", Role.simple [.CaRead])],
    unixUsers := [("root", "r1")], key := 7, testbed := false }

/-- A history: alice logs in, her token authenticates (on TCP and on the Unix socket), a token
sealed under another key, a re-encoded copy and a damaged copy do not; on the Unix socket of the
mapped peer `root` the failed bearer falls through to `root`; an unmapped peer gets an error; the
admin token is the admin; bob's role lacks `login`; a wrong password and an unknown user fail. -/
example :
    let st0 : SessState := {}
    let l := loginConfigFile id exCfg st0 (some ("alice", "pw"))
    let tok := Wire.sealed true 7 0 (.session "alice" "r1")
    l.1 = .ok "alice" "r1" tok ∧
    (authenticate exCfg l.2 (.bearer tok) .tcp).1 = .ok "alice" exRole ∧
    (authenticate exCfg {} (.bearer tok) (.unix "nobody")).1 = .ok "alice" exRole ∧
    (authenticate exCfg l.2 (.bearer (.sealed true 8 0 (.session "alice" "r1"))) .tcp).1 = .none ∧
    (authenticate exCfg l.2 (.bearer (.sealed false 7 0 (.session "alice" "r1"))) .tcp).1 = .none ∧
    (authenticate exCfg l.2 (.bearer (.text "dmg")) .tcp).1 = .none ∧
    (authenticate exCfg l.2 (.bearer (.text "dmg")) (.unix "root")).1 = .ok "root" exRole ∧
    (authenticate exCfg l.2 (.bearer (.text "dmg")) (.unix "nobody")).1 = .err ∧
    (authenticate exCfg l.2 .absent (.unix "nobody")).1 = .err ∧
    (authenticate exCfg l.2 .absent .tcp).1 = .none ∧
    (authenticate exCfg l.2 (.bearer (.text "secret")) .tcp).1 = .ok "admin-token" adminRole ∧
    (authenticate exCfg l.2 (.bearer (.text "secre")) .tcp).1 = .none ∧
    (loginConfigFile id exCfg st0 (some ("bob", "pw2"))).1 = .denied ∧
    (loginConfigFile id exCfg st0 (some ("alice", "pw2"))).1 = .invalid ∧
    (loginConfigFile id exCfg st0 (some ("carol", "pw"))).1 = .invalid ∧
    (loginConfigFile id exCfg st0 none).1 = .invalid := by
  decide

/-- `Unforgeable` holds for an issued token (its hypothesis in `session_identity_is_configured` is
satisfiable). -/
example :
    Unforgeable exCfg (run id exCfg [.login (some ("alice", "pw"))])
      (.sealed true 7 0 (.session "alice" "r1")) := by
  intro n pt _; decide

/-- Lifetime in action: alice's token still authenticates after she logged out, after a sweep that
empties the cache and after another login; a prefix-keyed cache would accept a damaged copy (the
hypotheses of `noninjective_key_unsound` are satisfiable), the whole-token key does not. -/
example :
    let tok := Wire.sealed true 7 0 (.session "alice" "r1")
    let st := run id exCfg [.login (some ("alice", "pw")), .logout (.bearer tok), .sweep (fun _ => false),
      .login (some ("alice", "pw")), .auth (.bearer (.text "dmg")) .tcp]
    (authenticate exCfg st (.bearer tok) .tcp).1 = .ok "alice" exRole ∧
    (authenticate exCfg st (.bearer (.text "dmg")) .tcp).1 = .none ∧
    st.cache.length = 1 ∧
    -- a key function that only looks at "the first characters": every text and every token collide
    (decodeK (fun _ => 0) 7 (decodeK (fun _ => 0) 7 [] tok).2 (.text "dmg")).1 = some ⟨"alice", "r1"⟩ ∧
    (decodeK id 7 (decodeK id 7 [] tok).2 (.text "dmg")).1 = none ∧
    sessionStatus 100 (some 60) 131 = some .needsRefresh ∧
    sessionStatus 100 (some 60) 161 = some .expired ∧
    sessionStatus 100 (some 60) 99 = none := by
  decide

/-- `junk_hash_never_logs_in` is not vacuous, and it matters which string is stored: `locked` (`"!"`),
`cut` (a truncated hash) and `carol-upper` (upper-case hex) admit no password at all – not the one
whose hash was mangled, not the empty one, not the stored string itself; `mallory`, whose entry holds
*alice's* hash and salt, cannot log in with alice's password (the user name is part of what is
hashed); alice still can. -/
example :
    (["locked", "cut", "carol-upper"].all fun n =>
      ["pw", "", "!", "trunc", "upper", "pw-carol"].all fun p =>
        (loginConfigFile id exCfg {} (some (n, p))).1 == .invalid) = true ∧
    (loginConfigFile id exCfg {} (some ("mallory", "pw"))).1 = .invalid ∧
    (loginConfigFile id exCfg {} (some ("alice", "pw"))).1 =
      .ok "alice" "r1" (.sealed true 7 0 (.session "alice" "r1")) := by
  decide

/-- The neighbourhood of the admin token `secret` after krill's header parsing: `Bearer   secret`,
`Bearer secret  ` and tabs around it present `secret`; every proper prefix, `secret2`,
`secret and then some`, `Secret`/`SECRET`, `secrez` and `Xecret` present something else; `Bearer `
alone presents nothing; `bearer secret` / `Token secret` are not read as bearer tokens. -/
example :
    let tok := fun (s : String) => getBearerToken (some s.toList)
    tok "Bearer secret" = some "secret".toList ∧
    tok "Bearer    secret" = some "secret".toList ∧
    tok "Bearer secret  " = some "secret".toList ∧
    tok "  Bearer \tsecret\t " = some "secret".toList ∧
    tok "Bearer s" = some "s".toList ∧
    tok "Bearer secre" = some "secre".toList ∧
    tok "Bearer secret2" = some "secret2".toList ∧
    tok "Bearer secret and then some" = some "secret and then some".toList ∧
    tok "Bearer SECRET" = some "SECRET".toList ∧
    tok "Bearer " = none ∧ tok "Bearer    " = none ∧ tok "Bearer" = none ∧
    tok "bearer secret" = none ∧ tok "Token secret" = none ∧ tok "Bearersecret" = none ∧
    tok "Bearer secr\u00e9t" = none ∧
    IsToken "secret".toList ∧
    ([NearMiss.pre 1, .pre 5, .ext ['2'], .ext " and then some".toList, .chg 0 'X', .chg 5 'z',
      .swapCase, .empty].all fun v => v.applies "secret".toList && !v.same) = true ∧
    ([NearMiss.pad [' ', ' '] [], .pad [] [' '], .pad ['\t'] ['\t', ' '], .ext [' ', ' ']].all fun v =>
      v.applies "secret".toList && v.same) = true := by
  refine ⟨by decide, by decide, by decide, by decide, by decide, by decide, by decide, by decide,
    by decide, by decide, by decide, by decide, by decide, by decide, by decide, by decide, ?_,
    by decide, by decide⟩
  refine ⟨by decide, ?_, ?_, by decide⟩ <;> intro c hc <;> simp at hc <;> subst hc <;> decide

/-- Configuration files: (a) without `[auth_roles]` and `[unix_users]` the daemon starts, `root` on
the socket is the built-in admin; (b) an own section that shadows `readonly` with fewer permissions:
the user of that role gets the *configured* one; (c) an own section without `admin`: with the
default `unix_users` (`root = "admin"`) the daemon refuses to start; with `unix_users` overridden it
starts, and the left-over user with `role = "admin"` cannot log in – and there is no role `admin`. -/
example :
    let thin : Role := Role.simple [.Login, .CaList]
    let users := [("ro", (⟨.term ⟨"pw", "ro", 1⟩, 1, "readonly"⟩ : UserEntry)),
                  ("old", ⟨.term ⟨"pw", "old", 2⟩, 2, "admin"⟩)]
    let a : ConfigFile := ⟨.configFile, "secret", some users, none, none, 7, false⟩
    let b : ConfigFile := { a with authRoles := some [("readonly", thin), ("operator", exRole)],
                                   unixUsers := some [("root", "operator")] }
    let c : ConfigFile := { a with authRoles := some [("operator", exRole), ("readonly", thin)] }
    let c' : ConfigFile := { c with unixUsers := some [] }
    startOk a = true ∧
    (authenticate a.effective {} .absent (.unix "root")).1 = .ok "root" Role.admin ∧
    (loginConfigFile id a.effective {} (some ("old", "pw"))).1 =
      .ok "old" "admin" (.sealed true 7 0 (.session "old" "admin")) ∧
    startOk b = true ∧
    (authenticate b.effective {} (.bearer (.sealed true 7 0 (.session "ro" "readonly"))) .tcp).1 =
      .ok "ro" thin ∧
    startOk c = false ∧ startOk c' = true ∧
    (loginConfigFile id c'.effective {} (some ("old", "pw"))).1 = .invalid ∧
    c'.effective.roles.lookup "admin" = none ∧
    startOk { a with authUsers := none } = false ∧
    startOk { a with authUsers := none, authType := .adminToken } = true := by
  decide

end KM.Props.C20
