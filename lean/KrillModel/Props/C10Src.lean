/-
C10 (source tie) — the hand-written model of `CurrentObjects::verify_delta_applies`
(`KM.Pubd.verifyDelta`, Pubd/Content.lean) equals the definition that the translator `pure_fns`
regenerates from `/repo/src/server/pubd/rrdp.rs` on every run (`Generated/PureFnsC10.lean`,
`KM.Gen.C10.CurrentObjects.verify_delta_applies` with its three loops `.loop`, `.loop2`, `.loop3`).

`publish_iff`, `publish_atomic`, `isolation` (Props/C10.lean) are about `verifyDelta`: a request is
accepted iff every published URI is inside the publisher's jail and new, every updated or
withdrawn URI is inside the jail and present with the stated hash; publishes are judged first, then
updates, then withdraws, and the first error wins.  With `gen_verify_delta_applies_eq_model` those
tests are tied to the Rust statements loop by loop: a dropped jail test in one of the three loops,
a dropped presence or hash test, `contains` replaced by `contains_key` for withdraws, the loops
re-ordered, an error that no longer ends the function – each such edit changes the generated
definition and this file stops checking.

Instantiation: the abstract element type ↦ the model's `Elem`; `jail.is_parent_of(&x.uri)` ↦
`inJail jail x.uri`; `self.0.contains_key(&CurrentObjectUri::from(&x.uri))` ↦ the model's look-up
under the canonical key; `self.contains(x.hash, &x.uri)` ↦ "the object under the canonical key has
that hash" (`CurrentObjects::contains`, rrdp.rs:1379-1384); the three lists ↦ the publishes, updates
and withdraws of the request in protocol order (`Delta.ordered`).
-/
import KrillModel.Generated.PureFnsC10
import KrillModel.Pubd.Content
namespace KM.Props.C10Src
open KM.Pubd

/-- `self.0.contains_key(&CurrentObjectUri::from(&x.uri))` -/
def present (objs : Objs) (e : Elem) : Bool := (objs.get? (key e.uri)).isSome

/-- `self.contains(x.hash, &x.uri)`; a publish element has no hash (the code never asks). -/
def matchesHash (objs : Objs) : Elem → Bool
  | .publish _ _ => false
  | .update u h _ => (objs.get? (key u)).map Content.hash == some h
  | .withdraw u h => (objs.get? (key u)).map Content.hash == some h

/-- `Result<(), PublicationDeltaError>` of the code ↦ the model's `Option DeltaErr`. -/
def toExcept : Option DeltaErr → Except DeltaErr Unit
  | none => .ok ()
  | some e => .error e

/-! ### the three loops over abstract elements -/
section generic
variable {E ε : Type} (ij pr mh : E → Bool) (eo ep en : E → ε) (ps us ws : List E)

/-- One round of the first loop. -/
def chkP (e : E) : Option ε := if !ij e then some (eo e) else if pr e then some (ep e) else none
/-- One round of the second and of the third loop. -/
def chkU (e : E) : Option ε := if !ij e then some (eo e) else if !mh e then some (en e) else none

def toExceptG : Option ε → Except ε Unit
  | none => .ok ()
  | some e => .error e

theorem loop3_gen (l : List E) :
    KM.Gen.C10.CurrentObjects.verify_delta_applies.loop3 ij pr mh eo ep en ps us ws l
      = toExceptG (l.findSome? (chkU ij mh eo en)) := by
  induction l with
  | nil => rfl
  | cons e t ih =>
    unfold KM.Gen.C10.CurrentObjects.verify_delta_applies.loop3
    simp only [List.findSome?_cons, chkU]
    cases ij e <;> cases mh e <;> simp [toExceptG, ih]

theorem loop2_gen (l : List E) :
    KM.Gen.C10.CurrentObjects.verify_delta_applies.loop2 ij pr mh eo ep en ps us ws l
      = toExceptG ((l ++ ws).findSome? (chkU ij mh eo en)) := by
  induction l with
  | nil =>
    unfold KM.Gen.C10.CurrentObjects.verify_delta_applies.loop2
      KM.Gen.C10.CurrentObjects.verify_delta_applies.after2
    exact loop3_gen ij pr mh eo ep en ps us ws ws
  | cons e t ih =>
    unfold KM.Gen.C10.CurrentObjects.verify_delta_applies.loop2
    simp only [List.cons_append, List.findSome?_cons, chkU]
    cases ij e <;> cases mh e <;> simp [toExceptG, ih]

theorem loop_gen (l : List E) :
    KM.Gen.C10.CurrentObjects.verify_delta_applies.loop ij pr mh eo ep en ps us ws l
      = toExceptG ((l.findSome? (chkP ij pr eo ep)).or ((us ++ ws).findSome? (chkU ij mh eo en))) := by
  induction l with
  | nil =>
    unfold KM.Gen.C10.CurrentObjects.verify_delta_applies.loop
      KM.Gen.C10.CurrentObjects.verify_delta_applies.after
    simpa using loop2_gen ij pr mh eo ep en ps us ws us
  | cons e t ih =>
    unfold KM.Gen.C10.CurrentObjects.verify_delta_applies.loop
    simp only [List.findSome?_cons, chkP]
    cases ij e <;> cases pr e <;> simp [toExceptG, ih]

end generic

/-- On publish elements the model's step is the first loop's round … -/
theorem checkElem_publish (objs : Objs) (jail : Uri) (e : Elem) (h : e.isPublish = true) :
    checkElem objs jail e =
      chkP (fun e => inJail jail e.uri) (present objs) (fun e => DeltaErr.outside e.uri)
        (fun e => DeltaErr.present e.uri) e := by
  cases e <;> simp [Elem.isPublish] at h
  rfl

/-- … on update and withdraw elements the round of the second / third loop. -/
theorem checkElem_other (objs : Objs) (jail : Uri) (e : Elem) (h : e.isPublish = false) :
    checkElem objs jail e =
      chkU (fun e => inJail jail e.uri) (matchesHash objs) (fun e => DeltaErr.outside e.uri)
        (fun e => DeltaErr.noMatch e.uri) e := by
  cases e <;> simp [Elem.isPublish] at h <;> rfl

theorem findSome_congr {α β} (f g : α → Option β) (l : List α) (h : ∀ x ∈ l, f x = g x) :
    l.findSome? f = l.findSome? g := by
  induction l with
  | nil => rfl
  | cons a t ih =>
    simp only [List.findSome?_cons, h a List.mem_cons_self]
    rw [ih (fun x hx => h x (List.mem_cons_of_mem _ hx))]

/-- The model's `findSome?` over the ordered request, split like the code's loops. -/
theorem model_split (objs : Objs) (jail : Uri) (d : Delta) :
    verifyDelta objs jail d =
      ((d.filter Elem.isPublish).findSome? (chkP (fun e => inJail jail e.uri) (present objs)
          (fun e => DeltaErr.outside e.uri) (fun e => DeltaErr.present e.uri))).or
        ((d.filter Elem.isUpdate ++ d.filter Elem.isWithdraw).findSome?
          (chkU (fun e => inJail jail e.uri) (matchesHash objs) (fun e => DeltaErr.outside e.uri)
            (fun e => DeltaErr.noMatch e.uri))) := by
  have hp : ∀ e ∈ d.filter Elem.isPublish, e.isPublish = true := fun e he => (List.mem_filter.mp he).2
  have hu : ∀ e ∈ d.filter Elem.isUpdate ++ d.filter Elem.isWithdraw, e.isPublish = false := by
    intro e he
    rcases List.mem_append.mp he with h | h <;> have := (List.mem_filter.mp h).2 <;>
      cases e <;> simp_all [Elem.isPublish, Elem.isUpdate, Elem.isWithdraw]
  unfold verifyDelta Delta.ordered
  rw [List.append_assoc, List.findSome?_append]
  rw [findSome_congr (checkElem objs jail) _ (d.filter Elem.isPublish)
        (fun e he => checkElem_publish objs jail e (hp e he)),
      findSome_congr (checkElem objs jail) _ (d.filter Elem.isUpdate ++ d.filter Elem.isWithdraw)
        (fun e he => checkElem_other objs jail e (hu e he))]

/-- `CurrentObjects::verify_delta_applies` as translated from the source = the model the C10 theorems
are about, for every current object set, jail and request. -/
theorem gen_verify_delta_applies_eq_model (objs : Objs) (jail : Uri) (d : Delta) :
    KM.Gen.C10.CurrentObjects.verify_delta_applies (E := Elem) (ε := DeltaErr)
      (fun e => inJail jail e.uri) (present objs) (matchesHash objs)
      (fun e => .outside e.uri) (fun e => .present e.uri) (fun e => .noMatch e.uri)
      (d.filter Elem.isPublish) (d.filter Elem.isUpdate) (d.filter Elem.isWithdraw)
      = toExcept (verifyDelta objs jail d) := by
  unfold KM.Gen.C10.CurrentObjects.verify_delta_applies
  rw [loop_gen, model_split]
  generalize List.findSome? _ (d.filter Elem.isPublish) = a
  generalize List.findSome? _ (d.filter Elem.isUpdate ++ d.filter Elem.isWithdraw) = b
  cases a <;> cases b <;> rfl

/-! non-vacuity on the generated body itself: an accepted update; an update whose hash does not
match; a publish outside the jail is reported although a withdraw listed BEFORE it is bad too
(publishes are judged first) -/
def jailCa : Uri := ⟨rsyncLower, ⟨"h", 0⟩, ⟨"m", 0⟩, ["ca"], true⟩
def uX : Uri := ⟨rsyncLower, ⟨"h", 0⟩, ⟨"m", 0⟩, ["ca", "x.cer"], false⟩
def uOut : Uri := ⟨rsyncLower, ⟨"h", 0⟩, ⟨"m", 0⟩, ["cb", "y.cer"], false⟩
def objs0 : Objs := [(key uX, ⟨1, 10⟩)]
def genOn (d : Delta) : Except DeltaErr Unit :=
  KM.Gen.C10.CurrentObjects.verify_delta_applies (E := Elem) (ε := DeltaErr)
    (fun e => inJail jailCa e.uri) (present objs0) (matchesHash objs0)
    (fun e => .outside e.uri) (fun e => .present e.uri) (fun e => .noMatch e.uri)
    (d.filter Elem.isPublish) (d.filter Elem.isUpdate) (d.filter Elem.isWithdraw)
def errOf : Except DeltaErr Unit → Option DeltaErr
  | .ok _ => none
  | .error e => some e
example : errOf (genOn [.update uX 1 ⟨2, 10⟩]) = none := by decide
example : errOf (genOn [.update uX 7 ⟨2, 10⟩]) = some (.noMatch uX) := by decide
example : errOf (genOn [.withdraw uX 7, .publish uOut ⟨3, 10⟩]) = some (.outside uOut) := by decide
example : errOf (genOn [.publish uX ⟨3, 10⟩]) = some (.present uX) := by decide

/-! ## `CurrentObjects::apply_delta`

The three loops of `apply_delta` (publishes and updates insert the element's content under the canonical
key of its URI, withdraws remove that key) are regenerated as `KM.Gen.C10.CurrentObjects.apply_delta`.
`publish_atomic`, `staging_refines`, `rrdp_update_preserves` (Props/C10.lean) are about the model's
`applyDelta`; with the theorem below an edit of an arm (an update that removes, a withdraw that is
skipped, another order of the three loops) changes the generated definition and this file stops
checking. -/

/-- What an element puts under its key (never evaluated for a withdraw). -/
def contentOf : Elem → Content
  | .publish _ c => c
  | .update _ _ c => c
  | .withdraw _ _ => ⟨0, 0⟩

def insEl (o : Objs) (e : Elem) : Objs := o.insert (key e.uri) (contentOf e)
def remEl (o : Objs) (e : Elem) : Objs := o.erase (key e.uri)

theorem ad_loop3 (l : List Elem) (hl : ∀ e ∈ l, e.isWithdraw = true) :
    ∀ (o0 o : Objs) (ps us ws : List Elem),
    KM.Gen.C10.CurrentObjects.apply_delta.loop3 insEl remEl o0 ps us ws o l = l.foldl applyElem o := by
  induction l with
  | nil => intro o0 o ps us ws; simp [KM.Gen.C10.CurrentObjects.apply_delta.loop3, KM.Gen.C10.CurrentObjects.apply_delta.after3]
  | cons e tl ih =>
      intro o0 o ps us ws
      have he := hl e (by simp)
      have htl : ∀ x ∈ tl, x.isWithdraw = true := fun x hx => hl x (by simp [hx])
      cases e <;> simp [Elem.isWithdraw] at he
      simp [KM.Gen.C10.CurrentObjects.apply_delta.loop3, ih htl, remEl, applyElem, Elem.uri]

theorem ad_loop2 (l : List Elem) (hl : ∀ e ∈ l, e.isUpdate = true) (ws : List Elem)
    (hw : ∀ e ∈ ws, e.isWithdraw = true) :
    ∀ (o0 o : Objs) (ps us : List Elem),
    KM.Gen.C10.CurrentObjects.apply_delta.loop2 insEl remEl o0 ps us ws o l =
      ws.foldl applyElem (l.foldl applyElem o) := by
  induction l with
  | nil =>
      intro o0 o ps us
      simp [KM.Gen.C10.CurrentObjects.apply_delta.loop2, KM.Gen.C10.CurrentObjects.apply_delta.after2, ad_loop3 ws hw]
  | cons e tl ih =>
      intro o0 o ps us
      have he := hl e (by simp)
      have htl : ∀ x ∈ tl, x.isUpdate = true := fun x hx => hl x (by simp [hx])
      cases e <;> simp [Elem.isUpdate] at he
      simp [KM.Gen.C10.CurrentObjects.apply_delta.loop2, ih htl, insEl, contentOf, applyElem, Elem.uri]

theorem ad_loop (l : List Elem) (hl : ∀ e ∈ l, e.isPublish = true) (us ws : List Elem)
    (hu : ∀ e ∈ us, e.isUpdate = true) (hw : ∀ e ∈ ws, e.isWithdraw = true) :
    ∀ (o0 o : Objs) (ps : List Elem),
    KM.Gen.C10.CurrentObjects.apply_delta.loop insEl remEl o0 ps us ws o l =
      ws.foldl applyElem (us.foldl applyElem (l.foldl applyElem o)) := by
  induction l with
  | nil =>
      intro o0 o ps
      simp [KM.Gen.C10.CurrentObjects.apply_delta.loop, KM.Gen.C10.CurrentObjects.apply_delta.after, ad_loop2 us hu ws hw]
  | cons e tl ih =>
      intro o0 o ps
      have he := hl e (by simp)
      have htl : ∀ x ∈ tl, x.isPublish = true := fun x hx => hl x (by simp [hx])
      cases e <;> simp [Elem.isPublish] at he
      simp [KM.Gen.C10.CurrentObjects.apply_delta.loop, ih htl, insEl, contentOf, applyElem, Elem.uri]

/-- `CurrentObjects::apply_delta`: generated definition = model, for every object map and every delta. -/
theorem gen_apply_delta_eq_model (objs : Objs) (d : Delta) :
    KM.Gen.C10.CurrentObjects.apply_delta insEl remEl objs
        (d.filter Elem.isPublish) (d.filter Elem.isUpdate) (d.filter Elem.isWithdraw) =
      applyDelta objs d := by
  unfold KM.Gen.C10.CurrentObjects.apply_delta
  rw [ad_loop _ (fun e he => (List.mem_filter.mp he).2) _ _
        (fun e he => (List.mem_filter.mp he).2) (fun e he => (List.mem_filter.mp he).2)]
  simp [applyDelta, Delta.ordered, List.foldl_append]

end KM.Props.C10Src
