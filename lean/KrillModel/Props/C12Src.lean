/-
C12 (source tie) — the hand-written model of the RFC 6492 entry point (`KM.Proto.rfc6492`,
Proto/Cms.lean) equals what the translator `pure_fns` regenerates on every run from the two Rust
functions that make the decision "for whom, under which key":

* `CaManager::rfc6492` (`/repo/src/server/ca/manager.rs`): the TA takes no remote requests; the CA is
  the one NAMED IN THE REQUEST URI; the message is validated against THAT CA's child table; it is
  processed for THAT CA; the reply is signed with THAT CA's identity key;
* `CertAuth::verify_rfc6492` (`/repo/src/server/ca/certauth.rs`): the child is looked up under the
  sender handle inside the message, the CMS signature is checked against the identity key
  registered for that child, and only then is the content handed on.

`acts_only_for_registered_key`, `refused_no_change`, `reply_signed_by_current_id` (Props/C12.lean) are
about `rfc6492`.  With `gen_rfc6492_eq_model` the order and the operands of these steps are tied to
the Rust statements: processing for the CA named as *recipient* instead of the addressed one (the
round-4 seeded change), validating against another CA's child table, skipping `validate`, handing the
message on before the check, signing with another key – each such edit changes a generated
definition and this file stops checking.

Instantiation.  Errors carry the state the model returns with a refusal (`ε = Ca × Refusal`);
`get_ca` is the addressed CA (an unknown CA is refused before); `validate ca` is decoding followed by
the GENERATED `verify_rfc6492` over this CA's child table; `process` is the model's `processRequest`
for the child record of the sender; `sign` puts the addressed CA's identity key on the reply; the CMS
logger never fails.
-/
import KrillModel.Generated.PureFnsC12
import KrillModel.Proto.Cms
namespace KM.Props.C12Src
open KM.Proto

abbrev Err := Ca × Refusal

section
variable {Bytes : Type} (decode : Bytes → Option (Signed Msg)) (ca : Ca) (bytes : Bytes)

/-- `rfc6492_validate_request`: decode, then the generated `verify_rfc6492`. -/
def genValidate (ca' : Ca) : Except Err (Signed Msg) :=
  match decode bytes with
  | none => .error (ca', .undecodable)
  | some sg =>
    KM.Gen.C12.CertAuth.verify_rfc6492 (H := Handle) (C := ChildRec) (M := Signed Msg) (ε := Err)
      sg.body.sender
      (fun h => match lookup ca'.children h with
        | some c => .ok c
        | none => .error (ca', .unknownSender))
      (fun c => if sg.signer == c.idKey && sg.fresh then .ok () else .error (ca', .badSignature))
      sg id

/-- `rfc6492_process_request` for the CA with that handle: the model's `processRequest`, the reply
addressed to the sender in the name of that CA. -/
def genProcess (h : Handle) (sg : Signed Msg) : Except Err (Ca × Msg) :=
  match lookup ca.children sg.body.sender with
  | none => .error (ca, .unknownSender)
  | some c =>
    match processRequest ca sg.body.sender c sg.body.payload with
    | (ca2, none) => .error (ca2, .processing)
    | (ca2, some p) => .ok (ca2, { sender := h, recipient := sg.body.sender, payload := p })

/-- The generated entry point with the model plugged in. -/
def genRfc6492 : Except Err (Ca × Signed Msg) :=
  KM.Gen.C12.CaManager.rfc6492 (H := Handle) (CA := Ca) (Q := Signed Msg) (M := Ca × Msg) (B := Ca × Signed Msg)
    (ε := Err)
    ca.handle "ta" (ca, .taNotRemote) (fun _ => .ok ca) (genValidate decode bytes)
    (genProcess ca) (fun m => m.2.payload matches .listResponse _)
    (fun ca' m => .ok (m.1, { signer := ca'.idKey, body := m.2 }))
    (.ok ()) (fun _ => .ok ()) (fun _ => .ok ())

/-- The model's answer in the same form. -/
def modelRfc6492 : Except Err (Ca × Signed Msg) :=
  match rfc6492 decode ca bytes with
  | (ca', .refused k) => .error (ca', k)
  | (ca', .replied m) => .ok (ca', m)

/-- `CaManager::rfc6492` + `CertAuth::verify_rfc6492` as translated from the source = the model the
C12 theorems are about, for every CA state, every decoder and every byte string. -/
theorem gen_rfc6492_eq_model : genRfc6492 decode ca bytes = modelRfc6492 decode ca bytes := by
  unfold genRfc6492 modelRfc6492 KM.Gen.C12.CaManager.rfc6492 rfc6492
  by_cases hta : ca.handle = "ta"
  · simp [hta]
  · simp only [hta, if_false]
    unfold genValidate
    cases hd : decode bytes with
    | none => rfl
    | some sg =>
      simp only [KM.Gen.C12.CertAuth.verify_rfc6492]
      cases hl : lookup ca.children sg.body.sender with
      | none => rfl
      | some c =>
        cases hv : (sg.signer == c.idKey && sg.fresh)
        · simp [Except.mapError, hv]
        · simp only [Except.mapError, hv, if_true]
          unfold genProcess
          simp only [hl]
          cases hp : processRequest ca sg.body.sender c sg.body.payload with
          | mk ca2 o =>
            cases o with
            | none => rfl
            | some p =>
              simp only []
              cases hlist : (({ sender := ca.handle, recipient := sg.body.sender, payload := p } : Msg).payload matches .listResponse _) <;> simp

end
end KM.Props.C12Src
