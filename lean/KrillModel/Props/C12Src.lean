/-
C12 (source tie) — the hand-written model of the RFC 6492 entry point (`KM.Proto.rfc6492`,
Proto/Cms.lean) equals what the translator `pure_fns` regenerates on every run from the two Rust
functions that make the decision "for whom, under which key":

* `CaManager::rfc6492` (`/repo/src/server/ca/manager.rs`): the TA takes no remote requests; the CA is
  the one NAMED IN THE REQUEST URI; the message is validated against THAT CA's child table; it is
  processed for THAT CA; the reply is signed with THAT CA's identity key;
* `CertAuth::verify_rfc6492` (`/repo/src/server/ca/certauth.rs`): the child is looked up under the
  sender handle inside the message, the CMS signature is checked against the identity key
  registered for that child, and only then is the content handed on.

`acts_only_for_registered_key`, `refused_no_change`, `reply_signed_by_current_id` (Props/C12.lean) are
about `rfc6492`.  With `gen_rfc6492_eq_model` the order and the operands of these steps are tied to
the Rust statements: processing for the CA named as *recipient* instead of the addressed one (the
round-4 seeded change), validating against another CA's child table, skipping `validate`, handing the
message on before the check, signing with another key – each such edit changes a generated
definition and this file stops checking.

Instantiation.  Errors carry the state the model returns with a refusal (`ε = Ca × Refusal`);
`get_ca` is the addressed CA (an unknown CA is refused before); `validate ca` is decoding followed by
the GENERATED `verify_rfc6492` over this CA's child table; `process` is the model's `processRequest`
for the child record of the sender; `sign` puts the addressed CA's identity key on the reply; the CMS
logger never fails.
-/
import KrillModel.Generated.PureFnsC12
import KrillModel.Proto.Cms
namespace KM.Props.C12Src
open KM.Proto

abbrev Err := Ca × Refusal

section
variable {Bytes : Type} (decode : Bytes → Option (Signed Msg)) (ca : Ca) (bytes : Bytes)

/-- `rfc6492_validate_request`: decode, then the generated `verify_rfc6492`. -/
def genValidate (ca' : Ca) : Except Err (Signed Msg) :=
  match decode bytes with
  | none => .error (ca', .undecodable)
  | some sg =>
    KM.Gen.C12.CertAuth.verify_rfc6492 (H := Handle) (C := ChildRec) (M := Signed Msg) (ε := Err)
      sg.body.sender
      (fun h => match lookup ca'.children h with
        | some c => .ok c
        | none => .error (ca', .unknownSender))
      (fun c => if sg.signer == c.idKey && sg.fresh then .ok () else .error (ca', .badSignature))
      sg id

/-- `rfc6492_process_request` for the CA with that handle: the model's `processRequest`, the reply
addressed to the sender in the name of that CA. -/
def genProcess (h : Handle) (sg : Signed Msg) : Except Err (Ca × Msg) :=
  match lookup ca.children sg.body.sender with
  | none => .error (ca, .unknownSender)
  | some c =>
    match processRequest ca sg.body.sender c sg.body.payload with
    | (ca2, none) => .error (ca2, .processing)
    | (ca2, some p) => .ok (ca2, { sender := h, recipient := sg.body.sender, payload := p })

/-- The generated entry point with the model plugged in. -/
def genRfc6492 : Except Err (Ca × Signed Msg) :=
  KM.Gen.C12.CaManager.rfc6492 (H := Handle) (CA := Ca) (Q := Signed Msg) (M := Ca × Msg) (B := Ca × Signed Msg)
    (ε := Err)
    ca.handle "ta" (ca, .taNotRemote) (fun _ => .ok ca) (genValidate decode bytes)
    (genProcess ca) (fun m => m.2.payload matches .listResponse _)
    (fun ca' m => .ok (m.1, { signer := ca'.idKey, body := m.2 }))
    (.ok ()) (fun _ => .ok ()) (fun _ => .ok ())

/-- The model's answer in the same form. -/
def modelRfc6492 : Except Err (Ca × Signed Msg) :=
  match rfc6492 decode ca bytes with
  | (ca', .refused k) => .error (ca', k)
  | (ca', .replied m) => .ok (ca', m)

/-- `CaManager::rfc6492` + `CertAuth::verify_rfc6492` as translated from the source = the model the
C12 theorems are about, for every CA state, every decoder and every byte string. -/
theorem gen_rfc6492_eq_model : genRfc6492 decode ca bytes = modelRfc6492 decode ca bytes := by
  unfold genRfc6492 modelRfc6492 KM.Gen.C12.CaManager.rfc6492 rfc6492
  by_cases hta : ca.handle = "ta"
  · simp [hta]
  · simp only [hta, if_false]
    unfold genValidate
    cases hd : decode bytes with
    | none => rfl
    | some sg =>
      simp only [KM.Gen.C12.CertAuth.verify_rfc6492]
      cases hl : lookup ca.children sg.body.sender with
      | none => rfl
      | some c =>
        cases hv : (sg.signer == c.idKey && sg.fresh)
        · simp [Except.mapError, hv]
        · simp only [Except.mapError, hv, if_true]
          unfold genProcess
          simp only [hl]
          cases hp : processRequest ca sg.body.sender c sg.body.payload with
          | mk ca2 o =>
            cases o with
            | none => rfl
            | some p =>
              simp only []
              cases hlist : (({ sender := ca.handle, recipient := sg.body.sender, payload := p } : Msg).payload matches .listResponse _) <;> simp

end
/-! ## `RepositoryManager::rfc8181` (the publication twin)

The generated entry point (`KM.Gen.C12.RepositoryManager.rfc8181`: validate for the publisher NAMED IN THE URL, take the
query, process it for THAT publisher, turn a processing error into an error REPLY, sign, log) with the model's parts
plugged in is the model's `rfc8181` the 8181 twins of the C12 theorems are about (`acts_only_for_registered_key_8181`,
`refused_no_change_8181`, `reply_signed_by_current_id_8181`).  An edit of the entry point - the query processed for another
publisher than the validated one, a failed validation that goes on, an error returned instead of replied, the reply signed
before the error is mapped - changes the generated definition and the equality stops checking. -/

section
variable {Bytes : Type} (decode : Bytes → Option (Signed PMsg)) (srv : Server) (publisher : Handle) (bytes : Bytes)

/-- errors: the server state, the kind of refusal and (for a processing error that becomes an error reply) its code -/
abbrev Err8 := Server × Refusal × String

/-- `RepositoryAccessProxy::decode_and_validate` for the publisher of the URL. -/
def genValidate8 (h : Handle) : Except Err8 (Signed PMsg) :=
  match lookup srv.publishers h with
  | none => .error (srv, .unknownSender, "")
  | some p =>
    match decode bytes with
    | none => .error (srv, .undecodable, "")
    | some sg => if sg.signer == p.idKey && sg.fresh then .ok sg else .error (srv, .badSignature, "")

def genAsQuery (m : Server × PMsg) : Except Err8 PMsg :=
  match m.2 with
  | .listQuery => .ok .listQuery
  | .delta els => .ok (.delta els)
  | _ => .error (srv, .processing, "")

/-- `rfc8181_message`: list / publish for the publisher with that handle. -/
def genProcess8 (h : Handle) (q : PMsg) : Except Err8 (Server × PMsg) :=
  match lookup srv.publishers h with
  | none => .error (srv, .unknownSender, "")
  | some p =>
    match q with
    | .listQuery => .ok (srv, .listReply p.files)
    | .delta els =>
      match els.findSome? (elemError p) with
      | some code => .error (srv, .processing, code)
      | none =>
        .ok ({ srv with publishers := update srv.publishers h (fun _ => { p with files := els.foldl applyElem p.files }) }, .success)
    | _ => .error (srv, .processing, "")

/-- The generated entry point with the model plugged in. -/
def genRfc8181 : Except Err8 (Server × Signed PMsg) :=
  KM.Gen.C12.RepositoryManager.rfc8181 (H := Handle) (CMS := Signed PMsg) (MSG := Server × PMsg) (Q := PMsg)
    (B := Server × Signed PMsg) (ε := Err8)
    publisher (genValidate8 decode srv bytes) (fun sg => (srv, sg.body)) (genAsQuery srv)
    (fun q => q == .listQuery) (genProcess8 srv) (fun e => (e.1, .errorReply e.2.2))
    (fun m => .ok (m.1, { signer := srv.idKey, body := m.2 })) id (.ok ()) (fun _ => .ok ())

/-- The model's answer in the same form. -/
def modelRfc8181 : Except Err8 (Server × Signed PMsg) :=
  match rfc8181 decode srv publisher bytes with
  | (s, .refused k) => .error (s, k, "")
  | (s, .replied m) => .ok (s, m)

/-- `RepositoryManager::rfc8181` as translated from the source = the model, for every server state, decoder, publisher
handle and byte string. -/
theorem gen_rfc8181_eq_model : genRfc8181 decode srv publisher bytes = modelRfc8181 decode srv publisher bytes := by
  unfold genRfc8181 modelRfc8181 KM.Gen.C12.RepositoryManager.rfc8181 rfc8181 genValidate8
  cases hl : lookup srv.publishers publisher with
  | none => simp [Except.mapError]
  | some p =>
    cases hd : decode bytes with
    | none => simp [Except.mapError]
    | some sg =>
      cases hv : (sg.signer == p.idKey && sg.fresh)
      · simp [Except.mapError, hv]
      · simp only [Except.mapError, hv, if_true, id]
        cases hb : sg.body with
        | listQuery => simp [genAsQuery, genProcess8, hl]
        | delta els =>
          simp only [genAsQuery, genProcess8, hl]
          cases hf : els.findSome? (elemError p) with
          | some code => simp
          | none => simp
        | listReply f => simp [genAsQuery]
        | success => simp [genAsQuery]
        | errorReply c => simp [genAsQuery]

end
end KM.Props.C12Src
