/-
C02 — Delegation follows entitlements, never over-claims, converges and is idempotent.
Property theorems only; helper lemmas live in `KrillModel/Ca/Lemmas*.lean`.
-/
import KrillModel.Ca.Preds
import KrillModel.Ca.LemmasNoOver
namespace KM.Props.C02
open KM KM.CaK KM.Res KM.AMap

/-! ## Issued certificates are exactly limit(issuer ∩ entitlement) -/

/-- `issue_cert`: the certificate carries the issuer's current resources intersected with the
child's entitlement, narrowed to the limit if one was requested, and lies inside the issuer's
certificate. -/
theorem issued_exact (ks : KeyState) (childRes : ResSet) (l : Limit) (na : Int) (cc : ChildCert)
    (h : issueCert ks childRes l na = .ok cc) :
    ∃ c, ks.current = some c ∧
      cc.res = (match l with | none => inter c.cert.res childRes | some lim => lim) ∧
      subset cc.res (inter c.cert.res childRes) = true ∧
      subset cc.res c.cert.res = true ∧ subset cc.res childRes = true := by
  unfold issueCert at h
  cases hc : ks.current with
  | none => rw [hc] at h; cases h
  | some c =>
    rw [hc] at h
    refine ⟨c, rfl, ?_⟩
    simp only [makeIssued] at h
    cases l with
    | none =>
      simp only [applyLimit] at h
      split at h
      · cases h
        exact ⟨rfl, subset_refl _, inter_subset_left _ _, inter_subset_right _ _⟩
      · cases h
    | some lim =>
      simp only [applyLimit] at h
      by_cases hl : subset lim (inter c.cert.res childRes) = true
      · simp only [hl, if_true] at h
        split at h
        · cases h
          exact ⟨rfl, hl, subset_trans hl (inter_subset_left _ _), subset_trans hl (inter_subset_right _ _)⟩
        · cases h
      · simp only [hl] at h
        cases h

/-- Non-vacuity: a partial overlap with and without a limit. -/
example :
    issueCert (.active ⟨1, { res := [1, 2, 3] }, false⟩) [2, 3, 4] none 0 = .ok { res := [2, 3] } ∧
    issueCert (.active ⟨1, { res := [1, 2, 3] }, false⟩) [2, 3, 4] (some [3]) 0 =
      .ok { res := [3], limit := some [3] } := by decide

/-! ## No issued certificate ever exceeds the issuing key's certificate -/

/-- Invariant over all histories (any commands, any inputs, any interleaving of entitlement
changes, key rolls, suspension, unsuspension, revocation): in every reachable state every child
certificate in `issued` of a class has resources inside the certificate of the class's current
key – the key that issued it and publishes it. -/
theorem never_overclaims {s : Sys} (h : Reachable s) : s.ca.noOverclaim = true := by
  have hno := reachable_noOver h
  simp only [Ca.noOverclaim, List.all_eq_true]
  intro r _
  cases hg : get s.ca.classes r with
  | none => rfl
  | some rc =>
    have := hno r rc hg
    simp only [Rc.noOverclaim]
    unfold NoOver at this
    cases hc : rc.keys.current with
    | none =>
      rw [hc] at this
      simp only [List.isEmpty_iff]
      cases hi : rc.certs.issued with
      | nil => rfl
      | cons p t =>
        have h1 := this p.1
        rw [hi] at h1
        obtain ⟨k, v⟩ := p
        simp [get_cons] at h1
    | some c =>
      rw [hc] at this
      simp only [List.all_eq_true]
      intro k _
      cases hk : get rc.certs.issued k with
      | none => rfl
      | some cc => exact this k cc hk

/-- In particular a received certificate with fewer resources: the **same command** that stores
`CertificateReceived` carries the `ChildCertificatesUpdated` that re-issues the over-claiming
child certificates with the intersection or removes them – the state after the command, which
is what gets published, has no over-claiming certificate. -/
theorem shrink_in_same_command {s : Sys} (h : Reachable s) (rcn : Rcn) (ki : KeyId) (cert : Cert)
    (na : Int) (prods : List ProdUpd) :
    (s.next (.updateRcvdCert rcn ki cert na prods)).ca.noOverclaim = true :=
  never_overclaims (Reachable.step _ h)

/-- The same for key activation: after the command that stores `KeyRollActivated` every issued
certificate lies inside the **new** key's certificate. -/
theorem activation_keeps_containment {s : Sys} (h : Reachable s) (na : Int) :
    (s.next (.keyrollActivate na)).ca.noOverclaim = true :=
  never_overclaims (Reachable.step _ h)

/-- Non-vacuity: a shrink that re-issues one child certificate and removes another, in the
command that receives the smaller certificate. -/
def shrinkHistory : List Cmd :=
  [ .repoUpdate [], .addParent 9,
    .updateEntitlements 9 [⟨0, [1, 2, 3], 100, []⟩] 0 [4],
    .updateRcvdCert 0 4 { res := [1, 2, 3], na := 100 } 50 [],
    .childAdd 7 [1, 2], .childAdd 8 [3],
    .childCertify 7 0 6 none 60, .childCertify 8 0 5 none 60 ]

example :
    (match (Sys.run {} shrinkHistory).exec (.updateRcvdCert 0 4 { res := [1], na := 100 } 70 []) with
      | .stored evs s' =>
        evs == [.key 0 (.received 4 { res := [1], na := 100 }),
                .childCerts 0 { issued := [(6, { res := [1], na := 70 })], removed := [5] }] &&
        (get s'.ca.classes 0).map (·.certs.issued) == some [(6, { res := [1], na := 70 })]
      | _ => false) = true := by decide

/-! ## Active children keep their certificate – false on this tree (F-C02-1) -/

/-
Full statement (false):

  theorem shrink_active_child (h : Reachable s) : s.ca.activeChildHasCert = true

i.e. in every reachable state an active child's key that is in use in an existing class has
its certificate among the issued (= published) ones, whatever the suspension history.
`add_issued_certificate` (child.rs:200-203) leaves a `suspended` entry of the same key in place
when an unsuspended child's certificate is re-issued; the next shrink then re-issues that stale
entry as *suspended*, and `suspend_certificate` removes the active child's certificate.
-/

/-- suspend → unsuspend → the parent's certificate shrinks. -/
def staleHistory : List Cmd :=
  [ .repoUpdate [], .addParent 9,
    .updateEntitlements 9 [⟨0, [1, 2, 3], 100, []⟩] 0 [4],
    .updateRcvdCert 0 4 { res := [1, 2, 3], na := 100 } 50 [],
    .childAdd 7 [1, 2],
    .childCertify 7 0 6 none 60,
    .childSuspend 7,
    .childUnsuspend 7 10 61,
    .updateRcvdCert 0 4 { res := [1], na := 100 } 62 [] ]

/-- The negation, with the concrete witness (replayed on the implementation:
corpus/system/c02-suspend-unsuspend-shrink.ops). -/
theorem not_shrink_active_child : ¬ ∀ s : Sys, Reachable s → s.ca.activeChildHasCert = true := by
  intro hall
  have := hall (Sys.run {} staleHistory) (reachable_run .init _)
  revert this
  decide

/-- What the witness state looks like: child 7 is active, its key 6 is in use in class 0, the
class holds resource 1 which the child is entitled to, and yet nothing is issued: the
certificate sits in `suspended`. -/
example :
    let s := Sys.run {} staleHistory
    (get s.ca.children 7).map (·.active) = some true ∧
    (get s.ca.classes 0).map (·.certs.issued) = some [] ∧
    (get s.ca.classes 0).map (·.certs.suspended) = some [(6, { res := [1], na := 62 })] ∧
    (get s.objs 0).map (·.currentSet.published) = some [] := by decide

/-- Before the shrink the unsuspended child has its key in both maps (the stale entry). -/
example :
    (get (Sys.run {} (staleHistory.take 8)).ca.classes 0).map (fun rc => (rc.certs.issued, rc.certs.suspended)) =
      some ([(6, { res := [1, 2], na := 61 })], [(6, { res := [1, 2], na := 60 })]) := by decide

end KM.Props.C02
